#!/bin/bash
# usage: tools_seed.sh <mutdir> <PROP> [more props...]
# Verifies a seeded change in a fresh scratch worktree (tests pass, demo fails with / passes without)
# and runs the given property checks against the mutated worktree (VERIF_REPO), reporting detection.
mut=$1; shift
wt=/tmp/seedwt_$$
git -C /repo worktree add -q --detach $wt HEAD || exit 2
cd $wt
PYTHONDONTWRITEBYTECODE=1 /venv/bin/python $mut/demo.py $wt >/dev/null 2>&1; clean_rc=$?
git apply $mut/patch.diff || { echo "PATCH DOES NOT APPLY"; git -C /repo worktree remove --force $wt; exit 2; }
tests=$(/venv/bin/python -m pytest -q -p no:cacheprovider compare_locales 2>&1 | tail -1)
PYTHONDONTWRITEBYTECODE=1 /venv/bin/python $mut/demo.py $wt >/dev/null 2>&1; mut_rc=$?
echo "seed $mut: tests: $tests | demo clean rc=$clean_rc mutated rc=$mut_rc"
for p in "$@"; do
  out=$(cd /verif && VERIF_REPO=$wt ./check $p 2>&1)
  rc=$?
  echo "  check $p rc=$rc: $(echo "$out" | grep -E '^VIOLATION|^C[0-9]+ quick' | tr '\n' ' ' | cut -c1-300)"
done
cd /; git -C /repo worktree remove --force $wt
