#!/bin/bash
# tools_mutprep.sh <PID> [N]: prepares /tmp/wt_<PID> (scratch worktree) and /tmp/mut_prompt_<PID>.txt for a seeding agent
p=$1; n=${2:-3}
git -C /repo worktree add -q --detach /tmp/wt_$p HEAD || exit 1
/venv/bin/python - "$p" "$n" <<'PY'
import json, os, sys
pid, n = sys.argv[1], sys.argv[2]
for l in open('/verif/properties.jsonl'):
    p = json.loads(l)
    if p['id'] == pid:
        prop = f"{p['id']}: {p['title']}\n\n{p['statement']}\n\nQuantified over: {p['quantifier']['text']}\n"
        if os.environ.get("MUT_ANCHORS"):
            prop += "\nMechanisms (where the behaviour lives):\n" + "".join(
                f" - {m['name']}  [{m['where']}]\n" for m in p['anchors']['mechanism'])
            prop += "Files: " + ", ".join(p['anchors']['files']) + "\n"
            prop += "Observed at: " + "; ".join(p['anchors']['observe_at']) + "\n"
t = open(os.environ.get("MUT_TEMPLATE", "/verif/seeded/PROMPT_TEMPLATE.txt")).read()
t = t.replace('__SEEDNUM__', str(int(pid[1:]) * 7 + 60))
t = t.replace('__WT__', f'/tmp/wt_{pid}').replace('__PROP__', prop).replace('__PID__', pid).replace('__N__', n)
open(f'/tmp/mut_prompt_{pid}.txt', 'w').write(t)
print(f'/tmp/mut_prompt_{pid}.txt')
PY
