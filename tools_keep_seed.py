#!/venv/bin/python
"""tools_keep_seed.py <mutdir> <name> <caught-by text>: copy a verified seeded change into /verif/seeded/<name>/"""
import json, os, shutil, sys
mut, name, caught = sys.argv[1], sys.argv[2], sys.argv[3]
dst = os.path.join("/verif/seeded", name)
os.makedirs(dst, exist_ok=True)
for f in ("patch.diff", "demo.py"):
    shutil.copy(os.path.join(mut, f), os.path.join(dst, f))
meta = json.load(open(os.path.join(mut, "meta.json")))
meta["verified"] = ("fresh scratch worktree of /repo HEAD: patch applies, the unedited test suite passes (382 passed), "
                    "demo.py exits 1 with the change and 0 without; checks run with VERIF_REPO=<scratch worktree> "
                    "(tools_seed.sh)")
meta["caught_by"] = caught
json.dump(meta, open(os.path.join(dst, "meta.json"), "w"), indent=1)
print("kept", dst)
