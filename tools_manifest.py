#!/venv/bin/python
"""Writes MANIFEST.json from harness/props/manifest_data.py (one entry per claimed property)."""
import json
import os
import sys
sys.path.insert(0, os.path.dirname(os.path.abspath(__file__)))
from harness.props import manifest_data as md

props = [json.loads(l)["id"] for l in open("/verif/properties.jsonl")]
checks = []
for pid in props:
    d = md.CLAIMED.get(pid)
    if not d:
        continue
    checks.append({
        "property_id": pid,
        "quick_cmd": f"./check {pid} --tier quick",
        "thorough_cmd": f"./check {pid} --tier thorough",
        "evidence_file": f"/verif/evidence/{pid}.json",
        "replay_cmd_template": f"./check {pid} --replay {{path}}",
        "engine": "coq-model",
        "level_claimed": {"category": "proof", "text": d["text"], "design_ref": d["design_ref"]},
        "level_note": d["note"],
        "technique": d["technique"],
    })
na = [{"property_id": p, "reason": md.NOT_YET.get(p, "no check built yet")}
      for p in props if p not in md.CLAIMED]
m = {
    "version": 1,
    "setup_cmd": "./setup.sh",
    "hooks": {
        "guard": "COMPARE_LOCALES_VERIF",
        "enable": "export COMPARE_LOCALES_VERIF=1 (no source hooks are needed: every observation point is a public function)",
        "baseline_off_cmd": "cd /repo && /venv/bin/python -m pytest -q -p no:cacheprovider compare_locales",
        "source_commits": [],
        "add_only": True,
    },
    "engines": [{
        "name": "coq-model",
        "path": "/verif/coq",
        "serves_properties": [c["property_id"] for c in checks],
        "kind_free_text": "Coq 8.16.1 theorems over hand-written Gallina models parameterised by facts regenerated "
                          "from /repo on every run (tr/gen_facts.py); models extracted to OCaml and run against "
                          "the implementation on the same inputs (harness/); implementation-only oracles search "
                          "for replays",
    }],
    "checks": checks,
    "notes": md.NOTES,
    "not_applicable": na,
}
json.dump(m, open("/verif/MANIFEST.json", "w"), indent=1)
print("claimed", [c["property_id"] for c in checks])
