#!/bin/bash
# usage: tools_seed_batch.sh <suffix> P1 P2 ...   runs /tmp/mut_<P><suffix>_<i> (i = 1..9) against ./check P,
# one at a time (checks with different VERIF_REPO must never run concurrently: coq/Generated is shared)
suffix=$1; shift
cd /verif
for p in "$@"; do
  for i in 1 2 3 4 5 6 7 8 9; do
    d=/tmp/mut_${p}${suffix}_$i
    [ -d $d ] || continue
    ./tools_seed.sh $d $p 2>&1 | grep -v KNOWN | cut -c1-260
  done
done
echo ALLDONE
