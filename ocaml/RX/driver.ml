(* Generic model runner: reads one request per line, "<f> <sx>", where sx is a
   nested list of integers "(1 2 (3 -4))"; calls the extracted
   [Model.dispatch f sx] and prints the resulting sx on one line.
   Hand-written and trusted; no model logic lives here. *)
open Model

let rec pos_of_int n =
  if n = 1 then XH
  else if n land 1 = 0 then XO (pos_of_int (n lsr 1))
  else XI (pos_of_int (n lsr 1))

let z_of_int n =
  if n = 0 then Z0 else if n > 0 then Zpos (pos_of_int n) else Zneg (pos_of_int (-n))

let rec int_of_pos = function
  | XH -> 1
  | XO p -> 2 * int_of_pos p
  | XI p -> 2 * int_of_pos p + 1

let int_of_z = function Z0 -> 0 | Zpos p -> int_of_pos p | Zneg p -> - (int_of_pos p)

(* parser *)
let parse (s : string) (start : int) : sx * int =
  let n = String.length s in
  let rec skip i = if i < n && (s.[i] = ' ' || s.[i] = '\t') then skip (i + 1) else i in
  let rec item i =
    let i = skip i in
    if i >= n then failwith "unexpected end"
    else if s.[i] = '(' then begin
      let rec items i acc =
        let i = skip i in
        if i >= n then failwith "unclosed"
        else if s.[i] = ')' then (L (List.rev acc), i + 1)
        else let (x, j) = item i in items j (x :: acc)
      in items (i + 1) []
    end else begin
      let j = ref i in
      if !j < n && s.[!j] = '-' then incr j;
      while !j < n && s.[!j] >= '0' && s.[!j] <= '9' do incr j done;
      if !j = i then failwith ("bad char at " ^ string_of_int i);
      (A (z_of_int (int_of_string (String.sub s i (!j - i)))), !j)
    end
  in item start

let rec print buf = function
  | A z -> Buffer.add_string buf (string_of_int (int_of_z z))
  | L l ->
    Buffer.add_char buf '(';
    List.iteri (fun i x -> if i > 0 then Buffer.add_char buf ' '; print buf x) l;
    Buffer.add_char buf ')'

let () =
  let buf = Buffer.create 65536 in
  (try
     while true do
       let line = input_line stdin in
       if String.length line > 0 then begin
         let (f, i) = parse line 0 in
         let (x, _) = parse line i in
         let fz = match f with A z -> z | L _ -> failwith "function id" in
         Buffer.clear buf;
         (try print buf (dispatch fz x)
          with Stack_overflow -> Buffer.clear buf; Buffer.add_string buf "(-2)");
         Buffer.add_char buf '\n';
         print_string (Buffer.contents buf)
       end
     done
   with End_of_file -> ());
  flush stdout
