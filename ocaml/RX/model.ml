
(** val xorb : bool -> bool -> bool **)

let xorb b1 b2 =
  if b1 then if b2 then false else true else b2

(** val negb : bool -> bool **)

let negb = function
| true -> false
| false -> true

type nat =
| O
| S of nat

(** val fst : ('a1 * 'a2) -> 'a1 **)

let fst = function
| (x, _) -> x

(** val snd : ('a1 * 'a2) -> 'a2 **)

let snd = function
| (_, y) -> y

(** val length : 'a1 list -> nat **)

let rec length = function
| [] -> O
| _ :: l' -> S (length l')

(** val app : 'a1 list -> 'a1 list -> 'a1 list **)

let rec app l m0 =
  match l with
  | [] -> m0
  | a :: l1 -> a :: (app l1 m0)

type comparison =
| Eq
| Lt
| Gt

(** val add : nat -> nat -> nat **)

let rec add n0 m0 =
  match n0 with
  | O -> m0
  | S p -> S (add p m0)

(** val mul : nat -> nat -> nat **)

let rec mul n0 m0 =
  match n0 with
  | O -> O
  | S p -> add m0 (mul p m0)

(** val sub : nat -> nat -> nat **)

let rec sub n0 m0 =
  match n0 with
  | O -> n0
  | S k -> (match m0 with
            | O -> n0
            | S l -> sub k l)

type positive =
| XI of positive
| XO of positive
| XH

type n =
| N0
| Npos of positive

type z =
| Z0
| Zpos of positive
| Zneg of positive

module Nat =
 struct
  (** val eqb : nat -> nat -> bool **)

  let rec eqb n0 m0 =
    match n0 with
    | O -> (match m0 with
            | O -> true
            | S _ -> false)
    | S n' -> (match m0 with
               | O -> false
               | S m' -> eqb n' m')

  (** val leb : nat -> nat -> bool **)

  let rec leb n0 m0 =
    match n0 with
    | O -> true
    | S n' -> (match m0 with
               | O -> false
               | S m' -> leb n' m')

  (** val ltb : nat -> nat -> bool **)

  let ltb n0 m0 =
    leb (S n0) m0
 end

module Pos =
 struct
  (** val succ : positive -> positive **)

  let rec succ = function
  | XI p -> XO (succ p)
  | XO p -> XI p
  | XH -> XO XH

  (** val compare_cont : comparison -> positive -> positive -> comparison **)

  let rec compare_cont r x y =
    match x with
    | XI p ->
      (match y with
       | XI q -> compare_cont r p q
       | XO q -> compare_cont Gt p q
       | XH -> Gt)
    | XO p ->
      (match y with
       | XI q -> compare_cont Lt p q
       | XO q -> compare_cont r p q
       | XH -> Gt)
    | XH -> (match y with
             | XH -> r
             | _ -> Lt)

  (** val compare : positive -> positive -> comparison **)

  let compare =
    compare_cont Eq

  (** val eqb : positive -> positive -> bool **)

  let rec eqb p q =
    match p with
    | XI p0 -> (match q with
                | XI q0 -> eqb p0 q0
                | _ -> false)
    | XO p0 -> (match q with
                | XO q0 -> eqb p0 q0
                | _ -> false)
    | XH -> (match q with
             | XH -> true
             | _ -> false)

  (** val iter_op : ('a1 -> 'a1 -> 'a1) -> positive -> 'a1 -> 'a1 **)

  let rec iter_op op p a =
    match p with
    | XI p0 -> op a (iter_op op p0 (op a a))
    | XO p0 -> iter_op op p0 (op a a)
    | XH -> a

  (** val to_nat : positive -> nat **)

  let to_nat x =
    iter_op add x (S O)

  (** val of_succ_nat : nat -> positive **)

  let rec of_succ_nat = function
  | O -> XH
  | S x -> succ (of_succ_nat x)
 end

module N =
 struct
  (** val compare : n -> n -> comparison **)

  let compare n0 m0 =
    match n0 with
    | N0 -> (match m0 with
             | N0 -> Eq
             | Npos _ -> Lt)
    | Npos n' -> (match m0 with
                  | N0 -> Gt
                  | Npos m' -> Pos.compare n' m')

  (** val eqb : n -> n -> bool **)

  let eqb n0 m0 =
    match n0 with
    | N0 -> (match m0 with
             | N0 -> true
             | Npos _ -> false)
    | Npos p -> (match m0 with
                 | N0 -> false
                 | Npos q -> Pos.eqb p q)

  (** val leb : n -> n -> bool **)

  let leb x y =
    match compare x y with
    | Gt -> false
    | _ -> true
 end

module Z =
 struct
  (** val eqb : z -> z -> bool **)

  let eqb x y =
    match x with
    | Z0 -> (match y with
             | Z0 -> true
             | _ -> false)
    | Zpos p -> (match y with
                 | Zpos q -> Pos.eqb p q
                 | _ -> false)
    | Zneg p -> (match y with
                 | Zneg q -> Pos.eqb p q
                 | _ -> false)

  (** val to_nat : z -> nat **)

  let to_nat = function
  | Zpos p -> Pos.to_nat p
  | _ -> O

  (** val to_N : z -> n **)

  let to_N = function
  | Zpos p -> Npos p
  | _ -> N0

  (** val of_nat : nat -> z **)

  let of_nat = function
  | O -> Z0
  | S n1 -> Zpos (Pos.of_succ_nat n1)
 end

(** val nth : nat -> 'a1 list -> 'a1 -> 'a1 **)

let rec nth n0 l default =
  match n0 with
  | O -> (match l with
          | [] -> default
          | x :: _ -> x)
  | S m0 -> (match l with
             | [] -> default
             | _ :: t -> nth m0 t default)

(** val rev : 'a1 list -> 'a1 list **)

let rec rev = function
| [] -> []
| x :: l' -> app (rev l') (x :: [])

(** val map : ('a1 -> 'a2) -> 'a1 list -> 'a2 list **)

let rec map f = function
| [] -> []
| a :: t -> (f a) :: (map f t)

(** val existsb : ('a1 -> bool) -> 'a1 list -> bool **)

let rec existsb f = function
| [] -> false
| a :: l0 -> (||) (f a) (existsb f l0)

(** val firstn : nat -> 'a1 list -> 'a1 list **)

let rec firstn n0 l =
  match n0 with
  | O -> []
  | S n1 -> (match l with
             | [] -> []
             | a :: l0 -> a :: (firstn n1 l0))

(** val skipn : nat -> 'a1 list -> 'a1 list **)

let rec skipn n0 l =
  match n0 with
  | O -> l
  | S n1 -> (match l with
             | [] -> []
             | _ :: l0 -> skipn n1 l0)

(** val seq : nat -> nat -> nat list **)

let rec seq start = function
| O -> []
| S len0 -> start :: (seq (S start) len0)

type sx =
| A of z
| L of sx list

(** val sx_err : sx **)

let sx_err =
  L ((A (Zneg XH)) :: [])

(** val of_nat0 : nat -> sx **)

let of_nat0 n0 =
  A (Z.of_nat n0)

(** val of_bool : bool -> sx **)

let of_bool b =
  A (if b then Zpos XH else Z0)

(** val of_list : ('a1 -> sx) -> 'a1 list -> sx **)

let of_list f l =
  L (map f l)

(** val of_option : ('a1 -> sx) -> 'a1 option -> sx **)

let of_option f = function
| Some x -> L ((f x) :: [])
| None -> L []

(** val to_Z : sx -> z **)

let to_Z = function
| A z0 -> z0
| L _ -> Z0

(** val to_nat0 : sx -> nat **)

let to_nat0 s =
  Z.to_nat (to_Z s)

(** val to_N0 : sx -> n **)

let to_N0 s =
  Z.to_N (to_Z s)

(** val to_bool : sx -> bool **)

let to_bool s =
  negb (Z.eqb (to_Z s) Z0)

(** val to_list : (sx -> 'a1) -> sx -> 'a1 list **)

let to_list f = function
| A _ -> []
| L l -> map f l

(** val to_str : sx -> n list **)

let to_str s =
  to_list to_N0 s

(** val nth_sx : nat -> sx -> sx **)

let nth_sx n0 = function
| A _ -> sx_err
| L l -> nth n0 l sx_err

(** val to_option : (sx -> 'a1) -> sx -> 'a1 option **)

let to_option f = function
| A _ -> None
| L l ->
  (match l with
   | [] -> None
   | x :: l0 -> (match l0 with
                 | [] -> Some (f x)
                 | _ :: _ -> None))

(** val to_pair : (sx -> 'a1) -> (sx -> 'a2) -> sx -> 'a1 * 'a2 **)

let to_pair f g s =
  ((f (nth_sx O s)), (g (nth_sx (S O) s)))

type cset = (n * n) list

type rx =
| Eps
| Chr of bool * cset
| Cat of rx * rx
| Alt of rx * rx
| Rep of bool * nat * nat option * rx
| Grp of nat * rx
| Bref of nat
| Bol of bool
| Eol of bool
| EndStr
| Look of bool * bool * rx

type st = { pre : n list; suf : n list; pos : nat;
            caps : (nat * (nat * nat)) list }

type out =
| Fail
| Done of st
| NoFuel

(** val in_ranges : n -> cset -> bool **)

let in_ranges c rs =
  existsb (fun r -> (&&) (N.leb (fst r) c) (N.leb c (snd r))) rs

(** val chr_ok : bool -> cset -> n -> bool **)

let chr_ok neg rs c =
  xorb neg (in_ranges c rs)

(** val advance : st -> n -> n list -> st **)

let advance s c t =
  { pre = (c :: s.pre); suf = t; pos = (S s.pos); caps = s.caps }

(** val get_cap : nat -> (nat * (nat * nat)) list -> (nat * nat) option **)

let rec get_cap n0 = function
| [] -> None
| p :: cs' ->
  let (m0, sp) = p in if Nat.eqb n0 m0 then Some sp else get_cap n0 cs'

(** val set_cap : nat -> (nat * nat) -> st -> st **)

let set_cap n0 sp s =
  { pre = s.pre; suf = s.suf; pos = s.pos; caps = ((n0, sp) :: s.caps) }

(** val orelse : out -> (unit -> out) -> out **)

let orelse a b =
  match a with
  | Fail -> b ()
  | _ -> a

(** val lit : n list -> st -> st option **)

let rec lit l s =
  match l with
  | [] -> Some s
  | c :: l' ->
    (match s.suf with
     | [] -> None
     | d :: t -> if N.eqb c d then lit l' (advance s d t) else None)

(** val rep_loop :
    (st -> (st -> out) -> out) -> bool -> nat -> nat option -> nat -> nat ->
    st -> (st -> out) -> out **)

let rec rep_loop body greedy lo hi fuel count s k =
  match fuel with
  | O -> NoFuel
  | S f ->
    if Nat.ltb count lo
    then body s (fun s' -> rep_loop body greedy lo hi f (S count) s' k)
    else let more = fun _ ->
           if match hi with
              | Some h -> Nat.ltb count h
              | None -> true
           then body s (fun s' ->
                  if Nat.eqb s'.pos s.pos
                  then Fail
                  else rep_loop body greedy lo hi f (S count) s' k)
           else Fail
         in
         if greedy then orelse (more ()) (fun _ -> k s) else orelse (k s) more

(** val nlc : n **)

let nlc =
  Npos (XO (XI (XO XH)))

(** val at_bol : bool -> st -> bool **)

let at_bol multi s =
  match s.pre with
  | [] -> true
  | c :: _ -> (&&) multi (N.eqb c nlc)

(** val at_eol : bool -> st -> bool **)

let at_eol multi s =
  match s.suf with
  | [] -> true
  | c :: t ->
    (&&) (N.eqb c nlc)
      ((||) multi (match t with
                   | [] -> true
                   | _ :: _ -> false))

(** val m : rx -> st -> (st -> out) -> out **)

let rec m r s k =
  match r with
  | Eps -> k s
  | Chr (neg, rs) ->
    (match s.suf with
     | [] -> Fail
     | c :: t -> if chr_ok neg rs c then k (advance s c t) else Fail)
  | Cat (a, b) -> m a s (fun s' -> m b s' k)
  | Alt (a, b) -> orelse (m a s k) (fun _ -> m b s k)
  | Rep (greedy, lo, hi, r') ->
    rep_loop (m r') greedy lo hi (add lo (S (length s.suf))) O s k
  | Grp (n0, r') -> m r' s (fun s' -> k (set_cap n0 (s.pos, s'.pos) s'))
  | Bref n0 ->
    (match get_cap n0 s.caps with
     | Some p ->
       let (a, b) = p in
       let txt = rev (firstn (sub b a) (skipn (sub s.pos b) s.pre)) in
       (match lit txt s with
        | Some s' -> k s'
        | None -> Fail)
     | None -> Fail)
  | Bol multi -> if at_bol multi s then k s else Fail
  | Eol multi -> if at_eol multi s then k s else Fail
  | EndStr -> (match s.suf with
               | [] -> k s
               | _ :: _ -> Fail)
  | Look (ahead, neg, r') ->
    if ahead
    then (match m r' s (fun x -> Done x) with
          | Fail -> if neg then k s else Fail
          | Done _ -> if neg then Fail else k s
          | NoFuel -> NoFuel)
    else (match s.pre with
          | [] -> if neg then k s else Fail
          | c :: p ->
            let back = { pre = p; suf = (c :: s.suf); pos =
              (sub s.pos (S O)); caps = s.caps }
            in
            (match m r' back (fun s' ->
                     if Nat.eqb s'.pos s.pos then Done s' else Fail) with
             | Fail -> if neg then k s else Fail
             | Done _ -> if neg then Fail else k s
             | NoFuel -> NoFuel))

type mres = { m_start : nat; m_end : nat; m_caps : (nat * (nat * nat)) list }

(** val group : nat -> mres -> (nat * nat) option **)

let group n0 r =
  get_cap n0 r.m_caps

(** val st_at : n list -> nat -> st **)

let st_at s off =
  { pre = (rev (firstn off s)); suf = (skipn off s); pos = off; caps = [] }

type mr =
| MNone
| MSome of mres
| MFuel

(** val run_at : rx -> st -> (st -> bool) -> mr **)

let run_at r z0 accept =
  match m r z0 (fun s' -> if accept s' then Done s' else Fail) with
  | Fail -> MNone
  | Done s' -> MSome { m_start = z0.pos; m_end = s'.pos; m_caps = s'.caps }
  | NoFuel -> MFuel

(** val rmatch : rx -> n list -> nat -> mr **)

let rmatch r s off =
  if Nat.ltb (length s) off
  then MNone
  else run_at r (st_at s off) (fun _ -> true)

(** val search_from : rx -> nat -> st -> nat option -> mr **)

let rec search_from r fuel z0 nonempty_at =
  match fuel with
  | O -> MFuel
  | S f ->
    let accept = fun s' ->
      match nonempty_at with
      | Some p -> negb ((&&) (Nat.eqb z0.pos p) (Nat.eqb s'.pos p))
      | None -> true
    in
    (match run_at r z0 accept with
     | MNone ->
       (match z0.suf with
        | [] -> MNone
        | c :: t -> search_from r f (advance z0 c t) nonempty_at)
     | x -> x)

(** val rsearch : rx -> n list -> nat -> mr **)

let rsearch r s off =
  if Nat.ltb (length s) off
  then MNone
  else search_from r (S (sub (length s) off)) (st_at s off) None

(** val rsearch_end : rx -> n list -> nat -> nat -> mr **)

let rsearch_end r s off endpos =
  rsearch r (firstn endpos s) off

(** val fwd : nat -> st -> st **)

let rec fwd n0 z0 =
  match n0 with
  | O -> z0
  | S n' -> (match z0.suf with
             | [] -> z0
             | c :: t -> fwd n' (advance z0 c t))

(** val finditer_from : rx -> nat -> st -> nat option -> mres list option **)

let rec finditer_from r fuel z0 nonempty_at =
  match fuel with
  | O -> None
  | S f ->
    (match search_from r (S (length z0.suf)) z0 nonempty_at with
     | MNone -> Some []
     | MSome x ->
       let z' =
         fwd (sub x.m_end z0.pos) { pre = z0.pre; suf = z0.suf; pos = z0.pos;
           caps = [] }
       in
       let ne = if Nat.eqb x.m_start x.m_end then Some x.m_end else None in
       (match finditer_from r f z' ne with
        | Some rest -> Some (x :: rest)
        | None -> None)
     | MFuel -> None)

(** val rfinditer : rx -> n list -> mres list option **)

let rfinditer r s =
  finditer_from r (add (mul (S (S O)) (length s)) (S (S O))) (st_at s O) None

(** val nullable : rx -> bool **)

let rec nullable = function
| Chr (_, _) -> false
| Cat (a, b) -> (&&) (nullable a) (nullable b)
| Alt (a, b) -> (||) (nullable a) (nullable b)
| Rep (_, lo, _, r') -> (||) (Nat.eqb lo O) (nullable r')
| Grp (_, r') -> nullable r'
| _ -> true

(** val rep_ok : rx -> bool **)

let rec rep_ok = function
| Cat (a, b) -> (&&) (rep_ok a) (rep_ok b)
| Alt (a, b) -> (&&) (rep_ok a) (rep_ok b)
| Rep (_, _, _, r') -> (&&) (negb (nullable r')) (rep_ok r')
| Grp (_, r') -> rep_ok r'
| Look (_, _, r') -> rep_ok r'
| _ -> true

(** val rx_of_sx : sx -> rx **)

let rec rx_of_sx = function
| A _ -> Eps
| L l ->
  (match l with
   | [] -> Eps
   | s :: l0 ->
     (match s with
      | A z0 ->
        (match z0 with
         | Zpos p ->
           (match p with
            | XI p0 ->
              (match p0 with
               | XI p1 ->
                 (match p1 with
                  | XH ->
                    (match l0 with
                     | [] -> Eps
                     | mu :: l1 ->
                       (match l1 with
                        | [] -> Bol (to_bool mu)
                        | _ :: _ -> Eps))
                  | _ -> Eps)
               | XO p1 ->
                 (match p1 with
                  | XI _ -> Eps
                  | XO p2 -> (match p2 with
                              | XH -> EndStr
                              | _ -> Eps)
                  | XH ->
                    (match l0 with
                     | [] -> Eps
                     | n0 :: l1 ->
                       (match l1 with
                        | [] -> Eps
                        | r :: l2 ->
                          (match l2 with
                           | [] -> Grp ((to_nat0 n0), (rx_of_sx r))
                           | _ :: _ -> Eps))))
               | XH ->
                 (match l0 with
                  | [] -> Eps
                  | a :: l1 ->
                    (match l1 with
                     | [] -> Eps
                     | b :: l2 ->
                       (match l2 with
                        | [] -> Alt ((rx_of_sx a), (rx_of_sx b))
                        | _ :: _ -> Eps))))
            | XO p0 ->
              (match p0 with
               | XI p1 ->
                 (match p1 with
                  | XI _ -> Eps
                  | XO p2 ->
                    (match p2 with
                     | XH ->
                       (match l0 with
                        | [] -> Eps
                        | ah :: l1 ->
                          (match l1 with
                           | [] -> Eps
                           | ng :: l2 ->
                             (match l2 with
                              | [] -> Eps
                              | r :: l3 ->
                                (match l3 with
                                 | [] ->
                                   Look ((to_bool ah), (to_bool ng),
                                     (rx_of_sx r))
                                 | _ :: _ -> Eps))))
                     | _ -> Eps)
                  | XH ->
                    (match l0 with
                     | [] -> Eps
                     | n0 :: l1 ->
                       (match l1 with
                        | [] -> Bref (to_nat0 n0)
                        | _ :: _ -> Eps)))
               | XO p1 ->
                 (match p1 with
                  | XI _ -> Eps
                  | XO p2 ->
                    (match p2 with
                     | XH ->
                       (match l0 with
                        | [] -> Eps
                        | mu :: l1 ->
                          (match l1 with
                           | [] -> Eol (to_bool mu)
                           | _ :: _ -> Eps))
                     | _ -> Eps)
                  | XH ->
                    (match l0 with
                     | [] -> Eps
                     | g :: l1 ->
                       (match l1 with
                        | [] -> Eps
                        | lo :: l2 ->
                          (match l2 with
                           | [] -> Eps
                           | hi :: l3 ->
                             (match l3 with
                              | [] -> Eps
                              | r :: l4 ->
                                (match l4 with
                                 | [] ->
                                   Rep ((to_bool g), (to_nat0 lo),
                                     (to_option to_nat0 hi), (rx_of_sx r))
                                 | _ :: _ -> Eps))))))
               | XH ->
                 (match l0 with
                  | [] -> Eps
                  | a :: l1 ->
                    (match l1 with
                     | [] -> Eps
                     | b :: l2 ->
                       (match l2 with
                        | [] -> Cat ((rx_of_sx a), (rx_of_sx b))
                        | _ :: _ -> Eps))))
            | XH ->
              (match l0 with
               | [] -> Eps
               | neg :: l1 ->
                 (match l1 with
                  | [] -> Eps
                  | rs :: l2 ->
                    (match l2 with
                     | [] ->
                       Chr ((to_bool neg), (to_list (to_pair to_N0 to_N0) rs))
                     | _ :: _ -> Eps))))
         | _ -> Eps)
      | L _ -> Eps))

(** val span_sx : (nat * nat) -> sx **)

let span_sx sp =
  L ((of_nat0 (fst sp)) :: ((of_nat0 (snd sp)) :: []))

(** val groups_sx : nat -> mres -> sx **)

let groups_sx n0 r =
  of_list (fun g -> of_option span_sx (group g r)) (seq (S O) n0)

(** val mres_sx : nat -> mres -> sx **)

let mres_sx n0 r =
  L ((of_nat0 r.m_start) :: ((of_nat0 r.m_end) :: ((groups_sx n0 r) :: [])))

(** val mr_sx : nat -> mr -> sx **)

let mr_sx n0 = function
| MNone -> L []
| MSome x -> L ((mres_sx n0 x) :: [])
| MFuel -> A (Zneg (XI (XO (XO XH))))

(** val finditer_sx : nat -> mres list option -> sx **)

let finditer_sx n0 = function
| Some l -> of_list (mres_sx n0) l
| None -> A (Zneg (XI (XO (XO XH))))

(** val word_ranges : (n * n) list **)

let word_ranges =
  ((Npos (XO (XO (XO (XO (XI XH)))))), (Npos (XI (XO (XO (XI (XI
    XH))))))) :: (((Npos (XI (XO (XO (XO (XO (XO XH))))))), (Npos (XO (XI (XO
    (XI (XI (XO XH)))))))) :: (((Npos (XI (XI (XI (XI (XI (XO XH))))))),
    (Npos (XI (XI (XI (XI (XI (XO XH)))))))) :: (((Npos (XI (XO (XO (XO (XO
    (XI XH))))))), (Npos (XO (XI (XO (XI (XI (XI XH)))))))) :: (((Npos (XO
    (XI (XO (XI (XO (XI (XO XH)))))))), (Npos (XO (XI (XO (XI (XO (XI (XO
    XH))))))))) :: (((Npos (XO (XI (XO (XO (XI (XI (XO XH)))))))), (Npos (XI
    (XI (XO (XO (XI (XI (XO XH))))))))) :: (((Npos (XI (XO (XI (XO (XI (XI
    (XO XH)))))))), (Npos (XI (XO (XI (XO (XI (XI (XO XH))))))))) :: (((Npos
    (XI (XO (XO (XI (XI (XI (XO XH)))))))), (Npos (XO (XI (XO (XI (XI (XI (XO
    XH))))))))) :: (((Npos (XO (XO (XI (XI (XI (XI (XO XH)))))))), (Npos (XO
    (XI (XI (XI (XI (XI (XO XH))))))))) :: (((Npos (XO (XO (XO (XO (XO (XO
    (XI XH)))))))), (Npos (XO (XI (XI (XO (XI (XO (XI XH))))))))) :: (((Npos
    (XO (XO (XO (XI (XI (XO (XI XH)))))))), (Npos (XO (XI (XI (XO (XI (XI (XI
    XH))))))))) :: (((Npos (XO (XO (XO (XI (XI (XI (XI XH)))))))), (Npos (XI
    (XO (XO (XO (XO (XO (XI (XI (XO XH))))))))))) :: (((Npos (XO (XI (XI (XO
    (XO (XO (XI (XI (XO XH)))))))))), (Npos (XI (XO (XO (XO (XI (XO (XI (XI
    (XO XH))))))))))) :: (((Npos (XO (XO (XO (XO (XO (XI (XI (XI (XO
    XH)))))))))), (Npos (XO (XO (XI (XO (XO (XI (XI (XI (XO
    XH))))))))))) :: (((Npos (XO (XO (XI (XI (XO (XI (XI (XI (XO
    XH)))))))))), (Npos (XO (XO (XI (XI (XO (XI (XI (XI (XO
    XH))))))))))) :: (((Npos (XO (XI (XI (XI (XO (XI (XI (XI (XO
    XH)))))))))), (Npos (XO (XI (XI (XI (XO (XI (XI (XI (XO
    XH))))))))))) :: (((Npos (XO (XO (XO (XO (XI (XI (XI (XO (XI
    XH)))))))))), (Npos (XO (XO (XI (XO (XI (XI (XI (XO (XI
    XH))))))))))) :: (((Npos (XO (XI (XI (XO (XI (XI (XI (XO (XI
    XH)))))))))), (Npos (XI (XI (XI (XO (XI (XI (XI (XO (XI
    XH))))))))))) :: (((Npos (XO (XI (XO (XI (XI (XI (XI (XO (XI
    XH)))))))))), (Npos (XI (XO (XI (XI (XI (XI (XI (XO (XI
    XH))))))))))) :: (((Npos (XI (XI (XI (XI (XI (XI (XI (XO (XI
    XH)))))))))), (Npos (XI (XI (XI (XI (XI (XI (XI (XO (XI
    XH))))))))))) :: (((Npos (XO (XI (XI (XO (XO (XO (XO (XI (XI
    XH)))))))))), (Npos (XO (XI (XI (XO (XO (XO (XO (XI (XI
    XH))))))))))) :: (((Npos (XO (XO (XO (XI (XO (XO (XO (XI (XI
    XH)))))))))), (Npos (XO (XI (XO (XI (XO (XO (XO (XI (XI
    XH))))))))))) :: (((Npos (XO (XO (XI (XI (XO (XO (XO (XI (XI
    XH)))))))))), (Npos (XO (XO (XI (XI (XO (XO (XO (XI (XI
    XH))))))))))) :: (((Npos (XO (XI (XI (XI (XO (XO (XO (XI (XI
    XH)))))))))), (Npos (XI (XO (XO (XO (XO (XI (XO (XI (XI
    XH))))))))))) :: (((Npos (XI (XI (XO (XO (XO (XI (XO (XI (XI
    XH)))))))))), (Npos (XI (XO (XI (XO (XI (XI (XI (XI (XI
    XH))))))))))) :: (((Npos (XI (XI (XI (XO (XI (XI (XI (XI (XI
    XH)))))))))), (Npos (XI (XO (XO (XO (XO (XO (XO (XI (XO (XO
    XH)))))))))))) :: (((Npos (XO (XI (XO (XI (XO (XO (XO (XI (XO (XO
    XH))))))))))), (Npos (XI (XI (XI (XI (XO (XI (XO (XO (XI (XO
    XH)))))))))))) :: (((Npos (XI (XO (XO (XO (XI (XI (XO (XO (XI (XO
    XH))))))))))), (Npos (XO (XI (XI (XO (XI (XO (XI (XO (XI (XO
    XH)))))))))))) :: (((Npos (XI (XO (XO (XI (XI (XO (XI (XO (XI (XO
    XH))))))))))), (Npos (XI (XO (XO (XI (XI (XO (XI (XO (XI (XO
    XH)))))))))))) :: (((Npos (XO (XO (XO (XO (XO (XI (XI (XO (XI (XO
    XH))))))))))), (Npos (XO (XO (XO (XI (XO (XO (XO (XI (XI (XO
    XH)))))))))))) :: (((Npos (XO (XO (XO (XO (XI (XO (XI (XI (XI (XO
    XH))))))))))), (Npos (XO (XI (XO (XI (XO (XI (XI (XI (XI (XO
    XH)))))))))))) :: (((Npos (XI (XI (XI (XI (XO (XI (XI (XI (XI (XO
    XH))))))))))), (Npos (XO (XI (XO (XO (XI (XI (XI (XI (XI (XO
    XH)))))))))))) :: (((Npos (XO (XO (XO (XO (XO (XI (XO (XO (XO (XI
    XH))))))))))), (Npos (XO (XI (XO (XI (XO (XO (XI (XO (XO (XI
    XH)))))))))))) :: (((Npos (XO (XO (XO (XO (XO (XI (XI (XO (XO (XI
    XH))))))))))), (Npos (XI (XO (XO (XI (XO (XI (XI (XO (XO (XI
    XH)))))))))))) :: (((Npos (XO (XI (XI (XI (XO (XI (XI (XO (XO (XI
    XH))))))))))), (Npos (XI (XI (XI (XI (XO (XI (XI (XO (XO (XI
    XH)))))))))))) :: (((Npos (XI (XO (XO (XO (XI (XI (XI (XO (XO (XI
    XH))))))))))), (Npos (XI (XI (XO (XO (XI (XO (XI (XI (XO (XI
    XH)))))))))))) :: (((Npos (XI (XO (XI (XO (XI (XO (XI (XI (XO (XI
    XH))))))))))), (Npos (XI (XO (XI (XO (XI (XO (XI (XI (XO (XI
    XH)))))))))))) :: (((Npos (XI (XO (XI (XO (XO (XI (XI (XI (XO (XI
    XH))))))))))), (Npos (XO (XI (XI (XO (XO (XI (XI (XI (XO (XI
    XH)))))))))))) :: (((Npos (XO (XI (XI (XI (XO (XI (XI (XI (XO (XI
    XH))))))))))), (Npos (XO (XO (XI (XI (XI (XI (XI (XI (XO (XI
    XH)))))))))))) :: (((Npos (XI (XI (XI (XI (XI (XI (XI (XI (XO (XI
    XH))))))))))), (Npos (XI (XI (XI (XI (XI (XI (XI (XI (XO (XI
    XH)))))))))))) :: (((Npos (XO (XO (XO (XO (XI (XO (XO (XO (XI (XI
    XH))))))))))), (Npos (XO (XO (XO (XO (XI (XO (XO (XO (XI (XI
    XH)))))))))))) :: (((Npos (XO (XI (XO (XO (XI (XO (XO (XO (XI (XI
    XH))))))))))), (Npos (XI (XI (XI (XI (XO (XI (XO (XO (XI (XI
    XH)))))))))))) :: (((Npos (XI (XO (XI (XI (XO (XO (XI (XO (XI (XI
    XH))))))))))), (Npos (XI (XO (XI (XO (XO (XI (XO (XI (XI (XI
    XH)))))))))))) :: (((Npos (XI (XO (XO (XO (XI (XI (XO (XI (XI (XI
    XH))))))))))), (Npos (XI (XO (XO (XO (XI (XI (XO (XI (XI (XI
    XH)))))))))))) :: (((Npos (XO (XO (XO (XO (XO (XO (XI (XI (XI (XI
    XH))))))))))), (Npos (XO (XI (XO (XI (XO (XI (XI (XI (XI (XI
    XH)))))))))))) :: (((Npos (XO (XO (XI (XO (XI (XI (XI (XI (XI (XI
    XH))))))))))), (Npos (XI (XO (XI (XO (XI (XI (XI (XI (XI (XI
    XH)))))))))))) :: (((Npos (XO (XI (XO (XI (XI (XI (XI (XI (XI (XI
    XH))))))))))), (Npos (XO (XI (XO (XI (XI (XI (XI (XI (XI (XI
    XH)))))))))))) :: (((Npos (XO (XO (XO (XO (XO (XO (XO (XO (XO (XO (XO
    XH)))))))))))), (Npos (XI (XO (XI (XO (XI (XO (XO (XO (XO (XO (XO
    XH))))))))))))) :: (((Npos (XO (XI (XO (XI (XI (XO (XO (XO (XO (XO (XO
    XH)))))))))))), (Npos (XO (XI (XO (XI (XI (XO (XO (XO (XO (XO (XO
    XH))))))))))))) :: (((Npos (XO (XO (XI (XO (XO (XI (XO (XO (XO (XO (XO
    XH)))))))))))), (Npos (XO (XO (XI (XO (XO (XI (XO (XO (XO (XO (XO
    XH))))))))))))) :: (((Npos (XO (XO (XO (XI (XO (XI (XO (XO (XO (XO (XO
    XH)))))))))))), (Npos (XO (XO (XO (XI (XO (XI (XO (XO (XO (XO (XO
    XH))))))))))))) :: (((Npos (XO (XO (XO (XO (XO (XO (XI (XO (XO (XO (XO
    XH)))))))))))), (Npos (XO (XO (XO (XI (XI (XO (XI (XO (XO (XO (XO
    XH))))))))))))) :: (((Npos (XO (XO (XO (XO (XO (XI (XI (XO (XO (XO (XO
    XH)))))))))))), (Npos (XO (XI (XO (XI (XO (XI (XI (XO (XO (XO (XO
    XH))))))))))))) :: (((Npos (XO (XO (XO (XO (XI (XI (XI (XO (XO (XO (XO
    XH)))))))))))), (Npos (XI (XI (XI (XO (XO (XO (XO (XI (XO (XO (XO
    XH))))))))))))) :: (((Npos (XI (XO (XO (XI (XO (XO (XO (XI (XO (XO (XO
    XH)))))))))))), (Npos (XO (XI (XI (XI (XO (XO (XO (XI (XO (XO (XO
    XH))))))))))))) :: (((Npos (XO (XO (XO (XO (XO (XI (XO (XI (XO (XO (XO
    XH)))))))))))), (Npos (XI (XO (XO (XI (XO (XO (XI (XI (XO (XO (XO
    XH))))))))))))) :: (((Npos (XO (XO (XI (XO (XO (XO (XO (XO (XI (XO (XO
    XH)))))))))))), (Npos (XI (XO (XO (XI (XI (XI (XO (XO (XI (XO (XO
    XH))))))))))))) :: (((Npos (XI (XO (XI (XI (XI (XI (XO (XO (XI (XO (XO
    XH)))))))))))), (Npos (XI (XO (XI (XI (XI (XI (XO (XO (XI (XO (XO
    XH))))))))))))) :: (((Npos (XO (XO (XO (XO (XI (XO (XI (XO (XI (XO (XO
    XH)))))))))))), (Npos (XO (XO (XO (XO (XI (XO (XI (XO (XI (XO (XO
    XH))))))))))))) :: (((Npos (XO (XO (XO (XI (XI (XO (XI (XO (XI (XO (XO
    XH)))))))))))), (Npos (XI (XO (XO (XO (XO (XI (XI (XO (XI (XO (XO
    XH))))))))))))) :: (((Npos (XO (XI (XI (XO (XO (XI (XI (XO (XI (XO (XO
    XH)))))))))))), (Npos (XI (XI (XI (XI (XO (XI (XI (XO (XI (XO (XO
    XH))))))))))))) :: (((Npos (XI (XO (XO (XO (XI (XI (XI (XO (XI (XO (XO
    XH)))))))))))), (Npos (XO (XO (XO (XO (XO (XO (XO (XI (XI (XO (XO
    XH))))))))))))) :: (((Npos (XI (XO (XI (XO (XO (XO (XO (XI (XI (XO (XO
    XH)))))))))))), (Npos (XO (XO (XI (XI (XO (XO (XO (XI (XI (XO (XO
    XH))))))))))))) :: (((Npos (XI (XI (XI (XI (XO (XO (XO (XI (XI (XO (XO
    XH)))))))))))), (Npos (XO (XO (XO (XO (XI (XO (XO (XI (XI (XO (XO
    XH))))))))))))) :: (((Npos (XI (XI (XO (XO (XI (XO (XO (XI (XI (XO (XO
    XH)))))))))))), (Npos (XO (XO (XO (XI (XO (XI (XO (XI (XI (XO (XO
    XH))))))))))))) :: (((Npos (XO (XI (XO (XI (XO (XI (XO (XI (XI (XO (XO
    XH)))))))))))), (Npos (XO (XO (XO (XO (XI (XI (XO (XI (XI (XO (XO
    XH))))))))))))) :: (((Npos (XO (XI (XO (XO (XI (XI (XO (XI (XI (XO (XO
    XH)))))))))))), (Npos (XO (XI (XO (XO (XI (XI (XO (XI (XI (XO (XO
    XH))))))))))))) :: (((Npos (XO (XI (XI (XO (XI (XI (XO (XI (XI (XO (XO
    XH)))))))))))), (Npos (XI (XO (XO (XI (XI (XI (XO (XI (XI (XO (XO
    XH))))))))))))) :: (((Npos (XI (XO (XI (XI (XI (XI (XO (XI (XI (XO (XO
    XH)))))))))))), (Npos (XI (XO (XI (XI (XI (XI (XO (XI (XI (XO (XO
    XH))))))))))))) :: (((Npos (XO (XI (XI (XI (XO (XO (XI (XI (XI (XO (XO
    XH)))))))))))), (Npos (XO (XI (XI (XI (XO (XO (XI (XI (XI (XO (XO
    XH))))))))))))) :: (((Npos (XO (XO (XI (XI (XI (XO (XI (XI (XI (XO (XO
    XH)))))))))))), (Npos (XI (XO (XI (XI (XI (XO (XI (XI (XI (XO (XO
    XH))))))))))))) :: (((Npos (XI (XI (XI (XI (XI (XO (XI (XI (XI (XO (XO
    XH)))))))))))), (Npos (XI (XO (XO (XO (XO (XI (XI (XI (XI (XO (XO
    XH))))))))))))) :: (((Npos (XO (XI (XI (XO (XO (XI (XI (XI (XI (XO (XO
    XH)))))))))))), (Npos (XI (XO (XO (XO (XI (XI (XI (XI (XI (XO (XO
    XH))))))))))))) :: (((Npos (XO (XO (XI (XO (XI (XI (XI (XI (XI (XO (XO
    XH)))))))))))), (Npos (XI (XO (XO (XI (XI (XI (XI (XI (XI (XO (XO
    XH))))))))))))) :: (((Npos (XO (XO (XI (XI (XI (XI (XI (XI (XI (XO (XO
    XH)))))))))))), (Npos (XO (XO (XI (XI (XI (XI (XI (XI (XI (XO (XO
    XH))))))))))))) :: (((Npos (XI (XO (XI (XO (XO (XO (XO (XO (XO (XI (XO
    XH)))))))))))), (Npos (XO (XI (XO (XI (XO (XO (XO (XO (XO (XI (XO
    XH))))))))))))) :: (((Npos (XI (XI (XI (XI (XO (XO (XO (XO (XO (XI (XO
    XH)))))))))))), (Npos (XO (XO (XO (XO (XI (XO (XO (XO (XO (XI (XO
    XH))))))))))))) :: (((Npos (XI (XI (XO (XO (XI (XO (XO (XO (XO (XI (XO
    XH)))))))))))), (Npos (XO (XO (XO (XI (XO (XI (XO (XO (XO (XI (XO
    XH))))))))))))) :: (((Npos (XO (XI (XO (XI (XO (XI (XO (XO (XO (XI (XO
    XH)))))))))))), (Npos (XO (XO (XO (XO (XI (XI (XO (XO (XO (XI (XO
    XH))))))))))))) :: (((Npos (XO (XI (XO (XO (XI (XI (XO (XO (XO (XI (XO
    XH)))))))))))), (Npos (XI (XI (XO (XO (XI (XI (XO (XO (XO (XI (XO
    XH))))))))))))) :: (((Npos (XI (XO (XI (XO (XI (XI (XO (XO (XO (XI (XO
    XH)))))))))))), (Npos (XO (XI (XI (XO (XI (XI (XO (XO (XO (XI (XO
    XH))))))))))))) :: (((Npos (XO (XO (XO (XI (XI (XI (XO (XO (XO (XI (XO
    XH)))))))))))), (Npos (XI (XO (XO (XI (XI (XI (XO (XO (XO (XI (XO
    XH))))))))))))) :: (((Npos (XI (XO (XO (XI (XI (XO (XI (XO (XO (XI (XO
    XH)))))))))))), (Npos (XO (XO (XI (XI (XI (XO (XI (XO (XO (XI (XO
    XH))))))))))))) :: (((Npos (XO (XI (XI (XI (XI (XO (XI (XO (XO (XI (XO
    XH)))))))))))), (Npos (XO (XI (XI (XI (XI (XO (XI (XO (XO (XI (XO
    XH))))))))))))) :: (((Npos (XO (XI (XI (XO (XO (XI (XI (XO (XO (XI (XO
    XH)))))))))))), (Npos (XI (XI (XI (XI (XO (XI (XI (XO (XO (XI (XO
    XH))))))))))))) :: (((Npos (XO (XI (XO (XO (XI (XI (XI (XO (XO (XI (XO
    XH)))))))))))), (Npos (XO (XO (XI (XO (XI (XI (XI (XO (XO (XI (XO
    XH))))))))))))) :: (((Npos (XI (XO (XI (XO (XO (XO (XO (XI (XO (XI (XO
    XH)))))))))))), (Npos (XI (XO (XI (XI (XO (XO (XO (XI (XO (XI (XO
    XH))))))))))))) :: (((Npos (XI (XI (XI (XI (XO (XO (XO (XI (XO (XI (XO
    XH)))))))))))), (Npos (XI (XO (XO (XO (XI (XO (XO (XI (XO (XI (XO
    XH))))))))))))) :: (((Npos (XI (XI (XO (XO (XI (XO (XO (XI (XO (XI (XO
    XH)))))))))))), (Npos (XO (XO (XO (XI (XO (XI (XO (XI (XO (XI (XO
    XH))))))))))))) :: (((Npos (XO (XI (XO (XI (XO (XI (XO (XI (XO (XI (XO
    XH)))))))))))), (Npos (XO (XO (XO (XO (XI (XI (XO (XI (XO (XI (XO
    XH))))))))))))) :: (((Npos (XO (XI (XO (XO (XI (XI (XO (XI (XO (XI (XO
    XH)))))))))))), (Npos (XI (XI (XO (XO (XI (XI (XO (XI (XO (XI (XO
    XH))))))))))))) :: (((Npos (XI (XO (XI (XO (XI (XI (XO (XI (XO (XI (XO
    XH)))))))))))), (Npos (XI (XO (XO (XI (XI (XI (XO (XI (XO (XI (XO
    XH))))))))))))) :: (((Npos (XI (XO (XI (XI (XI (XI (XO (XI (XO (XI (XO
    XH)))))))))))), (Npos (XI (XO (XI (XI (XI (XI (XO (XI (XO (XI (XO
    XH))))))))))))) :: (((Npos (XO (XO (XO (XO (XI (XO (XI (XI (XO (XI (XO
    XH)))))))))))), (Npos (XO (XO (XO (XO (XI (XO (XI (XI (XO (XI (XO
    XH))))))))))))) :: (((Npos (XO (XO (XO (XO (XO (XI (XI (XI (XO (XI (XO
    XH)))))))))))), (Npos (XI (XO (XO (XO (XO (XI (XI (XI (XO (XI (XO
    XH))))))))))))) :: (((Npos (XO (XI (XI (XO (XO (XI (XI (XI (XO (XI (XO
    XH)))))))))))), (Npos (XI (XI (XI (XI (XO (XI (XI (XI (XO (XI (XO
    XH))))))))))))) :: (((Npos (XI (XO (XO (XI (XI (XI (XI (XI (XO (XI (XO
    XH)))))))))))), (Npos (XI (XO (XO (XI (XI (XI (XI (XI (XO (XI (XO
    XH))))))))))))) :: (((Npos (XI (XO (XI (XO (XO (XO (XO (XO (XI (XI (XO
    XH)))))))))))), (Npos (XO (XO (XI (XI (XO (XO (XO (XO (XI (XI (XO
    XH))))))))))))) :: (((Npos (XI (XI (XI (XI (XO (XO (XO (XO (XI (XI (XO
    XH)))))))))))), (Npos (XO (XO (XO (XO (XI (XO (XO (XO (XI (XI (XO
    XH))))))))))))) :: (((Npos (XI (XI (XO (XO (XI (XO (XO (XO (XI (XI (XO
    XH)))))))))))), (Npos (XO (XO (XO (XI (XO (XI (XO (XO (XI (XI (XO
    XH))))))))))))) :: (((Npos (XO (XI (XO (XI (XO (XI (XO (XO (XI (XI (XO
    XH)))))))))))), (Npos (XO (XO (XO (XO (XI (XI (XO (XO (XI (XI (XO
    XH))))))))))))) :: (((Npos (XO (XI (XO (XO (XI (XI (XO (XO (XI (XI (XO
    XH)))))))))))), (Npos (XI (XI (XO (XO (XI (XI (XO (XO (XI (XI (XO
    XH))))))))))))) :: (((Npos (XI (XO (XI (XO (XI (XI (XO (XO (XI (XI (XO
    XH)))))))))))), (Npos (XI (XO (XO (XI (XI (XI (XO (XO (XI (XI (XO
    XH))))))))))))) :: (((Npos (XI (XO (XI (XI (XI (XI (XO (XO (XI (XI (XO
    XH)))))))))))), (Npos (XI (XO (XI (XI (XI (XI (XO (XO (XI (XI (XO
    XH))))))))))))) :: (((Npos (XO (XO (XI (XI (XI (XO (XI (XO (XI (XI (XO
    XH)))))))))))), (Npos (XI (XO (XI (XI (XI (XO (XI (XO (XI (XI (XO
    XH))))))))))))) :: (((Npos (XI (XI (XI (XI (XI (XO (XI (XO (XI (XI (XO
    XH)))))))))))), (Npos (XI (XO (XO (XO (XO (XI (XI (XO (XI (XI (XO
    XH))))))))))))) :: (((Npos (XO (XI (XI (XO (XO (XI (XI (XO (XI (XI (XO
    XH)))))))))))), (Npos (XI (XI (XI (XI (XO (XI (XI (XO (XI (XI (XO
    XH))))))))))))) :: (((Npos (XI (XO (XO (XO (XI (XI (XI (XO (XI (XI (XO
    XH)))))))))))), (Npos (XI (XI (XI (XO (XI (XI (XI (XO (XI (XI (XO
    XH))))))))))))) :: (((Npos (XI (XI (XO (XO (XO (XO (XO (XI (XI (XI (XO
    XH)))))))))))), (Npos (XI (XI (XO (XO (XO (XO (XO (XI (XI (XI (XO
    XH))))))))))))) :: (((Npos (XI (XO (XI (XO (XO (XO (XO (XI (XI (XI (XO
    XH)))))))))))), (Npos (XO (XI (XO (XI (XO (XO (XO (XI (XI (XI (XO
    XH))))))))))))) :: (((Npos (XO (XI (XI (XI (XO (XO (XO (XI (XI (XI (XO
    XH)))))))))))), (Npos (XO (XO (XO (XO (XI (XO (XO (XI (XI (XI (XO
    XH))))))))))))) :: (((Npos (XO (XI (XO (XO (XI (XO (XO (XI (XI (XI (XO
    XH)))))))))))), (Npos (XI (XO (XI (XO (XI (XO (XO (XI (XI (XI (XO
    XH))))))))))))) :: (((Npos (XI (XO (XO (XI (XI (XO (XO (XI (XI (XI (XO
    XH)))))))))))), (Npos (XO (XI (XO (XI (XI (XO (XO (XI (XI (XI (XO
    XH))))))))))))) :: (((Npos (XO (XO (XI (XI (XI (XO (XO (XI (XI (XI (XO
    XH)))))))))))), (Npos (XO (XO (XI (XI (XI (XO (XO (XI (XI (XI (XO
    XH))))))))))))) :: (((Npos (XO (XI (XI (XI (XI (XO (XO (XI (XI (XI (XO
    XH)))))))))))), (Npos (XI (XI (XI (XI (XI (XO (XO (XI (XI (XI (XO
    XH))))))))))))) :: (((Npos (XI (XI (XO (XO (XO (XI (XO (XI (XI (XI (XO
    XH)))))))))))), (Npos (XO (XO (XI (XO (XO (XI (XO (XI (XI (XI (XO
    XH))))))))))))) :: (((Npos (XO (XO (XO (XI (XO (XI (XO (XI (XI (XI (XO
    XH)))))))))))), (Npos (XO (XI (XO (XI (XO (XI (XO (XI (XI (XI (XO
    XH))))))))))))) :: (((Npos (XO (XI (XI (XI (XO (XI (XO (XI (XI (XI (XO
    XH)))))))))))), (Npos (XI (XO (XO (XI (XI (XI (XO (XI (XI (XI (XO
    XH))))))))))))) :: (((Npos (XO (XO (XO (XO (XI (XO (XI (XI (XI (XI (XO
    XH)))))))))))), (Npos (XO (XO (XO (XO (XI (XO (XI (XI (XI (XI (XO
    XH))))))))))))) :: (((Npos (XO (XI (XI (XO (XO (XI (XI (XI (XI (XI (XO
    XH)))))))))))), (Npos (XO (XI (XO (XO (XI (XI (XI (XI (XI (XI (XO
    XH))))))))))))) :: (((Npos (XI (XO (XI (XO (XO (XO (XO (XO (XO (XO (XI
    XH)))))))))))), (Npos (XO (XO (XI (XI (XO (XO (XO (XO (XO (XO (XI
    XH))))))))))))) :: (((Npos (XO (XI (XI (XI (XO (XO (XO (XO (XO (XO (XI
    XH)))))))))))), (Npos (XO (XO (XO (XO (XI (XO (XO (XO (XO (XO (XI
    XH))))))))))))) :: (((Npos (XO (XI (XO (XO (XI (XO (XO (XO (XO (XO (XI
    XH)))))))))))), (Npos (XO (XO (XO (XI (XO (XI (XO (XO (XO (XO (XI
    XH))))))))))))) :: (((Npos (XO (XI (XO (XI (XO (XI (XO (XO (XO (XO (XI
    XH)))))))))))), (Npos (XI (XO (XO (XI (XI (XI (XO (XO (XO (XO (XI
    XH))))))))))))) :: (((Npos (XI (XO (XI (XI (XI (XI (XO (XO (XO (XO (XI
    XH)))))))))))), (Npos (XI (XO (XI (XI (XI (XI (XO (XO (XO (XO (XI
    XH))))))))))))) :: (((Npos (XO (XO (XO (XI (XI (XO (XI (XO (XO (XO (XI
    XH)))))))))))), (Npos (XO (XI (XO (XI (XI (XO (XI (XO (XO (XO (XI
    XH))))))))))))) :: (((Npos (XI (XO (XI (XI (XI (XO (XI (XO (XO (XO (XI
    XH)))))))))))), (Npos (XI (XO (XI (XI (XI (XO (XI (XO (XO (XO (XI
    XH))))))))))))) :: (((Npos (XO (XO (XO (XO (XO (XI (XI (XO (XO (XO (XI
    XH)))))))))))), (Npos (XI (XO (XO (XO (XO (XI (XI (XO (XO (XO (XI
    XH))))))))))))) :: (((Npos (XO (XI (XI (XO (XO (XI (XI (XO (XO (XO (XI
    XH)))))))))))), (Npos (XI (XI (XI (XI (XO (XI (XI (XO (XO (XO (XI
    XH))))))))))))) :: (((Npos (XO (XO (XO (XI (XI (XI (XI (XO (XO (XO (XI
    XH)))))))))))), (Npos (XO (XI (XI (XI (XI (XI (XI (XO (XO (XO (XI
    XH))))))))))))) :: (((Npos (XO (XO (XO (XO (XO (XO (XO (XI (XO (XO (XI
    XH)))))))))))), (Npos (XO (XO (XO (XO (XO (XO (XO (XI (XO (XO (XI
    XH))))))))))))) :: (((Npos (XI (XO (XI (XO (XO (XO (XO (XI (XO (XO (XI
    XH)))))))))))), (Npos (XO (XO (XI (XI (XO (XO (XO (XI (XO (XO (XI
    XH))))))))))))) :: (((Npos (XO (XI (XI (XI (XO (XO (XO (XI (XO (XO (XI
    XH)))))))))))), (Npos (XO (XO (XO (XO (XI (XO (XO (XI (XO (XO (XI
    XH))))))))))))) :: (((Npos (XO (XI (XO (XO (XI (XO (XO (XI (XO (XO (XI
    XH)))))))))))), (Npos (XO (XO (XO (XI (XO (XI (XO (XI (XO (XO (XI
    XH))))))))))))) :: (((Npos (XO (XI (XO (XI (XO (XI (XO (XI (XO (XO (XI
    XH)))))))))))), (Npos (XI (XI (XO (XO (XI (XI (XO (XI (XO (XO (XI
    XH))))))))))))) :: (((Npos (XI (XO (XI (XO (XI (XI (XO (XI (XO (XO (XI
    XH)))))))))))), (Npos (XI (XO (XO (XI (XI (XI (XO (XI (XO (XO (XI
    XH))))))))))))) :: (((Npos (XI (XO (XI (XI (XI (XI (XO (XI (XO (XO (XI
    XH)))))))))))), (Npos (XI (XO (XI (XI (XI (XI (XO (XI (XO (XO (XI
    XH))))))))))))) :: (((Npos (XI (XO (XI (XI (XI (XO (XI (XI (XO (XO (XI
    XH)))))))))))), (Npos (XO (XI (XI (XI (XI (XO (XI (XI (XO (XO (XI
    XH))))))))))))) :: (((Npos (XO (XO (XO (XO (XO (XI (XI (XI (XO (XO (XI
    XH)))))))))))), (Npos (XI (XO (XO (XO (XO (XI (XI (XI (XO (XO (XI
    XH))))))))))))) :: (((Npos (XO (XI (XI (XO (XO (XI (XI (XI (XO (XO (XI
    XH)))))))))))), (Npos (XI (XI (XI (XI (XO (XI (XI (XI (XO (XO (XI
    XH))))))))))))) :: (((Npos (XI (XO (XO (XO (XI (XI (XI (XI (XO (XO (XI
    XH)))))))))))), (Npos (XO (XI (XO (XO (XI (XI (XI (XI (XO (XO (XI
    XH))))))))))))) :: (((Npos (XO (XO (XI (XO (XO (XO (XO (XO (XI (XO (XI
    XH)))))))))))), (Npos (XO (XO (XI (XI (XO (XO (XO (XO (XI (XO (XI
    XH))))))))))))) :: (((Npos (XO (XI (XI (XI (XO (XO (XO (XO (XI (XO (XI
    XH)))))))))))), (Npos (XO (XO (XO (XO (XI (XO (XO (XO (XI (XO (XI
    XH))))))))))))) :: (((Npos (XO (XI (XO (XO (XI (XO (XO (XO (XI (XO (XI
    XH)))))))))))), (Npos (XO (XI (XO (XI (XI (XI (XO (XO (XI (XO (XI
    XH))))))))))))) :: (((Npos (XI (XO (XI (XI (XI (XI (XO (XO (XI (XO (XI
    XH)))))))))))), (Npos (XI (XO (XI (XI (XI (XI (XO (XO (XI (XO (XI
    XH))))))))))))) :: (((Npos (XO (XI (XI (XI (XO (XO (XI (XO (XI (XO (XI
    XH)))))))))))), (Npos (XO (XI (XI (XI (XO (XO (XI (XO (XI (XO (XI
    XH))))))))))))) :: (((Npos (XO (XO (XI (XO (XI (XO (XI (XO (XI (XO (XI
    XH)))))))))))), (Npos (XO (XI (XI (XO (XI (XO (XI (XO (XI (XO (XI
    XH))))))))))))) :: (((Npos (XO (XO (XO (XI (XI (XO (XI (XO (XI (XO (XI
    XH)))))))))))), (Npos (XI (XO (XO (XO (XO (XI (XI (XO (XI (XO (XI
    XH))))))))))))) :: (((Npos (XO (XI (XI (XO (XO (XI (XI (XO (XI (XO (XI
    XH)))))))))))), (Npos (XO (XO (XO (XI (XI (XI (XI (XO (XI (XO (XI
    XH))))))))))))) :: (((Npos (XO (XI (XO (XI (XI (XI (XI (XO (XI (XO (XI
    XH)))))))))))), (Npos (XI (XI (XI (XI (XI (XI (XI (XO (XI (XO (XI
    XH))))))))))))) :: (((Npos (XI (XO (XI (XO (XO (XO (XO (XI (XI (XO (XI
    XH)))))))))))), (Npos (XO (XI (XI (XO (XI (XO (XO (XI (XI (XO (XI
    XH))))))))))))) :: (((Npos (XO (XI (XO (XI (XI (XO (XO (XI (XI (XO (XI
    XH)))))))))))), (Npos (XI (XO (XO (XO (XI (XI (XO (XI (XI (XO (XI
    XH))))))))))))) :: (((Npos (XI (XI (XO (XO (XI (XI (XO (XI (XI (XO (XI
    XH)))))))))))), (Npos (XI (XI (XO (XI (XI (XI (XO (XI (XI (XO (XI
    XH))))))))))))) :: (((Npos (XI (XO (XI (XI (XI (XI (XO (XI (XI (XO (XI
    XH)))))))))))), (Npos (XI (XO (XI (XI (XI (XI (XO (XI (XI (XO (XI
    XH))))))))))))) :: (((Npos (XO (XO (XO (XO (XO (XO (XI (XI (XI (XO (XI
    XH)))))))))))), (Npos (XO (XI (XI (XO (XO (XO (XI (XI (XI (XO (XI
    XH))))))))))))) :: (((Npos (XO (XI (XI (XO (XO (XI (XI (XI (XI (XO (XI
    XH)))))))))))), (Npos (XI (XI (XI (XI (XO (XI (XI (XI (XI (XO (XI
    XH))))))))))))) :: (((Npos (XI (XO (XO (XO (XO (XO (XO (XO (XO (XI (XI
    XH)))))))))))), (Npos (XO (XO (XO (XO (XI (XI (XO (XO (XO (XI (XI
    XH))))))))))))) :: (((Npos (XO (XI (XO (XO (XI (XI (XO (XO (XO (XI (XI
    XH)))))))))))), (Npos (XI (XI (XO (XO (XI (XI (XO (XO (XO (XI (XI
    XH))))))))))))) :: (((Npos (XO (XO (XO (XO (XO (XO (XI (XO (XO (XI (XI
    XH)))))))))))), (Npos (XO (XI (XI (XO (XO (XO (XI (XO (XO (XI (XI
    XH))))))))))))) :: (((Npos (XO (XO (XO (XO (XI (XO (XI (XO (XO (XI (XI
    XH)))))))))))), (Npos (XI (XO (XO (XI (XI (XO (XI (XO (XO (XI (XI
    XH))))))))))))) :: (((Npos (XI (XO (XO (XO (XO (XO (XO (XI (XO (XI (XI
    XH)))))))))))), (Npos (XO (XI (XO (XO (XO (XO (XO (XI (XO (XI (XI
    XH))))))))))))) :: (((Npos (XO (XO (XI (XO (XO (XO (XO (XI (XO (XI (XI
    XH)))))))))))), (Npos (XO (XO (XI (XO (XO (XO (XO (XI (XO (XI (XI
    XH))))))))))))) :: (((Npos (XO (XI (XI (XO (XO (XO (XO (XI (XO (XI (XI
    XH)))))))))))), (Npos (XO (XI (XO (XI (XO (XO (XO (XI (XO (XI (XI
    XH))))))))))))) :: (((Npos (XO (XO (XI (XI (XO (XO (XO (XI (XO (XI (XI
    XH)))))))))))), (Npos (XI (XI (XO (XO (XO (XI (XO (XI (XO (XI (XI
    XH))))))))))))) :: (((Npos (XI (XO (XI (XO (XO (XI (XO (XI (XO (XI (XI
    XH)))))))))))), (Npos (XI (XO (XI (XO (XO (XI (XO (XI (XO (XI (XI
    XH))))))))))))) :: (((Npos (XI (XI (XI (XO (XO (XI (XO (XI (XO (XI (XI
    XH)))))))))))), (Npos (XO (XO (XO (XO (XI (XI (XO (XI (XO (XI (XI
    XH))))))))))))) :: (((Npos (XO (XI (XO (XO (XI (XI (XO (XI (XO (XI (XI
    XH)))))))))))), (Npos (XI (XI (XO (XO (XI (XI (XO (XI (XO (XI (XI
    XH))))))))))))) :: (((Npos (XI (XO (XI (XI (XI (XI (XO (XI (XO (XI (XI
    XH)))))))))))), (Npos (XI (XO (XI (XI (XI (XI (XO (XI (XO (XI (XI
    XH))))))))))))) :: (((Npos (XO (XO (XO (XO (XO (XO (XI (XI (XO (XI (XI
    XH)))))))))))), (Npos (XO (XO (XI (XO (XO (XO (XI (XI (XO (XI (XI
    XH))))))))))))) :: (((Npos (XO (XI (XI (XO (XO (XO (XI (XI (XO (XI (XI
    XH)))))))))))), (Npos (XO (XI (XI (XO (XO (XO (XI (XI (XO (XI (XI
    XH))))))))))))) :: (((Npos (XO (XO (XO (XO (XI (XO (XI (XI (XO (XI (XI
    XH)))))))))))), (Npos (XI (XO (XO (XI (XI (XO (XI (XI (XO (XI (XI
    XH))))))))))))) :: (((Npos (XO (XO (XI (XI (XI (XO (XI (XI (XO (XI (XI
    XH)))))))))))), (Npos (XI (XI (XI (XI (XI (XO (XI (XI (XO (XI (XI
    XH))))))))))))) :: (((Npos (XO (XO (XO (XO (XO (XO (XO (XO (XI (XI (XI
    XH)))))))))))), (Npos (XO (XO (XO (XO (XO (XO (XO (XO (XI (XI (XI
    XH))))))))))))) :: (((Npos (XO (XO (XO (XO (XO (XI (XO (XO (XI (XI (XI
    XH)))))))))))), (Npos (XI (XI (XO (XO (XI (XI (XO (XO (XI (XI (XI
    XH))))))))))))) :: (((Npos (XO (XO (XO (XO (XO (XO (XI (XO (XI (XI (XI
    XH)))))))))))), (Npos (XI (XI (XI (XO (XO (XO (XI (XO (XI (XI (XI
    XH))))))))))))) :: (((Npos (XI (XO (XO (XI (XO (XO (XI (XO (XI (XI (XI
    XH)))))))))))), (Npos (XO (XO (XI (XI (XO (XI (XI (XO (XI (XI (XI
    XH))))))))))))) :: (((Npos (XO (XO (XO (XI (XO (XO (XO (XI (XI (XI (XI
    XH)))))))))))), (Npos (XO (XO (XI (XI (XO (XO (XO (XI (XI (XI (XI
    XH))))))))))))) :: (((Npos (XO (XO (XO (XO (XO (XO (XO (XO (XO (XO (XO
    (XO XH))))))))))))), (Npos (XO (XI (XO (XI (XO (XI (XO (XO (XO (XO (XO
    (XO XH)))))))))))))) :: (((Npos (XI (XI (XI (XI (XI (XI (XO (XO (XO (XO
    (XO (XO XH))))))))))))), (Npos (XI (XO (XO (XI (XO (XO (XI (XO (XO (XO
    (XO (XO XH)))))))))))))) :: (((Npos (XO (XO (XO (XO (XI (XO (XI (XO (XO
    (XO (XO (XO XH))))))))))))), (Npos (XI (XO (XI (XO (XI (XO (XI (XO (XO
    (XO (XO (XO XH)))))))))))))) :: (((Npos (XO (XI (XO (XI (XI (XO (XI (XO
    (XO (XO (XO (XO XH))))))))))))), (Npos (XI (XO (XI (XI (XI (XO (XI (XO
    (XO (XO (XO (XO XH)))))))))))))) :: (((Npos (XI (XO (XO (XO (XO (XI (XI
    (XO (XO (XO (XO (XO XH))))))))))))), (Npos (XI (XO (XO (XO (XO (XI (XI
    (XO (XO (XO (XO (XO XH)))))))))))))) :: (((Npos (XI (XO (XI (XO (XO (XI
    (XI (XO (XO (XO (XO (XO XH))))))))))))), (Npos (XO (XI (XI (XO (XO (XI
    (XI (XO (XO (XO (XO (XO XH)))))))))))))) :: (((Npos (XO (XI (XI (XI (XO
    (XI (XI (XO (XO (XO (XO (XO XH))))))))))))), (Npos (XO (XO (XO (XO (XI
    (XI (XI (XO (XO (XO (XO (XO XH)))))))))))))) :: (((Npos (XI (XO (XI (XO
    (XI (XI (XI (XO (XO (XO (XO (XO XH))))))))))))), (Npos (XI (XO (XO (XO
    (XO (XO (XO (XI (XO (XO (XO (XO XH)))))))))))))) :: (((Npos (XO (XI (XI
    (XI (XO (XO (XO (XI (XO (XO (XO (XO XH))))))))))))), (Npos (XO (XI (XI
    (XI (XO (XO (XO (XI (XO (XO (XO (XO XH)))))))))))))) :: (((Npos (XO (XO
    (XO (XO (XI (XO (XO (XI (XO (XO (XO (XO XH))))))))))))), (Npos (XI (XO
    (XO (XI (XI (XO (XO (XI (XO (XO (XO (XO XH)))))))))))))) :: (((Npos (XO
    (XO (XO (XO (XO (XI (XO (XI (XO (XO (XO (XO XH))))))))))))), (Npos (XI
    (XO (XI (XO (XO (XO (XI (XI (XO (XO (XO (XO XH)))))))))))))) :: (((Npos
    (XI (XI (XI (XO (XO (XO (XI (XI (XO (XO (XO (XO XH))))))))))))), (Npos
    (XI (XI (XI (XO (XO (XO (XI (XI (XO (XO (XO (XO
    XH)))))))))))))) :: (((Npos (XI (XO (XI (XI (XO (XO (XI (XI (XO (XO (XO
    (XO XH))))))))))))), (Npos (XI (XO (XI (XI (XO (XO (XI (XI (XO (XO (XO
    (XO XH)))))))))))))) :: (((Npos (XO (XO (XO (XO (XI (XO (XI (XI (XO (XO
    (XO (XO XH))))))))))))), (Npos (XO (XI (XO (XI (XI (XI (XI (XI (XO (XO
    (XO (XO XH)))))))))))))) :: (((Npos (XO (XO (XI (XI (XI (XI (XI (XI (XO
    (XO (XO (XO XH))))))))))))), (Npos (XO (XO (XO (XI (XO (XO (XI (XO (XO
    (XI (XO (XO XH)))))))))))))) :: (((Npos (XO (XI (XO (XI (XO (XO (XI (XO
    (XO (XI (XO (XO XH))))))))))))), (Npos (XI (XO (XI (XI (XO (XO (XI (XO
    (XO (XI (XO (XO XH)))))))))))))) :: (((Npos (XO (XO (XO (XO (XI (XO (XI
    (XO (XO (XI (XO (XO XH))))))))))))), (Npos (XO (XI (XI (XO (XI (XO (XI
    (XO (XO (XI (XO (XO XH)))))))))))))) :: (((Npos (XO (XO (XO (XI (XI (XO
    (XI (XO (XO (XI (XO (XO XH))))))))))))), (Npos (XO (XO (XO (XI (XI (XO
    (XI (XO (XO (XI (XO (XO XH)))))))))))))) :: (((Npos (XO (XI (XO (XI (XI
    (XO (XI (XO (XO (XI (XO (XO XH))))))))))))), (Npos (XI (XO (XI (XI (XI
    (XO (XI (XO (XO (XI (XO (XO XH)))))))))))))) :: (((Npos (XO (XO (XO (XO
    (XO (XI (XI (XO (XO (XI (XO (XO XH))))))))))))), (Npos (XO (XO (XO (XI
    (XO (XO (XO (XI (XO (XI (XO (XO XH)))))))))))))) :: (((Npos (XO (XI (XO
    (XI (XO (XO (XO (XI (XO (XI (XO (XO XH))))))))))))), (Npos (XI (XO (XI
    (XI (XO (XO (XO (XI (XO (XI (XO (XO XH)))))))))))))) :: (((Npos (XO (XO
    (XO (XO (XI (XO (XO (XI (XO (XI (XO (XO XH))))))))))))), (Npos (XO (XO
    (XO (XO (XI (XI (XO (XI (XO (XI (XO (XO XH)))))))))))))) :: (((Npos (XO
    (XI (XO (XO (XI (XI (XO (XI (XO (XI (XO (XO XH))))))))))))), (Npos (XI
    (XO (XI (XO (XI (XI (XO (XI (XO (XI (XO (XO XH)))))))))))))) :: (((Npos
    (XO (XO (XO (XI (XI (XI (XO (XI (XO (XI (XO (XO XH))))))))))))), (Npos
    (XO (XI (XI (XI (XI (XI (XO (XI (XO (XI (XO (XO
    XH)))))))))))))) :: (((Npos (XO (XO (XO (XO (XO (XO (XI (XI (XO (XI (XO
    (XO XH))))))))))))), (Npos (XO (XO (XO (XO (XO (XO (XI (XI (XO (XI (XO
    (XO XH)))))))))))))) :: (((Npos (XO (XI (XO (XO (XO (XO (XI (XI (XO (XI
    (XO (XO XH))))))))))))), (Npos (XI (XO (XI (XO (XO (XO (XI (XI (XO (XI
    (XO (XO XH)))))))))))))) :: (((Npos (XO (XO (XO (XI (XO (XO (XI (XI (XO
    (XI (XO (XO XH))))))))))))), (Npos (XO (XI (XI (XO (XI (XO (XI (XI (XO
    (XI (XO (XO XH)))))))))))))) :: (((Npos (XO (XO (XO (XI (XI (XO (XI (XI
    (XO (XI (XO (XO XH))))))))))))), (Npos (XO (XO (XO (XO (XI (XO (XO (XO
    (XI (XI (XO (XO XH)))))))))))))) :: (((Npos (XO (XI (XO (XO (XI (XO (XO
    (XO (XI (XI (XO (XO XH))))))))))))), (Npos (XI (XO (XI (XO (XI (XO (XO
    (XO (XI (XI (XO (XO XH)))))))))))))) :: (((Npos (XO (XO (XO (XI (XI (XO
    (XO (XO (XI (XI (XO (XO XH))))))))))))), (Npos (XO (XI (XO (XI (XI (XO
    (XI (XO (XI (XI (XO (XO XH)))))))))))))) :: (((Npos (XI (XO (XO (XI (XO
    (XI (XI (XO (XI (XI (XO (XO XH))))))))))))), (Npos (XO (XO (XI (XI (XI
    (XI (XI (XO (XI (XI (XO (XO XH)))))))))))))) :: (((Npos (XO (XO (XO (XO
    (XO (XO (XO (XI (XI (XI (XO (XO XH))))))))))))), (Npos (XI (XI (XI (XI
    (XO (XO (XO (XI (XI (XI (XO (XO XH)))))))))))))) :: (((Npos (XO (XO (XO
    (XO (XO (XI (XO (XI (XI (XI (XO (XO XH))))))))))))), (Npos (XI (XO (XI
    (XO (XI (XI (XI (XI (XI (XI (XO (XO XH)))))))))))))) :: (((Npos (XO (XO
    (XO (XI (XI (XI (XI (XI (XI (XI (XO (XO XH))))))))))))), (Npos (XI (XO
    (XI (XI (XI (XI (XI (XI (XI (XI (XO (XO XH)))))))))))))) :: (((Npos (XI
    (XO (XO (XO (XO (XO (XO (XO (XO (XO (XI (XO XH))))))))))))), (Npos (XO
    (XO (XI (XI (XO (XI (XI (XO (XO (XI (XI (XO XH)))))))))))))) :: (((Npos
    (XI (XI (XI (XI (XO (XI (XI (XO (XO (XI (XI (XO XH))))))))))))), (Npos
    (XI (XI (XI (XI (XI (XI (XI (XO (XO (XI (XI (XO
    XH)))))))))))))) :: (((Npos (XI (XO (XO (XO (XO (XO (XO (XI (XO (XI (XI
    (XO XH))))))))))))), (Npos (XO (XI (XO (XI (XI (XO (XO (XI (XO (XI (XI
    (XO XH)))))))))))))) :: (((Npos (XO (XO (XO (XO (XO (XI (XO (XI (XO (XI
    (XI (XO XH))))))))))))), (Npos (XO (XI (XO (XI (XO (XI (XI (XI (XO (XI
    (XI (XO XH)))))))))))))) :: (((Npos (XO (XI (XI (XI (XO (XI (XI (XI (XO
    (XI (XI (XO XH))))))))))))), (Npos (XO (XO (XO (XI (XI (XI (XI (XI (XO
    (XI (XI (XO XH)))))))))))))) :: (((Npos (XO (XO (XO (XO (XO (XO (XO (XO
    (XI (XI (XI (XO XH))))))))))))), (Npos (XI (XO (XO (XO (XI (XO (XO (XO
    (XI (XI (XI (XO XH)))))))))))))) :: (((Npos (XI (XI (XI (XI (XI (XO (XO
    (XO (XI (XI (XI (XO XH))))))))))))), (Npos (XI (XO (XO (XO (XI (XI (XO
    (XO (XI (XI (XI (XO XH)))))))))))))) :: (((Npos (XO (XO (XO (XO (XO (XO
    (XI (XO (XI (XI (XI (XO XH))))))))))))), (Npos (XI (XO (XO (XO (XI (XO
    (XI (XO (XI (XI (XI (XO XH)))))))))))))) :: (((Npos (XO (XO (XO (XO (XO
    (XI (XI (XO (XI (XI (XI (XO XH))))))))))))), (Npos (XO (XO (XI (XI (XO
    (XI (XI (XO (XI (XI (XI (XO XH)))))))))))))) :: (((Npos (XO (XI (XI (XI
    (XO (XI (XI (XO (XI (XI (XI (XO XH))))))))))))), (Npos (XO (XO (XO (XO
    (XI (XI (XI (XO (XI (XI (XI (XO XH)))))))))))))) :: (((Npos (XO (XO (XO
    (XO (XO (XO (XO (XI (XI (XI (XI (XO XH))))))))))))), (Npos (XI (XI (XO
    (XO (XI (XI (XO (XI (XI (XI (XI (XO XH)))))))))))))) :: (((Npos (XI (XI
    (XI (XO (XI (XO (XI (XI (XI (XI (XI (XO XH))))))))))))), (Npos (XI (XI
    (XI (XO (XI (XO (XI (XI (XI (XI (XI (XO XH)))))))))))))) :: (((Npos (XO
    (XO (XI (XI (XI (XO (XI (XI (XI (XI (XI (XO XH))))))))))))), (Npos (XO
    (XO (XI (XI (XI (XO (XI (XI (XI (XI (XI (XO XH)))))))))))))) :: (((Npos
    (XO (XO (XO (XO (XO (XI (XI (XI (XI (XI (XI (XO XH))))))))))))), (Npos
    (XI (XO (XO (XI (XO (XI (XI (XI (XI (XI (XI (XO
    XH)))))))))))))) :: (((Npos (XO (XO (XO (XO (XI (XI (XI (XI (XI (XI (XI
    (XO XH))))))))))))), (Npos (XI (XO (XO (XI (XI (XI (XI (XI (XI (XI (XI
    (XO XH)))))))))))))) :: (((Npos (XO (XO (XO (XO (XI (XO (XO (XO (XO (XO
    (XO (XI XH))))))))))))), (Npos (XI (XO (XO (XI (XI (XO (XO (XO (XO (XO
    (XO (XI XH)))))))))))))) :: (((Npos (XO (XO (XO (XO (XO (XI (XO (XO (XO
    (XO (XO (XI XH))))))))))))), (Npos (XO (XO (XO (XI (XI (XI (XI (XO (XO
    (XO (XO (XI XH)))))))))))))) :: (((Npos (XO (XO (XO (XO (XO (XO (XO (XI
    (XO (XO (XO (XI XH))))))))))))), (Npos (XO (XO (XI (XO (XO (XO (XO (XI
    (XO (XO (XO (XI XH)))))))))))))) :: (((Npos (XI (XI (XI (XO (XO (XO (XO
    (XI (XO (XO (XO (XI XH))))))))))))), (Npos (XO (XO (XO (XI (XO (XI (XO
    (XI (XO (XO (XO (XI XH)))))))))))))) :: (((Npos (XO (XI (XO (XI (XO (XI
    (XO (XI (XO (XO (XO (XI XH))))))))))))), (Npos (XO (XI (XO (XI (XO (XI
    (XO (XI (XO (XO (XO (XI XH)))))))))))))) :: (((Npos (XO (XO (XO (XO (XI
    (XI (XO (XI (XO (XO (XO (XI XH))))))))))))), (Npos (XI (XO (XI (XO (XI
    (XI (XI (XI (XO (XO (XO (XI XH)))))))))))))) :: (((Npos (XO (XO (XO (XO
    (XO (XO (XO (XO (XI (XO (XO (XI XH))))))))))))), (Npos (XO (XI (XI (XI
    (XI (XO (XO (XO (XI (XO (XO (XI XH)))))))))))))) :: (((Npos (XO (XI (XI
    (XO (XO (XO (XI (XO (XI (XO (XO (XI XH))))))))))))), (Npos (XI (XO (XI
    (XI (XO (XI (XI (XO (XI (XO (XO (XI XH)))))))))))))) :: (((Npos (XO (XO
    (XO (XO (XI (XI (XI (XO (XI (XO (XO (XI XH))))))))))))), (Npos (XO (XO
    (XI (XO (XI (XI (XI (XO (XI (XO (XO (XI XH)))))))))))))) :: (((Npos (XO
    (XO (XO (XO (XO (XO (XO (XI (XI (XO (XO (XI XH))))))))))))), (Npos (XI
    (XI (XO (XI (XO (XI (XO (XI (XI (XO (XO (XI XH)))))))))))))) :: (((Npos
    (XO (XO (XO (XO (XI (XI (XO (XI (XI (XO (XO (XI XH))))))))))))), (Npos
    (XI (XO (XO (XI (XO (XO (XI (XI (XI (XO (XO (XI
    XH)))))))))))))) :: (((Npos (XO (XO (XO (XO (XI (XO (XI (XI (XI (XO (XO
    (XI XH))))))))))))), (Npos (XO (XI (XO (XI (XI (XO (XI (XI (XI (XO (XO
    (XI XH)))))))))))))) :: (((Npos (XO (XO (XO (XO (XO (XO (XO (XO (XO (XI
    (XO (XI XH))))))))))))), (Npos (XO (XI (XI (XO (XI (XO (XO (XO (XO (XI
    (XO (XI XH)))))))))))))) :: (((Npos (XO (XO (XO (XO (XO (XI (XO (XO (XO
    (XI (XO (XI XH))))))))))))), (Npos (XO (XO (XI (XO (XI (XO (XI (XO (XO
    (XI (XO (XI XH)))))))))))))) :: (((Npos (XO (XO (XO (XO (XO (XO (XO (XI
    (XO (XI (XO (XI XH))))))))))))), (Npos (XI (XO (XO (XI (XO (XO (XO (XI
    (XO (XI (XO (XI XH)))))))))))))) :: (((Npos (XO (XO (XO (XO (XI (XO (XO
    (XI (XO (XI (XO (XI XH))))))))))))), (Npos (XI (XO (XO (XI (XI (XO (XO
    (XI (XO (XI (XO (XI XH)))))))))))))) :: (((Npos (XI (XI (XI (XO (XO (XI
    (XO (XI (XO (XI (XO (XI XH))))))))))))), (Npos (XI (XI (XI (XO (XO (XI
    (XO (XI (XO (XI (XO (XI XH)))))))))))))) :: (((Npos (XI (XO (XI (XO (XO
    (XO (XO (XO (XI (XI (XO (XI XH))))))))))))), (Npos (XI (XI (XO (XO (XI
    (XI (XO (XO (XI (XI (XO (XI XH)))))))))))))) :: (((Npos (XI (XO (XI (XO
    (XO (XO (XI (XO (XI (XI (XO (XI XH))))))))))))), (Npos (XO (XO (XI (XI
    (XO (XO (XI (XO (XI (XI (XO (XI XH)))))))))))))) :: (((Npos (XO (XO (XO
    (XO (XI (XO (XI (XO (XI (XI (XO (XI XH))))))))))))), (Npos (XI (XO (XO
    (XI (XI (XO (XI (XO (XI (XI (XO (XI XH)))))))))))))) :: (((Npos (XI (XI
    (XO (XO (XO (XO (XO (XI (XI (XI (XO (XI XH))))))))))))), (Npos (XO (XO
    (XO (XO (XO (XI (XO (XI (XI (XI (XO (XI XH)))))))))))))) :: (((Npos (XO
    (XI (XI (XI (XO (XI (XO (XI (XI (XI (XO (XI XH))))))))))))), (Npos (XI
    (XO (XI (XO (XO (XI (XI (XI (XI (XI (XO (XI XH)))))))))))))) :: (((Npos
    (XO (XO (XO (XO (XO (XO (XO (XO (XO (XO (XI (XI XH))))))))))))), (Npos
    (XI (XI (XO (XO (XO (XI (XO (XO (XO (XO (XI (XI
    XH)))))))))))))) :: (((Npos (XO (XO (XO (XO (XO (XO (XI (XO (XO (XO (XI
    (XI XH))))))))))))), (Npos (XI (XO (XO (XI (XO (XO (XI (XO (XO (XO (XI
    (XI XH)))))))))))))) :: (((Npos (XI (XO (XI (XI (XO (XO (XI (XO (XO (XO
    (XI (XI XH))))))))))))), (Npos (XI (XO (XI (XI (XI (XI (XI (XO (XO (XO
    (XI (XI XH)))))))))))))) :: (((Npos (XO (XO (XO (XO (XO (XO (XO (XI (XO
    (XO (XI (XI XH))))))))))))), (Npos (XO (XO (XO (XI (XO (XO (XO (XI (XO
    (XO (XI (XI XH)))))))))))))) :: (((Npos (XO (XO (XO (XO (XI (XO (XO (XI
    (XO (XO (XI (XI XH))))))))))))), (Npos (XO (XI (XO (XI (XI (XI (XO (XI
    (XO (XO (XI (XI XH)))))))))))))) :: (((Npos (XI (XO (XI (XI (XI (XI (XO
    (XI (XO (XO (XI (XI XH))))))))))))), (Npos (XI (XI (XI (XI (XI (XI (XO
    (XI (XO (XO (XI (XI XH)))))))))))))) :: (((Npos (XI (XO (XO (XI (XO (XI
    (XI (XI (XO (XO (XI (XI XH))))))))))))), (Npos (XO (XO (XI (XI (XO (XI
    (XI (XI (XO (XO (XI (XI XH)))))))))))))) :: (((Npos (XO (XI (XI (XI (XO
    (XI (XI (XI (XO (XO (XI (XI XH))))))))))))), (Npos (XI (XI (XO (XO (XI
    (XI (XI (XI (XO (XO (XI (XI XH)))))))))))))) :: (((Npos (XI (XO (XI (XO
    (XI (XI (XI (XI (XO (XO (XI (XI XH))))))))))))), (Npos (XO (XI (XI (XO
    (XI (XI (XI (XI (XO (XO (XI (XI XH)))))))))))))) :: (((Npos (XO (XI (XO
    (XI (XI (XI (XI (XI (XO (XO (XI (XI XH))))))))))))), (Npos (XO (XI (XO
    (XI (XI (XI (XI (XI (XO (XO (XI (XI XH)))))))))))))) :: (((Npos (XO (XO
    (XO (XO (XO (XO (XO (XO (XI (XO (XI (XI XH))))))))))))), (Npos (XI (XI
    (XI (XI (XI (XI (XO (XI (XI (XO (XI (XI XH)))))))))))))) :: (((Npos (XO
    (XO (XO (XO (XO (XO (XO (XO (XO (XI (XI (XI XH))))))))))))), (Npos (XI
    (XO (XI (XO (XI (XO (XO (XO (XI (XI (XI (XI XH)))))))))))))) :: (((Npos
    (XO (XO (XO (XI (XI (XO (XO (XO (XI (XI (XI (XI XH))))))))))))), (Npos
    (XI (XO (XI (XI (XI (XO (XO (XO (XI (XI (XI (XI
    XH)))))))))))))) :: (((Npos (XO (XO (XO (XO (XO (XI (XO (XO (XI (XI (XI
    (XI XH))))))))))))), (Npos (XI (XO (XI (XO (XO (XO (XI (XO (XI (XI (XI
    (XI XH)))))))))))))) :: (((Npos (XO (XO (XO (XI (XO (XO (XI (XO (XI (XI
    (XI (XI XH))))))))))))), (Npos (XI (XO (XI (XI (XO (XO (XI (XO (XI (XI
    (XI (XI XH)))))))))))))) :: (((Npos (XO (XO (XO (XO (XI (XO (XI (XO (XI
    (XI (XI (XI XH))))))))))))), (Npos (XI (XI (XI (XO (XI (XO (XI (XO (XI
    (XI (XI (XI XH)))))))))))))) :: (((Npos (XI (XO (XO (XI (XI (XO (XI (XO
    (XI (XI (XI (XI XH))))))))))))), (Npos (XI (XO (XO (XI (XI (XO (XI (XO
    (XI (XI (XI (XI XH)))))))))))))) :: (((Npos (XI (XI (XO (XI (XI (XO (XI
    (XO (XI (XI (XI (XI XH))))))))))))), (Npos (XI (XI (XO (XI (XI (XO (XI
    (XO (XI (XI (XI (XI XH)))))))))))))) :: (((Npos (XI (XO (XI (XI (XI (XO
    (XI (XO (XI (XI (XI (XI XH))))))))))))), (Npos (XI (XO (XI (XI (XI (XO
    (XI (XO (XI (XI (XI (XI XH)))))))))))))) :: (((Npos (XI (XI (XI (XI (XI
    (XO (XI (XO (XI (XI (XI (XI XH))))))))))))), (Npos (XI (XO (XI (XI (XI
    (XI (XI (XO (XI (XI (XI (XI XH)))))))))))))) :: (((Npos (XO (XO (XO (XO
    (XO (XO (XO (XI (XI (XI (XI (XI XH))))))))))))), (Npos (XO (XO (XI (XO
    (XI (XI (XO (XI (XI (XI (XI (XI XH)))))))))))))) :: (((Npos (XO (XI (XI
    (XO (XI (XI (XO (XI (XI (XI (XI (XI XH))))))))))))), (Npos (XO (XO (XI
    (XI (XI (XI (XO (XI (XI (XI (XI (XI XH)))))))))))))) :: (((Npos (XO (XI
    (XI (XI (XI (XI (XO (XI (XI (XI (XI (XI XH))))))))))))), (Npos (XO (XI
    (XI (XI (XI (XI (XO (XI (XI (XI (XI (XI XH)))))))))))))) :: (((Npos (XO
    (XI (XO (XO (XO (XO (XI (XI (XI (XI (XI (XI XH))))))))))))), (Npos (XO
    (XO (XI (XO (XO (XO (XI (XI (XI (XI (XI (XI XH)))))))))))))) :: (((Npos
    (XO (XI (XI (XO (XO (XO (XI (XI (XI (XI (XI (XI XH))))))))))))), (Npos
    (XO (XO (XI (XI (XO (XO (XI (XI (XI (XI (XI (XI
    XH)))))))))))))) :: (((Npos (XO (XO (XO (XO (XI (XO (XI (XI (XI (XI (XI
    (XI XH))))))))))))), (Npos (XI (XI (XO (XO (XI (XO (XI (XI (XI (XI (XI
    (XI XH)))))))))))))) :: (((Npos (XO (XI (XI (XO (XI (XO (XI (XI (XI (XI
    (XI (XI XH))))))))))))), (Npos (XI (XI (XO (XI (XI (XO (XI (XI (XI (XI
    (XI (XI XH)))))))))))))) :: (((Npos (XO (XO (XO (XO (XO (XI (XI (XI (XI
    (XI (XI (XI XH))))))))))))), (Npos (XO (XO (XI (XI (XO (XI (XI (XI (XI
    (XI (XI (XI XH)))))))))))))) :: (((Npos (XO (XI (XO (XO (XI (XI (XI (XI
    (XI (XI (XI (XI XH))))))))))))), (Npos (XO (XO (XI (XO (XI (XI (XI (XI
    (XI (XI (XI (XI XH)))))))))))))) :: (((Npos (XO (XI (XI (XO (XI (XI (XI
    (XI (XI (XI (XI (XI XH))))))))))))), (Npos (XO (XO (XI (XI (XI (XI (XI
    (XI (XI (XI (XI (XI XH)))))))))))))) :: (((Npos (XO (XO (XO (XO (XI (XI
    (XI (XO (XO (XO (XO (XO (XO XH)))))))))))))), (Npos (XI (XO (XO (XO (XI
    (XI (XI (XO (XO (XO (XO (XO (XO XH))))))))))))))) :: (((Npos (XO (XO (XI
    (XO (XI (XI (XI (XO (XO (XO (XO (XO (XO XH)))))))))))))), (Npos (XI (XO
    (XO (XI (XI (XI (XI (XO (XO (XO (XO (XO (XO XH))))))))))))))) :: (((Npos
    (XI (XI (XI (XI (XI (XI (XI (XO (XO (XO (XO (XO (XO XH)))))))))))))),
    (Npos (XI (XO (XO (XI (XO (XO (XO (XI (XO (XO (XO (XO (XO
    XH))))))))))))))) :: (((Npos (XO (XO (XO (XO (XI (XO (XO (XI (XO (XO (XO
    (XO (XO XH)))))))))))))), (Npos (XO (XO (XI (XI (XI (XO (XO (XI (XO (XO
    (XO (XO (XO XH))))))))))))))) :: (((Npos (XO (XI (XO (XO (XO (XO (XO (XO
    (XI (XO (XO (XO (XO XH)))))))))))))), (Npos (XO (XI (XO (XO (XO (XO (XO
    (XO (XI (XO (XO (XO (XO XH))))))))))))))) :: (((Npos (XI (XI (XI (XO (XO
    (XO (XO (XO (XI (XO (XO (XO (XO XH)))))))))))))), (Npos (XI (XI (XI (XO
    (XO (XO (XO (XO (XI (XO (XO (XO (XO XH))))))))))))))) :: (((Npos (XO (XI
    (XO (XI (XO (XO (XO (XO (XI (XO (XO (XO (XO XH)))))))))))))), (Npos (XI
    (XI (XO (XO (XI (XO (XO (XO (XI (XO (XO (XO (XO
    XH))))))))))))))) :: (((Npos (XI (XO (XI (XO (XI (XO (XO (XO (XI (XO (XO
    (XO (XO XH)))))))))))))), (Npos (XI (XO (XI (XO (XI (XO (XO (XO (XI (XO
    (XO (XO (XO XH))))))))))))))) :: (((Npos (XI (XO (XO (XI (XI (XO (XO (XO
    (XI (XO (XO (XO (XO XH)))))))))))))), (Npos (XI (XO (XI (XI (XI (XO (XO
    (XO (XI (XO (XO (XO (XO XH))))))))))))))) :: (((Npos (XO (XO (XI (XO (XO
    (XI (XO (XO (XI (XO (XO (XO (XO XH)))))))))))))), (Npos (XO (XO (XI (XO
    (XO (XI (XO (XO (XI (XO (XO (XO (XO XH))))))))))))))) :: (((Npos (XO (XI
    (XI (XO (XO (XI (XO (XO (XI (XO (XO (XO (XO XH)))))))))))))), (Npos (XO
    (XI (XI (XO (XO (XI (XO (XO (XI (XO (XO (XO (XO
    XH))))))))))))))) :: (((Npos (XO (XO (XO (XI (XO (XI (XO (XO (XI (XO (XO
    (XO (XO XH)))))))))))))), (Npos (XO (XO (XO (XI (XO (XI (XO (XO (XI (XO
    (XO (XO (XO XH))))))))))))))) :: (((Npos (XO (XI (XO (XI (XO (XI (XO (XO
    (XI (XO (XO (XO (XO XH)))))))))))))), (Npos (XI (XO (XI (XI (XO (XI (XO
    (XO (XI (XO (XO (XO (XO XH))))))))))))))) :: (((Npos (XI (XI (XI (XI (XO
    (XI (XO (XO (XI (XO (XO (XO (XO XH)))))))))))))), (Npos (XI (XO (XO (XI
    (XI (XI (XO (XO (XI (XO (XO (XO (XO XH))))))))))))))) :: (((Npos (XO (XO
    (XI (XI (XI (XI (XO (XO (XI (XO (XO (XO (XO XH)))))))))))))), (Npos (XI
    (XI (XI (XI (XI (XI (XO (XO (XI (XO (XO (XO (XO
    XH))))))))))))))) :: (((Npos (XI (XO (XI (XO (XO (XO (XI (XO (XI (XO (XO
    (XO (XO XH)))))))))))))), (Npos (XI (XO (XO (XI (XO (XO (XI (XO (XI (XO
    (XO (XO (XO XH))))))))))))))) :: (((Npos (XO (XI (XI (XI (XO (XO (XI (XO
    (XI (XO (XO (XO (XO XH)))))))))))))), (Npos (XO (XI (XI (XI (XO (XO (XI
    (XO (XI (XO (XO (XO (XO XH))))))))))))))) :: (((Npos (XO (XO (XO (XO (XI
    (XO (XI (XO (XI (XO (XO (XO (XO XH)))))))))))))), (Npos (XI (XO (XO (XI
    (XO (XO (XO (XI (XI (XO (XO (XO (XO XH))))))))))))))) :: (((Npos (XO (XO
    (XO (XO (XO (XI (XI (XO (XO (XO (XI (XO (XO XH)))))))))))))), (Npos (XI
    (XI (XO (XI (XI (XO (XO (XI (XO (XO (XI (XO (XO
    XH))))))))))))))) :: (((Npos (XO (XI (XO (XI (XO (XI (XI (XI (XO (XO (XI
    (XO (XO XH)))))))))))))), (Npos (XI (XI (XI (XI (XI (XI (XI (XI (XO (XO
    (XI (XO (XO XH))))))))))))))) :: (((Npos (XO (XI (XI (XO (XI (XI (XI (XO
    (XI (XI (XI (XO (XO XH)))))))))))))), (Npos (XI (XI (XO (XO (XI (XO (XO
    (XI (XI (XI (XI (XO (XO XH))))))))))))))) :: (((Npos (XO (XO (XO (XO (XO
    (XO (XO (XO (XO (XO (XI (XI (XO XH)))))))))))))), (Npos (XO (XO (XI (XO
    (XO (XI (XI (XI (XO (XO (XI (XI (XO XH))))))))))))))) :: (((Npos (XI (XI
    (XO (XI (XO (XI (XI (XI (XO (XO (XI (XI (XO XH)))))))))))))), (Npos (XO
    (XI (XI (XI (XO (XI (XI (XI (XO (XO (XI (XI (XO
    XH))))))))))))))) :: (((Npos (XO (XI (XO (XO (XI (XI (XI (XI (XO (XO (XI
    (XI (XO XH)))))))))))))), (Npos (XI (XI (XO (XO (XI (XI (XI (XI (XO (XO
    (XI (XI (XO XH))))))))))))))) :: (((Npos (XI (XO (XI (XI (XI (XI (XI (XI
    (XO (XO (XI (XI (XO XH)))))))))))))), (Npos (XI (XO (XI (XI (XI (XI (XI
    (XI (XO (XO (XI (XI (XO XH))))))))))))))) :: (((Npos (XO (XO (XO (XO (XO
    (XO (XO (XO (XI (XO (XI (XI (XO XH)))))))))))))), (Npos (XI (XO (XI (XO
    (XO (XI (XO (XO (XI (XO (XI (XI (XO XH))))))))))))))) :: (((Npos (XI (XI
    (XI (XO (XO (XI (XO (XO (XI (XO (XI (XI (XO XH)))))))))))))), (Npos (XI
    (XI (XI (XO (XO (XI (XO (XO (XI (XO (XI (XI (XO
    XH))))))))))))))) :: (((Npos (XI (XO (XI (XI (XO (XI (XO (XO (XI (XO (XI
    (XI (XO XH)))))))))))))), (Npos (XI (XO (XI (XI (XO (XI (XO (XO (XI (XO
    (XI (XI (XO XH))))))))))))))) :: (((Npos (XO (XO (XO (XO (XI (XI (XO (XO
    (XI (XO (XI (XI (XO XH)))))))))))))), (Npos (XI (XI (XI (XO (XO (XI (XI
    (XO (XI (XO (XI (XI (XO XH))))))))))))))) :: (((Npos (XI (XI (XI (XI (XO
    (XI (XI (XO (XI (XO (XI (XI (XO XH)))))))))))))), (Npos (XI (XI (XI (XI
    (XO (XI (XI (XO (XI (XO (XI (XI (XO XH))))))))))))))) :: (((Npos (XO (XO
    (XO (XO (XO (XO (XO (XI (XI (XO (XI (XI (XO XH)))))))))))))), (Npos (XO
    (XI (XI (XO (XI (XO (XO (XI (XI (XO (XI (XI (XO
    XH))))))))))))))) :: (((Npos (XO (XO (XO (XO (XO (XI (XO (XI (XI (XO (XI
    (XI (XO XH)))))))))))))), (Npos (XO (XI (XI (XO (XO (XI (XO (XI (XI (XO
    (XI (XI (XO XH))))))))))))))) :: (((Npos (XO (XO (XO (XI (XO (XI (XO (XI
    (XI (XO (XI (XI (XO XH)))))))))))))), (Npos (XO (XI (XI (XI (XO (XI (XO
    (XI (XI (XO (XI (XI (XO XH))))))))))))))) :: (((Npos (XO (XO (XO (XO (XI
    (XI (XO (XI (XI (XO (XI (XI (XO XH)))))))))))))), (Npos (XO (XI (XI (XO
    (XI (XI (XO (XI (XI (XO (XI (XI (XO XH))))))))))))))) :: (((Npos (XO (XO
    (XO (XI (XI (XI (XO (XI (XI (XO (XI (XI (XO XH)))))))))))))), (Npos (XO
    (XI (XI (XI (XI (XI (XO (XI (XI (XO (XI (XI (XO
    XH))))))))))))))) :: (((Npos (XO (XO (XO (XO (XO (XO (XI (XI (XI (XO (XI
    (XI (XO XH)))))))))))))), (Npos (XO (XI (XI (XO (XO (XO (XI (XI (XI (XO
    (XI (XI (XO XH))))))))))))))) :: (((Npos (XO (XO (XO (XI (XO (XO (XI (XI
    (XI (XO (XI (XI (XO XH)))))))))))))), (Npos (XO (XI (XI (XI (XO (XO (XI
    (XI (XI (XO (XI (XI (XO XH))))))))))))))) :: (((Npos (XO (XO (XO (XO (XI
    (XO (XI (XI (XI (XO (XI (XI (XO XH)))))))))))))), (Npos (XO (XI (XI (XO
    (XI (XO (XI (XI (XI (XO (XI (XI (XO XH))))))))))))))) :: (((Npos (XO (XO
    (XO (XI (XI (XO (XI (XI (XI (XO (XI (XI (XO XH)))))))))))))), (Npos (XO
    (XI (XI (XI (XI (XO (XI (XI (XI (XO (XI (XI (XO
    XH))))))))))))))) :: (((Npos (XI (XI (XI (XI (XO (XI (XO (XO (XO (XI (XI
    (XI (XO XH)))))))))))))), (Npos (XI (XI (XI (XI (XO (XI (XO (XO (XO (XI
    (XI (XI (XO XH))))))))))))))) :: (((Npos (XI (XO (XI (XO (XO (XO (XO (XO
    (XO (XO (XO (XO (XI XH)))))))))))))), (Npos (XI (XI (XI (XO (XO (XO (XO
    (XO (XO (XO (XO (XO (XI XH))))))))))))))) :: (((Npos (XI (XO (XO (XO (XO
    (XI (XO (XO (XO (XO (XO (XO (XI XH)))))))))))))), (Npos (XI (XO (XO (XI
    (XO (XI (XO (XO (XO (XO (XO (XO (XI XH))))))))))))))) :: (((Npos (XI (XO
    (XO (XO (XI (XI (XO (XO (XO (XO (XO (XO (XI XH)))))))))))))), (Npos (XI
    (XO (XI (XO (XI (XI (XO (XO (XO (XO (XO (XO (XI
    XH))))))))))))))) :: (((Npos (XO (XO (XO (XI (XI (XI (XO (XO (XO (XO (XO
    (XO (XI XH)))))))))))))), (Npos (XO (XO (XI (XI (XI (XI (XO (XO (XO (XO
    (XO (XO (XI XH))))))))))))))) :: (((Npos (XI (XO (XO (XO (XO (XO (XI (XO
    (XO (XO (XO (XO (XI XH)))))))))))))), (Npos (XO (XI (XI (XO (XI (XO (XO
    (XI (XO (XO (XO (XO (XI XH))))))))))))))) :: (((Npos (XI (XO (XI (XI (XI
    (XO (XO (XI (XO (XO (XO (XO (XI XH)))))))))))))), (Npos (XI (XI (XI (XI
    (XI (XO (XO (XI (XO (XO (XO (XO (XI XH))))))))))))))) :: (((Npos (XI (XO
    (XO (XO (XO (XI (XO (XI (XO (XO (XO (XO (XI XH)))))))))))))), (Npos (XO
    (XI (XO (XI (XI (XI (XI (XI (XO (XO (XO (XO (XI
    XH))))))))))))))) :: (((Npos (XO (XO (XI (XI (XI (XI (XI (XI (XO (XO (XO
    (XO (XI XH)))))))))))))), (Npos (XI (XI (XI (XI (XI (XI (XI (XI (XO (XO
    (XO (XO (XI XH))))))))))))))) :: (((Npos (XI (XO (XI (XO (XO (XO (XO (XO
    (XI (XO (XO (XO (XI XH)))))))))))))), (Npos (XI (XI (XI (XI (XO (XI (XO
    (XO (XI (XO (XO (XO (XI XH))))))))))))))) :: (((Npos (XI (XO (XO (XO (XI
    (XI (XO (XO (XI (XO (XO (XO (XI XH)))))))))))))), (Npos (XO (XI (XI (XI
    (XO (XO (XO (XI (XI (XO (XO (XO (XI XH))))))))))))))) :: (((Npos (XO (XI
    (XO (XO (XI (XO (XO (XI (XI (XO (XO (XO (XI XH)))))))))))))), (Npos (XI
    (XO (XI (XO (XI (XO (XO (XI (XI (XO (XO (XO (XI
    XH))))))))))))))) :: (((Npos (XO (XO (XO (XO (XO (XI (XO (XI (XI (XO (XO
    (XO (XI XH)))))))))))))), (Npos (XI (XI (XI (XI (XI (XI (XO (XI (XI (XO
    (XO (XO (XI XH))))))))))))))) :: (((Npos (XO (XO (XO (XO (XI (XI (XI (XI
    (XI (XO (XO (XO (XI XH)))))))))))))), (Npos (XI (XI (XI (XI (XI (XI (XI
    (XI (XI (XO (XO (XO (XI XH))))))))))))))) :: (((Npos (XO (XO (XO (XO (XO
    (XI (XO (XO (XO (XI (XO (XO (XI XH)))))))))))))), (Npos (XI (XO (XO (XI
    (XO (XI (XO (XO (XO (XI (XO (XO (XI XH))))))))))))))) :: (((Npos (XO (XO
    (XO (XI (XO (XO (XI (XO (XO (XI (XO (XO (XI XH)))))))))))))), (Npos (XI
    (XI (XI (XI (XO (XO (XI (XO (XO (XI (XO (XO (XI
    XH))))))))))))))) :: (((Npos (XI (XO (XO (XO (XI (XO (XI (XO (XO (XI (XO
    (XO (XI XH)))))))))))))), (Npos (XI (XI (XI (XI (XI (XO (XI (XO (XO (XI
    (XO (XO (XI XH))))))))))))))) :: (((Npos (XO (XO (XO (XO (XO (XO (XO (XI
    (XO (XI (XO (XO (XI XH)))))))))))))), (Npos (XI (XO (XO (XI (XO (XO (XO
    (XI (XO (XI (XO (XO (XI XH))))))))))))))) :: (((Npos (XI (XO (XO (XO (XI
    (XI (XO (XI (XO (XI (XO (XO (XI XH)))))))))))))), (Npos (XI (XI (XI (XI
    (XI (XI (XO (XI (XO (XI (XO (XO (XI XH))))))))))))))) :: (((Npos (XO (XO
    (XO (XO (XO (XO (XO (XO (XO (XO (XI (XO (XI XH)))))))))))))), (Npos (XI
    (XI (XI (XI (XI (XI (XO (XI (XI (XO (XI (XI (XO (XO
    XH)))))))))))))))) :: (((Npos (XO (XO (XO (XO (XO (XO (XO (XO (XO (XI (XI
    (XI (XO (XO XH))))))))))))))), (Npos (XO (XO (XI (XI (XO (XO (XO (XI (XO
    (XO (XI (XO (XO (XI (XO XH))))))))))))))))) :: (((Npos (XO (XO (XO (XO
    (XI (XO (XI (XI (XO (XO (XI (XO (XO (XI (XO XH)))))))))))))))), (Npos (XI
    (XO (XI (XI (XI (XI (XI (XI (XO (XO (XI (XO (XO (XI (XO
    XH))))))))))))))))) :: (((Npos (XO (XO (XO (XO (XO (XO (XO (XO (XI (XO
    (XI (XO (XO (XI (XO XH)))))))))))))))), (Npos (XO (XO (XI (XI (XO (XO (XO
    (XO (XO (XI (XI (XO (XO (XI (XO XH))))))))))))))))) :: (((Npos (XO (XO
    (XO (XO (XI (XO (XO (XO (XO (XI (XI (XO (XO (XI (XO XH)))))))))))))))),
    (Npos (XI (XI (XO (XI (XO (XI (XO (XO (XO (XI (XI (XO (XO (XI (XO
    XH))))))))))))))))) :: (((Npos (XO (XO (XO (XO (XO (XO (XI (XO (XO (XI
    (XI (XO (XO (XI (XO XH)))))))))))))))), (Npos (XO (XI (XI (XI (XO (XI (XI
    (XO (XO (XI (XI (XO (XO (XI (XO XH))))))))))))))))) :: (((Npos (XI (XI
    (XI (XI (XI (XI (XI (XO (XO (XI (XI (XO (XO (XI (XO XH)))))))))))))))),
    (Npos (XI (XO (XI (XI (XI (XO (XO (XI (XO (XI (XI (XO (XO (XI (XO
    XH))))))))))))))))) :: (((Npos (XO (XO (XO (XO (XO (XI (XO (XI (XO (XI
    (XI (XO (XO (XI (XO XH)))))))))))))))), (Npos (XI (XI (XI (XI (XO (XI (XI
    (XI (XO (XI (XI (XO (XO (XI (XO XH))))))))))))))))) :: (((Npos (XI (XI
    (XI (XO (XI (XO (XO (XO (XI (XI (XI (XO (XO (XI (XO XH)))))))))))))))),
    (Npos (XI (XI (XI (XI (XI (XO (XO (XO (XI (XI (XI (XO (XO (XI (XO
    XH))))))))))))))))) :: (((Npos (XO (XI (XO (XO (XO (XI (XO (XO (XI (XI
    (XI (XO (XO (XI (XO XH)))))))))))))))), (Npos (XO (XO (XO (XI (XO (XO (XO
    (XI (XI (XI (XI (XO (XO (XI (XO XH))))))))))))))))) :: (((Npos (XI (XI
    (XO (XI (XO (XO (XO (XI (XI (XI (XI (XO (XO (XI (XO XH)))))))))))))))),
    (Npos (XO (XI (XO (XI (XO (XO (XI (XI (XI (XI (XI (XO (XO (XI (XO
    XH))))))))))))))))) :: (((Npos (XO (XO (XO (XO (XI (XO (XI (XI (XI (XI
    (XI (XO (XO (XI (XO XH)))))))))))))))), (Npos (XI (XO (XO (XO (XI (XO (XI
    (XI (XI (XI (XI (XO (XO (XI (XO XH))))))))))))))))) :: (((Npos (XI (XI
    (XO (XO (XI (XO (XI (XI (XI (XI (XI (XO (XO (XI (XO XH)))))))))))))))),
    (Npos (XI (XI (XO (XO (XI (XO (XI (XI (XI (XI (XI (XO (XO (XI (XO
    XH))))))))))))))))) :: (((Npos (XI (XO (XI (XO (XI (XO (XI (XI (XI (XI
    (XI (XO (XO (XI (XO XH)))))))))))))))), (Npos (XI (XO (XO (XI (XI (XO (XI
    (XI (XI (XI (XI (XO (XO (XI (XO XH))))))))))))))))) :: (((Npos (XO (XI
    (XO (XO (XI (XI (XI (XI (XI (XI (XI (XO (XO (XI (XO XH)))))))))))))))),
    (Npos (XI (XO (XO (XO (XO (XO (XO (XO (XO (XO (XO (XI (XO (XI (XO
    XH))))))))))))))))) :: (((Npos (XI (XI (XO (XO (XO (XO (XO (XO (XO (XO
    (XO (XI (XO (XI (XO XH)))))))))))))))), (Npos (XI (XO (XI (XO (XO (XO (XO
    (XO (XO (XO (XO (XI (XO (XI (XO XH))))))))))))))))) :: (((Npos (XI (XI
    (XI (XO (XO (XO (XO (XO (XO (XO (XO (XI (XO (XI (XO XH)))))))))))))))),
    (Npos (XO (XI (XO (XI (XO (XO (XO (XO (XO (XO (XO (XI (XO (XI (XO
    XH))))))))))))))))) :: (((Npos (XO (XO (XI (XI (XO (XO (XO (XO (XO (XO
    (XO (XI (XO (XI (XO XH)))))))))))))))), (Npos (XO (XI (XO (XO (XO (XI (XO
    (XO (XO (XO (XO (XI (XO (XI (XO XH))))))))))))))))) :: (((Npos (XO (XO
    (XO (XO (XI (XI (XO (XO (XO (XO (XO (XI (XO (XI (XO XH)))))))))))))))),
    (Npos (XI (XO (XI (XO (XI (XI (XO (XO (XO (XO (XO (XI (XO (XI (XO
    XH))))))))))))))))) :: (((Npos (XO (XO (XO (XO (XO (XO (XI (XO (XO (XO
    (XO (XI (XO (XI (XO XH)))))))))))))))), (Npos (XI (XI (XO (XO (XI (XI (XI
    (XO (XO (XO (XO (XI (XO (XI (XO XH))))))))))))))))) :: (((Npos (XO (XI
    (XO (XO (XO (XO (XO (XI (XO (XO (XO (XI (XO (XI (XO XH)))))))))))))))),
    (Npos (XI (XI (XO (XO (XI (XI (XO (XI (XO (XO (XO (XI (XO (XI (XO
    XH))))))))))))))))) :: (((Npos (XO (XO (XO (XO (XI (XO (XI (XI (XO (XO
    (XO (XI (XO (XI (XO XH)))))))))))))))), (Npos (XI (XO (XO (XI (XI (XO (XI
    (XI (XO (XO (XO (XI (XO (XI (XO XH))))))))))))))))) :: (((Npos (XO (XI
    (XO (XO (XI (XI (XI (XI (XO (XO (XO (XI (XO (XI (XO XH)))))))))))))))),
    (Npos (XI (XI (XI (XO (XI (XI (XI (XI (XO (XO (XO (XI (XO (XI (XO
    XH))))))))))))))))) :: (((Npos (XI (XI (XO (XI (XI (XI (XI (XI (XO (XO
    (XO (XI (XO (XI (XO XH)))))))))))))))), (Npos (XI (XI (XO (XI (XI (XI (XI
    (XI (XO (XO (XO (XI (XO (XI (XO XH))))))))))))))))) :: (((Npos (XI (XO
    (XI (XI (XI (XI (XI (XI (XO (XO (XO (XI (XO (XI (XO XH)))))))))))))))),
    (Npos (XO (XI (XI (XI (XI (XI (XI (XI (XO (XO (XO (XI (XO (XI (XO
    XH))))))))))))))))) :: (((Npos (XO (XO (XO (XO (XO (XO (XO (XO (XI (XO
    (XO (XI (XO (XI (XO XH)))))))))))))))), (Npos (XI (XO (XI (XO (XO (XI (XO
    (XO (XI (XO (XO (XI (XO (XI (XO XH))))))))))))))))) :: (((Npos (XO (XO
    (XO (XO (XI (XI (XO (XO (XI (XO (XO (XI (XO (XI (XO XH)))))))))))))))),
    (Npos (XO (XI (XI (XO (XO (XO (XI (XO (XI (XO (XO (XI (XO (XI (XO
    XH))))))))))))))))) :: (((Npos (XO (XO (XO (XO (XO (XI (XI (XO (XI (XO
    (XO (XI (XO (XI (XO XH)))))))))))))))), (Npos (XO (XO (XI (XI (XI (XI (XI
    (XO (XI (XO (XO (XI (XO (XI (XO XH))))))))))))))))) :: (((Npos (XO (XO
    (XI (XO (XO (XO (XO (XI (XI (XO (XO (XI (XO (XI (XO XH)))))))))))))))),
    (Npos (XO (XI (XO (XO (XI (XI (XO (XI (XI (XO (XO (XI (XO (XI (XO
    XH))))))))))))))))) :: (((Npos (XI (XI (XI (XI (XO (XO (XI (XI (XI (XO
    (XO (XI (XO (XI (XO XH)))))))))))))))), (Npos (XI (XO (XO (XI (XI (XO (XI
    (XI (XI (XO (XO (XI (XO (XI (XO XH))))))))))))))))) :: (((Npos (XO (XO
    (XO (XO (XO (XI (XI (XI (XI (XO (XO (XI (XO (XI (XO XH)))))))))))))))),
    (Npos (XO (XO (XI (XO (XO (XI (XI (XI (XI (XO (XO (XI (XO (XI (XO
    XH))))))))))))))))) :: (((Npos (XO (XI (XI (XO (XO (XI (XI (XI (XI (XO
    (XO (XI (XO (XI (XO XH)))))))))))))))), (Npos (XO (XI (XI (XI (XI (XI (XI
    (XI (XI (XO (XO (XI (XO (XI (XO XH))))))))))))))))) :: (((Npos (XO (XO
    (XO (XO (XO (XO (XO (XO (XO (XI (XO (XI (XO (XI (XO XH)))))))))))))))),
    (Npos (XO (XO (XO (XI (XO (XI (XO (XO (XO (XI (XO (XI (XO (XI (XO
    XH))))))))))))))))) :: (((Npos (XO (XO (XO (XO (XO (XO (XI (XO (XO (XI
    (XO (XI (XO (XI (XO XH)))))))))))))))), (Npos (XO (XI (XO (XO (XO (XO (XI
    (XO (XO (XI (XO (XI (XO (XI (XO XH))))))))))))))))) :: (((Npos (XO (XO
    (XI (XO (XO (XO (XI (XO (XO (XI (XO (XI (XO (XI (XO XH)))))))))))))))),
    (Npos (XI (XI (XO (XI (XO (XO (XI (XO (XO (XI (XO (XI (XO (XI (XO
    XH))))))))))))))))) :: (((Npos (XO (XO (XO (XO (XI (XO (XI (XO (XO (XI
    (XO (XI (XO (XI (XO XH)))))))))))))))), (Npos (XI (XO (XO (XI (XI (XO (XI
    (XO (XO (XI (XO (XI (XO (XI (XO XH))))))))))))))))) :: (((Npos (XO (XO
    (XO (XO (XO (XI (XI (XO (XO (XI (XO (XI (XO (XI (XO XH)))))))))))))))),
    (Npos (XO (XI (XI (XO (XI (XI (XI (XO (XO (XI (XO (XI (XO (XI (XO
    XH))))))))))))))))) :: (((Npos (XO (XI (XO (XI (XI (XI (XI (XO (XO (XI
    (XO (XI (XO (XI (XO XH)))))))))))))))), (Npos (XO (XI (XO (XI (XI (XI (XI
    (XO (XO (XI (XO (XI (XO (XI (XO XH))))))))))))))))) :: (((Npos (XO (XI
    (XI (XI (XI (XI (XI (XO (XO (XI (XO (XI (XO (XI (XO XH)))))))))))))))),
    (Npos (XI (XI (XI (XI (XO (XI (XO (XI (XO (XI (XO (XI (XO (XI (XO
    XH))))))))))))))))) :: (((Npos (XI (XO (XO (XO (XI (XI (XO (XI (XO (XI
    (XO (XI (XO (XI (XO XH)))))))))))))))), (Npos (XI (XO (XO (XO (XI (XI (XO
    (XI (XO (XI (XO (XI (XO (XI (XO XH))))))))))))))))) :: (((Npos (XI (XO
    (XI (XO (XI (XI (XO (XI (XO (XI (XO (XI (XO (XI (XO XH)))))))))))))))),
    (Npos (XO (XI (XI (XO (XI (XI (XO (XI (XO (XI (XO (XI (XO (XI (XO
    XH))))))))))))))))) :: (((Npos (XI (XO (XO (XI (XI (XI (XO (XI (XO (XI
    (XO (XI (XO (XI (XO XH)))))))))))))))), (Npos (XI (XO (XI (XI (XI (XI (XO
    (XI (XO (XI (XO (XI (XO (XI (XO XH))))))))))))))))) :: (((Npos (XO (XO
    (XO (XO (XO (XO (XI (XI (XO (XI (XO (XI (XO (XI (XO XH)))))))))))))))),
    (Npos (XO (XO (XO (XO (XO (XO (XI (XI (XO (XI (XO (XI (XO (XI (XO
    XH))))))))))))))))) :: (((Npos (XO (XI (XO (XO (XO (XO (XI (XI (XO (XI
    (XO (XI (XO (XI (XO XH)))))))))))))))), (Npos (XO (XI (XO (XO (XO (XO (XI
    (XI (XO (XI (XO (XI (XO (XI (XO XH))))))))))))))))) :: (((Npos (XI (XI
    (XO (XI (XI (XO (XI (XI (XO (XI (XO (XI (XO (XI (XO XH)))))))))))))))),
    (Npos (XI (XO (XI (XI (XI (XO (XI (XI (XO (XI (XO (XI (XO (XI (XO
    XH))))))))))))))))) :: (((Npos (XO (XO (XO (XO (XO (XI (XI (XI (XO (XI
    (XO (XI (XO (XI (XO XH)))))))))))))))), (Npos (XO (XI (XO (XI (XO (XI (XI
    (XI (XO (XI (XO (XI (XO (XI (XO XH))))))))))))))))) :: (((Npos (XO (XI
    (XO (XO (XI (XI (XI (XI (XO (XI (XO (XI (XO (XI (XO XH)))))))))))))))),
    (Npos (XO (XO (XI (XO (XI (XI (XI (XI (XO (XI (XO (XI (XO (XI (XO
    XH))))))))))))))))) :: (((Npos (XI (XO (XO (XO (XO (XO (XO (XO (XI (XI
    (XO (XI (XO (XI (XO XH)))))))))))))))), (Npos (XO (XI (XI (XO (XO (XO (XO
    (XO (XI (XI (XO (XI (XO (XI (XO XH))))))))))))))))) :: (((Npos (XI (XO
    (XO (XI (XO (XO (XO (XO (XI (XI (XO (XI (XO (XI (XO XH)))))))))))))))),
    (Npos (XO (XI (XI (XI (XO (XO (XO (XO (XI (XI (XO (XI (XO (XI (XO
    XH))))))))))))))))) :: (((Npos (XI (XO (XO (XO (XI (XO (XO (XO (XI (XI
    (XO (XI (XO (XI (XO XH)))))))))))))))), (Npos (XO (XI (XI (XO (XI (XO (XO
    (XO (XI (XI (XO (XI (XO (XI (XO XH))))))))))))))))) :: (((Npos (XO (XO
    (XO (XO (XO (XI (XO (XO (XI (XI (XO (XI (XO (XI (XO XH)))))))))))))))),
    (Npos (XO (XI (XI (XO (XO (XI (XO (XO (XI (XI (XO (XI (XO (XI (XO
    XH))))))))))))))))) :: (((Npos (XO (XO (XO (XI (XO (XI (XO (XO (XI (XI
    (XO (XI (XO (XI (XO XH)))))))))))))))), (Npos (XO (XI (XI (XI (XO (XI (XO
    (XO (XI (XI (XO (XI (XO (XI (XO XH))))))))))))))))) :: (((Npos (XO (XO
    (XO (XO (XI (XI (XO (XO (XI (XI (XO (XI (XO (XI (XO XH)))))))))))))))),
    (Npos (XO (XI (XO (XI (XI (XO (XI (XO (XI (XI (XO (XI (XO (XI (XO
    XH))))))))))))))))) :: (((Npos (XO (XO (XI (XI (XI (XO (XI (XO (XI (XI
    (XO (XI (XO (XI (XO XH)))))))))))))))), (Npos (XI (XO (XO (XI (XO (XI (XI
    (XO (XI (XI (XO (XI (XO (XI (XO XH))))))))))))))))) :: (((Npos (XO (XO
    (XO (XO (XI (XI (XI (XO (XI (XI (XO (XI (XO (XI (XO XH)))))))))))))))),
    (Npos (XO (XI (XO (XO (XO (XI (XI (XI (XI (XI (XO (XI (XO (XI (XO
    XH))))))))))))))))) :: (((Npos (XO (XO (XO (XO (XI (XI (XI (XI (XI (XI
    (XO (XI (XO (XI (XO XH)))))))))))))))), (Npos (XI (XO (XO (XI (XI (XI (XI
    (XI (XI (XI (XO (XI (XO (XI (XO XH))))))))))))))))) :: (((Npos (XO (XO
    (XO (XO (XO (XO (XO (XO (XO (XO (XI (XI (XO (XI (XO XH)))))))))))))))),
    (Npos (XI (XI (XO (XO (XO (XI (XO (XI (XI (XI (XI (XO (XI (XO (XI
    XH))))))))))))))))) :: (((Npos (XO (XO (XO (XO (XI (XI (XO (XI (XI (XI
    (XI (XO (XI (XO (XI XH)))))))))))))))), (Npos (XO (XI (XI (XO (XO (XO (XI
    (XI (XI (XI (XI (XO (XI (XO (XI XH))))))))))))))))) :: (((Npos (XI (XI
    (XO (XI (XO (XO (XI (XI (XI (XI (XI (XO (XI (XO (XI XH)))))))))))))))),
    (Npos (XI (XI (XO (XI (XI (XI (XI (XI (XI (XI (XI (XO (XI (XO (XI
    XH))))))))))))))))) :: (((Npos (XO (XO (XO (XO (XO (XO (XO (XO (XI (XO
    (XO (XI (XI (XI (XI XH)))))))))))))))), (Npos (XI (XO (XI (XI (XO (XI (XI
    (XO (XO (XI (XO (XI (XI (XI (XI XH))))))))))))))))) :: (((Npos (XO (XO
    (XO (XO (XI (XI (XI (XO (XO (XI (XO (XI (XI (XI (XI XH)))))))))))))))),
    (Npos (XI (XO (XO (XI (XI (XO (XI (XI (XO (XI (XO (XI (XI (XI (XI
    XH))))))))))))))))) :: (((Npos (XO (XO (XO (XO (XO (XO (XO (XO (XI (XI
    (XO (XI (XI (XI (XI XH)))))))))))))))), (Npos (XO (XI (XI (XO (XO (XO (XO
    (XO (XI (XI (XO (XI (XI (XI (XI XH))))))))))))))))) :: (((Npos (XI (XI
    (XO (XO (XI (XO (XO (XO (XI (XI (XO (XI (XI (XI (XI XH)))))))))))))))),
    (Npos (XI (XI (XI (XO (XI (XO (XO (XO (XI (XI (XO (XI (XI (XI (XI
    XH))))))))))))))))) :: (((Npos (XI (XO (XI (XI (XI (XO (XO (XO (XI (XI
    (XO (XI (XI (XI (XI XH)))))))))))))))), (Npos (XI (XO (XI (XI (XI (XO (XO
    (XO (XI (XI (XO (XI (XI (XI (XI XH))))))))))))))))) :: (((Npos (XI (XI
    (XI (XI (XI (XO (XO (XO (XI (XI (XO (XI (XI (XI (XI XH)))))))))))))))),
    (Npos (XO (XO (XO (XI (XO (XI (XO (XO (XI (XI (XO (XI (XI (XI (XI
    XH))))))))))))))))) :: (((Npos (XO (XI (XO (XI (XO (XI (XO (XO (XI (XI
    (XO (XI (XI (XI (XI XH)))))))))))))))), (Npos (XO (XI (XI (XO (XI (XI (XO
    (XO (XI (XI (XO (XI (XI (XI (XI XH))))))))))))))))) :: (((Npos (XO (XO
    (XO (XI (XI (XI (XO (XO (XI (XI (XO (XI (XI (XI (XI XH)))))))))))))))),
    (Npos (XO (XO (XI (XI (XI (XI (XO (XO (XI (XI (XO (XI (XI (XI (XI
    XH))))))))))))))))) :: (((Npos (XO (XI (XI (XI (XI (XI (XO (XO (XI (XI
    (XO (XI (XI (XI (XI XH)))))))))))))))), (Npos (XO (XI (XI (XI (XI (XI (XO
    (XO (XI (XI (XO (XI (XI (XI (XI XH))))))))))))))))) :: (((Npos (XO (XO
    (XO (XO (XO (XO (XI (XO (XI (XI (XO (XI (XI (XI (XI XH)))))))))))))))),
    (Npos (XI (XO (XO (XO (XO (XO (XI (XO (XI (XI (XO (XI (XI (XI (XI
    XH))))))))))))))))) :: (((Npos (XI (XI (XO (XO (XO (XO (XI (XO (XI (XI
    (XO (XI (XI (XI (XI XH)))))))))))))))), (Npos (XO (XO (XI (XO (XO (XO (XI
    (XO (XI (XI (XO (XI (XI (XI (XI XH))))))))))))))))) :: (((Npos (XO (XI
    (XI (XO (XO (XO (XI (XO (XI (XI (XO (XI (XI (XI (XI XH)))))))))))))))),
    (Npos (XI (XO (XO (XO (XI (XI (XO (XI (XI (XI (XO (XI (XI (XI (XI
    XH))))))))))))))))) :: (((Npos (XI (XI (XO (XO (XI (XO (XI (XI (XI (XI
    (XO (XI (XI (XI (XI XH)))))))))))))))), (Npos (XI (XO (XI (XI (XI (XI (XO
    (XO (XI (XO (XI (XI (XI (XI (XI XH))))))))))))))))) :: (((Npos (XO (XO
    (XO (XO (XI (XO (XI (XO (XI (XO (XI (XI (XI (XI (XI XH)))))))))))))))),
    (Npos (XI (XI (XI (XI (XO (XO (XO (XI (XI (XO (XI (XI (XI (XI (XI
    XH))))))))))))))))) :: (((Npos (XO (XI (XO (XO (XI (XO (XO (XI (XI (XO
    (XI (XI (XI (XI (XI XH)))))))))))))))), (Npos (XI (XI (XI (XO (XO (XO (XI
    (XI (XI (XO (XI (XI (XI (XI (XI XH))))))))))))))))) :: (((Npos (XO (XO
    (XO (XO (XI (XI (XI (XI (XI (XO (XI (XI (XI (XI (XI XH)))))))))))))))),
    (Npos (XI (XI (XO (XI (XI (XI (XI (XI (XI (XO (XI (XI (XI (XI (XI
    XH))))))))))))))))) :: (((Npos (XO (XO (XO (XO (XI (XI (XI (XO (XO (XI
    (XI (XI (XI (XI (XI XH)))))))))))))))), (Npos (XO (XO (XI (XO (XI (XI (XI
    (XO (XO (XI (XI (XI (XI (XI (XI XH))))))))))))))))) :: (((Npos (XO (XI
    (XI (XO (XI (XI (XI (XO (XO (XI (XI (XI (XI (XI (XI XH)))))))))))))))),
    (Npos (XO (XO (XI (XI (XI (XI (XI (XI (XO (XI (XI (XI (XI (XI (XI
    XH))))))))))))))))) :: (((Npos (XO (XO (XO (XO (XI (XO (XO (XO (XI (XI
    (XI (XI (XI (XI (XI XH)))))))))))))))), (Npos (XI (XO (XO (XI (XI (XO (XO
    (XO (XI (XI (XI (XI (XI (XI (XI XH))))))))))))))))) :: (((Npos (XI (XO
    (XO (XO (XO (XI (XO (XO (XI (XI (XI (XI (XI (XI (XI XH)))))))))))))))),
    (Npos (XO (XI (XO (XI (XI (XI (XO (XO (XI (XI (XI (XI (XI (XI (XI
    XH))))))))))))))))) :: (((Npos (XI (XO (XO (XO (XO (XO (XI (XO (XI (XI
    (XI (XI (XI (XI (XI XH)))))))))))))))), (Npos (XO (XI (XO (XI (XI (XO (XI
    (XO (XI (XI (XI (XI (XI (XI (XI XH))))))))))))))))) :: (((Npos (XO (XI
    (XI (XO (XO (XI (XI (XO (XI (XI (XI (XI (XI (XI (XI XH)))))))))))))))),
    (Npos (XO (XI (XI (XI (XI (XI (XO (XI (XI (XI (XI (XI (XI (XI (XI
    XH))))))))))))))))) :: (((Npos (XO (XI (XO (XO (XO (XO (XI (XI (XI (XI
    (XI (XI (XI (XI (XI XH)))))))))))))))), (Npos (XI (XI (XI (XO (XO (XO (XI
    (XI (XI (XI (XI (XI (XI (XI (XI XH))))))))))))))))) :: (((Npos (XO (XI
    (XO (XI (XO (XO (XI (XI (XI (XI (XI (XI (XI (XI (XI XH)))))))))))))))),
    (Npos (XI (XI (XI (XI (XO (XO (XI (XI (XI (XI (XI (XI (XI (XI (XI
    XH))))))))))))))))) :: (((Npos (XO (XI (XO (XO (XI (XO (XI (XI (XI (XI
    (XI (XI (XI (XI (XI XH)))))))))))))))), (Npos (XI (XI (XI (XO (XI (XO (XI
    (XI (XI (XI (XI (XI (XI (XI (XI XH))))))))))))))))) :: (((Npos (XO (XI
    (XO (XI (XI (XO (XI (XI (XI (XI (XI (XI (XI (XI (XI XH)))))))))))))))),
    (Npos (XO (XO (XI (XI (XI (XO (XI (XI (XI (XI (XI (XI (XI (XI (XI
    XH))))))))))))))))) :: (((Npos (XO (XO (XO (XO (XO (XO (XO (XO (XO (XO
    (XO (XO (XO (XO (XO (XO XH))))))))))))))))), (Npos (XI (XI (XO (XI (XO
    (XO (XO (XO (XO (XO (XO (XO (XO (XO (XO (XO
    XH)))))))))))))))))) :: (((Npos (XI (XO (XI (XI (XO (XO (XO (XO (XO (XO
    (XO (XO (XO (XO (XO (XO XH))))))))))))))))), (Npos (XO (XI (XI (XO (XO
    (XI (XO (XO (XO (XO (XO (XO (XO (XO (XO (XO
    XH)))))))))))))))))) :: (((Npos (XO (XO (XO (XI (XO (XI (XO (XO (XO (XO
    (XO (XO (XO (XO (XO (XO XH))))))))))))))))), (Npos (XO (XI (XO (XI (XI
    (XI (XO (XO (XO (XO (XO (XO (XO (XO (XO (XO
    XH)))))))))))))))))) :: (((Npos (XO (XO (XI (XI (XI (XI (XO (XO (XO (XO
    (XO (XO (XO (XO (XO (XO XH))))))))))))))))), (Npos (XI (XO (XI (XI (XI
    (XI (XO (XO (XO (XO (XO (XO (XO (XO (XO (XO
    XH)))))))))))))))))) :: (((Npos (XI (XI (XI (XI (XI (XI (XO (XO (XO (XO
    (XO (XO (XO (XO (XO (XO XH))))))))))))))))), (Npos (XI (XO (XI (XI (XO
    (XO (XI (XO (XO (XO (XO (XO (XO (XO (XO (XO
    XH)))))))))))))))))) :: (((Npos (XO (XO (XO (XO (XI (XO (XI (XO (XO (XO
    (XO (XO (XO (XO (XO (XO XH))))))))))))))))), (Npos (XI (XO (XI (XI (XI
    (XO (XI (XO (XO (XO (XO (XO (XO (XO (XO (XO
    XH)))))))))))))))))) :: (((Npos (XO (XO (XO (XO (XO (XO (XO (XI (XO (XO
    (XO (XO (XO (XO (XO (XO XH))))))))))))))))), (Npos (XO (XI (XO (XI (XI
    (XI (XI (XI (XO (XO (XO (XO (XO (XO (XO (XO
    XH)))))))))))))))))) :: (((Npos (XI (XI (XI (XO (XO (XO (XO (XO (XI (XO
    (XO (XO (XO (XO (XO (XO XH))))))))))))))))), (Npos (XI (XI (XO (XO (XI
    (XI (XO (XO (XI (XO (XO (XO (XO (XO (XO (XO
    XH)))))))))))))))))) :: (((Npos (XO (XO (XO (XO (XO (XO (XI (XO (XI (XO
    (XO (XO (XO (XO (XO (XO XH))))))))))))))))), (Npos (XO (XO (XO (XI (XI
    (XI (XI (XO (XI (XO (XO (XO (XO (XO (XO (XO
    XH)))))))))))))))))) :: (((Npos (XO (XI (XO (XI (XO (XO (XO (XI (XI (XO
    (XO (XO (XO (XO (XO (XO XH))))))))))))))))), (Npos (XI (XI (XO (XI (XO
    (XO (XO (XI (XI (XO (XO (XO (XO (XO (XO (XO
    XH)))))))))))))))))) :: (((Npos (XO (XO (XO (XO (XO (XO (XO (XI (XO (XI
    (XO (XO (XO (XO (XO (XO XH))))))))))))))))), (Npos (XO (XO (XI (XI (XI
    (XO (XO (XI (XO (XI (XO (XO (XO (XO (XO (XO
    XH)))))))))))))))))) :: (((Npos (XO (XO (XO (XO (XO (XI (XO (XI (XO (XI
    (XO (XO (XO (XO (XO (XO XH))))))))))))))))), (Npos (XO (XO (XO (XO (XI
    (XO (XI (XI (XO (XI (XO (XO (XO (XO (XO (XO
    XH)))))))))))))))))) :: (((Npos (XI (XO (XO (XO (XO (XI (XI (XI (XO (XI
    (XO (XO (XO (XO (XO (XO XH))))))))))))))))), (Npos (XI (XI (XO (XI (XI
    (XI (XI (XI (XO (XI (XO (XO (XO (XO (XO (XO
    XH)))))))))))))))))) :: (((Npos (XO (XO (XO (XO (XO (XO (XO (XO (XI (XI
    (XO (XO (XO (XO (XO (XO XH))))))))))))))))), (Npos (XI (XI (XO (XO (XO
    (XI (XO (XO (XI (XI (XO (XO (XO (XO (XO (XO
    XH)))))))))))))))))) :: (((Npos (XI (XO (XI (XI (XO (XI (XO (XO (XI (XI
    (XO (XO (XO (XO (XO (XO XH))))))))))))))))), (Npos (XO (XI (XO (XI (XO
    (XO (XI (XO (XI (XI (XO (XO (XO (XO (XO (XO
    XH)))))))))))))))))) :: (((Npos (XO (XO (XO (XO (XI (XO (XI (XO (XI (XI
    (XO (XO (XO (XO (XO (XO XH))))))))))))))))), (Npos (XI (XO (XI (XO (XI
    (XI (XI (XO (XI (XI (XO (XO (XO (XO (XO (XO
    XH)))))))))))))))))) :: (((Npos (XO (XO (XO (XO (XO (XO (XO (XI (XI (XI
    (XO (XO (XO (XO (XO (XO XH))))))))))))))))), (Npos (XI (XO (XI (XI (XI
    (XO (XO (XI (XI (XI (XO (XO (XO (XO (XO (XO
    XH)))))))))))))))))) :: (((Npos (XO (XO (XO (XO (XO (XI (XO (XI (XI (XI
    (XO (XO (XO (XO (XO (XO XH))))))))))))))))), (Npos (XI (XI (XO (XO (XO
    (XO (XI (XI (XI (XI (XO (XO (XO (XO (XO (XO
    XH)))))))))))))))))) :: (((Npos (XO (XO (XO (XI (XO (XO (XI (XI (XI (XI
    (XO (XO (XO (XO (XO (XO XH))))))))))))))))), (Npos (XI (XI (XI (XI (XO
    (XO (XI (XI (XI (XI (XO (XO (XO (XO (XO (XO
    XH)))))))))))))))))) :: (((Npos (XI (XO (XO (XO (XI (XO (XI (XI (XI (XI
    (XO (XO (XO (XO (XO (XO XH))))))))))))))))), (Npos (XI (XO (XI (XO (XI
    (XO (XI (XI (XI (XI (XO (XO (XO (XO (XO (XO
    XH)))))))))))))))))) :: (((Npos (XO (XO (XO (XO (XO (XO (XO (XO (XO (XO
    (XI (XO (XO (XO (XO (XO XH))))))))))))))))), (Npos (XI (XO (XI (XI (XI
    (XO (XO (XI (XO (XO (XI (XO (XO (XO (XO (XO
    XH)))))))))))))))))) :: (((Npos (XO (XO (XO (XO (XO (XI (XO (XI (XO (XO
    (XI (XO (XO (XO (XO (XO XH))))))))))))))))), (Npos (XI (XO (XO (XI (XO
    (XI (XO (XI (XO (XO (XI (XO (XO (XO (XO (XO
    XH)))))))))))))))))) :: (((Npos (XO (XO (XO (XO (XI (XI (XO (XI (XO (XO
    (XI (XO (XO (XO (XO (XO XH))))))))))))))))), (Npos (XI (XI (XO (XO (XI
    (XO (XI (XI (XO (XO (XI (XO (XO (XO (XO (XO
    XH)))))))))))))))))) :: (((Npos (XO (XO (XO (XI (XI (XO (XI (XI (XO (XO
    (XI (XO (XO (XO (XO (XO XH))))))))))))))))), (Npos (XI (XI (XO (XI (XI
    (XI (XI (XI (XO (XO (XI (XO (XO (XO (XO (XO
    XH)))))))))))))))))) :: (((Npos (XO (XO (XO (XO (XO (XO (XO (XO (XI (XO
    (XI (XO (XO (XO (XO (XO XH))))))))))))))))), (Npos (XI (XI (XI (XO (XO
    (XI (XO (XO (XI (XO (XI (XO (XO (XO (XO (XO
    XH)))))))))))))))))) :: (((Npos (XO (XO (XO (XO (XI (XI (XO (XO (XI (XO
    (XI (XO (XO (XO (XO (XO XH))))))))))))))))), (Npos (XI (XI (XO (XO (XO
    (XI (XI (XO (XI (XO (XI (XO (XO (XO (XO (XO
    XH)))))))))))))))))) :: (((Npos (XO (XO (XO (XO (XI (XI (XI (XO (XI (XO
    (XI (XO (XO (XO (XO (XO XH))))))))))))))))), (Npos (XO (XI (XO (XI (XI
    (XI (XI (XO (XI (XO (XI (XO (XO (XO (XO (XO
    XH)))))))))))))))))) :: (((Npos (XO (XO (XI (XI (XI (XI (XI (XO (XI (XO
    (XI (XO (XO (XO (XO (XO XH))))))))))))))))), (Npos (XO (XI (XO (XI (XO
    (XO (XO (XI (XI (XO (XI (XO (XO (XO (XO (XO
    XH)))))))))))))))))) :: (((Npos (XO (XO (XI (XI (XO (XO (XO (XI (XI (XO
    (XI (XO (XO (XO (XO (XO XH))))))))))))))))), (Npos (XO (XI (XO (XO (XI
    (XO (XO (XI (XI (XO (XI (XO (XO (XO (XO (XO
    XH)))))))))))))))))) :: (((Npos (XO (XO (XI (XO (XI (XO (XO (XI (XI (XO
    (XI (XO (XO (XO (XO (XO XH))))))))))))))))), (Npos (XI (XO (XI (XO (XI
    (XO (XO (XI (XI (XO (XI (XO (XO (XO (XO (XO
    XH)))))))))))))))))) :: (((Npos (XI (XI (XI (XO (XI (XO (XO (XI (XI (XO
    (XI (XO (XO (XO (XO (XO XH))))))))))))))))), (Npos (XI (XO (XO (XO (XO
    (XI (XO (XI (XI (XO (XI (XO (XO (XO (XO (XO
    XH)))))))))))))))))) :: (((Npos (XI (XI (XO (XO (XO (XI (XO (XI (XI (XO
    (XI (XO (XO (XO (XO (XO XH))))))))))))))))), (Npos (XI (XO (XO (XO (XI
    (XI (XO (XI (XI (XO (XI (XO (XO (XO (XO (XO
    XH)))))))))))))))))) :: (((Npos (XI (XI (XO (XO (XI (XI (XO (XI (XI (XO
    (XI (XO (XO (XO (XO (XO XH))))))))))))))))), (Npos (XI (XO (XO (XI (XI
    (XI (XO (XI (XI (XO (XI (XO (XO (XO (XO (XO
    XH)))))))))))))))))) :: (((Npos (XI (XI (XO (XI (XI (XI (XO (XI (XI (XO
    (XI (XO (XO (XO (XO (XO XH))))))))))))))))), (Npos (XO (XO (XI (XI (XI
    (XI (XO (XI (XI (XO (XI (XO (XO (XO (XO (XO
    XH)))))))))))))))))) :: (((Npos (XO (XO (XO (XO (XO (XO (XO (XO (XO (XI
    (XI (XO (XO (XO (XO (XO XH))))))))))))))))), (Npos (XO (XI (XI (XO (XI
    (XI (XO (XO (XI (XI (XI (XO (XO (XO (XO (XO
    XH)))))))))))))))))) :: (((Npos (XO (XO (XO (XO (XO (XO (XI (XO (XI (XI
    (XI (XO (XO (XO (XO (XO XH))))))))))))))))), (Npos (XI (XO (XI (XO (XI
    (XO (XI (XO (XI (XI (XI (XO (XO (XO (XO (XO
    XH)))))))))))))))))) :: (((Npos (XO (XO (XO (XO (XO (XI (XI (XO (XI (XI
    (XI (XO (XO (XO (XO (XO XH))))))))))))))))), (Npos (XI (XI (XI (XO (XO
    (XI (XI (XO (XI (XI (XI (XO (XO (XO (XO (XO
    XH)))))))))))))))))) :: (((Npos (XO (XO (XO (XO (XO (XO (XO (XI (XI (XI
    (XI (XO (XO (XO (XO (XO XH))))))))))))))))), (Npos (XI (XO (XI (XO (XO
    (XO (XO (XI (XI (XI (XI (XO (XO (XO (XO (XO
    XH)))))))))))))))))) :: (((Npos (XI (XI (XI (XO (XO (XO (XO (XI (XI (XI
    (XI (XO (XO (XO (XO (XO XH))))))))))))))))), (Npos (XO (XO (XO (XO (XI
    (XI (XO (XI (XI (XI (XI (XO (XO (XO (XO (XO
    XH)))))))))))))))))) :: (((Npos (XO (XI (XO (XO (XI (XI (XO (XI (XI (XI
    (XI (XO (XO (XO (XO (XO XH))))))))))))))))), (Npos (XO (XI (XO (XI (XI
    (XI (XO (XI (XI (XI (XI (XO (XO (XO (XO (XO
    XH)))))))))))))))))) :: (((Npos (XO (XO (XO (XO (XO (XO (XO (XO (XO (XO
    (XO (XI (XO (XO (XO (XO XH))))))))))))))))), (Npos (XI (XO (XI (XO (XO
    (XO (XO (XO (XO (XO (XO (XI (XO (XO (XO (XO
    XH)))))))))))))))))) :: (((Npos (XO (XO (XO (XI (XO (XO (XO (XO (XO (XO
    (XO (XI (XO (XO (XO (XO XH))))))))))))))))), (Npos (XO (XO (XO (XI (XO
    (XO (XO (XO (XO (XO (XO (XI (XO (XO (XO (XO
    XH)))))))))))))))))) :: (((Npos (XO (XI (XO (XI (XO (XO (XO (XO (XO (XO
    (XO (XI (XO (XO (XO (XO XH))))))))))))))))), (Npos (XI (XO (XI (XO (XI
    (XI (XO (XO (XO (XO (XO (XI (XO (XO (XO (XO
    XH)))))))))))))))))) :: (((Npos (XI (XI (XI (XO (XI (XI (XO (XO (XO (XO
    (XO (XI (XO (XO (XO (XO XH))))))))))))))))), (Npos (XO (XO (XO (XI (XI
    (XI (XO (XO (XO (XO (XO (XI (XO (XO (XO (XO
    XH)))))))))))))))))) :: (((Npos (XO (XO (XI (XI (XI (XI (XO (XO (XO (XO
    (XO (XI (XO (XO (XO (XO XH))))))))))))))))), (Npos (XO (XO (XI (XI (XI
    (XI (XO (XO (XO (XO (XO (XI (XO (XO (XO (XO
    XH)))))))))))))))))) :: (((Npos (XI (XI (XI (XI (XI (XI (XO (XO (XO (XO
    (XO (XI (XO (XO (XO (XO XH))))))))))))))))), (Npos (XI (XO (XI (XO (XI
    (XO (XI (XO (XO (XO (XO (XI (XO (XO (XO (XO
    XH)))))))))))))))))) :: (((Npos (XO (XO (XO (XI (XI (XO (XI (XO (XO (XO
    (XO (XI (XO (XO (XO (XO XH))))))))))))))))), (Npos (XO (XI (XI (XO (XI
    (XI (XI (XO (XO (XO (XO (XI (XO (XO (XO (XO
    XH)))))))))))))))))) :: (((Npos (XI (XO (XO (XI (XI (XI (XI (XO (XO (XO
    (XO (XI (XO (XO (XO (XO XH))))))))))))))))), (Npos (XO (XI (XI (XI (XI
    (XO (XO (XI (XO (XO (XO (XI (XO (XO (XO (XO
    XH)))))))))))))))))) :: (((Npos (XI (XI (XI (XO (XO (XI (XO (XI (XO (XO
    (XO (XI (XO (XO (XO (XO XH))))))))))))))))), (Npos (XI (XI (XI (XI (XO
    (XI (XO (XI (XO (XO (XO (XI (XO (XO (XO (XO
    XH)))))))))))))))))) :: (((Npos (XO (XO (XO (XO (XO (XI (XI (XI (XO (XO
    (XO (XI (XO (XO (XO (XO XH))))))))))))))))), (Npos (XO (XI (XO (XO (XI
    (XI (XI (XI (XO (XO (XO (XI (XO (XO (XO (XO
    XH)))))))))))))))))) :: (((Npos (XO (XO (XI (XO (XI (XI (XI (XI (XO (XO
    (XO (XI (XO (XO (XO (XO XH))))))))))))))))), (Npos (XI (XO (XI (XO (XI
    (XI (XI (XI (XO (XO (XO (XI (XO (XO (XO (XO
    XH)))))))))))))))))) :: (((Npos (XI (XI (XO (XI (XI (XI (XI (XI (XO (XO
    (XO (XI (XO (XO (XO (XO XH))))))))))))))))), (Npos (XI (XI (XO (XI (XI
    (XO (XO (XO (XI (XO (XO (XI (XO (XO (XO (XO
    XH)))))))))))))))))) :: (((Npos (XO (XO (XO (XO (XO (XI (XO (XO (XI (XO
    (XO (XI (XO (XO (XO (XO XH))))))))))))))))), (Npos (XI (XO (XO (XI (XI
    (XI (XO (XO (XI (XO (XO (XI (XO (XO (XO (XO
    XH)))))))))))))))))) :: (((Npos (XO (XO (XO (XO (XO (XO (XO (XI (XI (XO
    (XO (XI (XO (XO (XO (XO XH))))))))))))))))), (Npos (XI (XI (XI (XO (XI
    (XI (XO (XI (XI (XO (XO (XI (XO (XO (XO (XO
    XH)))))))))))))))))) :: (((Npos (XO (XO (XI (XI (XI (XI (XO (XI (XI (XO
    (XO (XI (XO (XO (XO (XO XH))))))))))))))))), (Npos (XI (XI (XI (XI (XO
    (XO (XI (XI (XI (XO (XO (XI (XO (XO (XO (XO
    XH)))))))))))))))))) :: (((Npos (XO (XI (XO (XO (XI (XO (XI (XI (XI (XO
    (XO (XI (XO (XO (XO (XO XH))))))))))))))))), (Npos (XO (XO (XO (XO (XO
    (XO (XO (XO (XO (XI (XO (XI (XO (XO (XO (XO
    XH)))))))))))))))))) :: (((Npos (XO (XO (XO (XO (XI (XO (XO (XO (XO (XI
    (XO (XI (XO (XO (XO (XO XH))))))))))))))))), (Npos (XI (XI (XO (XO (XI
    (XO (XO (XO (XO (XI (XO (XI (XO (XO (XO (XO
    XH)))))))))))))))))) :: (((Npos (XI (XO (XI (XO (XI (XO (XO (XO (XO (XI
    (XO (XI (XO (XO (XO (XO XH))))))))))))))))), (Npos (XI (XI (XI (XO (XI
    (XO (XO (XO (XO (XI (XO (XI (XO (XO (XO (XO
    XH)))))))))))))))))) :: (((Npos (XI (XO (XO (XI (XI (XO (XO (XO (XO (XI
    (XO (XI (XO (XO (XO (XO XH))))))))))))))))), (Npos (XI (XO (XI (XO (XI
    (XI (XO (XO (XO (XI (XO (XI (XO (XO (XO (XO
    XH)))))))))))))))))) :: (((Npos (XO (XO (XO (XO (XO (XO (XI (XO (XO (XI
    (XO (XI (XO (XO (XO (XO XH))))))))))))))))), (Npos (XO (XO (XO (XI (XO
    (XO (XI (XO (XO (XI (XO (XI (XO (XO (XO (XO
    XH)))))))))))))))))) :: (((Npos (XO (XO (XO (XO (XO (XI (XI (XO (XO (XI
    (XO (XI (XO (XO (XO (XO XH))))))))))))))))), (Npos (XO (XI (XI (XI (XI
    (XI (XI (XO (XO (XI (XO (XI (XO (XO (XO (XO
    XH)))))))))))))))))) :: (((Npos (XO (XO (XO (XO (XO (XO (XO (XI (XO (XI
    (XO (XI (XO (XO (XO (XO XH))))))))))))))))), (Npos (XI (XI (XI (XI (XI
    (XO (XO (XI (XO (XI (XO (XI (XO (XO (XO (XO
    XH)))))))))))))))))) :: (((Npos (XO (XO (XO (XO (XO (XO (XI (XI (XO (XI
    (XO (XI (XO (XO (XO (XO XH))))))))))))))))), (Npos (XI (XI (XI (XO (XO
    (XO (XI (XI (XO (XI (XO (XI (XO (XO (XO (XO
    XH)))))))))))))))))) :: (((Npos (XI (XO (XO (XI (XO (XO (XI (XI (XO (XI
    (XO (XI (XO (XO (XO (XO XH))))))))))))))))), (Npos (XO (XO (XI (XO (XO
    (XI (XI (XI (XO (XI (XO (XI (XO (XO (XO (XO
    XH)))))))))))))))))) :: (((Npos (XI (XI (XO (XI (XO (XI (XI (XI (XO (XI
    (XO (XI (XO (XO (XO (XO XH))))))))))))))))), (Npos (XI (XI (XI (XI (XO
    (XI (XI (XI (XO (XI (XO (XI (XO (XO (XO (XO
    XH)))))))))))))))))) :: (((Npos (XO (XO (XO (XO (XO (XO (XO (XO (XI (XI
    (XO (XI (XO (XO (XO (XO XH))))))))))))))))), (Npos (XI (XO (XI (XO (XI
    (XI (XO (XO (XI (XI (XO (XI (XO (XO (XO (XO
    XH)))))))))))))))))) :: (((Npos (XO (XO (XO (XO (XO (XO (XI (XO (XI (XI
    (XO (XI (XO (XO (XO (XO XH))))))))))))))))), (Npos (XI (XO (XI (XO (XI
    (XO (XI (XO (XI (XI (XO (XI (XO (XO (XO (XO
    XH)))))))))))))))))) :: (((Npos (XO (XO (XO (XI (XI (XO (XI (XO (XI (XI
    (XO (XI (XO (XO (XO (XO XH))))))))))))))))), (Npos (XO (XI (XO (XO (XI
    (XI (XI (XO (XI (XI (XO (XI (XO (XO (XO (XO
    XH)))))))))))))))))) :: (((Npos (XO (XO (XO (XI (XI (XI (XI (XO (XI (XI
    (XO (XI (XO (XO (XO (XO XH))))))))))))))))), (Npos (XI (XO (XO (XO (XI
    (XO (XO (XI (XI (XI (XO (XI (XO (XO (XO (XO
    XH)))))))))))))))))) :: (((Npos (XI (XO (XO (XI (XO (XI (XO (XI (XI (XI
    (XO (XI (XO (XO (XO (XO XH))))))))))))))))), (Npos (XI (XI (XI (XI (XO
    (XI (XO (XI (XI (XI (XO (XI (XO (XO (XO (XO
    XH)))))))))))))))))) :: (((Npos (XO (XO (XO (XO (XO (XO (XO (XO (XO (XO
    (XI (XI (XO (XO (XO (XO XH))))))))))))))))), (Npos (XO (XO (XO (XI (XO
    (XO (XI (XO (XO (XO (XI (XI (XO (XO (XO (XO
    XH)))))))))))))))))) :: (((Npos (XO (XO (XO (XO (XO (XO (XO (XI (XO (XO
    (XI (XI (XO (XO (XO (XO XH))))))))))))))))), (Npos (XO (XI (XO (XO (XI
    (XI (XO (XI (XO (XO (XI (XI (XO (XO (XO (XO
    XH)))))))))))))))))) :: (((Npos (XO (XO (XO (XO (XO (XO (XI (XI (XO (XO
    (XI (XI (XO (XO (XO (XO XH))))))))))))))))), (Npos (XO (XI (XO (XO (XI
    (XI (XI (XI (XO (XO (XI (XI (XO (XO (XO (XO
    XH)))))))))))))))))) :: (((Npos (XO (XI (XO (XI (XI (XI (XI (XI (XO (XO
    (XI (XI (XO (XO (XO (XO XH))))))))))))))))), (Npos (XI (XI (XO (XO (XO
    (XI (XO (XO (XI (XO (XI (XI (XO (XO (XO (XO
    XH)))))))))))))))))) :: (((Npos (XO (XO (XO (XO (XI (XI (XO (XO (XI (XO
    (XI (XI (XO (XO (XO (XO XH))))))))))))))))), (Npos (XI (XO (XO (XI (XI
    (XI (XO (XO (XI (XO (XI (XI (XO (XO (XO (XO
    XH)))))))))))))))))) :: (((Npos (XO (XO (XO (XO (XO (XI (XI (XO (XO (XI
    (XI (XI (XO (XO (XO (XO XH))))))))))))))))), (Npos (XO (XI (XI (XI (XI
    (XI (XI (XO (XO (XI (XI (XI (XO (XO (XO (XO
    XH)))))))))))))))))) :: (((Npos (XO (XO (XO (XO (XO (XO (XO (XI (XO (XI
    (XI (XI (XO (XO (XO (XO XH))))))))))))))))), (Npos (XI (XO (XO (XI (XO
    (XI (XO (XI (XO (XI (XI (XI (XO (XO (XO (XO
    XH)))))))))))))))))) :: (((Npos (XO (XO (XO (XO (XI (XI (XO (XI (XO (XI
    (XI (XI (XO (XO (XO (XO XH))))))))))))))))), (Npos (XI (XO (XO (XO (XI
    (XI (XO (XI (XO (XI (XI (XI (XO (XO (XO (XO
    XH)))))))))))))))))) :: (((Npos (XO (XO (XO (XO (XO (XO (XO (XO (XI (XI
    (XI (XI (XO (XO (XO (XO XH))))))))))))))))), (Npos (XI (XI (XI (XO (XO
    (XI (XO (XO (XI (XI (XI (XI (XO (XO (XO (XO
    XH)))))))))))))))))) :: (((Npos (XO (XO (XO (XO (XI (XI (XO (XO (XI (XI
    (XI (XI (XO (XO (XO (XO XH))))))))))))))))), (Npos (XI (XO (XI (XO (XO
    (XO (XI (XO (XI (XI (XI (XI (XO (XO (XO (XO
    XH)))))))))))))))))) :: (((Npos (XI (XO (XO (XO (XI (XO (XI (XO (XI (XI
    (XI (XI (XO (XO (XO (XO XH))))))))))))))))), (Npos (XO (XO (XI (XO (XI
    (XO (XI (XO (XI (XI (XI (XI (XO (XO (XO (XO
    XH)))))))))))))))))) :: (((Npos (XO (XO (XO (XO (XI (XI (XI (XO (XI (XI
    (XI (XI (XO (XO (XO (XO XH))))))))))))))))), (Npos (XI (XO (XO (XO (XO
    (XO (XO (XI (XI (XI (XI (XI (XO (XO (XO (XO
    XH)))))))))))))))))) :: (((Npos (XO (XO (XO (XO (XI (XI (XO (XI (XI (XI
    (XI (XI (XO (XO (XO (XO XH))))))))))))))))), (Npos (XI (XI (XO (XI (XO
    (XO (XI (XI (XI (XI (XI (XI (XO (XO (XO (XO
    XH)))))))))))))))))) :: (((Npos (XO (XO (XO (XO (XO (XI (XI (XI (XI (XI
    (XI (XI (XO (XO (XO (XO XH))))))))))))))))), (Npos (XO (XI (XI (XO (XI
    (XI (XI (XI (XI (XI (XI (XI (XO (XO (XO (XO
    XH)))))))))))))))))) :: (((Npos (XI (XI (XO (XO (XO (XO (XO (XO (XO (XO
    (XO (XO (XI (XO (XO (XO XH))))))))))))))))), (Npos (XI (XI (XI (XO (XI
    (XI (XO (XO (XO (XO (XO (XO (XI (XO (XO (XO
    XH)))))))))))))))))) :: (((Npos (XO (XI (XO (XO (XI (XO (XI (XO (XO (XO
    (XO (XO (XI (XO (XO (XO XH))))))))))))))))), (Npos (XI (XI (XI (XI (XO
    (XI (XI (XO (XO (XO (XO (XO (XI (XO (XO (XO
    XH)))))))))))))))))) :: (((Npos (XI (XO (XO (XO (XI (XI (XI (XO (XO (XO
    (XO (XO (XI (XO (XO (XO XH))))))))))))))))), (Npos (XO (XI (XO (XO (XI
    (XI (XI (XO (XO (XO (XO (XO (XI (XO (XO (XO
    XH)))))))))))))))))) :: (((Npos (XI (XO (XI (XO (XI (XI (XI (XO (XO (XO
    (XO (XO (XI (XO (XO (XO XH))))))))))))))))), (Npos (XI (XO (XI (XO (XI
    (XI (XI (XO (XO (XO (XO (XO (XI (XO (XO (XO
    XH)))))))))))))))))) :: (((Npos (XI (XI (XO (XO (XO (XO (XO (XI (XO (XO
    (XO (XO (XI (XO (XO (XO XH))))))))))))))))), (Npos (XI (XI (XI (XI (XO
    (XI (XO (XI (XO (XO (XO (XO (XI (XO (XO (XO
    XH)))))))))))))))))) :: (((Npos (XO (XO (XO (XO (XI (XO (XI (XI (XO (XO
    (XO (XO (XI (XO (XO (XO XH))))))))))))))))), (Npos (XO (XO (XO (XI (XO
    (XI (XI (XI (XO (XO (XO (XO (XI (XO (XO (XO
    XH)))))))))))))))))) :: (((Npos (XO (XO (XO (XO (XI (XI (XI (XI (XO (XO
    (XO (XO (XI (XO (XO (XO XH))))))))))))))))), (Npos (XI (XO (XO (XI (XI
    (XI (XI (XI (XO (XO (XO (XO (XI (XO (XO (XO
    XH)))))))))))))))))) :: (((Npos (XI (XI (XO (XO (XO (XO (XO (XO (XI (XO
    (XO (XO (XI (XO (XO (XO XH))))))))))))))))), (Npos (XO (XI (XI (XO (XO
    (XI (XO (XO (XI (XO (XO (XO (XI (XO (XO (XO
    XH)))))))))))))))))) :: (((Npos (XO (XI (XI (XO (XI (XI (XO (XO (XI (XO
    (XO (XO (XI (XO (XO (XO XH))))))))))))))))), (Npos (XI (XI (XI (XI (XI
    (XI (XO (XO (XI (XO (XO (XO (XI (XO (XO (XO
    XH)))))))))))))))))) :: (((Npos (XO (XO (XI (XO (XO (XO (XI (XO (XI (XO
    (XO (XO (XI (XO (XO (XO XH))))))))))))))))), (Npos (XO (XO (XI (XO (XO
    (XO (XI (XO (XI (XO (XO (XO (XI (XO (XO (XO
    XH)))))))))))))))))) :: (((Npos (XI (XI (XI (XO (XO (XO (XI (XO (XI (XO
    (XO (XO (XI (XO (XO (XO XH))))))))))))))))), (Npos (XI (XI (XI (XO (XO
    (XO (XI (XO (XI (XO (XO (XO (XI (XO (XO (XO
    XH)))))))))))))))))) :: (((Npos (XO (XO (XO (XO (XI (XO (XI (XO (XI (XO
    (XO (XO (XI (XO (XO (XO XH))))))))))))))))), (Npos (XO (XI (XO (XO (XI
    (XI (XI (XO (XI (XO (XO (XO (XI (XO (XO (XO
    XH)))))))))))))))))) :: (((Npos (XO (XI (XI (XO (XI (XI (XI (XO (XI (XO
    (XO (XO (XI (XO (XO (XO XH))))))))))))))))), (Npos (XO (XI (XI (XO (XI
    (XI (XI (XO (XI (XO (XO (XO (XI (XO (XO (XO
    XH)))))))))))))))))) :: (((Npos (XI (XI (XO (XO (XO (XO (XO (XI (XI (XO
    (XO (XO (XI (XO (XO (XO XH))))))))))))))))), (Npos (XO (XI (XO (XO (XI
    (XI (XO (XI (XI (XO (XO (XO (XI (XO (XO (XO
    XH)))))))))))))))))) :: (((Npos (XI (XO (XO (XO (XO (XO (XI (XI (XI (XO
    (XO (XO (XI (XO (XO (XO XH))))))))))))))))), (Npos (XO (XO (XI (XO (XO
    (XO (XI (XI (XI (XO (XO (XO (XI (XO (XO (XO
    XH)))))))))))))))))) :: (((Npos (XO (XO (XO (XO (XI (XO (XI (XI (XI (XO
    (XO (XO (XI (XO (XO (XO XH))))))))))))))))), (Npos (XO (XI (XO (XI (XI
    (XO (XI (XI (XI (XO (XO (XO (XI (XO (XO (XO
    XH)))))))))))))))))) :: (((Npos (XO (XO (XI (XI (XI (XO (XI (XI (XI (XO
    (XO (XO (XI (XO (XO (XO XH))))))))))))))))), (Npos (XO (XO (XI (XI (XI
    (XO (XI (XI (XI (XO (XO (XO (XI (XO (XO (XO
    XH)))))))))))))))))) :: (((Npos (XI (XO (XO (XO (XO (XI (XI (XI (XI (XO
    (XO (XO (XI (XO (XO (XO XH))))))))))))))))), (Npos (XO (XO (XI (XO (XI
    (XI (XI (XI (XI (XO (XO (XO (XI (XO (XO (XO
    XH)))))))))))))))))) :: (((Npos (XO (XO (XO (XO (XO (XO (XO (XO (XO (XI
    (XO (XO (XI (XO (XO (XO XH))))))))))))))))), (Npos (XI (XO (XO (XO (XI
    (XO (XO (XO (XO (XI (XO (XO (XI (XO (XO (XO
    XH)))))))))))))))))) :: (((Npos (XI (XI (XO (XO (XI (XO (XO (XO (XO (XI
    (XO (XO (XI (XO (XO (XO XH))))))))))))))))), (Npos (XI (XI (XO (XI (XO
    (XI (XO (XO (XO (XI (XO (XO (XI (XO (XO (XO
    XH)))))))))))))))))) :: (((Npos (XI (XI (XI (XI (XI (XI (XO (XO (XO (XI
    (XO (XO (XI (XO (XO (XO XH))))))))))))))))), (Npos (XO (XO (XO (XO (XO
    (XO (XI (XO (XO (XI (XO (XO (XI (XO (XO (XO
    XH)))))))))))))))))) :: (((Npos (XO (XO (XO (XO (XO (XO (XO (XI (XO (XI
    (XO (XO (XI (XO (XO (XO XH))))))))))))))))), (Npos (XO (XI (XI (XO (XO
    (XO (XO (XI (XO (XI (XO (XO (XI (XO (XO (XO
    XH)))))))))))))))))) :: (((Npos (XO (XO (XO (XI (XO (XO (XO (XI (XO (XI
    (XO (XO (XI (XO (XO (XO XH))))))))))))))))), (Npos (XO (XO (XO (XI (XO
    (XO (XO (XI (XO (XI (XO (XO (XI (XO (XO (XO
    XH)))))))))))))))))) :: (((Npos (XO (XI (XO (XI (XO (XO (XO (XI (XO (XI
    (XO (XO (XI (XO (XO (XO XH))))))))))))))))), (Npos (XI (XO (XI (XI (XO
    (XO (XO (XI (XO (XI (XO (XO (XI (XO (XO (XO
    XH)))))))))))))))))) :: (((Npos (XI (XI (XI (XI (XO (XO (XO (XI (XO (XI
    (XO (XO (XI (XO (XO (XO XH))))))))))))))))), (Npos (XI (XO (XI (XI (XI
    (XO (XO (XI (XO (XI (XO (XO (XI (XO (XO (XO
    XH)))))))))))))))))) :: (((Npos (XI (XI (XI (XI (XI (XO (XO (XI (XO (XI
    (XO (XO (XI (XO (XO (XO XH))))))))))))))))), (Npos (XO (XO (XO (XI (XO
    (XI (XO (XI (XO (XI (XO (XO (XI (XO (XO (XO
    XH)))))))))))))))))) :: (((Npos (XO (XO (XO (XO (XI (XI (XO (XI (XO (XI
    (XO (XO (XI (XO (XO (XO XH))))))))))))))))), (Npos (XO (XI (XI (XI (XI
    (XO (XI (XI (XO (XI (XO (XO (XI (XO (XO (XO
    XH)))))))))))))))))) :: (((Npos (XO (XO (XO (XO (XI (XI (XI (XI (XO (XI
    (XO (XO (XI (XO (XO (XO XH))))))))))))))))), (Npos (XI (XO (XO (XI (XI
    (XI (XI (XI (XO (XI (XO (XO (XI (XO (XO (XO
    XH)))))))))))))))))) :: (((Npos (XI (XO (XI (XO (XO (XO (XO (XO (XI (XI
    (XO (XO (XI (XO (XO (XO XH))))))))))))))))), (Npos (XO (XO (XI (XI (XO
    (XO (XO (XO (XI (XI (XO (XO (XI (XO (XO (XO
    XH)))))))))))))))))) :: (((Npos (XI (XI (XI (XI (XO (XO (XO (XO (XI (XI
    (XO (XO (XI (XO (XO (XO XH))))))))))))))))), (Npos (XO (XO (XO (XO (XI
    (XO (XO (XO (XI (XI (XO (XO (XI (XO (XO (XO
    XH)))))))))))))))))) :: (((Npos (XI (XI (XO (XO (XI (XO (XO (XO (XI (XI
    (XO (XO (XI (XO (XO (XO XH))))))))))))))))), (Npos (XO (XO (XO (XI (XO
    (XI (XO (XO (XI (XI (XO (XO (XI (XO (XO (XO
    XH)))))))))))))))))) :: (((Npos (XO (XI (XO (XI (XO (XI (XO (XO (XI (XI
    (XO (XO (XI (XO (XO (XO XH))))))))))))))))), (Npos (XO (XO (XO (XO (XI
    (XI (XO (XO (XI (XI (XO (XO (XI (XO (XO (XO
    XH)))))))))))))))))) :: (((Npos (XO (XI (XO (XO (XI (XI (XO (XO (XI (XI
    (XO (XO (XI (XO (XO (XO XH))))))))))))))))), (Npos (XI (XI (XO (XO (XI
    (XI (XO (XO (XI (XI (XO (XO (XI (XO (XO (XO
    XH)))))))))))))))))) :: (((Npos (XI (XO (XI (XO (XI (XI (XO (XO (XI (XI
    (XO (XO (XI (XO (XO (XO XH))))))))))))))))), (Npos (XI (XO (XO (XI (XI
    (XI (XO (XO (XI (XI (XO (XO (XI (XO (XO (XO
    XH)))))))))))))))))) :: (((Npos (XI (XO (XI (XI (XI (XI (XO (XO (XI (XI
    (XO (XO (XI (XO (XO (XO XH))))))))))))))))), (Npos (XI (XO (XI (XI (XI
    (XI (XO (XO (XI (XI (XO (XO (XI (XO (XO (XO
    XH)))))))))))))))))) :: (((Npos (XO (XO (XO (XO (XI (XO (XI (XO (XI (XI
    (XO (XO (XI (XO (XO (XO XH))))))))))))))))), (Npos (XO (XO (XO (XO (XI
    (XO (XI (XO (XI (XI (XO (XO (XI (XO (XO (XO
    XH)))))))))))))))))) :: (((Npos (XI (XO (XI (XI (XI (XO (XI (XO (XI (XI
    (XO (XO (XI (XO (XO (XO XH))))))))))))))))), (Npos (XI (XO (XO (XO (XO
    (XI (XI (XO (XI (XI (XO (XO (XI (XO (XO (XO
    XH)))))))))))))))))) :: (((Npos (XO (XO (XO (XO (XO (XO (XO (XO (XO (XO
    (XI (XO (XI (XO (XO (XO XH))))))))))))))))), (Npos (XO (XO (XI (XO (XI
    (XI (XO (XO (XO (XO (XI (XO (XI (XO (XO (XO
    XH)))))))))))))))))) :: (((Npos (XI (XI (XI (XO (XO (XO (XI (XO (XO (XO
    (XI (XO (XI (XO (XO (XO XH))))))))))))))))), (Npos (XO (XI (XO (XI (XO
    (XO (XI (XO (XO (XO (XI (XO (XI (XO (XO (XO
    XH)))))))))))))))))) :: (((Npos (XO (XO (XO (XO (XI (XO (XI (XO (XO (XO
    (XI (XO (XI (XO (XO (XO XH))))))))))))))))), (Npos (XI (XO (XO (XI (XI
    (XO (XI (XO (XO (XO (XI (XO (XI (XO (XO (XO
    XH)))))))))))))))))) :: (((Npos (XI (XI (XI (XI (XI (XO (XI (XO (XO (XO
    (XI (XO (XI (XO (XO (XO XH))))))))))))))))), (Npos (XI (XO (XO (XO (XO
    (XI (XI (XO (XO (XO (XI (XO (XI (XO (XO (XO
    XH)))))))))))))))))) :: (((Npos (XO (XO (XO (XO (XO (XO (XO (XI (XO (XO
    (XI (XO (XI (XO (XO (XO XH))))))))))))))))), (Npos (XI (XI (XI (XI (XO
    (XI (XO (XI (XO (XO (XI (XO (XI (XO (XO (XO
    XH)))))))))))))))))) :: (((Npos (XO (XO (XI (XO (XO (XO (XI (XI (XO (XO
    (XI (XO (XI (XO (XO (XO XH))))))))))))))))), (Npos (XI (XO (XI (XO (XO
    (XO (XI (XI (XO (XO (XI (XO (XI (XO (XO (XO
    XH)))))))))))))))))) :: (((Npos (XI (XI (XI (XO (XO (XO (XI (XI (XO (XO
    (XI (XO (XI (XO (XO (XO XH))))))))))))))))), (Npos (XI (XI (XI (XO (XO
    (XO (XI (XI (XO (XO (XI (XO (XI (XO (XO (XO
    XH)))))))))))))))))) :: (((Npos (XO (XO (XO (XO (XI (XO (XI (XI (XO (XO
    (XI (XO (XI (XO (XO (XO XH))))))))))))))))), (Npos (XI (XO (XO (XI (XI
    (XO (XI (XI (XO (XO (XI (XO (XI (XO (XO (XO
    XH)))))))))))))))))) :: (((Npos (XO (XO (XO (XO (XO (XO (XO (XI (XI (XO
    (XI (XO (XI (XO (XO (XO XH))))))))))))))))), (Npos (XO (XI (XI (XI (XO
    (XI (XO (XI (XI (XO (XI (XO (XI (XO (XO (XO
    XH)))))))))))))))))) :: (((Npos (XO (XO (XO (XI (XI (XO (XI (XI (XI (XO
    (XI (XO (XI (XO (XO (XO XH))))))))))))))))), (Npos (XI (XI (XO (XI (XI
    (XO (XI (XI (XI (XO (XI (XO (XI (XO (XO (XO
    XH)))))))))))))))))) :: (((Npos (XO (XO (XO (XO (XO (XO (XO (XO (XO (XI
    (XI (XO (XI (XO (XO (XO XH))))))))))))))))), (Npos (XI (XI (XI (XI (XO
    (XI (XO (XO (XO (XI (XI (XO (XI (XO (XO (XO
    XH)))))))))))))))))) :: (((Npos (XO (XO (XI (XO (XO (XO (XI (XO (XO (XI
    (XI (XO (XI (XO (XO (XO XH))))))))))))))))), (Npos (XO (XO (XI (XO (XO
    (XO (XI (XO (XO (XI (XI (XO (XI (XO (XO (XO
    XH)))))))))))))))))) :: (((Npos (XO (XO (XO (XO (XI (XO (XI (XO (XO (XI
    (XI (XO (XI (XO (XO (XO XH))))))))))))))))), (Npos (XI (XO (XO (XI (XI
    (XO (XI (XO (XO (XI (XI (XO (XI (XO (XO (XO
    XH)))))))))))))))))) :: (((Npos (XO (XO (XO (XO (XO (XO (XO (XI (XO (XI
    (XI (XO (XI (XO (XO (XO XH))))))))))))))))), (Npos (XO (XI (XO (XI (XO
    (XI (XO (XI (XO (XI (XI (XO (XI (XO (XO (XO
    XH)))))))))))))))))) :: (((Npos (XO (XO (XO (XI (XI (XI (XO (XI (XO (XI
    (XI (XO (XI (XO (XO (XO XH))))))))))))))))), (Npos (XO (XO (XO (XI (XI
    (XI (XO (XI (XO (XI (XI (XO (XI (XO (XO (XO
    XH)))))))))))))))))) :: (((Npos (XO (XO (XO (XO (XO (XO (XI (XI (XO (XI
    (XI (XO (XI (XO (XO (XO XH))))))))))))))))), (Npos (XI (XO (XO (XI (XO
    (XO (XI (XI (XO (XI (XI (XO (XI (XO (XO (XO
    XH)))))))))))))))))) :: (((Npos (XO (XO (XO (XO (XO (XO (XO (XO (XI (XI
    (XI (XO (XI (XO (XO (XO XH))))))))))))))))), (Npos (XO (XI (XO (XI (XI
    (XO (XO (XO (XI (XI (XI (XO (XI (XO (XO (XO
    XH)))))))))))))))))) :: (((Npos (XO (XO (XO (XO (XI (XI (XO (XO (XI (XI
    (XI (XO (XI (XO (XO (XO XH))))))))))))))))), (Npos (XI (XI (XO (XI (XI
    (XI (XO (XO (XI (XI (XI (XO (XI (XO (XO (XO
    XH)))))))))))))))))) :: (((Npos (XO (XO (XO (XO (XO (XO (XI (XO (XI (XI
    (XI (XO (XI (XO (XO (XO XH))))))))))))))))), (Npos (XO (XI (XI (XO (XO
    (XO (XI (XO (XI (XI (XI (XO (XI (XO (XO (XO
    XH)))))))))))))))))) :: (((Npos (XO (XO (XO (XO (XO (XO (XO (XO (XO (XO
    (XO (XI (XI (XO (XO (XO XH))))))))))))))))), (Npos (XI (XI (XO (XI (XO
    (XI (XO (XO (XO (XO (XO (XI (XI (XO (XO (XO
    XH)))))))))))))))))) :: (((Npos (XO (XO (XO (XO (XO (XI (XO (XI (XO (XO
    (XO (XI (XI (XO (XO (XO XH))))))))))))))))), (Npos (XO (XI (XO (XO (XI
    (XI (XI (XI (XO (XO (XO (XI (XI (XO (XO (XO
    XH)))))))))))))))))) :: (((Npos (XI (XI (XI (XI (XI (XI (XI (XI (XO (XO
    (XO (XI (XI (XO (XO (XO XH))))))))))))))))), (Npos (XO (XI (XI (XO (XO
    (XO (XO (XO (XI (XO (XO (XI (XI (XO (XO (XO
    XH)))))))))))))))))) :: (((Npos (XI (XO (XO (XI (XO (XO (XO (XO (XI (XO
    (XO (XI (XI (XO (XO (XO XH))))))))))))))))), (Npos (XI (XO (XO (XI (XO
    (XO (XO (XO (XI (XO (XO (XI (XI (XO (XO (XO
    XH)))))))))))))))))) :: (((Npos (XO (XO (XI (XI (XO (XO (XO (XO (XI (XO
    (XO (XI (XI (XO (XO (XO XH))))))))))))))))), (Npos (XI (XI (XO (XO (XI
    (XO (XO (XO (XI (XO (XO (XI (XI (XO (XO (XO
    XH)))))))))))))))))) :: (((Npos (XI (XO (XI (XO (XI (XO (XO (XO (XI (XO
    (XO (XI (XI (XO (XO (XO XH))))))))))))))))), (Npos (XO (XI (XI (XO (XI
    (XO (XO (XO (XI (XO (XO (XI (XI (XO (XO (XO
    XH)))))))))))))))))) :: (((Npos (XO (XO (XO (XI (XI (XO (XO (XO (XI (XO
    (XO (XI (XI (XO (XO (XO XH))))))))))))))))), (Npos (XI (XI (XI (XI (XO
    (XI (XO (XO (XI (XO (XO (XI (XI (XO (XO (XO
    XH)))))))))))))))))) :: (((Npos (XI (XI (XI (XI (XI (XI (XO (XO (XI (XO
    (XO (XI (XI (XO (XO (XO XH))))))))))))))))), (Npos (XI (XI (XI (XI (XI
    (XI (XO (XO (XI (XO (XO (XI (XI (XO (XO (XO
    XH)))))))))))))))))) :: (((Npos (XI (XO (XO (XO (XO (XO (XI (XO (XI (XO
    (XO (XI (XI (XO (XO (XO XH))))))))))))))))), (Npos (XI (XO (XO (XO (XO
    (XO (XI (XO (XI (XO (XO (XI (XI (XO (XO (XO
    XH)))))))))))))))))) :: (((Npos (XO (XO (XO (XO (XI (XO (XI (XO (XI (XO
    (XO (XI (XI (XO (XO (XO XH))))))))))))))))), (Npos (XI (XO (XO (XI (XI
    (XO (XI (XO (XI (XO (XO (XI (XI (XO (XO (XO
    XH)))))))))))))))))) :: (((Npos (XO (XO (XO (XO (XO (XI (XO (XI (XI (XO
    (XO (XI (XI (XO (XO (XO XH))))))))))))))))), (Npos (XI (XI (XI (XO (XO
    (XI (XO (XI (XI (XO (XO (XI (XI (XO (XO (XO
    XH)))))))))))))))))) :: (((Npos (XO (XI (XO (XI (XO (XI (XO (XI (XI (XO
    (XO (XI (XI (XO (XO (XO XH))))))))))))))))), (Npos (XO (XO (XO (XO (XI
    (XO (XI (XI (XI (XO (XO (XI (XI (XO (XO (XO
    XH)))))))))))))))))) :: (((Npos (XI (XO (XO (XO (XO (XI (XI (XI (XI (XO
    (XO (XI (XI (XO (XO (XO XH))))))))))))))))), (Npos (XI (XO (XO (XO (XO
    (XI (XI (XI (XI (XO (XO (XI (XI (XO (XO (XO
    XH)))))))))))))))))) :: (((Npos (XI (XI (XO (XO (XO (XI (XI (XI (XI (XO
    (XO (XI (XI (XO (XO (XO XH))))))))))))))))), (Npos (XI (XI (XO (XO (XO
    (XI (XI (XI (XI (XO (XO (XI (XI (XO (XO (XO
    XH)))))))))))))))))) :: (((Npos (XO (XO (XO (XO (XO (XO (XO (XO (XO (XI
    (XO (XI (XI (XO (XO (XO XH))))))))))))))))), (Npos (XO (XO (XO (XO (XO
    (XO (XO (XO (XO (XI (XO (XI (XI (XO (XO (XO
    XH)))))))))))))))))) :: (((Npos (XI (XI (XO (XI (XO (XO (XO (XO (XO (XI
    (XO (XI (XI (XO (XO (XO XH))))))))))))))))), (Npos (XO (XI (XO (XO (XI
    (XI (XO (XO (XO (XI (XO (XI (XI (XO (XO (XO
    XH)))))))))))))))))) :: (((Npos (XO (XI (XO (XI (XI (XI (XO (XO (XO (XI
    (XO (XI (XI (XO (XO (XO XH))))))))))))))))), (Npos (XO (XI (XO (XI (XI
    (XI (XO (XO (XO (XI (XO (XI (XI (XO (XO (XO
    XH)))))))))))))))))) :: (((Npos (XO (XO (XO (XO (XI (XO (XI (XO (XO (XI
    (XO (XI (XI (XO (XO (XO XH))))))))))))))))), (Npos (XO (XO (XO (XO (XI
    (XO (XI (XO (XO (XI (XO (XI (XI (XO (XO (XO
    XH)))))))))))))))))) :: (((Npos (XO (XO (XI (XI (XI (XO (XI (XO (XO (XI
    (XO (XI (XI (XO (XO (XO XH))))))))))))))))), (Npos (XI (XO (XO (XI (XO
    (XO (XO (XI (XO (XI (XO (XI (XI (XO (XO (XO
    XH)))))))))))))))))) :: (((Npos (XI (XO (XI (XI (XI (XO (XO (XI (XO (XI
    (XO (XI (XI (XO (XO (XO XH))))))))))))))))), (Npos (XI (XO (XI (XI (XI
    (XO (XO (XI (XO (XI (XO (XI (XI (XO (XO (XO
    XH)))))))))))))))))) :: (((Npos (XO (XO (XO (XO (XI (XI (XO (XI (XO (XI
    (XO (XI (XI (XO (XO (XO XH))))))))))))))))), (Npos (XO (XO (XO (XI (XI
    (XI (XI (XI (XO (XI (XO (XI (XI (XO (XO (XO
    XH)))))))))))))))))) :: (((Npos (XO (XO (XO (XO (XO (XO (XO (XO (XO (XO
    (XI (XI (XI (XO (XO (XO XH))))))))))))))))), (Npos (XO (XO (XO (XI (XO
    (XO (XO (XO (XO (XO (XI (XI (XI (XO (XO (XO
    XH)))))))))))))))))) :: (((Npos (XO (XI (XO (XI (XO (XO (XO (XO (XO (XO
    (XI (XI (XI (XO (XO (XO XH))))))))))))))))), (Npos (XO (XI (XI (XI (XO
    (XI (XO (XO (XO (XO (XI (XI (XI (XO (XO (XO
    XH)))))))))))))))))) :: (((Npos (XO (XO (XO (XO (XO (XO (XI (XO (XO (XO
    (XI (XI (XI (XO (XO (XO XH))))))))))))))))), (Npos (XO (XO (XO (XO (XO
    (XO (XI (XO (XO (XO (XI (XI (XI (XO (XO (XO
    XH)))))))))))))))))) :: (((Npos (XO (XO (XO (XO (XI (XO (XI (XO (XO (XO
    (XI (XI (XI (XO (XO (XO XH))))))))))))))))), (Npos (XO (XO (XI (XI (XO
    (XI (XI (XO (XO (XO (XI (XI (XI (XO (XO (XO
    XH)))))))))))))))))) :: (((Npos (XO (XI (XO (XO (XI (XI (XI (XO (XO (XO
    (XI (XI (XI (XO (XO (XO XH))))))))))))))))), (Npos (XI (XI (XI (XI (XO
    (XO (XO (XI (XO (XO (XI (XI (XI (XO (XO (XO
    XH)))))))))))))))))) :: (((Npos (XO (XO (XO (XO (XO (XO (XO (XO (XI (XO
    (XI (XI (XI (XO (XO (XO XH))))))))))))))))), (Npos (XO (XI (XI (XO (XO
    (XO (XO (XO (XI (XO (XI (XI (XI (XO (XO (XO
    XH)))))))))))))))))) :: (((Npos (XO (XO (XO (XI (XO (XO (XO (XO (XI (XO
    (XI (XI (XI (XO (XO (XO XH))))))))))))))))), (Npos (XI (XO (XO (XI (XO
    (XO (XO (XO (XI (XO (XI (XI (XI (XO (XO (XO
    XH)))))))))))))))))) :: (((Npos (XI (XI (XO (XI (XO (XO (XO (XO (XI (XO
    (XI (XI (XI (XO (XO (XO XH))))))))))))))))), (Npos (XO (XO (XO (XO (XI
    (XI (XO (XO (XI (XO (XI (XI (XI (XO (XO (XO
    XH)))))))))))))))))) :: (((Npos (XO (XI (XI (XO (XO (XO (XI (XO (XI (XO
    (XI (XI (XI (XO (XO (XO XH))))))))))))))))), (Npos (XO (XI (XI (XO (XO
    (XO (XI (XO (XI (XO (XI (XI (XI (XO (XO (XO
    XH)))))))))))))))))) :: (((Npos (XO (XO (XO (XO (XI (XO (XI (XO (XI (XO
    (XI (XI (XI (XO (XO (XO XH))))))))))))))))), (Npos (XI (XO (XO (XI (XI
    (XO (XI (XO (XI (XO (XI (XI (XI (XO (XO (XO
    XH)))))))))))))))))) :: (((Npos (XO (XO (XO (XO (XO (XI (XI (XO (XI (XO
    (XI (XI (XI (XO (XO (XO XH))))))))))))))))), (Npos (XI (XO (XI (XO (XO
    (XI (XI (XO (XI (XO (XI (XI (XI (XO (XO (XO
    XH)))))))))))))))))) :: (((Npos (XI (XI (XI (XO (XO (XI (XI (XO (XI (XO
    (XI (XI (XI (XO (XO (XO XH))))))))))))))))), (Npos (XO (XO (XO (XI (XO
    (XI (XI (XO (XI (XO (XI (XI (XI (XO (XO (XO
    XH)))))))))))))))))) :: (((Npos (XO (XI (XO (XI (XO (XI (XI (XO (XI (XO
    (XI (XI (XI (XO (XO (XO XH))))))))))))))))), (Npos (XI (XO (XO (XI (XO
    (XO (XO (XI (XI (XO (XI (XI (XI (XO (XO (XO
    XH)))))))))))))))))) :: (((Npos (XO (XO (XO (XI (XI (XO (XO (XI (XI (XO
    (XI (XI (XI (XO (XO (XO XH))))))))))))))))), (Npos (XO (XO (XO (XI (XI
    (XO (XO (XI (XI (XO (XI (XI (XI (XO (XO (XO
    XH)))))))))))))))))) :: (((Npos (XO (XO (XO (XO (XO (XI (XO (XI (XI (XO
    (XI (XI (XI (XO (XO (XO XH))))))))))))))))), (Npos (XI (XO (XO (XI (XO
    (XI (XO (XI (XI (XO (XI (XI (XI (XO (XO (XO
    XH)))))))))))))))))) :: (((Npos (XO (XO (XO (XO (XO (XI (XI (XI (XO (XI
    (XI (XI (XI (XO (XO (XO XH))))))))))))))))), (Npos (XO (XI (XO (XO (XI
    (XI (XI (XI (XO (XI (XI (XI (XI (XO (XO (XO
    XH)))))))))))))))))) :: (((Npos (XO (XI (XO (XO (XO (XO (XO (XO (XI (XI
    (XI (XI (XI (XO (XO (XO XH))))))))))))))))), (Npos (XO (XI (XO (XO (XO
    (XO (XO (XO (XI (XI (XI (XI (XI (XO (XO (XO
    XH)))))))))))))))))) :: (((Npos (XO (XO (XI (XO (XO (XO (XO (XO (XI (XI
    (XI (XI (XI (XO (XO (XO XH))))))))))))))))), (Npos (XO (XO (XO (XO (XI
    (XO (XO (XO (XI (XI (XI (XI (XI (XO (XO (XO
    XH)))))))))))))))))) :: (((Npos (XO (XI (XO (XO (XI (XO (XO (XO (XI (XI
    (XI (XI (XI (XO (XO (XO XH))))))))))))))))), (Npos (XI (XI (XO (XO (XI
    (XI (XO (XO (XI (XI (XI (XI (XI (XO (XO (XO
    XH)))))))))))))))))) :: (((Npos (XO (XO (XO (XO (XI (XO (XI (XO (XI (XI
    (XI (XI (XI (XO (XO (XO XH))))))))))))))))), (Npos (XI (XO (XO (XI (XI
    (XO (XI (XO (XI (XI (XI (XI (XI (XO (XO (XO
    XH)))))))))))))))))) :: (((Npos (XO (XO (XO (XO (XI (XI (XO (XI (XI (XI
    (XI (XI (XI (XO (XO (XO XH))))))))))))))))), (Npos (XO (XO (XO (XO (XI
    (XI (XO (XI (XI (XI (XI (XI (XI (XO (XO (XO
    XH)))))))))))))))))) :: (((Npos (XO (XO (XO (XO (XO (XO (XI (XI (XI (XI
    (XI (XI (XI (XO (XO (XO XH))))))))))))))))), (Npos (XO (XO (XI (XO (XI
    (XO (XI (XI (XI (XI (XI (XI (XI (XO (XO (XO
    XH)))))))))))))))))) :: (((Npos (XO (XO (XO (XO (XO (XO (XO (XO (XO (XO
    (XO (XO (XO (XI (XO (XO XH))))))))))))))))), (Npos (XI (XO (XO (XI (XI
    (XO (XO (XI (XI (XI (XO (XO (XO (XI (XO (XO
    XH)))))))))))))))))) :: (((Npos (XO (XO (XO (XO (XO (XO (XO (XO (XO (XO
    (XI (XO (XO (XI (XO (XO XH))))))))))))))))), (Npos (XO (XI (XI (XI (XO
    (XI (XI (XO (XO (XO (XI (XO (XO (XI (XO (XO
    XH)))))))))))))))))) :: (((Npos (XO (XO (XO (XO (XO (XO (XO (XI (XO (XO
    (XI (XO (XO (XI (XO (XO XH))))))))))))))))), (Npos (XI (XI (XO (XO (XO
    (XO (XI (XO (XI (XO (XI (XO (XO (XI (XO (XO
    XH)))))))))))))))))) :: (((Npos (XO (XO (XO (XO (XI (XO (XO (XI (XI (XI
    (XI (XI (XO (XI (XO (XO XH))))))))))))))))), (Npos (XO (XO (XO (XO (XI
    (XI (XI (XI (XI (XI (XI (XI (XO (XI (XO (XO
    XH)))))))))))))))))) :: (((Npos (XO (XO (XO (XO (XO (XO (XO (XO (XO (XO
    (XO (XO (XI (XI (XO (XO XH))))))))))))))))), (Npos (XI (XI (XI (XI (XO
    (XI (XO (XO (XO (XO (XI (XO (XI (XI (XO (XO
    XH)))))))))))))))))) :: (((Npos (XI (XO (XO (XO (XO (XO (XI (XO (XO (XO
    (XI (XO (XI (XI (XO (XO XH))))))))))))))))), (Npos (XO (XI (XI (XO (XO
    (XO (XI (XO (XO (XO (XI (XO (XI (XI (XO (XO
    XH)))))))))))))))))) :: (((Npos (XO (XO (XO (XO (XO (XO (XO (XO (XO (XO
    (XI (XO (XO (XO (XI (XO XH))))))))))))))))), (Npos (XO (XI (XI (XO (XO
    (XO (XI (XO (XO (XI (XI (XO (XO (XO (XI (XO
    XH)))))))))))))))))) :: (((Npos (XO (XO (XO (XO (XO (XO (XO (XO (XO (XO
    (XO (XI (XO (XI (XI (XO XH))))))))))))))))), (Npos (XO (XO (XO (XI (XI
    (XI (XO (XO (XO (XI (XO (XI (XO (XI (XI (XO
    XH)))))))))))))))))) :: (((Npos (XO (XO (XO (XO (XO (XO (XI (XO (XO (XI
    (XO (XI (XO (XI (XI (XO XH))))))))))))))))), (Npos (XO (XI (XI (XI (XI
    (XO (XI (XO (XO (XI (XO (XI (XO (XI (XI (XO
    XH)))))))))))))))))) :: (((Npos (XO (XO (XO (XO (XO (XI (XI (XO (XO (XI
    (XO (XI (XO (XI (XI (XO XH))))))))))))))))), (Npos (XI (XO (XO (XI (XO
    (XI (XI (XO (XO (XI (XO (XI (XO (XI (XI (XO
    XH)))))))))))))))))) :: (((Npos (XO (XO (XO (XO (XI (XI (XI (XO (XO (XI
    (XO (XI (XO (XI (XI (XO XH))))))))))))))))), (Npos (XO (XI (XI (XI (XI
    (XI (XO (XI (XO (XI (XO (XI (XO (XI (XI (XO
    XH)))))))))))))))))) :: (((Npos (XO (XO (XO (XO (XO (XO (XI (XI (XO (XI
    (XO (XI (XO (XI (XI (XO XH))))))))))))))))), (Npos (XI (XO (XO (XI (XO
    (XO (XI (XI (XO (XI (XO (XI (XO (XI (XI (XO
    XH)))))))))))))))))) :: (((Npos (XO (XO (XO (XO (XI (XO (XI (XI (XO (XI
    (XO (XI (XO (XI (XI (XO XH))))))))))))))))), (Npos (XI (XO (XI (XI (XO
    (XI (XI (XI (XO (XI (XO (XI (XO (XI (XI (XO
    XH)))))))))))))))))) :: (((Npos (XO (XO (XO (XO (XO (XO (XO (XO (XI (XI
    (XO (XI (XO (XI (XI (XO XH))))))))))))))))), (Npos (XI (XI (XI (XI (XO
    (XI (XO (XO (XI (XI (XO (XI (XO (XI (XI (XO
    XH)))))))))))))))))) :: (((Npos (XO (XO (XO (XO (XO (XO (XI (XO (XI (XI
    (XO (XI (XO (XI (XI (XO XH))))))))))))))))), (Npos (XI (XI (XO (XO (XO
    (XO (XI (XO (XI (XI (XO (XI (XO (XI (XI (XO
    XH)))))))))))))))))) :: (((Npos (XO (XO (XO (XO (XI (XO (XI (XO (XI (XI
    (XO (XI (XO (XI (XI (XO XH))))))))))))))))), (Npos (XI (XO (XO (XI (XI
    (XO (XI (XO (XI (XI (XO (XI (XO (XI (XI (XO
    XH)))))))))))))))))) :: (((Npos (XI (XI (XO (XI (XI (XO (XI (XO (XI (XI
    (XO (XI (XO (XI (XI (XO XH))))))))))))))))), (Npos (XI (XO (XO (XO (XO
    (XI (XI (XO (XI (XI (XO (XI (XO (XI (XI (XO
    XH)))))))))))))))))) :: (((Npos (XI (XI (XO (XO (XO (XI (XI (XO (XI (XI
    (XO (XI (XO (XI (XI (XO XH))))))))))))))))), (Npos (XI (XI (XI (XO (XI
    (XI (XI (XO (XI (XI (XO (XI (XO (XI (XI (XO
    XH)))))))))))))))))) :: (((Npos (XI (XO (XI (XI (XI (XI (XI (XO (XI (XI
    (XO (XI (XO (XI (XI (XO XH))))))))))))))))), (Npos (XI (XI (XI (XI (XO
    (XO (XO (XI (XI (XI (XO (XI (XO (XI (XI (XO
    XH)))))))))))))))))) :: (((Npos (XO (XO (XO (XO (XO (XO (XI (XO (XO (XI
    (XI (XI (XO (XI (XI (XO XH))))))))))))))))), (Npos (XO (XI (XI (XO (XI
    (XO (XO (XI (XO (XI (XI (XI (XO (XI (XI (XO
    XH)))))))))))))))))) :: (((Npos (XO (XO (XO (XO (XO (XO (XO (XO (XI (XI
    (XI (XI (XO (XI (XI (XO XH))))))))))))))))), (Npos (XO (XI (XO (XI (XO
    (XO (XI (XO (XI (XI (XI (XI (XO (XI (XI (XO
    XH)))))))))))))))))) :: (((Npos (XO (XO (XO (XO (XI (XO (XI (XO (XI (XI
    (XI (XI (XO (XI (XI (XO XH))))))))))))))))), (Npos (XO (XO (XO (XO (XI
    (XO (XI (XO (XI (XI (XI (XI (XO (XI (XI (XO
    XH)))))))))))))))))) :: (((Npos (XI (XI (XO (XO (XI (XO (XO (XI (XI (XI
    (XI (XI (XO (XI (XI (XO XH))))))))))))))))), (Npos (XI (XI (XI (XI (XI
    (XO (XO (XI (XI (XI (XI (XI (XO (XI (XI (XO
    XH)))))))))))))))))) :: (((Npos (XO (XO (XO (XO (XO (XI (XI (XI (XI (XI
    (XI (XI (XO (XI (XI (XO XH))))))))))))))))), (Npos (XI (XO (XO (XO (XO
    (XI (XI (XI (XI (XI (XI (XI (XO (XI (XI (XO
    XH)))))))))))))))))) :: (((Npos (XI (XI (XO (XO (XO (XI (XI (XI (XI (XI
    (XI (XI (XO (XI (XI (XO XH))))))))))))))))), (Npos (XI (XI (XO (XO (XO
    (XI (XI (XI (XI (XI (XI (XI (XO (XI (XI (XO
    XH)))))))))))))))))) :: (((Npos (XO (XO (XO (XO (XO (XO (XO (XO (XO (XO
    (XO (XO (XI (XI (XI (XO XH))))))))))))))))), (Npos (XI (XI (XI (XO (XI
    (XI (XI (XI (XI (XI (XI (XO (XO (XO (XO (XI
    XH)))))))))))))))))) :: (((Npos (XO (XO (XO (XO (XO (XO (XO (XO (XO (XO
    (XO (XI (XO (XO (XO (XI XH))))))))))))))))), (Npos (XI (XO (XI (XO (XI
    (XO (XI (XI (XO (XO (XI (XI (XO (XO (XO (XI
    XH)))))))))))))))))) :: (((Npos (XO (XO (XO (XO (XO (XO (XO (XO (XI (XO
    (XI (XI (XO (XO (XO (XI XH))))))))))))))))), (Npos (XO (XO (XO (XI (XO
    (XO (XO (XO (XI (XO (XI (XI (XO (XO (XO (XI
    XH)))))))))))))))))) :: (((Npos (XO (XO (XO (XO (XI (XI (XI (XI (XI (XI
    (XI (XI (XO (XI (XO (XI XH))))))))))))))))), (Npos (XI (XI (XO (XO (XI
    (XI (XI (XI (XI (XI (XI (XI (XO (XI (XO (XI
    XH)))))))))))))))))) :: (((Npos (XI (XO (XI (XO (XI (XI (XI (XI (XI (XI
    (XI (XI (XO (XI (XO (XI XH))))))))))))))))), (Npos (XI (XI (XO (XI (XI
    (XI (XI (XI (XI (XI (XI (XI (XO (XI (XO (XI
    XH)))))))))))))))))) :: (((Npos (XI (XO (XI (XI (XI (XI (XI (XI (XI (XI
    (XI (XI (XO (XI (XO (XI XH))))))))))))))))), (Npos (XO (XI (XI (XI (XI
    (XI (XI (XI (XI (XI (XI (XI (XO (XI (XO (XI
    XH)))))))))))))))))) :: (((Npos (XO (XO (XO (XO (XO (XO (XO (XO (XO (XO
    (XO (XO (XI (XI (XO (XI XH))))))))))))))))), (Npos (XO (XI (XO (XO (XO
    (XI (XO (XO (XI (XO (XO (XO (XI (XI (XO (XI
    XH)))))))))))))))))) :: (((Npos (XO (XI (XO (XO (XI (XI (XO (XO (XI (XO
    (XO (XO (XI (XI (XO (XI XH))))))))))))))))), (Npos (XO (XI (XO (XO (XI
    (XI (XO (XO (XI (XO (XO (XO (XI (XI (XO (XI
    XH)))))))))))))))))) :: (((Npos (XO (XO (XO (XO (XI (XO (XI (XO (XI (XO
    (XO (XO (XI (XI (XO (XI XH))))))))))))))))), (Npos (XO (XI (XO (XO (XI
    (XO (XI (XO (XI (XO (XO (XO (XI (XI (XO (XI
    XH)))))))))))))))))) :: (((Npos (XI (XO (XI (XO (XI (XO (XI (XO (XI (XO
    (XO (XO (XI (XI (XO (XI XH))))))))))))))))), (Npos (XI (XO (XI (XO (XI
    (XO (XI (XO (XI (XO (XO (XO (XI (XI (XO (XI
    XH)))))))))))))))))) :: (((Npos (XO (XO (XI (XO (XO (XI (XI (XO (XI (XO
    (XO (XO (XI (XI (XO (XI XH))))))))))))))))), (Npos (XI (XI (XI (XO (XO
    (XI (XI (XO (XI (XO (XO (XO (XI (XI (XO (XI
    XH)))))))))))))))))) :: (((Npos (XO (XO (XO (XO (XI (XI (XI (XO (XI (XO
    (XO (XO (XI (XI (XO (XI XH))))))))))))))))), (Npos (XI (XI (XO (XI (XI
    (XI (XI (XI (XO (XI (XO (XO (XI (XI (XO (XI
    XH)))))))))))))))))) :: (((Npos (XO (XO (XO (XO (XO (XO (XO (XO (XO (XO
    (XI (XI (XI (XI (XO (XI XH))))))))))))))))), (Npos (XO (XI (XO (XI (XO
    (XI (XI (XO (XO (XO (XI (XI (XI (XI (XO (XI
    XH)))))))))))))))))) :: (((Npos (XO (XO (XO (XO (XI (XI (XI (XO (XO (XO
    (XI (XI (XI (XI (XO (XI XH))))))))))))))))), (Npos (XO (XO (XI (XI (XI
    (XI (XI (XO (XO (XO (XI (XI (XI (XI (XO (XI
    XH)))))))))))))))))) :: (((Npos (XO (XO (XO (XO (XO (XO (XO (XI (XO (XO
    (XI (XI (XI (XI (XO (XI XH))))))))))))))))), (Npos (XO (XO (XO (XI (XO
    (XO (XO (XI (XO (XO (XI (XI (XI (XI (XO (XI
    XH)))))))))))))))))) :: (((Npos (XO (XO (XO (XO (XI (XO (XO (XI (XO (XO
    (XI (XI (XI (XI (XO (XI XH))))))))))))))))), (Npos (XI (XO (XO (XI (XI
    (XO (XO (XI (XO (XO (XI (XI (XI (XI (XO (XI
    XH)))))))))))))))))) :: (((Npos (XO (XO (XO (XO (XO (XO (XI (XI (XO (XI
    (XO (XO (XI (XO (XI (XI XH))))))))))))))))), (Npos (XI (XI (XO (XO (XI
    (XO (XI (XI (XO (XI (XO (XO (XI (XO (XI (XI
    XH)))))))))))))))))) :: (((Npos (XO (XO (XO (XO (XO (XI (XI (XI (XO (XI
    (XO (XO (XI (XO (XI (XI XH))))))))))))))))), (Npos (XI (XI (XO (XO (XI
    (XI (XI (XI (XO (XI (XO (XO (XI (XO (XI (XI
    XH)))))))))))))))))) :: (((Npos (XO (XO (XO (XO (XO (XI (XI (XO (XI (XI
    (XO (XO (XI (XO (XI (XI XH))))))))))))))))), (Npos (XO (XO (XO (XI (XI
    (XI (XI (XO (XI (XI (XO (XO (XI (XO (XI (XI
    XH)))))))))))))))))) :: (((Npos (XO (XO (XO (XO (XO (XO (XO (XO (XO (XO
    (XI (XO (XI (XO (XI (XI XH))))))))))))))))), (Npos (XO (XO (XI (XO (XI
    (XO (XI (XO (XO (XO (XI (XO (XI (XO (XI (XI
    XH)))))))))))))))))) :: (((Npos (XO (XI (XI (XO (XI (XO (XI (XO (XO (XO
    (XI (XO (XI (XO (XI (XI XH))))))))))))))))), (Npos (XO (XO (XI (XI (XI
    (XO (XO (XI (XO (XO (XI (XO (XI (XO (XI (XI
    XH)))))))))))))))))) :: (((Npos (XO (XI (XI (XI (XI (XO (XO (XI (XO (XO
    (XI (XO (XI (XO (XI (XI XH))))))))))))))))), (Npos (XI (XI (XI (XI (XI
    (XO (XO (XI (XO (XO (XI (XO (XI (XO (XI (XI
    XH)))))))))))))))))) :: (((Npos (XO (XI (XO (XO (XO (XI (XO (XI (XO (XO
    (XI (XO (XI (XO (XI (XI XH))))))))))))))))), (Npos (XO (XI (XO (XO (XO
    (XI (XO (XI (XO (XO (XI (XO (XI (XO (XI (XI
    XH)))))))))))))))))) :: (((Npos (XI (XO (XI (XO (XO (XI (XO (XI (XO (XO
    (XI (XO (XI (XO (XI (XI XH))))))))))))))))), (Npos (XO (XI (XI (XO (XO
    (XI (XO (XI (XO (XO (XI (XO (XI (XO (XI (XI
    XH)))))))))))))))))) :: (((Npos (XI (XO (XO (XI (XO (XI (XO (XI (XO (XO
    (XI (XO (XI (XO (XI (XI XH))))))))))))))))), (Npos (XO (XO (XI (XI (XO
    (XI (XO (XI (XO (XO (XI (XO (XI (XO (XI (XI
    XH)))))))))))))))))) :: (((Npos (XO (XI (XI (XI (XO (XI (XO (XI (XO (XO
    (XI (XO (XI (XO (XI (XI XH))))))))))))))))), (Npos (XI (XO (XO (XI (XI
    (XI (XO (XI (XO (XO (XI (XO (XI (XO (XI (XI
    XH)))))))))))))))))) :: (((Npos (XI (XI (XO (XI (XI (XI (XO (XI (XO (XO
    (XI (XO (XI (XO (XI (XI XH))))))))))))))))), (Npos (XI (XI (XO (XI (XI
    (XI (XO (XI (XO (XO (XI (XO (XI (XO (XI (XI
    XH)))))))))))))))))) :: (((Npos (XI (XO (XI (XI (XI (XI (XO (XI (XO (XO
    (XI (XO (XI (XO (XI (XI XH))))))))))))))))), (Npos (XI (XI (XO (XO (XO
    (XO (XI (XI (XO (XO (XI (XO (XI (XO (XI (XI
    XH)))))))))))))))))) :: (((Npos (XI (XO (XI (XO (XO (XO (XI (XI (XO (XO
    (XI (XO (XI (XO (XI (XI XH))))))))))))))))), (Npos (XI (XO (XI (XO (XO
    (XO (XO (XO (XI (XO (XI (XO (XI (XO (XI (XI
    XH)))))))))))))))))) :: (((Npos (XI (XI (XI (XO (XO (XO (XO (XO (XI (XO
    (XI (XO (XI (XO (XI (XI XH))))))))))))))))), (Npos (XO (XI (XO (XI (XO
    (XO (XO (XO (XI (XO (XI (XO (XI (XO (XI (XI
    XH)))))))))))))))))) :: (((Npos (XI (XO (XI (XI (XO (XO (XO (XO (XI (XO
    (XI (XO (XI (XO (XI (XI XH))))))))))))))))), (Npos (XO (XO (XI (XO (XI
    (XO (XO (XO (XI (XO (XI (XO (XI (XO (XI (XI
    XH)))))))))))))))))) :: (((Npos (XO (XI (XI (XO (XI (XO (XO (XO (XI (XO
    (XI (XO (XI (XO (XI (XI XH))))))))))))))))), (Npos (XO (XO (XI (XI (XI
    (XO (XO (XO (XI (XO (XI (XO (XI (XO (XI (XI
    XH)))))))))))))))))) :: (((Npos (XO (XI (XI (XI (XI (XO (XO (XO (XI (XO
    (XI (XO (XI (XO (XI (XI XH))))))))))))))))), (Npos (XI (XO (XO (XI (XI
    (XI (XO (XO (XI (XO (XI (XO (XI (XO (XI (XI
    XH)))))))))))))))))) :: (((Npos (XI (XI (XO (XI (XI (XI (XO (XO (XI (XO
    (XI (XO (XI (XO (XI (XI XH))))))))))))))))), (Npos (XO (XI (XI (XI (XI
    (XI (XO (XO (XI (XO (XI (XO (XI (XO (XI (XI
    XH)))))))))))))))))) :: (((Npos (XO (XO (XO (XO (XO (XO (XI (XO (XI (XO
    (XI (XO (XI (XO (XI (XI XH))))))))))))))))), (Npos (XO (XO (XI (XO (XO
    (XO (XI (XO (XI (XO (XI (XO (XI (XO (XI (XI
    XH)))))))))))))))))) :: (((Npos (XO (XI (XI (XO (XO (XO (XI (XO (XI (XO
    (XI (XO (XI (XO (XI (XI XH))))))))))))))))), (Npos (XO (XI (XI (XO (XO
    (XO (XI (XO (XI (XO (XI (XO (XI (XO (XI (XI
    XH)))))))))))))))))) :: (((Npos (XO (XI (XO (XI (XO (XO (XI (XO (XI (XO
    (XI (XO (XI (XO (XI (XI XH))))))))))))))))), (Npos (XO (XO (XO (XO (XI
    (XO (XI (XO (XI (XO (XI (XO (XI (XO (XI (XI
    XH)))))))))))))))))) :: (((Npos (XO (XI (XO (XO (XI (XO (XI (XO (XI (XO
    (XI (XO (XI (XO (XI (XI XH))))))))))))))))), (Npos (XI (XO (XI (XO (XO
    (XI (XO (XI (XO (XI (XI (XO (XI (XO (XI (XI
    XH)))))))))))))))))) :: (((Npos (XO (XO (XO (XI (XO (XI (XO (XI (XO (XI
    (XI (XO (XI (XO (XI (XI XH))))))))))))))))), (Npos (XO (XO (XO (XO (XO
    (XO (XI (XI (XO (XI (XI (XO (XI (XO (XI (XI
    XH)))))))))))))))))) :: (((Npos (XO (XI (XO (XO (XO (XO (XI (XI (XO (XI
    (XI (XO (XI (XO (XI (XI XH))))))))))))))))), (Npos (XO (XI (XO (XI (XI
    (XO (XI (XI (XO (XI (XI (XO (XI (XO (XI (XI
    XH)))))))))))))))))) :: (((Npos (XO (XO (XI (XI (XI (XO (XI (XI (XO (XI
    (XI (XO (XI (XO (XI (XI XH))))))))))))))))), (Npos (XO (XI (XO (XI (XI
    (XI (XI (XI (XO (XI (XI (XO (XI (XO (XI (XI
    XH)))))))))))))))))) :: (((Npos (XO (XO (XI (XI (XI (XI (XI (XI (XO (XI
    (XI (XO (XI (XO (XI (XI XH))))))))))))))))), (Npos (XO (XO (XI (XO (XI
    (XO (XO (XO (XI (XI (XI (XO (XI (XO (XI (XI
    XH)))))))))))))))))) :: (((Npos (XO (XI (XI (XO (XI (XO (XO (XO (XI (XI
    (XI (XO (XI (XO (XI (XI XH))))))))))))))))), (Npos (XO (XO (XI (XO (XI
    (XI (XO (XO (XI (XI (XI (XO (XI (XO (XI (XI
    XH)))))))))))))))))) :: (((Npos (XO (XI (XI (XO (XI (XI (XO (XO (XI (XI
    (XI (XO (XI (XO (XI (XI XH))))))))))))))))), (Npos (XO (XI (XI (XI (XO
    (XO (XI (XO (XI (XI (XI (XO (XI (XO (XI (XI
    XH)))))))))))))))))) :: (((Npos (XO (XO (XO (XO (XI (XO (XI (XO (XI (XI
    (XI (XO (XI (XO (XI (XI XH))))))))))))))))), (Npos (XO (XI (XI (XI (XO
    (XI (XI (XO (XI (XI (XI (XO (XI (XO (XI (XI
    XH)))))))))))))))))) :: (((Npos (XO (XO (XO (XO (XI (XI (XI (XO (XI (XI
    (XI (XO (XI (XO (XI (XI XH))))))))))))))))), (Npos (XO (XO (XO (XI (XO
    (XO (XO (XI (XI (XI (XI (XO (XI (XO (XI (XI
    XH)))))))))))))))))) :: (((Npos (XO (XI (XO (XI (XO (XO (XO (XI (XI (XI
    (XI (XO (XI (XO (XI (XI XH))))))))))))))))), (Npos (XO (XO (XO (XI (XO
    (XI (XO (XI (XI (XI (XI (XO (XI (XO (XI (XI
    XH)))))))))))))))))) :: (((Npos (XO (XI (XO (XI (XO (XI (XO (XI (XI (XI
    (XI (XO (XI (XO (XI (XI XH))))))))))))))))), (Npos (XO (XI (XO (XO (XO
    (XO (XI (XI (XI (XI (XI (XO (XI (XO (XI (XI
    XH)))))))))))))))))) :: (((Npos (XO (XO (XI (XO (XO (XO (XI (XI (XI (XI
    (XI (XO (XI (XO (XI (XI XH))))))))))))))))), (Npos (XI (XI (XO (XI (XO
    (XO (XI (XI (XI (XI (XI (XO (XI (XO (XI (XI
    XH)))))))))))))))))) :: (((Npos (XO (XI (XI (XI (XO (XO (XI (XI (XI (XI
    (XI (XO (XI (XO (XI (XI XH))))))))))))))))), (Npos (XI (XI (XI (XI (XI
    (XI (XI (XI (XI (XI (XI (XO (XI (XO (XI (XI
    XH)))))))))))))))))) :: (((Npos (XO (XO (XO (XO (XO (XO (XO (XO (XI (XI
    (XI (XI (XI (XO (XI (XI XH))))))))))))))))), (Npos (XO (XI (XI (XI (XI
    (XO (XO (XO (XI (XI (XI (XI (XI (XO (XI (XI
    XH)))))))))))))))))) :: (((Npos (XI (XO (XI (XO (XO (XI (XO (XO (XI (XI
    (XI (XI (XI (XO (XI (XI XH))))))))))))))))), (Npos (XO (XI (XO (XI (XO
    (XI (XO (XO (XI (XI (XI (XI (XI (XO (XI (XI
    XH)))))))))))))))))) :: (((Npos (XO (XO (XO (XO (XI (XI (XO (XO (XO (XO
    (XO (XO (XO (XI (XI (XI XH))))))))))))))))), (Npos (XI (XO (XI (XI (XO
    (XI (XI (XO (XO (XO (XO (XO (XO (XI (XI (XI
    XH)))))))))))))))))) :: (((Npos (XO (XO (XO (XO (XO (XO (XO (XO (XI (XO
    (XO (XO (XO (XI (XI (XI XH))))))))))))))))), (Npos (XO (XO (XI (XI (XO
    (XI (XO (XO (XI (XO (XO (XO (XO (XI (XI (XI
    XH)))))))))))))))))) :: (((Npos (XI (XI (XI (XO (XI (XI (XO (XO (XI (XO
    (XO (XO (XO (XI (XI (XI XH))))))))))))))))), (Npos (XI (XO (XI (XI (XI
    (XI (XO (XO (XI (XO (XO (XO (XO (XI (XI (XI
    XH)))))))))))))))))) :: (((Npos (XO (XO (XO (XO (XO (XO (XI (XO (XI (XO
    (XO (XO (XO (XI (XI (XI XH))))))))))))))))), (Npos (XI (XO (XO (XI (XO
    (XO (XI (XO (XI (XO (XO (XO (XO (XI (XI (XI
    XH)))))))))))))))))) :: (((Npos (XO (XI (XI (XI (XO (XO (XI (XO (XI (XO
    (XO (XO (XO (XI (XI (XI XH))))))))))))))))), (Npos (XO (XI (XI (XI (XO
    (XO (XI (XO (XI (XO (XO (XO (XO (XI (XI (XI
    XH)))))))))))))))))) :: (((Npos (XO (XO (XO (XO (XI (XO (XO (XI (XO (XI
    (XO (XO (XO (XI (XI (XI XH))))))))))))))))), (Npos (XI (XO (XI (XI (XO
    (XI (XO (XI (XO (XI (XO (XO (XO (XI (XI (XI
    XH)))))))))))))))))) :: (((Npos (XO (XO (XO (XO (XO (XO (XI (XI (XO (XI
    (XO (XO (XO (XI (XI (XI XH))))))))))))))))), (Npos (XI (XI (XO (XI (XO
    (XI (XI (XI (XO (XI (XO (XO (XO (XI (XI (XI
    XH)))))))))))))))))) :: (((Npos (XO (XO (XO (XO (XI (XI (XI (XI (XO (XI
    (XO (XO (XO (XI (XI (XI XH))))))))))))))))), (Npos (XI (XO (XO (XI (XI
    (XI (XI (XI (XO (XI (XO (XO (XO (XI (XI (XI
    XH)))))))))))))))))) :: (((Npos (XO (XO (XO (XO (XI (XO (XI (XI (XO (XO
    (XI (XO (XO (XI (XI (XI XH))))))))))))))))), (Npos (XI (XI (XO (XI (XO
    (XI (XI (XI (XO (XO (XI (XO (XO (XI (XI (XI
    XH)))))))))))))))))) :: (((Npos (XO (XO (XO (XO (XI (XI (XI (XI (XO (XO
    (XI (XO (XO (XI (XI (XI XH))))))))))))))))), (Npos (XI (XO (XO (XI (XI
    (XI (XI (XI (XO (XO (XI (XO (XO (XI (XI (XI
    XH)))))))))))))))))) :: (((Npos (XO (XO (XO (XO (XO (XI (XI (XI (XI (XI
    (XI (XO (XO (XI (XI (XI XH))))))))))))))))), (Npos (XO (XI (XI (XO (XO
    (XI (XI (XI (XI (XI (XI (XO (XO (XI (XI (XI
    XH)))))))))))))))))) :: (((Npos (XO (XO (XO (XI (XO (XI (XI (XI (XI (XI
    (XI (XO (XO (XI (XI (XI XH))))))))))))))))), (Npos (XI (XI (XO (XI (XO
    (XI (XI (XI (XI (XI (XI (XO (XO (XI (XI (XI
    XH)))))))))))))))))) :: (((Npos (XI (XO (XI (XI (XO (XI (XI (XI (XI (XI
    (XI (XO (XO (XI (XI (XI XH))))))))))))))))), (Npos (XO (XI (XI (XI (XO
    (XI (XI (XI (XI (XI (XI (XO (XO (XI (XI (XI
    XH)))))))))))))))))) :: (((Npos (XO (XO (XO (XO (XI (XI (XI (XI (XI (XI
    (XI (XO (XO (XI (XI (XI XH))))))))))))))))), (Npos (XO (XI (XI (XI (XI
    (XI (XI (XI (XI (XI (XI (XO (XO (XI (XI (XI
    XH)))))))))))))))))) :: (((Npos (XO (XO (XO (XO (XO (XO (XO (XO (XO (XO
    (XO (XI (XO (XI (XI (XI XH))))))))))))))))), (Npos (XO (XO (XI (XO (XO
    (XO (XI (XI (XO (XO (XO (XI (XO (XI (XI (XI
    XH)))))))))))))))))) :: (((Npos (XI (XI (XI (XO (XO (XO (XI (XI (XO (XO
    (XO (XI (XO (XI (XI (XI XH))))))))))))))))), (Npos (XI (XI (XI (XI (XO
    (XO (XI (XI (XO (XO (XO (XI (XO (XI (XI (XI
    XH)))))))))))))))))) :: (((Npos (XO (XO (XO (XO (XO (XO (XO (XO (XI (XO
    (XO (XI (XO (XI (XI (XI XH))))))))))))))))), (Npos (XI (XI (XO (XO (XO
    (XO (XI (XO (XI (XO (XO (XI (XO (XI (XI (XI
    XH)))))))))))))))))) :: (((Npos (XI (XI (XO (XI (XO (XO (XI (XO (XI (XO
    (XO (XI (XO (XI (XI (XI XH))))))))))))))))), (Npos (XI (XI (XO (XI (XO
    (XO (XI (XO (XI (XO (XO (XI (XO (XI (XI (XI
    XH)))))))))))))))))) :: (((Npos (XO (XO (XO (XO (XI (XO (XI (XO (XI (XO
    (XO (XI (XO (XI (XI (XI XH))))))))))))))))), (Npos (XI (XO (XO (XI (XI
    (XO (XI (XO (XI (XO (XO (XI (XO (XI (XI (XI
    XH)))))))))))))))))) :: (((Npos (XI (XO (XO (XO (XI (XI (XI (XO (XO (XO
    (XI (XI (XO (XI (XI (XI XH))))))))))))))))), (Npos (XI (XI (XO (XI (XO
    (XI (XO (XI (XO (XO (XI (XI (XO (XI (XI (XI
    XH)))))))))))))))))) :: (((Npos (XI (XO (XI (XI (XO (XI (XO (XI (XO (XO
    (XI (XI (XO (XI (XI (XI XH))))))))))))))))), (Npos (XI (XI (XI (XI (XO
    (XI (XO (XI (XO (XO (XI (XI (XO (XI (XI (XI
    XH)))))))))))))))))) :: (((Npos (XI (XO (XO (XO (XI (XI (XO (XI (XO (XO
    (XI (XI (XO (XI (XI (XI XH))))))))))))))))), (Npos (XO (XO (XI (XO (XI
    (XI (XO (XI (XO (XO (XI (XI (XO (XI (XI (XI
    XH)))))))))))))))))) :: (((Npos (XI (XO (XO (XO (XO (XO (XO (XO (XI (XO
    (XI (XI (XO (XI (XI (XI XH))))))))))))))))), (Npos (XI (XO (XI (XI (XO
    (XI (XO (XO (XI (XO (XI (XI (XO (XI (XI (XI
    XH)))))))))))))))))) :: (((Npos (XI (XI (XI (XI (XO (XI (XO (XO (XI (XO
    (XI (XI (XO (XI (XI (XI XH))))))))))))))))), (Npos (XI (XO (XI (XI (XI
    (XI (XO (XO (XI (XO (XI (XI (XO (XI (XI (XI
    XH)))))))))))))))))) :: (((Npos (XO (XO (XO (XO (XO (XO (XO (XO (XO (XI
    (XI (XI (XO (XI (XI (XI XH))))))))))))))))), (Npos (XI (XI (XO (XO (XO
    (XO (XO (XO (XO (XI (XI (XI (XO (XI (XI (XI
    XH)))))))))))))))))) :: (((Npos (XI (XO (XI (XO (XO (XO (XO (XO (XO (XI
    (XI (XI (XO (XI (XI (XI XH))))))))))))))))), (Npos (XI (XI (XI (XI (XI
    (XO (XO (XO (XO (XI (XI (XI (XO (XI (XI (XI
    XH)))))))))))))))))) :: (((Npos (XI (XO (XO (XO (XO (XI (XO (XO (XO (XI
    (XI (XI (XO (XI (XI (XI XH))))))))))))))))), (Npos (XO (XI (XO (XO (XO
    (XI (XO (XO (XO (XI (XI (XI (XO (XI (XI (XI
    XH)))))))))))))))))) :: (((Npos (XO (XO (XI (XO (XO (XI (XO (XO (XO (XI
    (XI (XI (XO (XI (XI (XI XH))))))))))))))))), (Npos (XO (XO (XI (XO (XO
    (XI (XO (XO (XO (XI (XI (XI (XO (XI (XI (XI
    XH)))))))))))))))))) :: (((Npos (XI (XI (XI (XO (XO (XI (XO (XO (XO (XI
    (XI (XI (XO (XI (XI (XI XH))))))))))))))))), (Npos (XI (XI (XI (XO (XO
    (XI (XO (XO (XO (XI (XI (XI (XO (XI (XI (XI
    XH)))))))))))))))))) :: (((Npos (XI (XO (XO (XI (XO (XI (XO (XO (XO (XI
    (XI (XI (XO (XI (XI (XI XH))))))))))))))))), (Npos (XO (XI (XO (XO (XI
    (XI (XO (XO (XO (XI (XI (XI (XO (XI (XI (XI
    XH)))))))))))))))))) :: (((Npos (XO (XO (XI (XO (XI (XI (XO (XO (XO (XI
    (XI (XI (XO (XI (XI (XI XH))))))))))))))))), (Npos (XI (XI (XI (XO (XI
    (XI (XO (XO (XO (XI (XI (XI (XO (XI (XI (XI
    XH)))))))))))))))))) :: (((Npos (XI (XO (XO (XI (XI (XI (XO (XO (XO (XI
    (XI (XI (XO (XI (XI (XI XH))))))))))))))))), (Npos (XI (XO (XO (XI (XI
    (XI (XO (XO (XO (XI (XI (XI (XO (XI (XI (XI
    XH)))))))))))))))))) :: (((Npos (XI (XI (XO (XI (XI (XI (XO (XO (XO (XI
    (XI (XI (XO (XI (XI (XI XH))))))))))))))))), (Npos (XI (XI (XO (XI (XI
    (XI (XO (XO (XO (XI (XI (XI (XO (XI (XI (XI
    XH)))))))))))))))))) :: (((Npos (XO (XI (XO (XO (XO (XO (XI (XO (XO (XI
    (XI (XI (XO (XI (XI (XI XH))))))))))))))))), (Npos (XO (XI (XO (XO (XO
    (XO (XI (XO (XO (XI (XI (XI (XO (XI (XI (XI
    XH)))))))))))))))))) :: (((Npos (XI (XI (XI (XO (XO (XO (XI (XO (XO (XI
    (XI (XI (XO (XI (XI (XI XH))))))))))))))))), (Npos (XI (XI (XI (XO (XO
    (XO (XI (XO (XO (XI (XI (XI (XO (XI (XI (XI
    XH)))))))))))))))))) :: (((Npos (XI (XO (XO (XI (XO (XO (XI (XO (XO (XI
    (XI (XI (XO (XI (XI (XI XH))))))))))))))))), (Npos (XI (XO (XO (XI (XO
    (XO (XI (XO (XO (XI (XI (XI (XO (XI (XI (XI
    XH)))))))))))))))))) :: (((Npos (XI (XI (XO (XI (XO (XO (XI (XO (XO (XI
    (XI (XI (XO (XI (XI (XI XH))))))))))))))))), (Npos (XI (XI (XO (XI (XO
    (XO (XI (XO (XO (XI (XI (XI (XO (XI (XI (XI
    XH)))))))))))))))))) :: (((Npos (XI (XO (XI (XI (XO (XO (XI (XO (XO (XI
    (XI (XI (XO (XI (XI (XI XH))))))))))))))))), (Npos (XI (XI (XI (XI (XO
    (XO (XI (XO (XO (XI (XI (XI (XO (XI (XI (XI
    XH)))))))))))))))))) :: (((Npos (XI (XO (XO (XO (XI (XO (XI (XO (XO (XI
    (XI (XI (XO (XI (XI (XI XH))))))))))))))))), (Npos (XO (XI (XO (XO (XI
    (XO (XI (XO (XO (XI (XI (XI (XO (XI (XI (XI
    XH)))))))))))))))))) :: (((Npos (XO (XO (XI (XO (XI (XO (XI (XO (XO (XI
    (XI (XI (XO (XI (XI (XI XH))))))))))))))))), (Npos (XO (XO (XI (XO (XI
    (XO (XI (XO (XO (XI (XI (XI (XO (XI (XI (XI
    XH)))))))))))))))))) :: (((Npos (XI (XI (XI (XO (XI (XO (XI (XO (XO (XI
    (XI (XI (XO (XI (XI (XI XH))))))))))))))))), (Npos (XI (XI (XI (XO (XI
    (XO (XI (XO (XO (XI (XI (XI (XO (XI (XI (XI
    XH)))))))))))))))))) :: (((Npos (XI (XO (XO (XI (XI (XO (XI (XO (XO (XI
    (XI (XI (XO (XI (XI (XI XH))))))))))))))))), (Npos (XI (XO (XO (XI (XI
    (XO (XI (XO (XO (XI (XI (XI (XO (XI (XI (XI
    XH)))))))))))))))))) :: (((Npos (XI (XI (XO (XI (XI (XO (XI (XO (XO (XI
    (XI (XI (XO (XI (XI (XI XH))))))))))))))))), (Npos (XI (XI (XO (XI (XI
    (XO (XI (XO (XO (XI (XI (XI (XO (XI (XI (XI
    XH)))))))))))))))))) :: (((Npos (XI (XO (XI (XI (XI (XO (XI (XO (XO (XI
    (XI (XI (XO (XI (XI (XI XH))))))))))))))))), (Npos (XI (XO (XI (XI (XI
    (XO (XI (XO (XO (XI (XI (XI (XO (XI (XI (XI
    XH)))))))))))))))))) :: (((Npos (XI (XI (XI (XI (XI (XO (XI (XO (XO (XI
    (XI (XI (XO (XI (XI (XI XH))))))))))))))))), (Npos (XI (XI (XI (XI (XI
    (XO (XI (XO (XO (XI (XI (XI (XO (XI (XI (XI
    XH)))))))))))))))))) :: (((Npos (XI (XO (XO (XO (XO (XI (XI (XO (XO (XI
    (XI (XI (XO (XI (XI (XI XH))))))))))))))))), (Npos (XO (XI (XO (XO (XO
    (XI (XI (XO (XO (XI (XI (XI (XO (XI (XI (XI
    XH)))))))))))))))))) :: (((Npos (XO (XO (XI (XO (XO (XI (XI (XO (XO (XI
    (XI (XI (XO (XI (XI (XI XH))))))))))))))))), (Npos (XO (XO (XI (XO (XO
    (XI (XI (XO (XO (XI (XI (XI (XO (XI (XI (XI
    XH)))))))))))))))))) :: (((Npos (XI (XI (XI (XO (XO (XI (XI (XO (XO (XI
    (XI (XI (XO (XI (XI (XI XH))))))))))))))))), (Npos (XO (XI (XO (XI (XO
    (XI (XI (XO (XO (XI (XI (XI (XO (XI (XI (XI
    XH)))))))))))))))))) :: (((Npos (XO (XO (XI (XI (XO (XI (XI (XO (XO (XI
    (XI (XI (XO (XI (XI (XI XH))))))))))))))))), (Npos (XO (XI (XO (XO (XI
    (XI (XI (XO (XO (XI (XI (XI (XO (XI (XI (XI
    XH)))))))))))))))))) :: (((Npos (XO (XO (XI (XO (XI (XI (XI (XO (XO (XI
    (XI (XI (XO (XI (XI (XI XH))))))))))))))))), (Npos (XI (XI (XI (XO (XI
    (XI (XI (XO (XO (XI (XI (XI (XO (XI (XI (XI
    XH)))))))))))))))))) :: (((Npos (XI (XO (XO (XI (XI (XI (XI (XO (XO (XI
    (XI (XI (XO (XI (XI (XI XH))))))))))))))))), (Npos (XO (XO (XI (XI (XI
    (XI (XI (XO (XO (XI (XI (XI (XO (XI (XI (XI
    XH)))))))))))))))))) :: (((Npos (XO (XI (XI (XI (XI (XI (XI (XO (XO (XI
    (XI (XI (XO (XI (XI (XI XH))))))))))))))))), (Npos (XO (XI (XI (XI (XI
    (XI (XI (XO (XO (XI (XI (XI (XO (XI (XI (XI
    XH)))))))))))))))))) :: (((Npos (XO (XO (XO (XO (XO (XO (XO (XI (XO (XI
    (XI (XI (XO (XI (XI (XI XH))))))))))))))))), (Npos (XI (XO (XO (XI (XO
    (XO (XO (XI (XO (XI (XI (XI (XO (XI (XI (XI
    XH)))))))))))))))))) :: (((Npos (XI (XI (XO (XI (XO (XO (XO (XI (XO (XI
    (XI (XI (XO (XI (XI (XI XH))))))))))))))))), (Npos (XI (XI (XO (XI (XI
    (XO (XO (XI (XO (XI (XI (XI (XO (XI (XI (XI
    XH)))))))))))))))))) :: (((Npos (XI (XO (XO (XO (XO (XI (XO (XI (XO (XI
    (XI (XI (XO (XI (XI (XI XH))))))))))))))))), (Npos (XI (XI (XO (XO (XO
    (XI (XO (XI (XO (XI (XI (XI (XO (XI (XI (XI
    XH)))))))))))))))))) :: (((Npos (XI (XO (XI (XO (XO (XI (XO (XI (XO (XI
    (XI (XI (XO (XI (XI (XI XH))))))))))))))))), (Npos (XI (XO (XO (XI (XO
    (XI (XO (XI (XO (XI (XI (XI (XO (XI (XI (XI
    XH)))))))))))))))))) :: (((Npos (XI (XI (XO (XI (XO (XI (XO (XI (XO (XI
    (XI (XI (XO (XI (XI (XI XH))))))))))))))))), (Npos (XI (XI (XO (XI (XI
    (XI (XO (XI (XO (XI (XI (XI (XO (XI (XI (XI
    XH)))))))))))))))))) :: (((Npos (XO (XO (XO (XO (XO (XO (XO (XO (XI (XO
    (XO (XO (XI (XI (XI (XI XH))))))))))))))))), (Npos (XO (XO (XI (XI (XO
    (XO (XO (XO (XI (XO (XO (XO (XI (XI (XI (XI
    XH)))))))))))))))))) :: (((Npos (XO (XO (XO (XO (XI (XI (XI (XI (XI (XI
    (XO (XI (XI (XI (XI (XI XH))))))))))))))))), (Npos (XI (XO (XO (XI (XI
    (XI (XI (XI (XI (XI (XO (XI (XI (XI (XI (XI
    XH)))))))))))))))))) :: (((Npos (XO (XO (XO (XO (XO (XO (XO (XO (XO (XO
    (XO (XO (XO (XO (XO (XO (XO XH)))))))))))))))))), (Npos (XI (XI (XI (XI
    (XI (XO (XI (XI (XO (XI (XI (XO (XO (XI (XO (XI (XO
    XH))))))))))))))))))) :: (((Npos (XO (XO (XO (XO (XO (XO (XO (XO (XI (XI
    (XI (XO (XO (XI (XO (XI (XO XH)))))))))))))))))), (Npos (XI (XO (XO (XI
    (XI (XI (XO (XO (XI (XI (XI (XO (XI (XI (XO (XI (XO
    XH))))))))))))))))))) :: (((Npos (XO (XO (XO (XO (XO (XO (XI (XO (XI (XI
    (XI (XO (XI (XI (XO (XI (XO XH)))))))))))))))))), (Npos (XI (XO (XI (XI
    (XI (XO (XO (XO (XO (XO (XO (XI (XI (XI (XO (XI (XO
    XH))))))))))))))))))) :: (((Npos (XO (XO (XO (XO (XO (XI (XO (XO (XO (XO
    (XO (XI (XI (XI (XO (XI (XO XH)))))))))))))))))), (Npos (XI (XO (XO (XO
    (XO (XI (XO (XI (XO (XI (XI (XI (XO (XO (XI (XI (XO
    XH))))))))))))))))))) :: (((Npos (XO (XO (XO (XO (XI (XI (XO (XI (XO (XI
    (XI (XI (XO (XO (XI (XI (XO XH)))))))))))))))))), (Npos (XO (XO (XO (XO
    (XO (XI (XI (XI (XI (XI (XO (XI (XO (XI (XI (XI (XO
    XH))))))))))))))))))) :: (((Npos (XO (XO (XO (XO (XO (XO (XO (XO (XO (XO
    (XO (XI (XI (XI (XI (XI (XO XH)))))))))))))))))), (Npos (XI (XO (XI (XI
    (XI (XO (XO (XO (XO (XI (XO (XI (XI (XI (XI (XI (XO
    XH))))))))))))))))))) :: (((Npos (XO (XO (XO (XO (XO (XO (XO (XO (XO (XO
    (XO (XO (XO (XO (XO (XO (XI XH)))))))))))))))))), (Npos (XO (XI (XO (XI
    (XO (XO (XI (XO (XI (XI (XO (XO (XI (XO (XO (XO (XI
    XH))))))))))))))))))) :: (((Npos (XO (XO (XO (XO (XI (XO (XI (XO (XI (XI
    (XO (XO (XI (XO (XO (XO (XI XH)))))))))))))))))), (Npos (XI (XI (XI (XI
    (XO (XI (XO (XI (XI (XI (XO (XO (XO (XI (XO (XO (XI
    XH))))))))))))))))))) :: [])))))))))))))))))))))))))))))))))))))))))))))))))))))))))))))))))))))))))))))))))))))))))))))))))))))))))))))))))))))))))))))))))))))))))))))))))))))))))))))))))))))))))))))))))))))))))))))))))))))))))))))))))))))))))))))))))))))))))))))))))))))))))))))))))))))))))))))))))))))))))))))))))))))))))))))))))))))))))))))))))))))))))))))))))))))))))))))))))))))))))))))))))))))))))))))))))))))))))))))))))))))))))))))))))))))))))))))))))))))))))))))))))))))))))))))))))))))))))))))))))))))))))))))))))))))))))))))))))))))))))))))))))))))))))))))))))))))))))))))))))))))))))))))))))))))))))))))))))))))))))))))))))))))))))))))))))))))))))))))))))))))))))))))))))))))))))))))))))))))))))))))))))))))))))))))))))))))))))))))))))))))))))))))))))))))))))))

(** val digit_ranges : (n * n) list **)

let digit_ranges =
  ((Npos (XO (XO (XO (XO (XI XH)))))), (Npos (XI (XO (XO (XI (XI
    XH))))))) :: (((Npos (XO (XO (XO (XO (XO (XI (XI (XO (XO (XI
    XH))))))))))), (Npos (XI (XO (XO (XI (XO (XI (XI (XO (XO (XI
    XH)))))))))))) :: (((Npos (XO (XO (XO (XO (XI (XI (XI (XI (XO (XI
    XH))))))))))), (Npos (XI (XO (XO (XI (XI (XI (XI (XI (XO (XI
    XH)))))))))))) :: (((Npos (XO (XO (XO (XO (XO (XO (XI (XI (XI (XI
    XH))))))))))), (Npos (XI (XO (XO (XI (XO (XO (XI (XI (XI (XI
    XH)))))))))))) :: (((Npos (XO (XI (XI (XO (XO (XI (XI (XO (XI (XO (XO
    XH)))))))))))), (Npos (XI (XI (XI (XI (XO (XI (XI (XO (XI (XO (XO
    XH))))))))))))) :: (((Npos (XO (XI (XI (XO (XO (XI (XI (XI (XI (XO (XO
    XH)))))))))))), (Npos (XI (XI (XI (XI (XO (XI (XI (XI (XI (XO (XO
    XH))))))))))))) :: (((Npos (XO (XI (XI (XO (XO (XI (XI (XO (XO (XI (XO
    XH)))))))))))), (Npos (XI (XI (XI (XI (XO (XI (XI (XO (XO (XI (XO
    XH))))))))))))) :: (((Npos (XO (XI (XI (XO (XO (XI (XI (XI (XO (XI (XO
    XH)))))))))))), (Npos (XI (XI (XI (XI (XO (XI (XI (XI (XO (XI (XO
    XH))))))))))))) :: (((Npos (XO (XI (XI (XO (XO (XI (XI (XO (XI (XI (XO
    XH)))))))))))), (Npos (XI (XI (XI (XI (XO (XI (XI (XO (XI (XI (XO
    XH))))))))))))) :: (((Npos (XO (XI (XI (XO (XO (XI (XI (XI (XI (XI (XO
    XH)))))))))))), (Npos (XI (XI (XI (XI (XO (XI (XI (XI (XI (XI (XO
    XH))))))))))))) :: (((Npos (XO (XI (XI (XO (XO (XI (XI (XO (XO (XO (XI
    XH)))))))))))), (Npos (XI (XI (XI (XI (XO (XI (XI (XO (XO (XO (XI
    XH))))))))))))) :: (((Npos (XO (XI (XI (XO (XO (XI (XI (XI (XO (XO (XI
    XH)))))))))))), (Npos (XI (XI (XI (XI (XO (XI (XI (XI (XO (XO (XI
    XH))))))))))))) :: (((Npos (XO (XI (XI (XO (XO (XI (XI (XO (XI (XO (XI
    XH)))))))))))), (Npos (XI (XI (XI (XI (XO (XI (XI (XO (XI (XO (XI
    XH))))))))))))) :: (((Npos (XO (XI (XI (XO (XO (XI (XI (XI (XI (XO (XI
    XH)))))))))))), (Npos (XI (XI (XI (XI (XO (XI (XI (XI (XI (XO (XI
    XH))))))))))))) :: (((Npos (XO (XO (XO (XO (XI (XO (XI (XO (XO (XI (XI
    XH)))))))))))), (Npos (XI (XO (XO (XI (XI (XO (XI (XO (XO (XI (XI
    XH))))))))))))) :: (((Npos (XO (XO (XO (XO (XI (XO (XI (XI (XO (XI (XI
    XH)))))))))))), (Npos (XI (XO (XO (XI (XI (XO (XI (XI (XO (XI (XI
    XH))))))))))))) :: (((Npos (XO (XO (XO (XO (XO (XI (XO (XO (XI (XI (XI
    XH)))))))))))), (Npos (XI (XO (XO (XI (XO (XI (XO (XO (XI (XI (XI
    XH))))))))))))) :: (((Npos (XO (XO (XO (XO (XO (XO (XI (XO (XO (XO (XO
    (XO XH))))))))))))), (Npos (XI (XO (XO (XI (XO (XO (XI (XO (XO (XO (XO
    (XO XH)))))))))))))) :: (((Npos (XO (XO (XO (XO (XI (XO (XO (XI (XO (XO
    (XO (XO XH))))))))))))), (Npos (XI (XO (XO (XI (XI (XO (XO (XI (XO (XO
    (XO (XO XH)))))))))))))) :: (((Npos (XO (XO (XO (XO (XO (XI (XI (XI (XI
    (XI (XI (XO XH))))))))))))), (Npos (XI (XO (XO (XI (XO (XI (XI (XI (XI
    (XI (XI (XO XH)))))))))))))) :: (((Npos (XO (XO (XO (XO (XI (XO (XO (XO
    (XO (XO (XO (XI XH))))))))))))), (Npos (XI (XO (XO (XI (XI (XO (XO (XO
    (XO (XO (XO (XI XH)))))))))))))) :: (((Npos (XO (XI (XI (XO (XO (XO (XI
    (XO (XI (XO (XO (XI XH))))))))))))), (Npos (XI (XI (XI (XI (XO (XO (XI
    (XO (XI (XO (XO (XI XH)))))))))))))) :: (((Npos (XO (XO (XO (XO (XI (XO
    (XI (XI (XI (XO (XO (XI XH))))))))))))), (Npos (XI (XO (XO (XI (XI (XO
    (XI (XI (XI (XO (XO (XI XH)))))))))))))) :: (((Npos (XO (XO (XO (XO (XO
    (XO (XO (XI (XO (XI (XO (XI XH))))))))))))), (Npos (XI (XO (XO (XI (XO
    (XO (XO (XI (XO (XI (XO (XI XH)))))))))))))) :: (((Npos (XO (XO (XO (XO
    (XI (XO (XO (XI (XO (XI (XO (XI XH))))))))))))), (Npos (XI (XO (XO (XI
    (XI (XO (XO (XI (XO (XI (XO (XI XH)))))))))))))) :: (((Npos (XO (XO (XO
    (XO (XI (XO (XI (XO (XI (XI (XO (XI XH))))))))))))), (Npos (XI (XO (XO
    (XI (XI (XO (XI (XO (XI (XI (XO (XI XH)))))))))))))) :: (((Npos (XO (XO
    (XO (XO (XI (XI (XO (XI (XI (XI (XO (XI XH))))))))))))), (Npos (XI (XO
    (XO (XI (XI (XI (XO (XI (XI (XI (XO (XI XH)))))))))))))) :: (((Npos (XO
    (XO (XO (XO (XO (XO (XI (XO (XO (XO (XI (XI XH))))))))))))), (Npos (XI
    (XO (XO (XI (XO (XO (XI (XO (XO (XO (XI (XI XH)))))))))))))) :: (((Npos
    (XO (XO (XO (XO (XI (XO (XI (XO (XO (XO (XI (XI XH))))))))))))), (Npos
    (XI (XO (XO (XI (XI (XO (XI (XO (XO (XO (XI (XI
    XH)))))))))))))) :: (((Npos (XO (XO (XO (XO (XO (XI (XO (XO (XO (XI (XI
    (XO (XO (XI (XO XH)))))))))))))))), (Npos (XI (XO (XO (XI (XO (XI (XO (XO
    (XO (XI (XI (XO (XO (XI (XO XH))))))))))))))))) :: (((Npos (XO (XO (XO
    (XO (XI (XO (XI (XI (XO (XO (XO (XI (XO (XI (XO XH)))))))))))))))), (Npos
    (XI (XO (XO (XI (XI (XO (XI (XI (XO (XO (XO (XI (XO (XI (XO
    XH))))))))))))))))) :: (((Npos (XO (XO (XO (XO (XO (XO (XO (XO (XI (XO
    (XO (XI (XO (XI (XO XH)))))))))))))))), (Npos (XI (XO (XO (XI (XO (XO (XO
    (XO (XI (XO (XO (XI (XO (XI (XO XH))))))))))))))))) :: (((Npos (XO (XO
    (XO (XO (XI (XO (XI (XI (XI (XO (XO (XI (XO (XI (XO XH)))))))))))))))),
    (Npos (XI (XO (XO (XI (XI (XO (XI (XI (XI (XO (XO (XI (XO (XI (XO
    XH))))))))))))))))) :: (((Npos (XO (XO (XO (XO (XI (XI (XI (XI (XI (XO
    (XO (XI (XO (XI (XO XH)))))))))))))))), (Npos (XI (XO (XO (XI (XI (XI (XI
    (XI (XI (XO (XO (XI (XO (XI (XO XH))))))))))))))))) :: (((Npos (XO (XO
    (XO (XO (XI (XO (XI (XO (XO (XI (XO (XI (XO (XI (XO XH)))))))))))))))),
    (Npos (XI (XO (XO (XI (XI (XO (XI (XO (XO (XI (XO (XI (XO (XI (XO
    XH))))))))))))))))) :: (((Npos (XO (XO (XO (XO (XI (XI (XI (XI (XI (XI
    (XO (XI (XO (XI (XO XH)))))))))))))))), (Npos (XI (XO (XO (XI (XI (XI (XI
    (XI (XI (XI (XO (XI (XO (XI (XO XH))))))))))))))))) :: (((Npos (XO (XO
    (XO (XO (XI (XO (XO (XO (XI (XI (XI (XI (XI (XI (XI XH)))))))))))))))),
    (Npos (XI (XO (XO (XI (XI (XO (XO (XO (XI (XI (XI (XI (XI (XI (XI
    XH))))))))))))))))) :: (((Npos (XO (XO (XO (XO (XO (XI (XO (XI (XO (XO
    (XI (XO (XO (XO (XO (XO XH))))))))))))))))), (Npos (XI (XO (XO (XI (XO
    (XI (XO (XI (XO (XO (XI (XO (XO (XO (XO (XO
    XH)))))))))))))))))) :: (((Npos (XO (XO (XO (XO (XI (XI (XO (XO (XI (XO
    (XI (XI (XO (XO (XO (XO XH))))))))))))))))), (Npos (XI (XO (XO (XI (XI
    (XI (XO (XO (XI (XO (XI (XI (XO (XO (XO (XO
    XH)))))))))))))))))) :: (((Npos (XO (XI (XI (XO (XO (XI (XI (XO (XO (XO
    (XO (XO (XI (XO (XO (XO XH))))))))))))))))), (Npos (XI (XI (XI (XI (XO
    (XI (XI (XO (XO (XO (XO (XO (XI (XO (XO (XO
    XH)))))))))))))))))) :: (((Npos (XO (XO (XO (XO (XI (XI (XI (XI (XO (XO
    (XO (XO (XI (XO (XO (XO XH))))))))))))))))), (Npos (XI (XO (XO (XI (XI
    (XI (XI (XI (XO (XO (XO (XO (XI (XO (XO (XO
    XH)))))))))))))))))) :: (((Npos (XO (XI (XI (XO (XI (XI (XO (XO (XI (XO
    (XO (XO (XI (XO (XO (XO XH))))))))))))))))), (Npos (XI (XI (XI (XI (XI
    (XI (XO (XO (XI (XO (XO (XO (XI (XO (XO (XO
    XH)))))))))))))))))) :: (((Npos (XO (XO (XO (XO (XI (XO (XI (XI (XI (XO
    (XO (XO (XI (XO (XO (XO XH))))))))))))))))), (Npos (XI (XO (XO (XI (XI
    (XO (XI (XI (XI (XO (XO (XO (XI (XO (XO (XO
    XH)))))))))))))))))) :: (((Npos (XO (XO (XO (XO (XI (XI (XI (XI (XO (XI
    (XO (XO (XI (XO (XO (XO XH))))))))))))))))), (Npos (XI (XO (XO (XI (XI
    (XI (XI (XI (XO (XI (XO (XO (XI (XO (XO (XO
    XH)))))))))))))))))) :: (((Npos (XO (XO (XO (XO (XI (XO (XI (XO (XO (XO
    (XI (XO (XI (XO (XO (XO XH))))))))))))))))), (Npos (XI (XO (XO (XI (XI
    (XO (XI (XO (XO (XO (XI (XO (XI (XO (XO (XO
    XH)))))))))))))))))) :: (((Npos (XO (XO (XO (XO (XI (XO (XI (XI (XO (XO
    (XI (XO (XI (XO (XO (XO XH))))))))))))))))), (Npos (XI (XO (XO (XI (XI
    (XO (XI (XI (XO (XO (XI (XO (XI (XO (XO (XO
    XH)))))))))))))))))) :: (((Npos (XO (XO (XO (XO (XI (XO (XI (XO (XO (XI
    (XI (XO (XI (XO (XO (XO XH))))))))))))))))), (Npos (XI (XO (XO (XI (XI
    (XO (XI (XO (XO (XI (XI (XO (XI (XO (XO (XO
    XH)))))))))))))))))) :: (((Npos (XO (XO (XO (XO (XO (XO (XI (XI (XO (XI
    (XI (XO (XI (XO (XO (XO XH))))))))))))))))), (Npos (XI (XO (XO (XI (XO
    (XO (XI (XI (XO (XI (XI (XO (XI (XO (XO (XO
    XH)))))))))))))))))) :: (((Npos (XO (XO (XO (XO (XI (XI (XO (XO (XI (XI
    (XI (XO (XI (XO (XO (XO XH))))))))))))))))), (Npos (XI (XO (XO (XI (XI
    (XI (XO (XO (XI (XI (XI (XO (XI (XO (XO (XO
    XH)))))))))))))))))) :: (((Npos (XO (XO (XO (XO (XO (XI (XI (XI (XO (XO
    (XO (XI (XI (XO (XO (XO XH))))))))))))))))), (Npos (XI (XO (XO (XI (XO
    (XI (XI (XI (XO (XO (XO (XI (XI (XO (XO (XO
    XH)))))))))))))))))) :: (((Npos (XO (XO (XO (XO (XI (XO (XI (XO (XI (XO
    (XO (XI (XI (XO (XO (XO XH))))))))))))))))), (Npos (XI (XO (XO (XI (XI
    (XO (XI (XO (XI (XO (XO (XI (XI (XO (XO (XO
    XH)))))))))))))))))) :: (((Npos (XO (XO (XO (XO (XI (XO (XI (XO (XO (XO
    (XI (XI (XI (XO (XO (XO XH))))))))))))))))), (Npos (XI (XO (XO (XI (XI
    (XO (XI (XO (XO (XO (XI (XI (XI (XO (XO (XO
    XH)))))))))))))))))) :: (((Npos (XO (XO (XO (XO (XI (XO (XI (XO (XI (XO
    (XI (XI (XI (XO (XO (XO XH))))))))))))))))), (Npos (XI (XO (XO (XI (XI
    (XO (XI (XO (XI (XO (XI (XI (XI (XO (XO (XO
    XH)))))))))))))))))) :: (((Npos (XO (XO (XO (XO (XO (XI (XO (XI (XI (XO
    (XI (XI (XI (XO (XO (XO XH))))))))))))))))), (Npos (XI (XO (XO (XI (XO
    (XI (XO (XI (XI (XO (XI (XI (XI (XO (XO (XO
    XH)))))))))))))))))) :: (((Npos (XO (XO (XO (XO (XI (XO (XI (XO (XI (XI
    (XI (XI (XI (XO (XO (XO XH))))))))))))))))), (Npos (XI (XO (XO (XI (XI
    (XO (XI (XO (XI (XI (XI (XI (XI (XO (XO (XO
    XH)))))))))))))))))) :: (((Npos (XO (XO (XO (XO (XO (XI (XI (XO (XO (XI
    (XO (XI (XO (XI (XI (XO XH))))))))))))))))), (Npos (XI (XO (XO (XI (XO
    (XI (XI (XO (XO (XI (XO (XI (XO (XI (XI (XO
    XH)))))))))))))))))) :: (((Npos (XO (XO (XO (XO (XO (XO (XI (XI (XO (XI
    (XO (XI (XO (XI (XI (XO XH))))))))))))))))), (Npos (XI (XO (XO (XI (XO
    (XO (XI (XI (XO (XI (XO (XI (XO (XI (XI (XO
    XH)))))))))))))))))) :: (((Npos (XO (XO (XO (XO (XI (XO (XI (XO (XI (XI
    (XO (XI (XO (XI (XI (XO XH))))))))))))))))), (Npos (XI (XO (XO (XI (XI
    (XO (XI (XO (XI (XI (XO (XI (XO (XI (XI (XO
    XH)))))))))))))))))) :: (((Npos (XO (XI (XI (XI (XO (XO (XI (XI (XI (XI
    (XI (XO (XI (XO (XI (XI XH))))))))))))))))), (Npos (XI (XI (XI (XI (XI
    (XI (XI (XI (XI (XI (XI (XO (XI (XO (XI (XI
    XH)))))))))))))))))) :: (((Npos (XO (XO (XO (XO (XO (XO (XI (XO (XI (XO
    (XO (XO (XO (XI (XI (XI XH))))))))))))))))), (Npos (XI (XO (XO (XI (XO
    (XO (XI (XO (XI (XO (XO (XO (XO (XI (XI (XI
    XH)))))))))))))))))) :: (((Npos (XO (XO (XO (XO (XI (XI (XI (XI (XO (XI
    (XO (XO (XO (XI (XI (XI XH))))))))))))))))), (Npos (XI (XO (XO (XI (XI
    (XI (XI (XI (XO (XI (XO (XO (XO (XI (XI (XI
    XH)))))))))))))))))) :: (((Npos (XO (XO (XO (XO (XI (XI (XI (XI (XO (XO
    (XI (XO (XO (XI (XI (XI XH))))))))))))))))), (Npos (XI (XO (XO (XI (XI
    (XI (XI (XI (XO (XO (XI (XO (XO (XI (XI (XI
    XH)))))))))))))))))) :: (((Npos (XO (XO (XO (XO (XI (XO (XI (XO (XI (XO
    (XO (XI (XO (XI (XI (XI XH))))))))))))))))), (Npos (XI (XO (XO (XI (XI
    (XO (XI (XO (XI (XO (XO (XI (XO (XI (XI (XI
    XH)))))))))))))))))) :: (((Npos (XO (XO (XO (XO (XI (XI (XI (XI (XI (XI
    (XO (XI (XI (XI (XI (XI XH))))))))))))))))), (Npos (XI (XO (XO (XI (XI
    (XI (XI (XI (XI (XI (XO (XI (XI (XI (XI (XI
    XH)))))))))))))))))) :: [])))))))))))))))))))))))))))))))))))))))))))))))))))))))))))))))

(** val rx_ws_base : rx **)

let rx_ws_base =
  Rep (true, (S O), None, (Chr (false, (((Npos (XO (XO (XO (XO (XO XH)))))),
    (Npos (XO (XO (XO (XO (XO XH))))))) :: (((Npos (XI (XO (XO XH)))), (Npos
    (XI (XO (XO XH))))) :: (((Npos (XI (XO (XI XH)))), (Npos (XI (XO (XI
    XH))))) :: (((Npos (XO (XI (XO XH)))), (Npos (XO (XI (XO
    XH))))) :: [])))))))

(** val rx_nl_linecol : rx **)

let rx_nl_linecol =
  Chr (false, (((Npos (XO (XI (XO XH)))), (Npos (XO (XI (XO XH))))) :: []))

(** val rx_re_br : rx **)

let rx_re_br =
  Cat ((Chr (false, (((Npos (XO (XO (XI (XI (XI XH)))))), (Npos (XO (XO (XI
    (XI (XI XH))))))) :: []))), (Cat ((Chr (false, (((Npos (XO (XI (XO (XO
    (XO (XI XH))))))), (Npos (XO (XI (XO (XO (XO (XI XH)))))))) :: []))),
    (Cat ((Chr (false, (((Npos (XO (XI (XO (XO (XI (XI XH))))))), (Npos (XO
    (XI (XO (XO (XI (XI XH)))))))) :: []))), (Cat ((Rep (true, O, None, (Chr
    (false, (((Npos (XO (XO (XO (XO (XO XH)))))), (Npos (XO (XO (XO (XO (XO
    XH))))))) :: (((Npos (XI (XO (XO XH)))), (Npos (XI (XO (XO
    XH))))) :: (((Npos (XI (XO (XI XH)))), (Npos (XI (XO (XI
    XH))))) :: (((Npos (XO (XI (XO XH)))), (Npos (XO (XI (XO
    XH))))) :: [])))))))), (Cat ((Alt ((Chr (false, (((Npos (XI (XI (XI (XI
    (XO XH)))))), (Npos (XI (XI (XI (XI (XO XH))))))) :: []))), Eps)), (Chr
    (false, (((Npos (XO (XI (XI (XI (XI XH)))))), (Npos (XO (XI (XI (XI (XI
    XH))))))) :: []))))))))))))

(** val rx_re_sgml : rx **)

let rx_re_sgml =
  Cat ((Chr (false, (((Npos (XO (XO (XI (XI (XI XH)))))), (Npos (XO (XO (XI
    (XI (XI XH))))))) :: []))), (Cat ((Alt ((Chr (false, (((Npos (XI (XI (XI
    (XI (XO XH)))))), (Npos (XI (XI (XI (XI (XO XH))))))) :: []))), Eps)),
    (Cat ((Rep (true, (S O), None, (Chr (false, word_ranges)))), (Cat ((Rep
    (false, O, None, (Chr (true, (((Npos (XO (XI (XO XH)))), (Npos (XO (XI
    (XO XH))))) :: []))))), (Chr (false, (((Npos (XO (XI (XI (XI (XI
    XH)))))), (Npos (XO (XI (XI (XI (XI XH))))))) :: []))))))))))

(** val rx_props_key : rx **)

let rx_props_key =
  Cat ((Grp ((S O), (Cat ((Chr (true, (((Npos (XI (XI (XO (XO (XO XH)))))),
    (Npos (XI (XI (XO (XO (XO XH))))))) :: (((Npos (XI (XO (XO (XO (XO
    XH)))))), (Npos (XI (XO (XO (XO (XO XH))))))) :: (((Npos (XO (XO (XO (XO
    (XO XH)))))), (Npos (XO (XO (XO (XO (XO XH))))))) :: (((Npos (XI (XO (XO
    XH)))), (Npos (XI (XO (XO XH))))) :: (((Npos (XI (XO (XI XH)))), (Npos
    (XI (XO (XI XH))))) :: (((Npos (XO (XI (XO XH)))), (Npos (XO (XI (XO
    XH))))) :: [])))))))), (Rep (false, O, None, (Chr (true, (((Npos (XI (XO
    (XI (XI (XI XH)))))), (Npos (XI (XO (XI (XI (XI XH))))))) :: (((Npos (XO
    (XI (XO (XI (XI XH)))))), (Npos (XO (XI (XO (XI (XI XH))))))) :: (((Npos
    (XO (XI (XO XH)))), (Npos (XO (XI (XO XH))))) :: []))))))))))), (Cat
    ((Rep (true, O, None, (Chr (false, (((Npos (XO (XO (XO (XO (XO XH)))))),
    (Npos (XO (XO (XO (XO (XO XH))))))) :: (((Npos (XI (XO (XO XH)))), (Npos
    (XI (XO (XO XH))))) :: [])))))), (Cat ((Chr (false, (((Npos (XO (XI (XO
    (XI (XI XH)))))), (Npos (XO (XI (XO (XI (XI XH))))))) :: (((Npos (XI (XO
    (XI (XI (XI XH)))))), (Npos (XI (XO (XI (XI (XI XH))))))) :: [])))), (Rep
    (true, O, None, (Chr (false, (((Npos (XO (XO (XO (XO (XO XH)))))), (Npos
    (XO (XO (XO (XO (XO XH))))))) :: (((Npos (XI (XO (XO XH)))), (Npos (XI
    (XO (XO XH))))) :: [])))))))))))

(** val rx_props_comment : rx **)

let rx_props_comment =
  Cat ((Rep (true, O, None, (Cat ((Chr (false, (((Npos (XI (XI (XO (XO (XO
    XH)))))), (Npos (XI (XI (XO (XO (XO XH))))))) :: (((Npos (XI (XO (XO (XO
    (XO XH)))))), (Npos (XI (XO (XO (XO (XO XH))))))) :: [])))), (Cat ((Rep
    (true, O, None, (Chr (true, (((Npos (XO (XI (XO XH)))), (Npos (XO (XI (XO
    XH))))) :: []))))), (Chr (false, (((Npos (XO (XI (XO XH)))), (Npos (XO
    (XI (XO XH))))) :: []))))))))), (Cat ((Chr (false, (((Npos (XI (XI (XO
    (XO (XO XH)))))), (Npos (XI (XI (XO (XO (XO XH))))))) :: (((Npos (XI (XO
    (XO (XO (XO XH)))))), (Npos (XI (XO (XO (XO (XO XH))))))) :: [])))), (Rep
    (true, O, None, (Chr (true, (((Npos (XO (XI (XO XH)))), (Npos (XO (XI (XO
    XH))))) :: []))))))))

(** val rx_props_ws : rx **)

let rx_props_ws =
  Rep (true, (S O), None, (Chr (false, (((Npos (XO (XO (XO (XO (XO XH)))))),
    (Npos (XO (XO (XO (XO (XO XH))))))) :: (((Npos (XI (XO (XO XH)))), (Npos
    (XI (XO (XO XH))))) :: (((Npos (XI (XO (XI XH)))), (Npos (XI (XO (XI
    XH))))) :: (((Npos (XO (XI (XO XH)))), (Npos (XO (XI (XO
    XH))))) :: [])))))))

(** val rx_props_escaped_end : rx **)

let rx_props_escaped_end =
  Cat ((Rep (true, (S O), None, (Chr (false, (((Npos (XO (XO (XI (XI (XI (XO
    XH))))))), (Npos (XO (XO (XI (XI (XI (XO XH)))))))) :: []))))), (Eol
    false))

(** val rx_props_trailing_ws : rx **)

let rx_props_trailing_ws =
  Cat ((Rep (true, O, None, (Chr (false, (((Npos (XO (XO (XO (XO (XO
    XH)))))), (Npos (XO (XO (XO (XO (XO XH))))))) :: (((Npos (XI (XO (XO
    XH)))), (Npos (XI (XO (XO XH))))) :: (((Npos (XI (XO (XI XH)))), (Npos
    (XI (XO (XI XH))))) :: (((Npos (XO (XI (XO XH)))), (Npos (XO (XI (XO
    XH))))) :: [])))))))), (Alt ((Chr (false, (((Npos (XO (XI (XO XH)))),
    (Npos (XO (XI (XO XH))))) :: []))), EndStr)))

(** val rx_props_escape : rx **)

let rx_props_escape =
  Cat ((Chr (false, (((Npos (XO (XO (XI (XI (XI (XO XH))))))), (Npos (XO (XO
    (XI (XI (XI (XO XH)))))))) :: []))), (Grp ((S O), (Alt ((Grp ((S (S O)),
    (Cat ((Chr (false, (((Npos (XI (XO (XI (XO (XI (XI XH))))))), (Npos (XI
    (XO (XI (XO (XI (XI XH)))))))) :: []))), (Rep (true, (S O), (Some (S (S
    (S (S O))))), (Chr (false, (((Npos (XO (XO (XO (XO (XI XH)))))), (Npos
    (XI (XO (XO (XI (XI XH))))))) :: (((Npos (XI (XO (XO (XO (XO (XI
    XH))))))), (Npos (XO (XI (XI (XO (XO (XI XH)))))))) :: (((Npos (XI (XO
    (XO (XO (XO (XO XH))))))), (Npos (XO (XI (XI (XO (XO (XO
    XH)))))))) :: []))))))))))), (Alt ((Grp ((S (S (S O))), (Cat ((Chr
    (false, (((Npos (XO (XI (XO XH)))), (Npos (XO (XI (XO XH))))) :: []))),
    (Rep (true, O, None, (Chr (false, (((Npos (XO (XO (XO (XO (XO XH)))))),
    (Npos (XO (XO (XO (XO (XO XH))))))) :: (((Npos (XI (XO (XO XH)))), (Npos
    (XI (XO (XO XH))))) :: [])))))))))), (Grp ((S (S (S (S O)))), (Chr (true,
    (((Npos (XO (XI (XO XH)))), (Npos (XO (XI (XO XH))))) :: []))))))))))))

(** val rx_dtd_key : rx **)

let rx_dtd_key =
  Cat ((Chr (false, (((Npos (XO (XO (XI (XI (XI XH)))))), (Npos (XO (XO (XI
    (XI (XI XH))))))) :: []))), (Cat ((Chr (false, (((Npos (XI (XO (XO (XO
    (XO XH)))))), (Npos (XI (XO (XO (XO (XO XH))))))) :: []))), (Cat ((Chr
    (false, (((Npos (XI (XO (XI (XO (XO (XO XH))))))), (Npos (XI (XO (XI (XO
    (XO (XO XH)))))))) :: []))), (Cat ((Chr (false, (((Npos (XO (XI (XI (XI
    (XO (XO XH))))))), (Npos (XO (XI (XI (XI (XO (XO XH)))))))) :: []))),
    (Cat ((Chr (false, (((Npos (XO (XO (XI (XO (XI (XO XH))))))), (Npos (XO
    (XO (XI (XO (XI (XO XH)))))))) :: []))), (Cat ((Chr (false, (((Npos (XI
    (XO (XO (XI (XO (XO XH))))))), (Npos (XI (XO (XO (XI (XO (XO
    XH)))))))) :: []))), (Cat ((Chr (false, (((Npos (XO (XO (XI (XO (XI (XO
    XH))))))), (Npos (XO (XO (XI (XO (XI (XO XH)))))))) :: []))), (Cat ((Chr
    (false, (((Npos (XI (XO (XO (XI (XI (XO XH))))))), (Npos (XI (XO (XO (XI
    (XI (XO XH)))))))) :: []))), (Cat ((Rep (true, (S O), None, (Chr (false,
    (((Npos (XO (XO (XO (XO (XO XH)))))), (Npos (XO (XO (XO (XO (XO
    XH))))))) :: (((Npos (XI (XO (XO XH)))), (Npos (XI (XO (XO
    XH))))) :: (((Npos (XI (XO (XI XH)))), (Npos (XI (XO (XI
    XH))))) :: (((Npos (XO (XI (XO XH)))), (Npos (XO (XI (XO
    XH))))) :: [])))))))), (Cat ((Grp ((S O), (Cat ((Chr (false, (((Npos (XO
    (XI (XO (XI (XI XH)))))), (Npos (XO (XI (XO (XI (XI XH))))))) :: (((Npos
    (XI (XO (XO (XO (XO (XO XH))))))), (Npos (XO (XI (XO (XI (XI (XO
    XH)))))))) :: (((Npos (XI (XI (XI (XI (XI (XO XH))))))), (Npos (XI (XI
    (XI (XI (XI (XO XH)))))))) :: (((Npos (XI (XO (XO (XO (XO (XI XH))))))),
    (Npos (XO (XI (XO (XI (XI (XI XH)))))))) :: (((Npos (XO (XO (XO (XO (XO
    (XO (XI XH)))))))), (Npos (XO (XI (XI (XO (XI (XO (XI
    XH))))))))) :: (((Npos (XO (XO (XO (XI (XI (XO (XI XH)))))))), (Npos (XO
    (XI (XI (XO (XI (XI (XI XH))))))))) :: (((Npos (XO (XO (XO (XI (XI (XI
    (XI XH)))))))), (Npos (XI (XI (XI (XI (XI (XI (XI (XI (XO
    XH))))))))))) :: (((Npos (XO (XO (XO (XO (XI (XI (XI (XO (XI
    XH)))))))))), (Npos (XI (XO (XI (XI (XI (XI (XI (XO (XI
    XH))))))))))) :: (((Npos (XI (XI (XI (XI (XI (XI (XI (XO (XI
    XH)))))))))), (Npos (XI (XI (XI (XI (XI (XI (XI (XI (XI (XI (XI (XI
    XH)))))))))))))) :: (((Npos (XO (XO (XI (XI (XO (XO (XO (XO (XO (XO (XO
    (XO (XO XH)))))))))))))), (Npos (XI (XO (XI (XI (XO (XO (XO (XO (XO (XO
    (XO (XO (XO XH))))))))))))))) :: (((Npos (XO (XO (XO (XO (XI (XI (XI (XO
    (XO (XO (XO (XO (XO XH)))))))))))))), (Npos (XI (XI (XI (XI (XO (XO (XO
    (XI (XI (XO (XO (XO (XO XH))))))))))))))) :: (((Npos (XO (XO (XO (XO (XO
    (XO (XO (XO (XO (XO (XI (XI (XO XH)))))))))))))), (Npos (XI (XI (XI (XI
    (XO (XI (XI (XI (XI (XI (XI (XI (XO XH))))))))))))))) :: (((Npos (XI (XO
    (XO (XO (XO (XO (XO (XO (XO (XO (XO (XO (XI XH)))))))))))))), (Npos (XI
    (XI (XI (XI (XI (XI (XI (XI (XI (XI (XI (XO (XI (XO (XI
    XH))))))))))))))))) :: (((Npos (XO (XO (XO (XO (XO (XO (XO (XO (XI (XO
    (XO (XI (XI (XI (XI XH)))))))))))))))), (Npos (XI (XI (XI (XI (XO (XO (XI
    (XI (XI (XO (XI (XI (XI (XI (XI XH))))))))))))))))) :: (((Npos (XO (XO
    (XO (XO (XI (XI (XI (XI (XI (XO (XI (XI (XI (XI (XI XH)))))))))))))))),
    (Npos (XI (XO (XI (XI (XI (XI (XI (XI (XI (XI (XI (XI (XI (XI (XI
    XH))))))))))))))))) :: []))))))))))))))))), (Rep (true, O, None, (Chr
    (false, (((Npos (XO (XI (XO (XI (XI XH)))))), (Npos (XO (XI (XO (XI (XI
    XH))))))) :: (((Npos (XI (XO (XO (XO (XO (XO XH))))))), (Npos (XO (XI (XO
    (XI (XI (XO XH)))))))) :: (((Npos (XI (XI (XI (XI (XI (XO XH))))))),
    (Npos (XI (XI (XI (XI (XI (XO XH)))))))) :: (((Npos (XI (XO (XO (XO (XO
    (XI XH))))))), (Npos (XO (XI (XO (XI (XI (XI XH)))))))) :: (((Npos (XO
    (XO (XO (XO (XO (XO (XI XH)))))))), (Npos (XO (XI (XI (XO (XI (XO (XI
    XH))))))))) :: (((Npos (XO (XO (XO (XI (XI (XO (XI XH)))))))), (Npos (XO
    (XI (XI (XO (XI (XI (XI XH))))))))) :: (((Npos (XO (XO (XO (XI (XI (XI
    (XI XH)))))))), (Npos (XI (XI (XI (XI (XI (XI (XI (XI (XO
    XH))))))))))) :: (((Npos (XO (XO (XO (XO (XI (XI (XI (XO (XI
    XH)))))))))), (Npos (XI (XO (XI (XI (XI (XI (XI (XO (XI
    XH))))))))))) :: (((Npos (XI (XI (XI (XI (XI (XI (XI (XO (XI
    XH)))))))))), (Npos (XI (XI (XI (XI (XI (XI (XI (XI (XI (XI (XI (XI
    XH)))))))))))))) :: (((Npos (XO (XO (XI (XI (XO (XO (XO (XO (XO (XO (XO
    (XO (XO XH)))))))))))))), (Npos (XI (XO (XI (XI (XO (XO (XO (XO (XO (XO
    (XO (XO (XO XH))))))))))))))) :: (((Npos (XO (XO (XO (XO (XI (XI (XI (XO
    (XO (XO (XO (XO (XO XH)))))))))))))), (Npos (XI (XI (XI (XI (XO (XO (XO
    (XI (XI (XO (XO (XO (XO XH))))))))))))))) :: (((Npos (XO (XO (XO (XO (XO
    (XO (XO (XO (XO (XO (XI (XI (XO XH)))))))))))))), (Npos (XI (XI (XI (XI
    (XO (XI (XI (XI (XI (XI (XI (XI (XO XH))))))))))))))) :: (((Npos (XI (XO
    (XO (XO (XO (XO (XO (XO (XO (XO (XO (XO (XI XH)))))))))))))), (Npos (XI
    (XI (XI (XI (XI (XI (XI (XI (XI (XI (XI (XO (XI (XO (XI
    XH))))))))))))))))) :: (((Npos (XO (XO (XO (XO (XO (XO (XO (XO (XI (XO
    (XO (XI (XI (XI (XI XH)))))))))))))))), (Npos (XI (XI (XI (XI (XO (XO (XI
    (XI (XI (XO (XI (XI (XI (XI (XI XH))))))))))))))))) :: (((Npos (XO (XO
    (XO (XO (XI (XI (XI (XI (XI (XO (XI (XI (XI (XI (XI XH)))))))))))))))),
    (Npos (XI (XO (XI (XI (XI (XI (XI (XI (XI (XI (XI (XI (XI (XI (XI
    XH))))))))))))))))) :: (((Npos (XI (XO (XI (XI (XO XH)))))), (Npos (XI
    (XO (XI (XI (XO XH))))))) :: (((Npos (XO (XI (XI (XI (XO XH)))))), (Npos
    (XO (XI (XI (XI (XO XH))))))) :: (((Npos (XO (XO (XO (XO (XI XH)))))),
    (Npos (XI (XO (XO (XI (XI XH))))))) :: (((Npos (XI (XI (XI (XO (XI (XI
    (XO XH)))))))), (Npos (XI (XI (XI (XO (XI (XI (XO XH))))))))) :: (((Npos
    (XO (XO (XO (XO (XO (XO (XO (XO (XI XH)))))))))), (Npos (XI (XI (XI (XI
    (XO (XI (XI (XO (XI XH))))))))))) :: (((Npos (XI (XI (XI (XI (XI (XI (XO
    (XO (XO (XO (XO (XO (XO XH)))))))))))))), (Npos (XO (XO (XO (XO (XO (XO
    (XI (XO (XO (XO (XO (XO (XO
    XH))))))))))))))) :: []))))))))))))))))))))))))))))), (Cat ((Rep (true,
    (S O), None, (Chr (false, (((Npos (XO (XO (XO (XO (XO XH)))))), (Npos (XO
    (XO (XO (XO (XO XH))))))) :: (((Npos (XI (XO (XO XH)))), (Npos (XI (XO
    (XO XH))))) :: (((Npos (XI (XO (XI XH)))), (Npos (XI (XO (XI
    XH))))) :: (((Npos (XO (XI (XO XH)))), (Npos (XO (XI (XO
    XH))))) :: [])))))))), (Cat ((Grp ((S (S O)), (Alt ((Cat ((Chr (false,
    (((Npos (XO (XI (XO (XO (XO XH)))))), (Npos (XO (XI (XO (XO (XO
    XH))))))) :: []))), (Cat ((Rep (true, O, None, (Chr (true, (((Npos (XO
    (XI (XO (XO (XO XH)))))), (Npos (XO (XI (XO (XO (XO XH))))))) :: []))))),
    (Chr (false, (((Npos (XO (XI (XO (XO (XO XH)))))), (Npos (XO (XI (XO (XO
    (XO XH))))))) :: []))))))), (Cat ((Chr (false, (((Npos (XI (XI (XI (XO
    (XO XH)))))), (Npos (XI (XI (XI (XO (XO XH))))))) :: []))), (Cat ((Rep
    (true, O, None, (Chr (true, (((Npos (XI (XI (XI (XO (XO XH)))))), (Npos
    (XI (XI (XI (XO (XO XH))))))) :: []))))), (Chr (false, (((Npos (XI (XI
    (XI (XO (XO XH)))))), (Npos (XI (XI (XI (XO (XO
    XH))))))) :: []))))))))))), (Cat ((Rep (true, O, None, (Chr (false,
    (((Npos (XO (XO (XO (XO (XO XH)))))), (Npos (XO (XO (XO (XO (XO
    XH))))))) :: (((Npos (XI (XO (XO XH)))), (Npos (XI (XO (XO
    XH))))) :: (((Npos (XI (XO (XI XH)))), (Npos (XI (XO (XI
    XH))))) :: (((Npos (XO (XI (XO XH)))), (Npos (XO (XI (XO
    XH))))) :: [])))))))), (Chr (false, (((Npos (XO (XI (XI (XI (XI XH)))))),
    (Npos (XO (XI (XI (XI (XI XH))))))) :: []))))))))))))))))))))))))))))

(** val rx_dtd_header : rx **)

let rx_dtd_header =
  Cat ((Bol false), (Chr (false, (((Npos (XI (XI (XI (XI (XI (XI (XI (XI (XO
    (XI (XI (XI (XI (XI (XI XH)))))))))))))))), (Npos (XI (XI (XI (XI (XI (XI
    (XI (XI (XO (XI (XI (XI (XI (XI (XI XH))))))))))))))))) :: []))))

(** val rx_dtd_comment : rx **)

let rx_dtd_comment =
  Cat ((Chr (false, (((Npos (XO (XO (XI (XI (XI XH)))))), (Npos (XO (XO (XI
    (XI (XI XH))))))) :: []))), (Cat ((Chr (false, (((Npos (XI (XO (XO (XO
    (XO XH)))))), (Npos (XI (XO (XO (XO (XO XH))))))) :: []))), (Cat ((Chr
    (false, (((Npos (XI (XO (XI (XI (XO XH)))))), (Npos (XI (XO (XI (XI (XO
    XH))))))) :: []))), (Cat ((Chr (false, (((Npos (XI (XO (XI (XI (XO
    XH)))))), (Npos (XI (XO (XI (XI (XO XH))))))) :: []))), (Cat ((Rep
    (false, O, None, (Grp ((S O), (Cat ((Alt ((Chr (false, (((Npos (XI (XO
    (XI (XI (XO XH)))))), (Npos (XI (XO (XI (XI (XO XH))))))) :: []))),
    Eps)), (Chr (false, (((Npos (XI (XO (XO XH)))), (Npos (XI (XO (XO
    XH))))) :: (((Npos (XO (XI (XO XH)))), (Npos (XO (XI (XO
    XH))))) :: (((Npos (XI (XO (XI XH)))), (Npos (XI (XO (XI
    XH))))) :: (((Npos (XO (XO (XO (XO (XO XH)))))), (Npos (XO (XO (XI (XI
    (XO XH))))))) :: (((Npos (XO (XI (XI (XI (XO XH)))))), (Npos (XI (XI (XI
    (XI (XI (XI (XI (XI (XI (XI (XI (XO (XI (XO (XI
    XH))))))))))))))))) :: (((Npos (XO (XO (XO (XO (XO (XO (XO (XO (XO (XO
    (XO (XO (XO (XI (XI XH)))))))))))))))), (Npos (XI (XO (XI (XI (XI (XI (XI
    (XI (XI (XI (XI (XI (XI (XI (XI XH))))))))))))))))) :: [])))))))))))))),
    (Cat ((Chr (false, (((Npos (XI (XO (XI (XI (XO XH)))))), (Npos (XI (XO
    (XI (XI (XO XH))))))) :: []))), (Cat ((Chr (false, (((Npos (XI (XO (XI
    (XI (XO XH)))))), (Npos (XI (XO (XI (XI (XO XH))))))) :: []))), (Chr
    (false, (((Npos (XO (XI (XI (XI (XI XH)))))), (Npos (XO (XI (XI (XI (XI
    XH))))))) :: []))))))))))))))))

(** val rx_dtd_pe : rx **)

let rx_dtd_pe =
  Cat ((Chr (false, (((Npos (XO (XO (XI (XI (XI XH)))))), (Npos (XO (XO (XI
    (XI (XI XH))))))) :: []))), (Cat ((Chr (false, (((Npos (XI (XO (XO (XO
    (XO XH)))))), (Npos (XI (XO (XO (XO (XO XH))))))) :: []))), (Cat ((Chr
    (false, (((Npos (XI (XO (XI (XO (XO (XO XH))))))), (Npos (XI (XO (XI (XO
    (XO (XO XH)))))))) :: []))), (Cat ((Chr (false, (((Npos (XO (XI (XI (XI
    (XO (XO XH))))))), (Npos (XO (XI (XI (XI (XO (XO XH)))))))) :: []))),
    (Cat ((Chr (false, (((Npos (XO (XO (XI (XO (XI (XO XH))))))), (Npos (XO
    (XO (XI (XO (XI (XO XH)))))))) :: []))), (Cat ((Chr (false, (((Npos (XI
    (XO (XO (XI (XO (XO XH))))))), (Npos (XI (XO (XO (XI (XO (XO
    XH)))))))) :: []))), (Cat ((Chr (false, (((Npos (XO (XO (XI (XO (XI (XO
    XH))))))), (Npos (XO (XO (XI (XO (XI (XO XH)))))))) :: []))), (Cat ((Chr
    (false, (((Npos (XI (XO (XO (XI (XI (XO XH))))))), (Npos (XI (XO (XO (XI
    (XI (XO XH)))))))) :: []))), (Cat ((Rep (true, (S O), None, (Chr (false,
    (((Npos (XO (XO (XO (XO (XO XH)))))), (Npos (XO (XO (XO (XO (XO
    XH))))))) :: (((Npos (XI (XO (XO XH)))), (Npos (XI (XO (XO
    XH))))) :: (((Npos (XI (XO (XI XH)))), (Npos (XI (XO (XI
    XH))))) :: (((Npos (XO (XI (XO XH)))), (Npos (XO (XI (XO
    XH))))) :: [])))))))), (Cat ((Chr (false, (((Npos (XI (XO (XI (XO (XO
    XH)))))), (Npos (XI (XO (XI (XO (XO XH))))))) :: []))), (Cat ((Rep (true,
    (S O), None, (Chr (false, (((Npos (XO (XO (XO (XO (XO XH)))))), (Npos (XO
    (XO (XO (XO (XO XH))))))) :: (((Npos (XI (XO (XO XH)))), (Npos (XI (XO
    (XO XH))))) :: (((Npos (XI (XO (XI XH)))), (Npos (XI (XO (XI
    XH))))) :: (((Npos (XO (XI (XO XH)))), (Npos (XO (XI (XO
    XH))))) :: [])))))))), (Cat ((Grp ((S O), (Cat ((Chr (false, (((Npos (XO
    (XI (XO (XI (XI XH)))))), (Npos (XO (XI (XO (XI (XI XH))))))) :: (((Npos
    (XI (XO (XO (XO (XO (XO XH))))))), (Npos (XO (XI (XO (XI (XI (XO
    XH)))))))) :: (((Npos (XI (XI (XI (XI (XI (XO XH))))))), (Npos (XI (XI
    (XI (XI (XI (XO XH)))))))) :: (((Npos (XI (XO (XO (XO (XO (XI XH))))))),
    (Npos (XO (XI (XO (XI (XI (XI XH)))))))) :: (((Npos (XO (XO (XO (XO (XO
    (XO (XI XH)))))))), (Npos (XO (XI (XI (XO (XI (XO (XI
    XH))))))))) :: (((Npos (XO (XO (XO (XI (XI (XO (XI XH)))))))), (Npos (XO
    (XI (XI (XO (XI (XI (XI XH))))))))) :: (((Npos (XO (XO (XO (XI (XI (XI
    (XI XH)))))))), (Npos (XI (XI (XI (XI (XI (XI (XI (XI (XO
    XH))))))))))) :: (((Npos (XO (XO (XO (XO (XI (XI (XI (XO (XI
    XH)))))))))), (Npos (XI (XO (XI (XI (XI (XI (XI (XO (XI
    XH))))))))))) :: (((Npos (XI (XI (XI (XI (XI (XI (XI (XO (XI
    XH)))))))))), (Npos (XI (XI (XI (XI (XI (XI (XI (XI (XI (XI (XI (XI
    XH)))))))))))))) :: (((Npos (XO (XO (XI (XI (XO (XO (XO (XO (XO (XO (XO
    (XO (XO XH)))))))))))))), (Npos (XI (XO (XI (XI (XO (XO (XO (XO (XO (XO
    (XO (XO (XO XH))))))))))))))) :: (((Npos (XO (XO (XO (XO (XI (XI (XI (XO
    (XO (XO (XO (XO (XO XH)))))))))))))), (Npos (XI (XI (XI (XI (XO (XO (XO
    (XI (XI (XO (XO (XO (XO XH))))))))))))))) :: (((Npos (XO (XO (XO (XO (XO
    (XO (XO (XO (XO (XO (XI (XI (XO XH)))))))))))))), (Npos (XI (XI (XI (XI
    (XO (XI (XI (XI (XI (XI (XI (XI (XO XH))))))))))))))) :: (((Npos (XI (XO
    (XO (XO (XO (XO (XO (XO (XO (XO (XO (XO (XI XH)))))))))))))), (Npos (XI
    (XI (XI (XI (XI (XI (XI (XI (XI (XI (XI (XO (XI (XO (XI
    XH))))))))))))))))) :: (((Npos (XO (XO (XO (XO (XO (XO (XO (XO (XI (XO
    (XO (XI (XI (XI (XI XH)))))))))))))))), (Npos (XI (XI (XI (XI (XO (XO (XI
    (XI (XI (XO (XI (XI (XI (XI (XI XH))))))))))))))))) :: (((Npos (XO (XO
    (XO (XO (XI (XI (XI (XI (XI (XO (XI (XI (XI (XI (XI XH)))))))))))))))),
    (Npos (XI (XO (XI (XI (XI (XI (XI (XI (XI (XI (XI (XI (XI (XI (XI
    XH))))))))))))))))) :: []))))))))))))))))), (Rep (true, O, None, (Chr
    (false, (((Npos (XO (XI (XO (XI (XI XH)))))), (Npos (XO (XI (XO (XI (XI
    XH))))))) :: (((Npos (XI (XO (XO (XO (XO (XO XH))))))), (Npos (XO (XI (XO
    (XI (XI (XO XH)))))))) :: (((Npos (XI (XI (XI (XI (XI (XO XH))))))),
    (Npos (XI (XI (XI (XI (XI (XO XH)))))))) :: (((Npos (XI (XO (XO (XO (XO
    (XI XH))))))), (Npos (XO (XI (XO (XI (XI (XI XH)))))))) :: (((Npos (XO
    (XO (XO (XO (XO (XO (XI XH)))))))), (Npos (XO (XI (XI (XO (XI (XO (XI
    XH))))))))) :: (((Npos (XO (XO (XO (XI (XI (XO (XI XH)))))))), (Npos (XO
    (XI (XI (XO (XI (XI (XI XH))))))))) :: (((Npos (XO (XO (XO (XI (XI (XI
    (XI XH)))))))), (Npos (XI (XI (XI (XI (XI (XI (XI (XI (XO
    XH))))))))))) :: (((Npos (XO (XO (XO (XO (XI (XI (XI (XO (XI
    XH)))))))))), (Npos (XI (XO (XI (XI (XI (XI (XI (XO (XI
    XH))))))))))) :: (((Npos (XI (XI (XI (XI (XI (XI (XI (XO (XI
    XH)))))))))), (Npos (XI (XI (XI (XI (XI (XI (XI (XI (XI (XI (XI (XI
    XH)))))))))))))) :: (((Npos (XO (XO (XI (XI (XO (XO (XO (XO (XO (XO (XO
    (XO (XO XH)))))))))))))), (Npos (XI (XO (XI (XI (XO (XO (XO (XO (XO (XO
    (XO (XO (XO XH))))))))))))))) :: (((Npos (XO (XO (XO (XO (XI (XI (XI (XO
    (XO (XO (XO (XO (XO XH)))))))))))))), (Npos (XI (XI (XI (XI (XO (XO (XO
    (XI (XI (XO (XO (XO (XO XH))))))))))))))) :: (((Npos (XO (XO (XO (XO (XO
    (XO (XO (XO (XO (XO (XI (XI (XO XH)))))))))))))), (Npos (XI (XI (XI (XI
    (XO (XI (XI (XI (XI (XI (XI (XI (XO XH))))))))))))))) :: (((Npos (XI (XO
    (XO (XO (XO (XO (XO (XO (XO (XO (XO (XO (XI XH)))))))))))))), (Npos (XI
    (XI (XI (XI (XI (XI (XI (XI (XI (XI (XI (XO (XI (XO (XI
    XH))))))))))))))))) :: (((Npos (XO (XO (XO (XO (XO (XO (XO (XO (XI (XO
    (XO (XI (XI (XI (XI XH)))))))))))))))), (Npos (XI (XI (XI (XI (XO (XO (XI
    (XI (XI (XO (XI (XI (XI (XI (XI XH))))))))))))))))) :: (((Npos (XO (XO
    (XO (XO (XI (XI (XI (XI (XI (XO (XI (XI (XI (XI (XI XH)))))))))))))))),
    (Npos (XI (XO (XI (XI (XI (XI (XI (XI (XI (XI (XI (XI (XI (XI (XI
    XH))))))))))))))))) :: (((Npos (XI (XO (XI (XI (XO XH)))))), (Npos (XI
    (XO (XI (XI (XO XH))))))) :: (((Npos (XO (XI (XI (XI (XO XH)))))), (Npos
    (XO (XI (XI (XI (XO XH))))))) :: (((Npos (XO (XO (XO (XO (XI XH)))))),
    (Npos (XI (XO (XO (XI (XI XH))))))) :: (((Npos (XI (XI (XI (XO (XI (XI
    (XO XH)))))))), (Npos (XI (XI (XI (XO (XI (XI (XO XH))))))))) :: (((Npos
    (XO (XO (XO (XO (XO (XO (XO (XO (XI XH)))))))))), (Npos (XI (XI (XI (XI
    (XO (XI (XI (XO (XI XH))))))))))) :: (((Npos (XI (XI (XI (XI (XI (XI (XO
    (XO (XO (XO (XO (XO (XO XH)))))))))))))), (Npos (XO (XO (XO (XO (XO (XO
    (XI (XO (XO (XO (XO (XO (XO
    XH))))))))))))))) :: []))))))))))))))))))))))))))))), (Cat ((Rep (true,
    (S O), None, (Chr (false, (((Npos (XO (XO (XO (XO (XO XH)))))), (Npos (XO
    (XO (XO (XO (XO XH))))))) :: (((Npos (XI (XO (XO XH)))), (Npos (XI (XO
    (XO XH))))) :: (((Npos (XI (XO (XI XH)))), (Npos (XI (XO (XI
    XH))))) :: (((Npos (XO (XI (XO XH)))), (Npos (XO (XI (XO
    XH))))) :: [])))))))), (Cat ((Chr (false, (((Npos (XI (XI (XO (XO (XI (XO
    XH))))))), (Npos (XI (XI (XO (XO (XI (XO XH)))))))) :: []))), (Cat ((Chr
    (false, (((Npos (XI (XO (XO (XI (XI (XO XH))))))), (Npos (XI (XO (XO (XI
    (XI (XO XH)))))))) :: []))), (Cat ((Chr (false, (((Npos (XI (XI (XO (XO
    (XI (XO XH))))))), (Npos (XI (XI (XO (XO (XI (XO XH)))))))) :: []))),
    (Cat ((Chr (false, (((Npos (XO (XO (XI (XO (XI (XO XH))))))), (Npos (XO
    (XO (XI (XO (XI (XO XH)))))))) :: []))), (Cat ((Chr (false, (((Npos (XI
    (XO (XI (XO (XO (XO XH))))))), (Npos (XI (XO (XI (XO (XO (XO
    XH)))))))) :: []))), (Cat ((Chr (false, (((Npos (XI (XO (XI (XI (XO (XO
    XH))))))), (Npos (XI (XO (XI (XI (XO (XO XH)))))))) :: []))), (Cat ((Rep
    (true, (S O), None, (Chr (false, (((Npos (XO (XO (XO (XO (XO XH)))))),
    (Npos (XO (XO (XO (XO (XO XH))))))) :: (((Npos (XI (XO (XO XH)))), (Npos
    (XI (XO (XO XH))))) :: (((Npos (XI (XO (XI XH)))), (Npos (XI (XO (XI
    XH))))) :: (((Npos (XO (XI (XO XH)))), (Npos (XO (XI (XO
    XH))))) :: [])))))))), (Cat ((Grp ((S (S O)), (Alt ((Cat ((Chr (false,
    (((Npos (XO (XI (XO (XO (XO XH)))))), (Npos (XO (XI (XO (XO (XO
    XH))))))) :: []))), (Cat ((Rep (true, O, None, (Chr (true, (((Npos (XO
    (XI (XO (XO (XO XH)))))), (Npos (XO (XI (XO (XO (XO XH))))))) :: []))))),
    (Chr (false, (((Npos (XO (XI (XO (XO (XO XH)))))), (Npos (XO (XI (XO (XO
    (XO XH))))))) :: []))))))), (Cat ((Chr (false, (((Npos (XI (XI (XI (XO
    (XO XH)))))), (Npos (XI (XI (XI (XO (XO XH))))))) :: []))), (Cat ((Rep
    (true, O, None, (Chr (true, (((Npos (XI (XI (XI (XO (XO XH)))))), (Npos
    (XI (XI (XI (XO (XO XH))))))) :: []))))), (Chr (false, (((Npos (XI (XI
    (XI (XO (XO XH)))))), (Npos (XI (XI (XI (XO (XO
    XH))))))) :: []))))))))))), (Cat ((Rep (true, O, None, (Chr (false,
    (((Npos (XO (XO (XO (XO (XO XH)))))), (Npos (XO (XO (XO (XO (XO
    XH))))))) :: (((Npos (XI (XO (XO XH)))), (Npos (XI (XO (XO
    XH))))) :: (((Npos (XI (XO (XI XH)))), (Npos (XI (XO (XI
    XH))))) :: (((Npos (XO (XI (XO XH)))), (Npos (XO (XI (XO
    XH))))) :: [])))))))), (Cat ((Chr (false, (((Npos (XO (XI (XI (XI (XI
    XH)))))), (Npos (XO (XI (XI (XI (XI XH))))))) :: []))), (Cat ((Rep (true,
    O, None, (Chr (false, (((Npos (XO (XO (XO (XO (XO XH)))))), (Npos (XO (XO
    (XO (XO (XO XH))))))) :: (((Npos (XI (XO (XO XH)))), (Npos (XI (XO (XO
    XH))))) :: (((Npos (XI (XO (XI XH)))), (Npos (XI (XO (XI
    XH))))) :: (((Npos (XO (XI (XO XH)))), (Npos (XO (XI (XO
    XH))))) :: [])))))))), (Cat ((Chr (false, (((Npos (XI (XO (XI (XO (XO
    XH)))))), (Npos (XI (XO (XI (XO (XO XH))))))) :: []))), (Cat ((Chr
    (false, (((Npos (XO (XI (XO (XI (XI XH)))))), (Npos (XO (XI (XO (XI (XI
    XH))))))) :: (((Npos (XI (XO (XO (XO (XO (XO XH))))))), (Npos (XO (XI (XO
    (XI (XI (XO XH)))))))) :: (((Npos (XI (XI (XI (XI (XI (XO XH))))))),
    (Npos (XI (XI (XI (XI (XI (XO XH)))))))) :: (((Npos (XI (XO (XO (XO (XO
    (XI XH))))))), (Npos (XO (XI (XO (XI (XI (XI XH)))))))) :: (((Npos (XO
    (XO (XO (XO (XO (XO (XI XH)))))))), (Npos (XO (XI (XI (XO (XI (XO (XI
    XH))))))))) :: (((Npos (XO (XO (XO (XI (XI (XO (XI XH)))))))), (Npos (XO
    (XI (XI (XO (XI (XI (XI XH))))))))) :: (((Npos (XO (XO (XO (XI (XI (XI
    (XI XH)))))))), (Npos (XI (XI (XI (XI (XI (XI (XI (XI (XO
    XH))))))))))) :: (((Npos (XO (XO (XO (XO (XI (XI (XI (XO (XI
    XH)))))))))), (Npos (XI (XO (XI (XI (XI (XI (XI (XO (XI
    XH))))))))))) :: (((Npos (XI (XI (XI (XI (XI (XI (XI (XO (XI
    XH)))))))))), (Npos (XI (XI (XI (XI (XI (XI (XI (XI (XI (XI (XI (XI
    XH)))))))))))))) :: (((Npos (XO (XO (XI (XI (XO (XO (XO (XO (XO (XO (XO
    (XO (XO XH)))))))))))))), (Npos (XI (XO (XI (XI (XO (XO (XO (XO (XO (XO
    (XO (XO (XO XH))))))))))))))) :: (((Npos (XO (XO (XO (XO (XI (XI (XI (XO
    (XO (XO (XO (XO (XO XH)))))))))))))), (Npos (XI (XI (XI (XI (XO (XO (XO
    (XI (XI (XO (XO (XO (XO XH))))))))))))))) :: (((Npos (XO (XO (XO (XO (XO
    (XO (XO (XO (XO (XO (XI (XI (XO XH)))))))))))))), (Npos (XI (XI (XI (XI
    (XO (XI (XI (XI (XI (XI (XI (XI (XO XH))))))))))))))) :: (((Npos (XI (XO
    (XO (XO (XO (XO (XO (XO (XO (XO (XO (XO (XI XH)))))))))))))), (Npos (XI
    (XI (XI (XI (XI (XI (XI (XI (XI (XI (XI (XO (XI (XO (XI
    XH))))))))))))))))) :: (((Npos (XO (XO (XO (XO (XO (XO (XO (XO (XI (XO
    (XO (XI (XI (XI (XI XH)))))))))))))))), (Npos (XI (XI (XI (XI (XO (XO (XI
    (XI (XI (XO (XI (XI (XI (XI (XI XH))))))))))))))))) :: (((Npos (XO (XO
    (XO (XO (XI (XI (XI (XI (XI (XO (XI (XI (XI (XI (XI XH)))))))))))))))),
    (Npos (XI (XO (XI (XI (XI (XI (XI (XI (XI (XI (XI (XI (XI (XI (XI
    XH))))))))))))))))) :: []))))))))))))))))), (Cat ((Rep (true, O, None,
    (Chr (false, (((Npos (XO (XI (XO (XI (XI XH)))))), (Npos (XO (XI (XO (XI
    (XI XH))))))) :: (((Npos (XI (XO (XO (XO (XO (XO XH))))))), (Npos (XO (XI
    (XO (XI (XI (XO XH)))))))) :: (((Npos (XI (XI (XI (XI (XI (XO XH))))))),
    (Npos (XI (XI (XI (XI (XI (XO XH)))))))) :: (((Npos (XI (XO (XO (XO (XO
    (XI XH))))))), (Npos (XO (XI (XO (XI (XI (XI XH)))))))) :: (((Npos (XO
    (XO (XO (XO (XO (XO (XI XH)))))))), (Npos (XO (XI (XI (XO (XI (XO (XI
    XH))))))))) :: (((Npos (XO (XO (XO (XI (XI (XO (XI XH)))))))), (Npos (XO
    (XI (XI (XO (XI (XI (XI XH))))))))) :: (((Npos (XO (XO (XO (XI (XI (XI
    (XI XH)))))))), (Npos (XI (XI (XI (XI (XI (XI (XI (XI (XO
    XH))))))))))) :: (((Npos (XO (XO (XO (XO (XI (XI (XI (XO (XI
    XH)))))))))), (Npos (XI (XO (XI (XI (XI (XI (XI (XO (XI
    XH))))))))))) :: (((Npos (XI (XI (XI (XI (XI (XI (XI (XO (XI
    XH)))))))))), (Npos (XI (XI (XI (XI (XI (XI (XI (XI (XI (XI (XI (XI
    XH)))))))))))))) :: (((Npos (XO (XO (XI (XI (XO (XO (XO (XO (XO (XO (XO
    (XO (XO XH)))))))))))))), (Npos (XI (XO (XI (XI (XO (XO (XO (XO (XO (XO
    (XO (XO (XO XH))))))))))))))) :: (((Npos (XO (XO (XO (XO (XI (XI (XI (XO
    (XO (XO (XO (XO (XO XH)))))))))))))), (Npos (XI (XI (XI (XI (XO (XO (XO
    (XI (XI (XO (XO (XO (XO XH))))))))))))))) :: (((Npos (XO (XO (XO (XO (XO
    (XO (XO (XO (XO (XO (XI (XI (XO XH)))))))))))))), (Npos (XI (XI (XI (XI
    (XO (XI (XI (XI (XI (XI (XI (XI (XO XH))))))))))))))) :: (((Npos (XI (XO
    (XO (XO (XO (XO (XO (XO (XO (XO (XO (XO (XI XH)))))))))))))), (Npos (XI
    (XI (XI (XI (XI (XI (XI (XI (XI (XI (XI (XO (XI (XO (XI
    XH))))))))))))))))) :: (((Npos (XO (XO (XO (XO (XO (XO (XO (XO (XI (XO
    (XO (XI (XI (XI (XI XH)))))))))))))))), (Npos (XI (XI (XI (XI (XO (XO (XI
    (XI (XI (XO (XI (XI (XI (XI (XI XH))))))))))))))))) :: (((Npos (XO (XO
    (XO (XO (XI (XI (XI (XI (XI (XO (XI (XI (XI (XI (XI XH)))))))))))))))),
    (Npos (XI (XO (XI (XI (XI (XI (XI (XI (XI (XI (XI (XI (XI (XI (XI
    XH))))))))))))))))) :: (((Npos (XI (XO (XI (XI (XO XH)))))), (Npos (XI
    (XO (XI (XI (XO XH))))))) :: (((Npos (XO (XI (XI (XI (XO XH)))))), (Npos
    (XO (XI (XI (XI (XO XH))))))) :: (((Npos (XO (XO (XO (XO (XI XH)))))),
    (Npos (XI (XO (XO (XI (XI XH))))))) :: (((Npos (XI (XI (XI (XO (XI (XI
    (XO XH)))))))), (Npos (XI (XI (XI (XO (XI (XI (XO XH))))))))) :: (((Npos
    (XO (XO (XO (XO (XO (XO (XO (XO (XI XH)))))))))), (Npos (XI (XI (XI (XI
    (XO (XI (XI (XO (XI XH))))))))))) :: (((Npos (XI (XI (XI (XI (XI (XI (XO
    (XO (XO (XO (XO (XO (XO XH)))))))))))))), (Npos (XO (XO (XO (XO (XO (XO
    (XI (XO (XO (XO (XO (XO (XO
    XH))))))))))))))) :: []))))))))))))))))))))))))), (Cat ((Chr (false,
    (((Npos (XI (XI (XO (XI (XI XH)))))), (Npos (XI (XI (XO (XI (XI
    XH))))))) :: []))), (Alt ((Cat ((Rep (true, O, None, (Chr (false, (((Npos
    (XO (XO (XO (XO (XO XH)))))), (Npos (XO (XO (XO (XO (XO
    XH))))))) :: (((Npos (XI (XO (XO XH)))), (Npos (XI (XO (XO
    XH))))) :: [])))))), (Cat ((Rep (true, O, None, (Cat ((Chr (false,
    (((Npos (XO (XO (XI (XI (XI XH)))))), (Npos (XO (XO (XI (XI (XI
    XH))))))) :: []))), (Cat ((Chr (false, (((Npos (XI (XO (XO (XO (XO
    XH)))))), (Npos (XI (XO (XO (XO (XO XH))))))) :: []))), (Cat ((Chr
    (false, (((Npos (XI (XO (XI (XI (XO XH)))))), (Npos (XI (XO (XI (XI (XO
    XH))))))) :: []))), (Cat ((Chr (false, (((Npos (XI (XO (XI (XI (XO
    XH)))))), (Npos (XI (XO (XI (XI (XO XH))))))) :: []))), (Cat ((Rep
    (false, O, None, (Cat ((Alt ((Chr (false, (((Npos (XI (XO (XI (XI (XO
    XH)))))), (Npos (XI (XO (XI (XI (XO XH))))))) :: []))), Eps)), (Chr
    (false, (((Npos (XI (XO (XO XH)))), (Npos (XI (XO (XO XH))))) :: (((Npos
    (XO (XI (XO XH)))), (Npos (XO (XI (XO XH))))) :: (((Npos (XI (XO (XI
    XH)))), (Npos (XI (XO (XI XH))))) :: (((Npos (XO (XO (XO (XO (XO
    XH)))))), (Npos (XO (XO (XI (XI (XO XH))))))) :: (((Npos (XO (XI (XI (XI
    (XO XH)))))), (Npos (XI (XI (XI (XI (XI (XI (XI (XI (XI (XI (XI (XO (XI
    (XO (XI XH))))))))))))))))) :: (((Npos (XO (XO (XO (XO (XO (XO (XO (XO
    (XO (XO (XO (XO (XO (XI (XI XH)))))))))))))))), (Npos (XI (XO (XI (XI (XI
    (XI (XI (XI (XI (XI (XI (XI (XI (XI (XI
    XH))))))))))))))))) :: [])))))))))))), (Cat ((Chr (false, (((Npos (XI (XO
    (XI (XI (XO XH)))))), (Npos (XI (XO (XI (XI (XO XH))))))) :: []))), (Cat
    ((Chr (false, (((Npos (XI (XO (XI (XI (XO XH)))))), (Npos (XI (XO (XI (XI
    (XO XH))))))) :: []))), (Cat ((Chr (false, (((Npos (XO (XI (XI (XI (XI
    XH)))))), (Npos (XO (XI (XI (XI (XI XH))))))) :: []))), (Rep (true, O,
    None, (Chr (false, (((Npos (XO (XO (XO (XO (XO XH)))))), (Npos (XO (XO
    (XO (XO (XO XH))))))) :: (((Npos (XI (XO (XO XH)))), (Npos (XI (XO (XO
    XH))))) :: (((Npos (XI (XO (XI XH)))), (Npos (XI (XO (XI
    XH))))) :: (((Npos (XO (XI (XO XH)))), (Npos (XO (XI (XO
    XH))))) :: [])))))))))))))))))))))))))), (Alt ((Chr (false, (((Npos (XO
    (XI (XO XH)))), (Npos (XO (XI (XO XH))))) :: []))), Eps)))))),
    Eps)))))))))))))))))))))))))))))))))))))))))))))))))))))))))

(** val rx_dtd_ws : rx **)

let rx_dtd_ws =
  Rep (true, (S O), None, (Chr (false, (((Npos (XO (XO (XO (XO (XO XH)))))),
    (Npos (XO (XO (XO (XO (XO XH))))))) :: (((Npos (XI (XO (XO XH)))), (Npos
    (XI (XO (XO XH))))) :: (((Npos (XI (XO (XI XH)))), (Npos (XI (XO (XI
    XH))))) :: (((Npos (XO (XI (XO XH)))), (Npos (XO (XI (XO
    XH))))) :: [])))))))

(** val rx_ini_comment : rx **)

let rx_ini_comment =
  Cat ((Rep (true, O, None, (Cat ((Bol true), (Cat ((Chr (false, (((Npos (XI
    (XI (XO (XI (XI XH)))))), (Npos (XI (XI (XO (XI (XI XH))))))) :: (((Npos
    (XI (XI (XO (XO (XO XH)))))), (Npos (XI (XI (XO (XO (XO
    XH))))))) :: [])))), (Cat ((Rep (true, O, None, (Chr (true, (((Npos (XO
    (XI (XO XH)))), (Npos (XO (XI (XO XH))))) :: []))))), (Chr (false,
    (((Npos (XO (XI (XO XH)))), (Npos (XO (XI (XO XH))))) :: []))))))))))),
    (Cat ((Bol true), (Cat ((Chr (false, (((Npos (XI (XI (XO (XI (XI
    XH)))))), (Npos (XI (XI (XO (XI (XI XH))))))) :: (((Npos (XI (XI (XO (XO
    (XO XH)))))), (Npos (XI (XI (XO (XO (XO XH))))))) :: [])))), (Rep (true,
    O, None, (Chr (true, (((Npos (XO (XI (XO XH)))), (Npos (XO (XI (XO
    XH))))) :: []))))))))))

(** val rx_ini_section : rx **)

let rx_ini_section =
  Cat ((Chr (false, (((Npos (XI (XI (XO (XI (XI (XO XH))))))), (Npos (XI (XI
    (XO (XI (XI (XO XH)))))))) :: []))), (Cat ((Grp ((S O), (Rep (false, O,
    None, (Chr (true, (((Npos (XO (XI (XO XH)))), (Npos (XO (XI (XO
    XH))))) :: []))))))), (Chr (false, (((Npos (XI (XO (XI (XI (XI (XO
    XH))))))), (Npos (XI (XO (XI (XI (XI (XO XH)))))))) :: []))))))

(** val rx_ini_key : rx **)

let rx_ini_key =
  Cat ((Grp ((S O), (Rep (false, (S O), None, (Chr (true, (((Npos (XO (XI (XO
    XH)))), (Npos (XO (XI (XO XH))))) :: []))))))), (Cat ((Chr (false,
    (((Npos (XI (XO (XI (XI (XI XH)))))), (Npos (XI (XO (XI (XI (XI
    XH))))))) :: []))), (Grp ((S (S O)), (Rep (true, O, None, (Chr (true,
    (((Npos (XO (XI (XO XH)))), (Npos (XO (XI (XO XH))))) :: []))))))))))

(** val rx_ini_ws : rx **)

let rx_ini_ws =
  Rep (true, (S O), None, (Chr (false, (((Npos (XO (XO (XO (XO (XO XH)))))),
    (Npos (XO (XO (XO (XO (XO XH))))))) :: (((Npos (XI (XO (XO XH)))), (Npos
    (XI (XO (XO XH))))) :: (((Npos (XI (XO (XI XH)))), (Npos (XI (XO (XI
    XH))))) :: (((Npos (XO (XI (XO XH)))), (Npos (XO (XI (XO
    XH))))) :: [])))))))

(** val rx_inc_ws : rx **)

let rx_inc_ws =
  Rep (true, (S O), None, (Chr (false, (((Npos (XO (XI (XO XH)))), (Npos (XO
    (XI (XO XH))))) :: []))))

(** val rx_inc_comment : rx **)

let rx_inc_comment =
  Cat ((Rep (true, O, None, (Cat ((Bol true), (Cat ((Chr (false, (((Npos (XI
    (XI (XO (XO (XO XH)))))), (Npos (XI (XI (XO (XO (XO XH))))))) :: []))),
    (Cat ((Chr (false, (((Npos (XO (XO (XO (XO (XO XH)))))), (Npos (XO (XO
    (XO (XO (XO XH))))))) :: []))), (Cat ((Rep (false, O, None, (Chr (true,
    (((Npos (XO (XI (XO XH)))), (Npos (XO (XI (XO XH))))) :: []))))), (Chr
    (false, (((Npos (XO (XI (XO XH)))), (Npos (XO (XI (XO
    XH))))) :: []))))))))))))), (Cat ((Bol true), (Cat ((Chr (false, (((Npos
    (XI (XI (XO (XO (XO XH)))))), (Npos (XI (XI (XO (XO (XO
    XH))))))) :: []))), (Cat ((Chr (false, (((Npos (XO (XO (XO (XO (XO
    XH)))))), (Npos (XO (XO (XO (XO (XO XH))))))) :: []))), (Rep (true, O,
    None, (Chr (true, (((Npos (XO (XI (XO XH)))), (Npos (XO (XI (XO
    XH))))) :: []))))))))))))

(** val rx_inc_key : rx **)

let rx_inc_key =
  Cat ((Chr (false, (((Npos (XI (XI (XO (XO (XO XH)))))), (Npos (XI (XI (XO
    (XO (XO XH))))))) :: []))), (Cat ((Chr (false, (((Npos (XO (XO (XI (XO
    (XO (XI XH))))))), (Npos (XO (XO (XI (XO (XO (XI XH)))))))) :: []))),
    (Cat ((Chr (false, (((Npos (XI (XO (XI (XO (XO (XI XH))))))), (Npos (XI
    (XO (XI (XO (XO (XI XH)))))))) :: []))), (Cat ((Chr (false, (((Npos (XO
    (XI (XI (XO (XO (XI XH))))))), (Npos (XO (XI (XI (XO (XO (XI
    XH)))))))) :: []))), (Cat ((Chr (false, (((Npos (XI (XO (XO (XI (XO (XI
    XH))))))), (Npos (XI (XO (XO (XI (XO (XI XH)))))))) :: []))), (Cat ((Chr
    (false, (((Npos (XO (XI (XI (XI (XO (XI XH))))))), (Npos (XO (XI (XI (XI
    (XO (XI XH)))))))) :: []))), (Cat ((Chr (false, (((Npos (XI (XO (XI (XO
    (XO (XI XH))))))), (Npos (XI (XO (XI (XO (XO (XI XH)))))))) :: []))),
    (Cat ((Rep (true, (S O), None, (Chr (false, (((Npos (XO (XO (XO (XO (XO
    XH)))))), (Npos (XO (XO (XO (XO (XO XH))))))) :: (((Npos (XI (XO (XO
    XH)))), (Npos (XI (XO (XO XH))))) :: [])))))), (Cat ((Grp ((S O), (Rep
    (true, (S O), None, (Chr (false, word_ranges)))))), (Alt ((Cat ((Chr
    (false, (((Npos (XO (XO (XO (XO (XO XH)))))), (Npos (XO (XO (XO (XO (XO
    XH))))))) :: (((Npos (XI (XO (XO XH)))), (Npos (XI (XO (XO
    XH))))) :: [])))), (Grp ((S (S O)), (Rep (true, O, None, (Chr (true,
    (((Npos (XO (XI (XO XH)))), (Npos (XO (XI (XO XH))))) :: []))))))))),
    Eps)))))))))))))))))))

(** val rx_inc_pi : rx **)

let rx_inc_pi =
  Cat ((Chr (false, (((Npos (XI (XI (XO (XO (XO XH)))))), (Npos (XI (XI (XO
    (XO (XO XH))))))) :: []))), (Grp ((S O), (Cat ((Rep (true, (S O), None,
    (Chr (false, word_ranges)))), (Cat ((Rep (true, (S O), None, (Chr (false,
    (((Npos (XO (XO (XO (XO (XO XH)))))), (Npos (XO (XO (XO (XO (XO
    XH))))))) :: (((Npos (XI (XO (XO XH)))), (Npos (XI (XO (XO
    XH))))) :: [])))))), (Rep (true, (S O), None, (Chr (true, (((Npos (XO (XI
    (XO XH)))), (Npos (XO (XI (XO XH))))) :: []))))))))))))

(** val rx_po_key : rx **)

let rx_po_key =
  Cat ((Chr (false, (((Npos (XI (XO (XI (XI (XO (XI XH))))))), (Npos (XI (XO
    (XI (XI (XO (XI XH)))))))) :: []))), (Cat ((Chr (false, (((Npos (XI (XI
    (XO (XO (XI (XI XH))))))), (Npos (XI (XI (XO (XO (XI (XI
    XH)))))))) :: []))), (Cat ((Chr (false, (((Npos (XI (XI (XI (XO (XO (XI
    XH))))))), (Npos (XI (XI (XI (XO (XO (XI XH)))))))) :: []))), (Alt ((Cat
    ((Chr (false, (((Npos (XI (XI (XO (XO (XO (XI XH))))))), (Npos (XI (XI
    (XO (XO (XO (XI XH)))))))) :: []))), (Cat ((Chr (false, (((Npos (XO (XO
    (XI (XO (XI (XI XH))))))), (Npos (XO (XO (XI (XO (XI (XI
    XH)))))))) :: []))), (Cat ((Chr (false, (((Npos (XO (XO (XO (XI (XI (XI
    XH))))))), (Npos (XO (XO (XO (XI (XI (XI XH)))))))) :: []))), (Chr
    (false, (((Npos (XO (XO (XI (XO (XI (XI XH))))))), (Npos (XO (XO (XI (XO
    (XI (XI XH)))))))) :: []))))))))), (Cat ((Chr (false, (((Npos (XI (XO (XO
    (XI (XO (XI XH))))))), (Npos (XI (XO (XO (XI (XO (XI XH)))))))) :: []))),
    (Chr (false, (((Npos (XO (XO (XI (XO (XO (XI XH))))))), (Npos (XO (XO (XI
    (XO (XO (XI XH)))))))) :: []))))))))))))

(** val rx_po_value : rx **)

let rx_po_value =
  Cat ((Grp ((S O), (Rep (true, O, None, (Chr (false, (((Npos (XO (XO (XO (XO
    (XO XH)))))), (Npos (XO (XO (XO (XO (XO XH))))))) :: (((Npos (XI (XO (XO
    XH)))), (Npos (XI (XO (XO XH))))) :: (((Npos (XI (XO (XI XH)))), (Npos
    (XI (XO (XI XH))))) :: (((Npos (XO (XI (XO XH)))), (Npos (XO (XI (XO
    XH))))) :: [])))))))))), (Grp ((S (S O)), (Cat ((Chr (false, (((Npos (XI
    (XO (XI (XI (XO (XI XH))))))), (Npos (XI (XO (XI (XI (XO (XI
    XH)))))))) :: []))), (Cat ((Chr (false, (((Npos (XI (XI (XO (XO (XI (XI
    XH))))))), (Npos (XI (XI (XO (XO (XI (XI XH)))))))) :: []))), (Cat ((Chr
    (false, (((Npos (XI (XI (XI (XO (XO (XI XH))))))), (Npos (XI (XI (XI (XO
    (XO (XI XH)))))))) :: []))), (Cat ((Chr (false, (((Npos (XI (XI (XO (XO
    (XI (XI XH))))))), (Npos (XI (XI (XO (XO (XI (XI XH)))))))) :: []))),
    (Cat ((Chr (false, (((Npos (XO (XO (XI (XO (XI (XI XH))))))), (Npos (XO
    (XO (XI (XO (XI (XI XH)))))))) :: []))), (Chr (false, (((Npos (XO (XI (XO
    (XO (XI (XI XH))))))), (Npos (XO (XI (XO (XO (XI (XI
    XH)))))))) :: []))))))))))))))))

(** val rx_po_comment : rx **)

let rx_po_comment =
  Rep (true, (S O), None, (Cat ((Chr (false, (((Npos (XI (XI (XO (XO (XO
    XH)))))), (Npos (XI (XI (XO (XO (XO XH))))))) :: []))), (Cat ((Rep
    (false, O, None, (Chr (true, (((Npos (XO (XI (XO XH)))), (Npos (XO (XI
    (XO XH))))) :: []))))), (Chr (false, (((Npos (XO (XI (XO XH)))), (Npos
    (XO (XI (XO XH))))) :: []))))))))

(** val rx_po_listitem : rx **)

let rx_po_listitem =
  Cat ((Rep (true, O, None, (Chr (false, (((Npos (XO (XO (XO (XO (XO
    XH)))))), (Npos (XO (XO (XO (XO (XO XH))))))) :: (((Npos (XI (XO (XO
    XH)))), (Npos (XI (XO (XO XH))))) :: (((Npos (XI (XO (XI XH)))), (Npos
    (XI (XO (XI XH))))) :: (((Npos (XO (XI (XO XH)))), (Npos (XO (XI (XO
    XH))))) :: [])))))))), (Cat ((Chr (false, (((Npos (XO (XI (XO (XO (XO
    XH)))))), (Npos (XO (XI (XO (XO (XO XH))))))) :: []))), (Cat ((Grp ((S
    O), (Rep (true, O, None, (Alt ((Cat ((Chr (false, (((Npos (XO (XO (XI (XI
    (XI (XO XH))))))), (Npos (XO (XO (XI (XI (XI (XO XH)))))))) :: []))),
    (Chr (false, (((Npos (XO (XO (XI (XI (XI (XO XH))))))), (Npos (XO (XO (XI
    (XI (XI (XO XH)))))))) :: (((Npos (XO (XO (XI (XO (XI (XI XH))))))),
    (Npos (XO (XO (XI (XO (XI (XI XH)))))))) :: (((Npos (XO (XI (XO (XO (XI
    (XI XH))))))), (Npos (XO (XI (XO (XO (XI (XI XH)))))))) :: (((Npos (XO
    (XI (XI (XI (XO (XI XH))))))), (Npos (XO (XI (XI (XI (XO (XI
    XH)))))))) :: (((Npos (XO (XI (XO (XO (XO XH)))))), (Npos (XO (XI (XO (XO
    (XO XH))))))) :: []))))))))), (Chr (true, (((Npos (XO (XI (XO (XO (XO
    XH)))))), (Npos (XO (XI (XO (XO (XO XH))))))) :: (((Npos (XO (XI (XO
    XH)))), (Npos (XO (XI (XO XH))))) :: (((Npos (XO (XO (XI (XI (XI (XO
    XH))))))), (Npos (XO (XO (XI (XI (XI (XO XH)))))))) :: []))))))))))),
    (Chr (false, (((Npos (XO (XI (XO (XO (XO XH)))))), (Npos (XO (XI (XO (XO
    (XO XH))))))) :: []))))))))

(** val rx_po_ws : rx **)

let rx_po_ws =
  Rep (true, (S O), None, (Chr (false, (((Npos (XO (XO (XO (XO (XO XH)))))),
    (Npos (XO (XO (XO (XO (XO XH))))))) :: (((Npos (XI (XO (XO XH)))), (Npos
    (XI (XO (XO XH))))) :: (((Npos (XI (XO (XI XH)))), (Npos (XI (XO (XI
    XH))))) :: (((Npos (XO (XI (XO XH)))), (Npos (XO (XI (XO
    XH))))) :: [])))))))

(** val rx_ftl_lead : rx **)

let rx_ftl_lead =
  Rep (true, O, None, (Chr (false, (((Npos (XO (XO (XO (XO (XO XH)))))),
    (Npos (XO (XO (XO (XO (XO XH))))))) :: (((Npos (XI (XO (XO XH)))), (Npos
    (XI (XO (XO XH))))) :: (((Npos (XI (XO (XI XH)))), (Npos (XI (XO (XI
    XH))))) :: (((Npos (XO (XI (XO XH)))), (Npos (XO (XI (XO
    XH))))) :: [])))))))

(** val rx_ftl_trail : rx **)

let rx_ftl_trail =
  Cat ((Rep (true, O, None, (Chr (false, (((Npos (XO (XO (XO (XO (XO
    XH)))))), (Npos (XO (XO (XO (XO (XO XH))))))) :: (((Npos (XI (XO (XO
    XH)))), (Npos (XI (XO (XO XH))))) :: (((Npos (XI (XO (XI XH)))), (Npos
    (XI (XO (XI XH))))) :: (((Npos (XO (XI (XO XH)))), (Npos (XO (XI (XO
    XH))))) :: [])))))))), (Eol false))

(** val parser_regexes : rx list **)

let parser_regexes =
  rx_ws_base :: (rx_nl_linecol :: (rx_re_br :: (rx_re_sgml :: (rx_props_key :: (rx_props_comment :: (rx_props_ws :: (rx_props_escaped_end :: (rx_props_trailing_ws :: (rx_props_escape :: (rx_dtd_key :: (rx_dtd_header :: (rx_dtd_comment :: (rx_dtd_pe :: (rx_dtd_ws :: (rx_ini_comment :: (rx_ini_section :: (rx_ini_key :: (rx_ini_ws :: (rx_inc_ws :: (rx_inc_comment :: (rx_inc_key :: (rx_inc_pi :: (rx_po_key :: (rx_po_value :: (rx_po_comment :: (rx_po_listitem :: (rx_po_ws :: (rx_ftl_lead :: (rx_ftl_trail :: [])))))))))))))))))))))))))))))

(** val rx_keyRE : rx **)

let rx_keyRE =
  Cat ((Chr (false, (((Npos (XI (XI (XO (XI (XO (XI XH))))))), (Npos (XI (XI
    (XO (XI (XO (XI XH)))))))) :: (((Npos (XI (XI (XO (XI (XO (XO XH))))))),
    (Npos (XI (XI (XO (XI (XO (XO XH)))))))) :: [])))), (Cat ((Chr (false,
    (((Npos (XI (XO (XI (XO (XO (XI XH))))))), (Npos (XI (XO (XI (XO (XO (XI
    XH)))))))) :: []))), (Chr (false, (((Npos (XI (XO (XO (XI (XI (XI
    XH))))))), (Npos (XI (XO (XO (XI (XI (XI XH)))))))) :: []))))))

(** val c03_regexes : rx list **)

let c03_regexes =
  rx_keyRE :: []

(** val rx_printf : rx **)

let rx_printf =
  Cat ((Chr (false, (((Npos (XI (XO (XI (XO (XO XH)))))), (Npos (XI (XO (XI
    (XO (XO XH))))))) :: []))), (Alt ((Grp ((S O), (Alt ((Chr (false, (((Npos
    (XI (XO (XI (XO (XO XH)))))), (Npos (XI (XO (XI (XO (XO
    XH))))))) :: []))), (Cat ((Alt ((Cat ((Grp ((S (S O)), (Cat ((Chr (false,
    (((Npos (XI (XO (XO (XO (XI XH)))))), (Npos (XI (XO (XO (XI (XI
    XH))))))) :: []))), (Rep (true, O, None, (Chr (false, (((Npos (XO (XO (XO
    (XO (XI XH)))))), (Npos (XI (XO (XO (XI (XI XH))))))) :: []))))))))),
    (Chr (false, (((Npos (XO (XO (XI (XO (XO XH)))))), (Npos (XO (XO (XI (XO
    (XO XH))))))) :: []))))), Eps)), (Cat ((Alt ((Grp ((S (S (S O))), (Alt
    ((Chr (false, (((Npos (XO (XI (XO (XI (XO XH)))))), (Npos (XO (XI (XO (XI
    (XO XH))))))) :: []))), (Rep (true, (S O), None, (Chr (false, (((Npos (XO
    (XO (XO (XO (XI XH)))))), (Npos (XI (XO (XO (XI (XI
    XH))))))) :: []))))))))), Eps)), (Cat ((Alt ((Grp ((S (S (S (S O)))),
    (Cat ((Chr (false, (((Npos (XO (XI (XI (XI (XO XH)))))), (Npos (XO (XI
    (XI (XI (XO XH))))))) :: []))), (Alt ((Alt ((Chr (false, (((Npos (XO (XI
    (XO (XI (XO XH)))))), (Npos (XO (XI (XO (XI (XO XH))))))) :: []))), (Rep
    (true, (S O), None, (Chr (false, (((Npos (XO (XO (XO (XO (XI XH)))))),
    (Npos (XI (XO (XO (XI (XI XH))))))) :: []))))))), Eps)))))), Eps)), (Grp
    ((S (S (S (S (S O))))), (Chr (false, (((Npos (XO (XO (XI (XO (XO (XI
    XH))))))), (Npos (XO (XO (XI (XO (XO (XI XH)))))))) :: (((Npos (XI (XO
    (XI (XO (XI (XI XH))))))), (Npos (XI (XO (XI (XO (XI (XI
    XH)))))))) :: (((Npos (XO (XO (XO (XI (XI (XI XH))))))), (Npos (XO (XO
    (XO (XI (XI (XI XH)))))))) :: (((Npos (XO (XO (XO (XI (XI (XO XH))))))),
    (Npos (XO (XO (XO (XI (XI (XO XH)))))))) :: (((Npos (XI (XI (XI (XI (XO
    (XI XH))))))), (Npos (XI (XI (XI (XI (XO (XI XH)))))))) :: (((Npos (XI
    (XI (XO (XO (XI (XI XH))))))), (Npos (XI (XI (XO (XO (XI (XI
    XH)))))))) :: (((Npos (XI (XI (XO (XO (XI (XO XH))))))), (Npos (XI (XI
    (XO (XO (XI (XO XH)))))))) :: (((Npos (XI (XI (XO (XO (XO (XI XH))))))),
    (Npos (XI (XI (XO (XO (XO (XI XH)))))))) :: (((Npos (XO (XO (XO (XO (XI
    (XI XH))))))), (Npos (XO (XO (XO (XO (XI (XI XH)))))))) :: (((Npos (XO
    (XI (XI (XO (XO (XI XH))))))), (Npos (XO (XI (XI (XO (XO (XI
    XH)))))))) :: (((Npos (XI (XI (XI (XO (XO (XI XH))))))), (Npos (XI (XI
    (XI (XO (XO (XI XH)))))))) :: []))))))))))))))))))))))))), Eps)))

(** val rx_digits_end : rx **)

let rx_digits_end =
  Cat ((Rep (true, (S O), None, (Chr (false, digit_ranges)))), (Eol false))

(** val rx_plural_var : rx **)

let rx_plural_var =
  Cat ((Chr (false, (((Npos (XI (XI (XO (XO (XO XH)))))), (Npos (XI (XI (XO
    (XO (XO XH))))))) :: []))), (Grp ((S O), (Rep (true, (S O), None, (Chr
    (false, (((Npos (XO (XO (XO (XO (XI XH)))))), (Npos (XI (XO (XO (XI (XI
    XH))))))) :: []))))))))

(** val rx_mochibake : rx **)

let rx_mochibake =
  Chr (false, (((Npos (XI (XO (XI (XI (XI (XI (XI (XI (XI (XI (XI (XI (XI (XI
    (XI XH)))))))))))))))), (Npos (XI (XO (XI (XI (XI (XI (XI (XI (XI (XI (XI
    (XI (XI (XI (XI XH))))))))))))))))) :: []))

(** val rx_c06_escape : rx **)

let rx_c06_escape =
  Cat ((Chr (false, (((Npos (XO (XO (XI (XI (XI (XO XH))))))), (Npos (XO (XO
    (XI (XI (XI (XO XH)))))))) :: []))), (Grp ((S O), (Alt ((Grp ((S (S O)),
    (Cat ((Chr (false, (((Npos (XI (XO (XI (XO (XI (XI XH))))))), (Npos (XI
    (XO (XI (XO (XI (XI XH)))))))) :: []))), (Rep (true, (S O), (Some (S (S
    (S (S O))))), (Chr (false, (((Npos (XO (XO (XO (XO (XI XH)))))), (Npos
    (XI (XO (XO (XI (XI XH))))))) :: (((Npos (XI (XO (XO (XO (XO (XI
    XH))))))), (Npos (XO (XI (XI (XO (XO (XI XH)))))))) :: (((Npos (XI (XO
    (XO (XO (XO (XO XH))))))), (Npos (XO (XI (XI (XO (XO (XO
    XH)))))))) :: []))))))))))), (Alt ((Grp ((S (S (S O))), (Cat ((Chr
    (false, (((Npos (XO (XI (XO XH)))), (Npos (XO (XI (XO XH))))) :: []))),
    (Rep (true, O, None, (Chr (false, (((Npos (XO (XO (XO (XO (XO XH)))))),
    (Npos (XO (XO (XO (XO (XO XH))))))) :: (((Npos (XI (XO (XO XH)))), (Npos
    (XI (XO (XO XH))))) :: [])))))))))), (Grp ((S (S (S (S O)))), (Chr (true,
    (((Npos (XO (XI (XO XH)))), (Npos (XO (XI (XO XH))))) :: []))))))))))))

(** val c06_regexes : rx list **)

let c06_regexes =
  rx_printf :: (rx_digits_end :: (rx_plural_var :: (rx_mochibake :: (rx_c06_escape :: []))))

(** val rx_c09_silencer : rx **)

let rx_c09_silencer =
  Alt ((Cat ((Chr (false, (((Npos (XO (XO (XI (XI (XI (XO XH))))))), (Npos
    (XO (XO (XI (XI (XI (XO XH)))))))) :: []))), (Chr (true, (((Npos (XO (XI
    (XO XH)))), (Npos (XO (XI (XO XH))))) :: []))))), (Cat ((Chr (false,
    (((Npos (XO (XI (XO (XO (XO XH)))))), (Npos (XO (XI (XO (XO (XO
    XH))))))) :: []))), (Chr (false, (((Npos (XO (XI (XO (XO (XO XH)))))),
    (Npos (XO (XI (XO (XO (XO XH))))))) :: []))))))

(** val rx_c09_mochibake : rx **)

let rx_c09_mochibake =
  Chr (false, (((Npos (XI (XO (XI (XI (XI (XI (XI (XI (XI (XI (XI (XI (XI (XI
    (XI XH)))))))))))))))), (Npos (XI (XO (XI (XI (XI (XI (XI (XI (XI (XI (XI
    (XI (XI (XI (XI XH))))))))))))))))) :: []))

(** val rx_c09_dq : rx **)

let rx_c09_dq =
  Cat ((Chr (false, (((Npos (XO (XI (XO (XO (XO XH)))))), (Npos (XO (XI (XO
    (XO (XO XH))))))) :: []))), (Chr (false, (((Npos (XO (XI (XO (XO (XO
    XH)))))), (Npos (XO (XI (XO (XO (XO XH))))))) :: []))))

(** val rx_c09_apos : rx **)

let rx_c09_apos =
  Chr (false, (((Npos (XI (XI (XI (XO (XO XH)))))), (Npos (XI (XI (XI (XO (XO
    XH))))))) :: []))

(** val rx_c09_params : rx **)

let rx_c09_params =
  Cat ((Chr (false, (((Npos (XI (XO (XI (XO (XO XH)))))), (Npos (XI (XO (XI
    (XO (XO XH))))))) :: []))), (Cat ((Alt ((Grp ((S O), (Cat ((Chr (false,
    (((Npos (XI (XO (XO (XO (XI XH)))))), (Npos (XI (XO (XO (XI (XI
    XH))))))) :: []))), (Chr (false, (((Npos (XO (XO (XI (XO (XO XH)))))),
    (Npos (XO (XO (XI (XO (XO XH))))))) :: []))))))), Eps)), (Grp ((S (S O)),
    (Alt ((Cat ((Alt ((Cat ((Chr (false, (((Npos (XO (XI (XI (XI (XO
    XH)))))), (Npos (XO (XI (XI (XI (XO XH))))))) :: []))), (Rep (true, (S
    O), None, (Chr (false, (((Npos (XO (XO (XO (XO (XI XH)))))), (Npos (XI
    (XO (XO (XI (XI XH))))))) :: []))))))), Eps)), (Chr (false, (((Npos (XO
    (XI (XI (XO (XO (XI XH))))))), (Npos (XO (XI (XI (XO (XO (XI
    XH)))))))) :: []))))), (Chr (false, (((Npos (XO (XO (XI (XO (XO (XI
    XH))))))), (Npos (XO (XO (XI (XO (XO (XI XH)))))))) :: (((Npos (XI (XI
    (XO (XO (XI (XI XH))))))), (Npos (XI (XI (XO (XO (XI (XI
    XH)))))))) :: (((Npos (XI (XI (XO (XO (XI (XO XH))))))), (Npos (XI (XI
    (XO (XO (XI (XO XH)))))))) :: []))))))))))))

(** val c09_regexes : rx list **)

let c09_regexes =
  rx_c09_silencer :: (rx_c09_mochibake :: (rx_c09_dq :: (rx_c09_apos :: (rx_c09_params :: []))))

(** val rx_path_special : rx **)

let rx_path_special =
  Alt ((Grp ((S O), (Cat ((Look (false, true, (Chr (true, (((Npos (XI (XI (XI
    (XI (XO XH)))))), (Npos (XI (XI (XI (XI (XO XH))))))) :: (((Npos (XI (XO
    (XI (XI (XI (XI XH))))))), (Npos (XI (XO (XI (XI (XI (XI
    XH)))))))) :: [])))))), (Cat ((Chr (false, (((Npos (XO (XI (XO (XI (XO
    XH)))))), (Npos (XO (XI (XO (XI (XO XH))))))) :: []))), (Cat ((Chr
    (false, (((Npos (XO (XI (XO (XI (XO XH)))))), (Npos (XO (XI (XO (XI (XO
    XH))))))) :: []))), (Grp ((S (S O)), (Alt ((Chr (false, (((Npos (XI (XI
    (XI (XI (XO XH)))))), (Npos (XI (XI (XI (XI (XO XH))))))) :: []))), (Eol
    false))))))))))))), (Alt ((Grp ((S (S (S O))), (Chr (false, (((Npos (XO
    (XI (XO (XI (XO XH)))))), (Npos (XO (XI (XO (XI (XO XH))))))) :: []))))),
    (Grp ((S (S (S (S O)))), (Cat ((Chr (false, (((Npos (XI (XI (XO (XI (XI
    (XI XH))))))), (Npos (XI (XI (XO (XI (XI (XI XH)))))))) :: []))), (Cat
    ((Rep (true, O, None, (Chr (false, (((Npos (XO (XO (XO (XO (XO XH)))))),
    (Npos (XO (XO (XO (XO (XO XH))))))) :: []))))), (Cat ((Grp ((S (S (S (S
    (S O))))), (Rep (true, (S O), None, (Chr (false, word_ranges)))))), (Cat
    ((Rep (true, O, None, (Chr (false, (((Npos (XO (XO (XO (XO (XO XH)))))),
    (Npos (XO (XO (XO (XO (XO XH))))))) :: []))))), (Chr (false, (((Npos (XI
    (XO (XI (XI (XI (XI XH))))))), (Npos (XI (XO (XI (XI (XI (XI
    XH)))))))) :: []))))))))))))))))

(** val rx_android_region : rx **)

let rx_android_region =
  Cat ((Chr (false, (((Npos (XI (XO (XI (XI (XO XH)))))), (Npos (XI (XO (XI
    (XI (XO XH))))))) :: []))), (Cat ((Chr (false, (((Npos (XO (XI (XO (XO
    (XI (XI XH))))))), (Npos (XO (XI (XO (XO (XI (XI XH)))))))) :: []))),
    (Grp ((S O), (Rep (true, (S (S O)), (Some (S (S O))), (Chr (false,
    (((Npos (XI (XO (XO (XO (XO (XO XH))))))), (Npos (XO (XI (XO (XI (XI (XO
    XH)))))))) :: []))))))))))

(** val rx_android_legacy_in : rx **)

let rx_android_legacy_in =
  Cat ((Bol false), (Cat ((Grp ((S O), (Alt ((Cat ((Chr (false, (((Npos (XI
    (XO (XO (XI (XO (XI XH))))))), (Npos (XI (XO (XO (XI (XO (XI
    XH)))))))) :: []))), (Chr (false, (((Npos (XI (XI (XI (XO (XI (XI
    XH))))))), (Npos (XI (XI (XI (XO (XI (XI XH)))))))) :: []))))), (Alt
    ((Cat ((Chr (false, (((Npos (XI (XO (XO (XI (XO (XI XH))))))), (Npos (XI
    (XO (XO (XI (XO (XI XH)))))))) :: []))), (Chr (false, (((Npos (XO (XI (XI
    (XI (XO (XI XH))))))), (Npos (XO (XI (XI (XI (XO (XI
    XH)))))))) :: []))))), (Cat ((Chr (false, (((Npos (XO (XI (XO (XI (XO (XI
    XH))))))), (Npos (XO (XI (XO (XI (XO (XI XH)))))))) :: []))), (Chr
    (false, (((Npos (XI (XO (XO (XI (XO (XI XH))))))), (Npos (XI (XO (XO (XI
    (XO (XI XH)))))))) :: []))))))))))), (Look (true, false, (Alt (EndStr,
    (Chr (false, (((Npos (XI (XO (XI (XI (XO XH)))))), (Npos (XI (XO (XI (XI
    (XO XH))))))) :: []))))))))))

(** val rx_android_legacy_out : rx **)

let rx_android_legacy_out =
  Cat ((Bol false), (Cat ((Grp ((S O), (Alt ((Cat ((Chr (false, (((Npos (XO
    (XO (XO (XI (XO (XI XH))))))), (Npos (XO (XO (XO (XI (XO (XI
    XH)))))))) :: []))), (Chr (false, (((Npos (XI (XO (XI (XO (XO (XI
    XH))))))), (Npos (XI (XO (XI (XO (XO (XI XH)))))))) :: []))))), (Alt
    ((Cat ((Chr (false, (((Npos (XI (XO (XO (XI (XO (XI XH))))))), (Npos (XI
    (XO (XO (XI (XO (XI XH)))))))) :: []))), (Chr (false, (((Npos (XO (XO (XI
    (XO (XO (XI XH))))))), (Npos (XO (XO (XI (XO (XO (XI
    XH)))))))) :: []))))), (Cat ((Chr (false, (((Npos (XI (XO (XO (XI (XI (XI
    XH))))))), (Npos (XI (XO (XO (XI (XI (XI XH)))))))) :: []))), (Chr
    (false, (((Npos (XI (XO (XO (XI (XO (XI XH))))))), (Npos (XI (XO (XO (XI
    (XO (XI XH)))))))) :: []))))))))))), (Look (true, false, (Alt (EndStr,
    (Chr (false, (((Npos (XI (XO (XI (XI (XO XH)))))), (Npos (XI (XO (XI (XI
    (XO XH))))))) :: []))))))))))

(** val rx_android_lang_region : rx **)

let rx_android_lang_region =
  Cat ((Rep (true, (S (S O)), (Some (S (S (S O)))), (Chr (false, (((Npos (XI
    (XO (XO (XO (XO (XI XH))))))), (Npos (XO (XI (XO (XI (XI (XI
    XH)))))))) :: []))))), (Cat ((Chr (false, (((Npos (XI (XO (XI (XI (XO
    XH)))))), (Npos (XI (XO (XI (XI (XO XH))))))) :: []))), (Rep (true, (S (S
    O)), (Some (S (S O))), (Chr (false, (((Npos (XI (XO (XO (XO (XO (XO
    XH))))))), (Npos (XO (XI (XO (XI (XI (XO XH)))))))) :: []))))))))

(** val rx_mozpath_glob : rx **)

let rx_mozpath_glob =
  Alt ((Cat ((Grp ((S O), (Alt ((Bol false), (Chr (false, (((Npos (XI (XI (XI
    (XI (XO XH)))))), (Npos (XI (XI (XI (XI (XO XH))))))) :: []))))))), (Cat
    ((Chr (false, (((Npos (XO (XI (XO (XI (XO XH)))))), (Npos (XO (XI (XO (XI
    (XO XH))))))) :: []))), (Cat ((Chr (false, (((Npos (XO (XI (XO (XI (XO
    XH)))))), (Npos (XO (XI (XO (XI (XO XH))))))) :: []))), (Grp ((S (S O)),
    (Alt ((Chr (false, (((Npos (XI (XI (XI (XI (XO XH)))))), (Npos (XI (XI
    (XI (XI (XO XH))))))) :: []))), (Eol false))))))))))), (Grp ((S (S (S
    O))), (Chr (false, (((Npos (XO (XI (XO (XI (XO XH)))))), (Npos (XO (XI
    (XO (XI (XO XH))))))) :: []))))))

(** val c11_regexes : rx list **)

let c11_regexes =
  rx_path_special :: (rx_android_region :: (rx_android_legacy_in :: (rx_android_legacy_out :: (rx_android_lang_region :: (rx_mozpath_glob :: [])))))

(** val rx_c14_key_suffix : rx **)

let rx_c14_key_suffix =
  Eol false

(** val c14_regexes : rx list **)

let c14_regexes =
  rx_c14_key_suffix :: []

(** val all_regexes : rx list **)

let all_regexes =
  app parser_regexes
    (app c03_regexes
      (app c06_regexes (app c09_regexes (app c11_regexes c14_regexes))))

(** val the_rx : sx -> rx **)

let the_rx x = match x with
| A i -> nth (Z.to_nat i) all_regexes Eps
| L _ -> rx_of_sx x

(** val dispatch : z -> sx -> sx **)

let dispatch f x =
  let r = the_rx (nth_sx O x) in
  let n0 = to_nat0 (nth_sx (S O) x) in
  let s = to_str (nth_sx (S (S O)) x) in
  let off = to_nat0 (nth_sx (S (S (S O))) x) in
  (match f with
   | Z0 -> mr_sx n0 (rmatch r s off)
   | Zpos p ->
     (match p with
      | XI p0 ->
        (match p0 with
         | XH ->
           mr_sx n0
             (rsearch_end r s off (to_nat0 (nth_sx (S (S (S (S O)))) x)))
         | _ -> sx_err)
      | XO p0 ->
        (match p0 with
         | XI _ -> sx_err
         | XO p1 ->
           (match p1 with
            | XH -> L ((of_bool (nullable r)) :: ((of_bool (rep_ok r)) :: []))
            | _ -> sx_err)
         | XH -> finditer_sx n0 (rfinditer r s))
      | XH -> mr_sx n0 (rsearch r s off))
   | Zneg _ -> sx_err)
