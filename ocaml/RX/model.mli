
val xorb : bool -> bool -> bool

val negb : bool -> bool

type nat =
| O
| S of nat

val fst : ('a1 * 'a2) -> 'a1

val snd : ('a1 * 'a2) -> 'a2

val length : 'a1 list -> nat

val app : 'a1 list -> 'a1 list -> 'a1 list

type comparison =
| Eq
| Lt
| Gt

val add : nat -> nat -> nat

val mul : nat -> nat -> nat

val sub : nat -> nat -> nat

type positive =
| XI of positive
| XO of positive
| XH

type n =
| N0
| Npos of positive

type z =
| Z0
| Zpos of positive
| Zneg of positive

module Nat :
 sig
  val eqb : nat -> nat -> bool

  val leb : nat -> nat -> bool

  val ltb : nat -> nat -> bool
 end

module Pos :
 sig
  val succ : positive -> positive

  val compare_cont : comparison -> positive -> positive -> comparison

  val compare : positive -> positive -> comparison

  val eqb : positive -> positive -> bool

  val iter_op : ('a1 -> 'a1 -> 'a1) -> positive -> 'a1 -> 'a1

  val to_nat : positive -> nat

  val of_succ_nat : nat -> positive
 end

module N :
 sig
  val compare : n -> n -> comparison

  val eqb : n -> n -> bool

  val leb : n -> n -> bool
 end

module Z :
 sig
  val eqb : z -> z -> bool

  val to_nat : z -> nat

  val to_N : z -> n

  val of_nat : nat -> z
 end

val nth : nat -> 'a1 list -> 'a1 -> 'a1

val rev : 'a1 list -> 'a1 list

val map : ('a1 -> 'a2) -> 'a1 list -> 'a2 list

val existsb : ('a1 -> bool) -> 'a1 list -> bool

val firstn : nat -> 'a1 list -> 'a1 list

val skipn : nat -> 'a1 list -> 'a1 list

val seq : nat -> nat -> nat list

type sx =
| A of z
| L of sx list

val sx_err : sx

val of_nat0 : nat -> sx

val of_bool : bool -> sx

val of_list : ('a1 -> sx) -> 'a1 list -> sx

val of_option : ('a1 -> sx) -> 'a1 option -> sx

val to_Z : sx -> z

val to_nat0 : sx -> nat

val to_N0 : sx -> n

val to_bool : sx -> bool

val to_list : (sx -> 'a1) -> sx -> 'a1 list

val to_str : sx -> n list

val nth_sx : nat -> sx -> sx

val to_option : (sx -> 'a1) -> sx -> 'a1 option

val to_pair : (sx -> 'a1) -> (sx -> 'a2) -> sx -> 'a1 * 'a2

type cset = (n * n) list

type rx =
| Eps
| Chr of bool * cset
| Cat of rx * rx
| Alt of rx * rx
| Rep of bool * nat * nat option * rx
| Grp of nat * rx
| Bref of nat
| Bol of bool
| Eol of bool
| EndStr
| Look of bool * bool * rx

type st = { pre : n list; suf : n list; pos : nat;
            caps : (nat * (nat * nat)) list }

type out =
| Fail
| Done of st
| NoFuel

val in_ranges : n -> cset -> bool

val chr_ok : bool -> cset -> n -> bool

val advance : st -> n -> n list -> st

val get_cap : nat -> (nat * (nat * nat)) list -> (nat * nat) option

val set_cap : nat -> (nat * nat) -> st -> st

val orelse : out -> (unit -> out) -> out

val lit : n list -> st -> st option

val rep_loop :
  (st -> (st -> out) -> out) -> bool -> nat -> nat option -> nat -> nat -> st
  -> (st -> out) -> out

val nlc : n

val at_bol : bool -> st -> bool

val at_eol : bool -> st -> bool

val m : rx -> st -> (st -> out) -> out

type mres = { m_start : nat; m_end : nat; m_caps : (nat * (nat * nat)) list }

val group : nat -> mres -> (nat * nat) option

val st_at : n list -> nat -> st

type mr =
| MNone
| MSome of mres
| MFuel

val run_at : rx -> st -> (st -> bool) -> mr

val rmatch : rx -> n list -> nat -> mr

val search_from : rx -> nat -> st -> nat option -> mr

val rsearch : rx -> n list -> nat -> mr

val rsearch_end : rx -> n list -> nat -> nat -> mr

val fwd : nat -> st -> st

val finditer_from : rx -> nat -> st -> nat option -> mres list option

val rfinditer : rx -> n list -> mres list option

val nullable : rx -> bool

val rep_ok : rx -> bool

val rx_of_sx : sx -> rx

val span_sx : (nat * nat) -> sx

val groups_sx : nat -> mres -> sx

val mres_sx : nat -> mres -> sx

val mr_sx : nat -> mr -> sx

val finditer_sx : nat -> mres list option -> sx

val word_ranges : (n * n) list

val digit_ranges : (n * n) list

val rx_ws_base : rx

val rx_nl_linecol : rx

val rx_re_br : rx

val rx_re_sgml : rx

val rx_props_key : rx

val rx_props_comment : rx

val rx_props_ws : rx

val rx_props_escaped_end : rx

val rx_props_trailing_ws : rx

val rx_props_escape : rx

val rx_dtd_key : rx

val rx_dtd_header : rx

val rx_dtd_comment : rx

val rx_dtd_pe : rx

val rx_dtd_ws : rx

val rx_ini_comment : rx

val rx_ini_section : rx

val rx_ini_key : rx

val rx_ini_ws : rx

val rx_inc_ws : rx

val rx_inc_comment : rx

val rx_inc_key : rx

val rx_inc_pi : rx

val rx_po_key : rx

val rx_po_value : rx

val rx_po_comment : rx

val rx_po_listitem : rx

val rx_po_ws : rx

val rx_ftl_lead : rx

val rx_ftl_trail : rx

val parser_regexes : rx list

val rx_keyRE : rx

val c03_regexes : rx list

val rx_printf : rx

val rx_digits_end : rx

val rx_plural_var : rx

val rx_mochibake : rx

val rx_c06_escape : rx

val c06_regexes : rx list

val rx_c09_silencer : rx

val rx_c09_mochibake : rx

val rx_c09_dq : rx

val rx_c09_apos : rx

val rx_c09_params : rx

val c09_regexes : rx list

val rx_path_special : rx

val rx_android_region : rx

val rx_android_legacy_in : rx

val rx_android_legacy_out : rx

val rx_android_lang_region : rx

val rx_mozpath_glob : rx

val c11_regexes : rx list

val rx_c14_key_suffix : rx

val c14_regexes : rx list

val all_regexes : rx list

val the_rx : sx -> rx

val dispatch : z -> sx -> sx
