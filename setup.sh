#!/bin/bash
# Offline setup: regenerate facts, build every Coq file and every model runner.
set -e
cd "$(dirname "$0")"
export PYTHONPATH=/verif:${VERIF_REPO:-/repo} PYTHONDONTWRITEBYTECODE=1 PYTHONHASHSEED=0
/venv/bin/python -m harness.setup_all
