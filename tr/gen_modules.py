"""The individual generators; each returns (file name, Coq text)."""


def generate():
    out = []
    return out
