"""Discovery of the fact generators.  Every tr/facts_<name>.py provides
  NAME            short name (also the regex group name)
  regexes()       dict  regex name -> (pattern, flags) or compiled pattern   (may be empty)
  generate()      list of (file name under coq/Generated, Coq text)
A plugin that raises is reported in build/facts_status.json and its files are
removed, so the Coq cone of every property that needs it fails to build
(fail-closed); other properties are not affected."""
import glob
import importlib
import os
import traceback

import factlib

HERE = os.path.dirname(os.path.abspath(__file__))


def plugins():
    names = sorted(os.path.basename(p)[:-3] for p in glob.glob(os.path.join(HERE, "facts_*.py")))
    # tables first, parser second: stable regex indices for the early groups
    names.sort(key=lambda n: (n != "facts_tables", n != "facts_parser", n))
    return names


_cache = {}


def load(name):
    if name not in _cache:
        _cache[name] = importlib.import_module(name)
    return _cache[name]


def registry_of(plugin):
    mod = load(plugin)
    return {k: factlib.norm(v) for k, v in mod.regexes().items()}


def registry(groups=None):
    """regex name -> (pattern, flags) over all plugins that load (in index order of Generated.all_regexes)"""
    R = {}
    for p in plugins():
        try:
            regs = registry_of(p)
            if regs:
                # same success criterion as generate_all, so that indices into
                # Generated.all_regexes stay aligned when a plugin fails
                list(load(p).generate())
                import factlib as _f
                _f.coq_regex_file(load(p).NAME, regs)
        except Exception:  # noqa
            continue
        if groups is None or load(p).NAME in groups:
            R.update(regs)
    return R


def registry_parser():
    return registry_of("facts_parser")


def generate_all():
    """-> (files: list of (name, text), status: dict plugin -> 'ok' | traceback)"""
    files, status, groups = [], {}, []
    for p in plugins():
        try:
            mod = load(p)
            out = list(mod.generate())
            regs = registry_of(p)
            if regs:
                out.append((f"Rx{mod.NAME.capitalize()}.v", factlib.coq_regex_file(mod.NAME, regs)))
                groups.append(mod.NAME)
            files.extend(out)
            status[mod.NAME] = "ok"
        except Exception:  # noqa
            status[p.replace("facts_", "")] = traceback.format_exc()[-1500:]
    lines = [factlib.HEADER, "From Coq Require Import List.", "From CL Require Export Regex.Rx " +
             " ".join(f"Generated.Rx{g.capitalize()}" for g in groups) + ".", "",
             "Definition all_regexes : list rx := " +
             (" ++ ".join(f"{g}_regexes" for g in groups) or "nil") + ".", ""]
    files.append(("Regexes.v", "\n".join(lines)))
    return files, status
