"""Facts for C08 (Fluent checker), read from the repository working tree:

* regexes: the two lazily compiled regular expressions of
  checks/base.py CSSCheckMixin.parse_css_spec (`_css_spec`, `_css_sep`; obtained by
  instantiating the mixin and calling parse_css_spec once, then compared with the
  literal `re.compile` arguments found in the source) and base.mochibake;
* Generated/C08Facts.v: the MSGS templates of checks/fluent.py, the severity,
  position expression and MSGS key of every `messages.append((...))` site (in the
  function where it stands), the literals of CSSCheckMixin.check_style, the
  literals "style", "other", ".", "-", ", ", the category literals, and the
  plural tables of plurals.py.

Fail closed: every function is matched against the shape the model mirrors
(number and form of the append sites, of the yields, the compared literals);
anything else raises, so the cone of C08 stops building.
"""
import ast
import inspect
import string
import textwrap

from factlib import HEADER

NAME = "c08"


class Shape(Exception):
    pass


def need(cond, what):
    if not cond:
        raise Shape("checks/fluent.py, checks/base.py or plurals.py no longer has the shape "
                    "the C08 model mirrors: " + what)


def css_regexes():
    from compare_locales.checks import base
    o = base.CSSCheckMixin()
    need(not hasattr(o, "_css_spec"), "_css_spec is created lazily by parse_css_spec")
    o.parse_css_spec("")
    return o._css_spec, o._css_sep


def regexes():
    from compare_locales.checks import base
    spec, sep = css_regexes()
    for g in ("prop", "unit"):
        need(g in spec.groupindex, "_css_spec group " + g)
    need("semi" in sep.groupindex, "_css_sep group semi")
    return {
        "c08_css_spec": (spec.pattern, spec.flags),
        "c08_css_sep": (sep.pattern, sep.flags),
        "c08_mochibake": (base.mochibake.pattern, base.mochibake.flags),
    }


# ------------------------------------------------------------------ helpers ---
def cstr(s):
    if s == "":
        return "(@nil N)"
    return "[" + "; ".join(str(ord(c)) for c in s) + "]%N"


def tree_of(func):
    return ast.parse(textwrap.dedent(inspect.getsource(func))).body[0]


def ordered(nodes):
    return sorted(nodes, key=lambda n: (n.lineno, n.col_offset))


def const(node, what):
    need(isinstance(node, ast.Constant) and isinstance(node.value, str),
         f"{what}: expected a string literal, found {ast.dump(node)[:80]}")
    return node.value


def appends(fn, target):
    """the tuples of `<target>.append((a, b, c))` inside fn, in source order"""
    out = []
    for n in ordered([n for n in ast.walk(fn) if isinstance(n, ast.Call)]):
        if (isinstance(n.func, ast.Attribute) and n.func.attr == "append"
                and ast.unparse(n.func.value) == target):
            need(len(n.args) == 1 and isinstance(n.args[0], ast.Tuple) and len(n.args[0].elts) == 3,
                 f"{fn.name}: append of a 3-tuple")
            out.append(n.args[0].elts)
    return out


def format_template(text, names, what):
    """str.format template -> pieces ('lit', text) | ('arg', index)"""
    out = []
    for lit, field, spec, conv in string.Formatter().parse(text):
        if lit:
            out.append(("lit", lit))
        if field is None:
            continue
        need(not spec and not conv, f"{what}: format spec/conversion in template")
        need(field in names, f"{what}: unexpected field {field!r} in {text!r}")
        out.append(("arg", names[field]))
    return out


def percent_template(text, nargs, what):
    """a %-template using only %s -> pieces"""
    parts = text.split("%s")
    need(len(parts) == nargs + 1 and all("%" not in p for p in parts),
         f"{what}: expected {nargs} %s in {text!r}")
    out = []
    for i, p in enumerate(parts):
        if p:
            out.append(("lit", p))
        if i < nargs:
            out.append(("arg", i))
    return out


def tpl_coq(pieces):
    return "[" + "; ".join(f"inl {cstr(v)}" if k == "lit" else f"inr {v}" for k, v in pieces) + "]"


def sev(node, what):
    s = const(node, what)
    need(s in ("error", "warning"), f"{what}: severity {s!r}")
    return "true" if s == "error" else "false"


def msgs_site(elts, key_src, kwargs, pos_src, what, MSGS, key=None):
    """check one append site: position expression, MSGS subscript, format keywords;
    returns (severity, template pieces).  key: the MSGS key the site resolves to"""
    need(ast.unparse(elts[1]) == pos_src, f"{what}: position {ast.unparse(elts[1])!r}, expected {pos_src!r}")
    m = elts[2]
    if kwargs is None:
        sub = m
    else:
        need(isinstance(m, ast.Call) and isinstance(m.func, ast.Attribute) and m.func.attr == "format"
             and not m.args, f"{what}: message is not MSGS[..].format(k=v)")
        got = {k.arg: ast.unparse(k.value) for k in m.keywords}
        need(got == kwargs, f"{what}: format keywords {got}, expected {kwargs}")
        sub = m.func.value
    need(isinstance(sub, ast.Subscript) and ast.unparse(sub.value) == "MSGS"
         and ast.unparse(sub.slice) == key_src, f"{what}: message is not MSGS[{key_src}]")
    key = key or const(sub.slice, what)
    names = {k: i for i, k in enumerate(kwargs or {})}
    return sev(elts[0], what), format_template(MSGS[key], names, what)


def method(cls, name):
    return tree_of(cls.__dict__[name])


EXPECTED_MSGS = {
    "missing-msg-ref": ["ref"], "missing-term-ref": ["ref"], "obsolete-msg-ref": ["ref"],
    "obsolete-term-ref": ["ref"], "duplicate-attribute": ["name"], "missing-value": [],
    "obsolete-value": [], "missing-attribute": ["name"], "obsolete-attribute": ["name"],
    "duplicate-variant": ["name"], "missing-plural": ["categories"], "plain-message": ["message"],
}


# ----------------------------------------------------------------- generate ---
def generate():
    from compare_locales.checks import fluent as cf, base
    from compare_locales import plurals
    MSGS = cf.MSGS
    need(isinstance(MSGS, dict) and set(MSGS) == set(EXPECTED_MSGS), "keys of MSGS")
    for k, fields in EXPECTED_MSGS.items():
        got = [f for _, f, _, _ in string.Formatter().parse(MSGS[k]) if f is not None]
        need(got == fields, f"fields of MSGS[{k!r}]: {got}")

    L = [HEADER, "From Coq Require Import NArith List.", "From CL Require Import Base.Str.",
         "Import ListNotations.", "",
         "(* a message template: literal pieces and argument indices *)",
         "Definition tpl := list (str + nat).",
         "(* an append site: (is error, template) *)",
         "Definition site := (bool * tpl)%type.", ""]

    def site(name, sv_tpl):
        sv, pieces = sv_tpl
        L.append(f"Definition y_{name} : site := ({sv}, {tpl_coq(pieces)}).")

    # ---- GenericL10nChecks ---------------------------------------------------
    fn = method(cf.GenericL10nChecks, "check_duplicate_attributes")
    aps = appends(fn, "self.messages")
    need(len(aps) == 2, "check_duplicate_attributes: two append sites")
    kw = {"name": "left_attr.id.name"}
    site("dup_attr_left", msgs_site(aps[0], "'duplicate-attribute'", kw, "left_attr.span.start",
                                    "check_duplicate_attributes[0]", MSGS))
    site("dup_attr_right", msgs_site(aps[1], "'duplicate-attribute'", kw, "right_attr.span.start",
                                     "check_duplicate_attributes[1]", MSGS))
    src = ast.unparse(fn)
    for needle in ("for left in range(len(node.attributes) - 1):", "if left in warned:",
                   "for right in range(left + 1, len(node.attributes)):",
                   "if left_attr.id.name == right_attr.id.name:", "if not warned_left:",
                   "warned.add(right)"):
        need(needle in src, "check_duplicate_attributes: " + needle)

    fn = method(cf.GenericL10nChecks, "check_variants")
    aps = appends(fn, "self.messages")
    need(len(aps) == 3, "check_variants: three append sites")
    kw = {"name": "key_string"}
    site("dup_variant_left", msgs_site(aps[0], "'duplicate-variant'", kw, "left_key.span.start",
                                       "check_variants[0]", MSGS))
    site("dup_variant_right", msgs_site(aps[1], "'duplicate-variant'", kw,
                                        "variants[right].key.span.start", "check_variants[1]", MSGS))
    site("missing_plural", msgs_site(aps[2], "'missing-plural'",
                                     {"categories": "', '.join(missing_plurals)"},
                                     "variants[0].key.span.start", "check_variants[2]", MSGS))
    src = ast.unparse(fn)
    for needle in ("for left in range(len(variants) - 1):", "if left in warned:",
                   "for right in range(left + 1, len(variants)):",
                   "if left_key.equals(variants[right].key):", "if key_string is None:",
                   "key_string = serialize_variant_key(left_key)", "warned.add(right)",
                   "known_plurals = plurals.get_plural(self.locale)", "if known_plurals:",
                   "check_plurals.discard('other')",
                   "given_plurals = {serialize_variant_key(v.key) for v in variants}",
                   "if given_plurals & check_plurals:",
                   "missing_plurals = sorted(known_plurals - given_plurals)", "if missing_plurals:"):
        need(needle in src, "check_variants: " + needle)
    L.append(f"Definition s_other : str := {cstr('other')}.")
    L.append(f"Definition s_comma : str := {cstr(', ')}.")

    # ---- ReferenceMessageVisitor ----------------------------------------------
    R = cf.ReferenceMessageVisitor
    src = ast.unparse(method(R, "visit_Attribute"))
    for needle in ("self.attribute_positions[node.id.name] = node.span.start",
                   "self.refs = self.entry_refs[node.id.name]", "self.refs = old_refs",
                   "if node.id.name != 'style':", "text_values = pattern_variants(node.value)",
                   "if not text_values:", "self.css_styles = 'skip'",
                   "self.css_styles, self.css_errors = self.parse_css_spec(text_values[0])"):
        need(needle in src, "ReferenceMessageVisitor.visit_Attribute: " + needle)
    L.append(f"Definition s_style : str := {cstr('style')}.")
    src = ast.unparse(method(R, "visit_Message"))
    need("if node.value is not None:" in src and "self.message_has_value = True" in src,
         "ReferenceMessageVisitor.visit_Message")
    need(ast.unparse(method(R, "visit_SelectExpression").body[-1]) == "self.visit(node.variants)",
         "ReferenceMessageVisitor.visit_SelectExpression visits the variants only")
    src = ast.unparse(method(R, "visit_MessageReference"))
    for needle in ("ref = node.id.name", "if node.attribute:", "ref += '.' + node.attribute.name",
                   "self.refs[ref] = 'msg-ref'"):
        need(needle in src, "ReferenceMessageVisitor.visit_MessageReference: " + needle)
    src = ast.unparse(method(R, "visit_TermReference"))
    for needle in ("if node.attribute:\n        return", "self.refs['-' + node.id.name] = 'term-ref'"):
        need(needle in src, "ReferenceMessageVisitor.visit_TermReference: " + needle)
    L.append(f"Definition s_dot : str := {cstr('.')}.")
    L.append(f"Definition s_dash : str := {cstr('-')}.")
    src = ast.unparse(tree_of(cf.pattern_variants))
    for needle in ("if len(elements) == 1:", "if isinstance(elements[0], ftl.TextElement):",
                   "return [elements[0].value]", "return []"):
        need(needle in src, "pattern_variants: " + needle)

    # ---- L10nMessageVisitor ---------------------------------------------------
    V = cf.L10nMessageVisitor
    fn = method(V, "visit_Message")
    aps = appends(fn, "self.messages")
    need(len(aps) == 4, "L10nMessageVisitor.visit_Message: four append sites")
    site("obsolete_value", msgs_site(aps[0], "'obsolete-value'", None, "node.value.span.start",
                                     "visit_Message[0]", MSGS))
    site("missing_value", msgs_site(aps[1], "'missing-value'", None, "0", "visit_Message[1]", MSGS))
    site("missing_attribute", msgs_site(aps[2], "'missing-attribute'", {"name": "missing_attr"}, "0",
                                        "visit_Message[2]", MSGS))
    site("obsolete_attribute", msgs_site(aps[3], "'obsolete-attribute'", {"name": "obs_attr"},
                                         "self.attribute_positions[obs_attr]", "visit_Message[3]", MSGS))
    src = ast.unparse(fn)
    for needle in ("self.check_duplicate_attributes(node)\n    super().visit_Message(node)",
                   "if self.message_has_value and (not self.reference.message_has_value):",
                   "if not self.message_has_value and self.reference.message_has_value:",
                   "ref_attrs = set(self.reference.attribute_positions)",
                   "l10n_attrs = set(self.attribute_positions)",
                   "for missing_attr in ref_attrs - l10n_attrs:",
                   "for obs_attr in l10n_attrs - ref_attrs:"):
        need(needle in src, "L10nMessageVisitor.visit_Message: " + needle)
    fn = method(V, "visit_Attribute")
    aps = appends(fn, "self.messages")
    need(len(aps) == 1 and [ast.unparse(e) for e in aps[0]] == ["cat", "msg", "pos"],
         "L10nMessageVisitor.visit_Attribute: append((cat, msg, pos))")
    src = ast.unparse(fn)
    for needle in ("self.reference_refs = self.reference.entry_refs[node.id.name]",
                   "super().visit_Attribute(node)",
                   "if node.id.name != 'style' or self.css_styles == 'skip':",
                   "ref_styles = self.reference.css_styles", "if ref_styles in ('skip', None):",
                   "ref_styles = {}",
                   "for cat, msg, pos, _ in self.check_style(ref_styles, self.css_styles, self.css_errors):"):
        need(needle in src, "L10nMessageVisitor.visit_Attribute: " + needle)
    src = ast.unparse(method(V, "visit_SelectExpression"))
    need("super().visit_SelectExpression(node)\n    self.check_variants(node.variants)" in src,
         "L10nMessageVisitor.visit_SelectExpression")
    src = ast.unparse(method(V, "visit_MessageReference"))
    for needle in ("ref += '.' + node.attribute.name", "self.refs.add(ref)",
                   "self.check_obsolete_ref(node, ref, 'msg-ref')"):
        need(needle in src, "L10nMessageVisitor.visit_MessageReference: " + needle)
    src = ast.unparse(method(V, "visit_TermReference"))
    for needle in ("if node.attribute:\n        return", "ref = '-' + node.id.name", "self.refs.add(ref)",
                   "self.check_obsolete_ref(node, ref, 'term-ref')"):
        need(needle in src, "L10nMessageVisitor.visit_TermReference: " + needle)
    fn = method(V, "check_obsolete_ref")
    aps = appends(fn, "self.messages")
    need(len(aps) == 1 and "if ref not in self.reference_refs:" in ast.unparse(fn), "check_obsolete_ref")
    for ty in ("msg-ref", "term-ref"):
        site("obsolete_" + ty.replace("-", "_"),
             msgs_site(aps[0], "'obsolete-' + ref_type", {"ref": "ref"}, "node.span.start",
                       "check_obsolete_ref", MSGS, key="obsolete-" + ty))

    # ---- TermVisitor ----------------------------------------------------------
    T = cf.TermVisitor
    need("self.check_duplicate_attributes(node)\n    super().generic_visit(node)"
         in ast.unparse(method(T, "visit_Term")), "TermVisitor.visit_Term")
    need("super().generic_visit(node)\n    self.check_variants(node.variants)"
         in ast.unparse(method(T, "visit_SelectExpression")), "TermVisitor.visit_SelectExpression")
    need(set(T.__dict__) & {"visit_MessageReference", "visit_TermReference", "visit_Attribute"} == set(),
         "TermVisitor has no other visit_ methods")
    for cls in (R, T):
        need("if isinstance(node, (ftl.Span, ftl.Annotation, ftl.BaseComment)):\n        return"
             in ast.unparse(method(cls, "generic_visit")), cls.__name__ + ".generic_visit")

    # ---- FluentChecker --------------------------------------------------------
    F = cf.FluentChecker
    fn = method(F, "check_message")
    aps = appends(fn, "messages")
    need(len(aps) == 1 and ast.unparse(aps[0][1]) == "0" and ast.unparse(aps[0][2]) == "msg",
         "check_message: append(('warning', 0, msg))")
    src = ast.unparse(fn)
    for needle in ("for attr_or_val, refs in ref_data.entry_refs.items():",
                   "for ref, ref_type in refs.items():",
                   "if ref not in l10n_data.entry_refs[attr_or_val]:",
                   "msg = MSGS['missing-' + ref_type].format(ref=ref)"):
        need(needle in src, "check_message: " + needle)
    for ty in ("msg-ref", "term-ref"):
        L.append(f"Definition y_missing_{ty.replace('-', '_')} : site := "
                 f"({sev(aps[0][0], 'check_message')}, "
                 f"{tpl_coq(format_template(MSGS['missing-' + ty], {'ref': 0}, 'check_message'))}).")
    fn = method(F, "check")
    src = ast.unparse(fn)
    for needle in ("yield from super().check(refEnt, l10nEnt)", "if isinstance(l10n_entry, ftl.Message):",
                   "messages = self.check_message(ref_entry, l10n_entry)",
                   "elif isinstance(l10n_entry, ftl.Term):", "messages = self.check_term(l10n_entry)",
                   "messages.sort(key=lambda t: t[1])", "for cat, pos, msg in messages:",
                   "if pos:\n            pos = pos - l10n_entry.span.start"):
        need(needle in src, "FluentChecker.check: " + needle)
    ys = [n for n in ast.walk(fn) if isinstance(n, ast.Yield)]
    need(len(ys) == 1 and isinstance(ys[0].value, ast.Tuple) and
         [ast.unparse(e) for e in ys[0].value.elts[:3]] == ["cat", "pos", "msg"], "FluentChecker.check: yield")
    L.append(f"Definition s_cat_fluent : str := {cstr(const(ys[0].value.elts[3], 'check category'))}.")

    # ---- base.Checker.check ---------------------------------------------------
    fn = tree_of(base.Checker.check)
    ys = [n for n in ast.walk(fn) if isinstance(n, ast.Yield)]
    need(len(ys) == 1 and isinstance(ys[0].value, ast.Tuple) and len(ys[0].value.elts) == 4,
         "Checker.check: one 4-tuple yield")
    e = ys[0].value.elts
    need(ast.unparse(e[1]) == "EntityPos(m.start())", "Checker.check: position")
    fors = [n for n in ast.walk(fn) if isinstance(n, ast.For)]
    need(len(fors) == 1 and ast.unparse(fors[0].iter) == "mochibake.finditer(l10nEnt.all)",
         "Checker.check: loop")
    need(isinstance(e[2], ast.JoinedStr), "Checker.check: f-string message")
    pieces = []
    for v in e[2].values:
        if isinstance(v, ast.Constant):
            pieces.append(("lit", v.value))
        else:
            need(isinstance(v, ast.FormattedValue) and v.conversion == -1 and v.format_spec is None
                 and ast.unparse(v.value) == "l10nEnt.key", "Checker.check: interpolation")
            pieces.append(("arg", 0))
    L.append(f"Definition y_encoding : site := ({sev(e[0], 'Checker.check')}, {tpl_coq(pieces)}).")
    L.append(f"Definition s_cat_encodings : str := {cstr(const(e[3], 'Checker.check category'))}.")

    # ---- CSSCheckMixin --------------------------------------------------------
    fn = tree_of(base.CSSCheckMixin.check_style)
    ys = ordered([n for n in ast.walk(fn) if isinstance(n, ast.Yield)])
    need(len(ys) == 3 and all(isinstance(y.value, ast.Tuple) and len(y.value.elts) == 4 for y in ys),
         "check_style: three 4-tuple yields")
    for i, nm in ((0, "css_no_map"), (1, "css_errors")):
        e = ys[i].value.elts
        need(ast.unparse(e[1]) == "0", "check_style: position 0")
        L.append(f"Definition y_{nm} : site := ({sev(e[0], 'check_style')}, "
                 f"[inl {cstr(const(e[2], 'check_style'))}]).")
    e = ys[2].value.elts
    need(ast.unparse(e[1]) == "0" and ast.unparse(e[2]) == "', '.join(msgs)", "check_style: warning yield")
    L.append(f"Definition sev_css_warning : bool := {sev(e[0], 'check_style')}.")
    src = ast.unparse(fn)
    for needle in ("if not l10n_map:", "if errors:", "for prop, unit in l10n_map.items():",
                   "if prop not in ref_map:", "msgs.insert(0, '%s only in l10n' % prop)\n            continue",
                   "ref_unit = ref_map.pop(prop)", "if unit != ref_unit:",
                   "msgs.append(\"units for %s don't match (%s != %s)\" % (prop, unit, ref_unit))",
                   "for prop in ref_map.keys():", "msgs.insert(0, '%s only in reference' % prop)",
                   "if msgs:"):
        need(needle in src, "check_style: " + needle)
    percents = [n for n in ast.walk(fn) if isinstance(n, ast.BinOp) and isinstance(n.op, ast.Mod)]
    percents = ordered(percents)
    need(len(percents) == 3, "check_style: three % templates")
    L.append("Definition t_only_l10n : tpl := " +
             tpl_coq(percent_template(const(percents[0].left, "css"), 1, "only in l10n")) + ".")
    L.append("(* arguments: prop, unit, ref_unit *)")
    L.append("Definition t_units : tpl := " +
             tpl_coq(percent_template(const(percents[1].left, "css"), 3, "units")) + ".")
    L.append("Definition t_only_ref : tpl := " +
             tpl_coq(percent_template(const(percents[2].left, "css"), 1, "only in reference")) + ".")
    L.append(f"Definition s_None : str := {cstr(str(None))}.")
    fn = tree_of(base.CSSCheckMixin.parse_css_spec)
    src = ast.unparse(fn)
    for needle in ("refMap = errors = None", "end = 0", "for m in self._css_spec.finditer(val):",
                   "if end == 0 and m.start() == m.end():\n            return (None, None)",
                   "if m.start() > end:", "split = self._css_sep.match(val, end, m.start())",
                   "if split is None:", "errors = errors or []",
                   "elif end > 0 and split.group('semi') is None:",
                   "if m.group('prop'):", "refMap = refMap or {}",
                   "refMap[m.group('prop')] = m.group('unit')", "end = m.end()",
                   "return (refMap, errors)"):
        need(needle in src, "parse_css_spec: " + needle)
    codes = [const(v, "css code") for n in ast.walk(fn) if isinstance(n, ast.Dict)
             for k, v in zip(n.keys, n.values) if const(k, "css key") == "code"]
    need(codes == ["css-bad-content", "css-missing-semicolon"], f"parse_css_spec error codes {codes}")
    # the literal patterns in the source are the ones compiled
    lits = [n for n in ast.walk(fn) if isinstance(n, ast.Call) and ast.unparse(n.func) == "re.compile"]
    lits = ordered(lits)
    spec, sep = css_regexes()
    need(len(lits) == 2 and [const(c.args[0], "re.compile") for c in lits] == [spec.pattern, sep.pattern]
         and all(len(c.args) == 1 and not c.keywords for c in lits),
         "parse_css_spec: the two re.compile literals are the compiled patterns")

    # ---- plurals.py -----------------------------------------------------------
    src = ast.unparse(tree_of(plurals.get_plural))
    for needle in ("plural_form = get_plural_rule(locale)", "if plural_form is None:\n        return None",
                   "return CATEGORIES_BY_INDEX[plural_form]"):
        need(needle in src, "get_plural: " + needle)
    src = ast.unparse(tree_of(plurals.get_plural_rule))
    for needle in ("if locale is None:\n        return None",
                   "if locale in CATEGORIES_BY_LOCALE:\n        return CATEGORIES_BY_LOCALE[locale]",
                   "locale = locale.split('-', 1)[0]", "return CATEGORIES_BY_LOCALE.get(locale)"):
        need(needle in src, "get_plural_rule: " + needle)
    cats = plurals.CATEGORIES_BY_INDEX
    need(isinstance(cats, tuple) and all(isinstance(c, tuple) and c and all(isinstance(x, str) for x in c)
                                         for c in cats), "CATEGORIES_BY_INDEX: tuple of non-empty tuples of str")
    loc = plurals.CATEGORIES_BY_LOCALE
    need(isinstance(loc, dict) and all(isinstance(k, str) and type(v) is int and v >= 0 for k, v in loc.items()),
         "CATEGORIES_BY_LOCALE: str -> non-negative int")
    L.append("")
    L.append("Definition categories_by_index : list (list str) := [")
    L.append(";\n".join("  [" + "; ".join(cstr(x) for x in c) + "]" for c in cats) + "].")
    L.append("")
    L.append("Definition categories_by_locale : list (str * nat) := [")
    L.append(";\n".join(f"  ({cstr(k)}, {v})" for k, v in loc.items()) + "].")
    L.append("")
    return [("C08Facts.v", "\n".join(L))]
