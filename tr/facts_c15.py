"""Facts for C15/C16 (merge.py merge_channels, serializer.py serialize).

Read from the imported package (one controlled import, as for the parser
regexes): the parser dispatch table `parser.__constructors` that `getParser`
searches in order (the patterns become `rx_c15_ctor_<i>` in Generated/RxC15.v,
the table `constructors` with the parser class codes in Generated/ChannelFacts.v),
the literal text and raw value of `PlaceholderEntity`, and the encoding of
every parser (the models produce code points; the harness decodes the
implementation's bytes with that encoding, which must be utf-8).

Fail closed: anything that is not what the model expects raises.
"""
from factlib import HEADER, coq_str

NAME = "c15"

# parser class name -> code used on the wire (harness/props/c15.py PARSER_CODE)
PARSER_CODES = {
    "AndroidParser": 0, "DTDParser": 1, "PropertiesParser": 2, "IniParser": 3,
    "DefinesParser": 4, "FluentParser": 5, "PoParser": 6,
}


def _table():
    from compare_locales import parser
    table = getattr(parser, "__constructors")
    if not isinstance(table, list) or not table:
        raise RuntimeError("parser.__constructors is not a non-empty list")
    out = []
    for item in table:
        if not (isinstance(item, tuple) and len(item) == 2 and isinstance(item[0], str)):
            raise RuntimeError("unexpected entry in parser.__constructors: %r" % (item,))
        cls = type(item[1]).__name__
        if cls not in PARSER_CODES:
            raise RuntimeError("unknown parser class " + cls)
        if getattr(item[1], "encoding", None) != "utf-8":
            raise RuntimeError("parser %s does not encode as utf-8" % cls)
        out.append((item[0], PARSER_CODES[cls]))
    return out


def _getparser_shape():
    """getParser must still search the table in order with re.search"""
    import ast
    import inspect
    import textwrap
    from compare_locales import parser
    fn = ast.parse(textwrap.dedent(inspect.getsource(parser.getParser))).body[0]
    first = ast.unparse(fn.body[0])
    want = ("for item in __constructors:\n    if re.search(item[0], path):\n"
            "        return item[1]")
    if first != want:
        raise RuntimeError("getParser no longer has the shape the model mirrors:\n" + first)
    last = ast.unparse(fn.body[-1])
    if last != "raise UserWarning('Cannot find Parser')":
        raise RuntimeError("getParser no longer ends in raise UserWarning:\n" + last)


def _placeholder():
    from compare_locales.parser.base import PlaceholderEntity, LiteralEntity, Entity
    a, b = PlaceholderEntity("k"), PlaceholderEntity("another key")
    if a.all != b.all or a.raw_val != b.raw_val or a.key != "k":
        raise RuntimeError("PlaceholderEntity text depends on the key")
    if not (issubclass(PlaceholderEntity, LiteralEntity) and issubclass(LiteralEntity, Entity)):
        raise RuntimeError("PlaceholderEntity is no longer a LiteralEntity/Entity")
    lit = LiteralEntity("k", "v", "a")
    if (lit.key, lit.raw_val, lit.all) != ("k", "v", "a"):
        raise RuntimeError("LiteralEntity does not store (key, raw_val, all)")
    return a.all, a.raw_val


def regexes():
    return {"c15_ctor_%d" % i: (pat, 0) for i, (pat, _) in enumerate(_table())}


def generate():
    _getparser_shape()
    table = _table()
    all_, raw = _placeholder()
    L = [HEADER, "From Coq Require Import NArith List.",
         "From CL Require Import Regex.Rx Generated.RxC15.", "Import ListNotations.", "",
         "(* parser.__constructors in order: (pattern, parser class code);",
         "   codes: " + ", ".join(f"{v}={k}" for k, v in PARSER_CODES.items()) + " *)",
         "Definition constructors : list (rx * nat) :=",
         "  [" + ";\n   ".join(f"(rx_c15_ctor_{i}, {code})" for i, (_, code) in enumerate(table)) + "].",
         "",
         f"(* PlaceholderEntity(key).all = {all_!r}, .raw_val = {raw!r} *)",
         f"Definition placeholder_all : list N := {coq_str(all_) if all_ else '[]'}.",
         f"Definition placeholder_val : list N := {coq_str(raw) if raw else '[]'}.",
         ""]
    return [("ChannelFacts.v", "\n".join(L))]
