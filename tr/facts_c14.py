"""Facts for C14 (ProjectConfig.filter / _filter / cache / _compile_rule).

Read from the source of compare_locales/paths/project.py with `ast` (no import
of the package): the action names and the order in which `_filter` tests them
(the severity order), the action that triggers the early return, the default
action of a covered file, the verdict of an excluded configuration that
suppresses the parent, the verdict `filter` returns for an unknown locale and
for "no action", the `re:` prefix of regex keys with the slice that removes
it, and the suffix appended to an escaped literal key (a regex; it becomes
`rx_c14_key_suffix` in Generated/RxC14.v).

The control flow of these functions is hand-modelled in coq/Model/Filter.v;
this plugin checks that the source still has exactly the shape the model
mirrors (the unparsed function body must match a template in which only the
literals are free) and raises otherwise (fail closed).
"""
import ast
import importlib.util
import os
import re

from factlib import HEADER, coq_str

NAME = "c14"


def _source_of(modname):
    spec = importlib.util.find_spec("compare_locales")
    if spec is None or not spec.submodule_search_locations:
        raise RuntimeError("compare_locales not on sys.path")
    base = list(spec.submodule_search_locations)[0]
    path = os.path.join(base, *modname.split(".")) + ".py"
    return open(path, encoding="utf-8").read()


def _method(tree, cls, name):
    for c in tree.body:
        if isinstance(c, ast.ClassDef) and c.name == cls:
            for f in c.body:
                if isinstance(f, ast.FunctionDef) and f.name == name:
                    return f
    raise RuntimeError(f"{cls}.{name} not found")


def _strip_doc(fn):
    body = list(fn.body)
    if (body and isinstance(body[0], ast.Expr) and isinstance(body[0].value, ast.Constant)
            and isinstance(body[0].value.value, str)):
        body = body[1:]
    return "\n".join(ast.unparse(s) for s in body)


def _template(text):
    """literal template with <<s:name>> (a quoted string literal without quotes or
    backslashes inside) and <<n:name>> (a number); the first occurrence of a
    name defines it, later ones must repeat it"""
    out, seen, pos = [], set(), 0
    for m in re.finditer(r"<<([ns]):([a-zA-Z0-9_]+)>>", text):
        out.append(re.escape(text[pos:m.start()]))
        kind, nm = m.group(1), m.group(2)
        if nm in seen:
            out.append("'(?P=%s)'" % nm if kind == "s" else "(?P=%s)" % nm)
        else:
            seen.add(nm)
            out.append("'(?P<%s>[^'\\\\\n]*)'" % nm if kind == "s" else r"(?P<%s>\d+)" % nm)
        pos = m.end()
    out.append(re.escape(text[pos:]))
    return re.compile("".join(out) + r"\Z")


def _match(tmpl, text, what):
    m = _template(tmpl).match(text)
    if not m:
        raise RuntimeError(f"{what} no longer has the shape the model mirrors:\n{text}")
    return m.groupdict()


FILTER_T = """if l10n_file.locale not in self.all_locales:
    return <<s:uncovered>>
if self.filter_py is not None:
    return self.filter_py(l10n_file.module, l10n_file.file, entity=entity)
rv = self._filter(l10n_file, entity=entity)
if rv is None:
    return <<s:none>>
return rv"""

CACHE_T = """if self._cache and self._cache.locale == locale:
    return self._cache
self._cache = self.FilterCache(locale)
for paths in self.paths:
    if 'locales' in paths and locale not in paths['locales']:
        continue
    self._cache.l10n_paths.append(paths['l10n'].with_env({'locale': locale}))
for rule in self.rules:
    cached_rule = rule.copy()
    cached_rule['path'] = rule['path'].with_env({'locale': locale})
    self._cache.rules.append(cached_rule)
return self._cache"""

UFILTER_T = """if any((exclude.filter(l10n_file) == <<s:excl>> for exclude in self.excludes)):
    return
actions = {child._filter(l10n_file, entity=entity) for child in self.children}
if <<s:early>> in actions:
    return <<s:early>>
cached = self.cache(l10n_file.locale)
if any((p.match(l10n_file.fullpath) is not None for p in cached.l10n_paths)):
    action = <<s:default>>
    for rule in reversed(cached.rules):
        if rule['path'].match(l10n_file.fullpath) is None:
            continue
        if ('key' in rule) ^ (entity is not None):
            continue
        if 'key' in rule and (not rule['key'].match(entity)):
            continue
        action = rule['action']
        break
    actions.add(action)
if <<s:sev0>> in actions:
    return <<s:sev0>>
if <<s:sev1>> in actions:
    return <<s:sev1>>
if <<s:sev2>> in actions:
    return <<s:sev2>>"""

COMPILE_T = """assert 'path' in rule
if isinstance(rule['path'], list):
    for path in rule['path']:
        _rule = rule.copy()
        _rule['path'] = Matcher(path, env=self.environ, root=self.root)
        yield from self._compile_rule(_rule)
    return
if isinstance(rule['path'], str):
    rule['path'] = Matcher(rule['path'], env=self.environ, root=self.root)
if 'key' not in rule:
    yield rule
    return
if not isinstance(rule['key'], str):
    for key in rule['key']:
        _rule = rule.copy()
        _rule['key'] = key
        yield from self._compile_rule(_rule)
    return
rule = rule.copy()
key = rule['key']
if key.startswith(<<s:prefix>>):
    key = key[<<n:skip>>:]
else:
    key = re.escape(key) + <<s:suffix>>
rule['key'] = re.compile(key)
yield rule"""

ADD_RULES_T = """assert self.filter_py is None
for rule in rules:
    self.rules.extend(self._compile_rule(rule))"""

ALL_LOCALES_T = """if self._all_locales is None:
    all_locales = set()
    for config in self.configs:
        if config.locales is not None:
            all_locales.update(config.locales)
        for paths in config.paths:
            if 'locales' in paths:
                all_locales.update(paths['locales'])
    self._all_locales = sorted(all_locales)
return self._all_locales"""

CONFIGS_T = """yield self
for child in self.children:
    yield from child.configs"""

SET_LOCALES_T = """self._all_locales = None
self.locales = locales
if not deep:
    return
for child in self.children:
    child.set_locales(locales, deep=deep)"""

# add_paths: the part the model mirrors is the cache reset and the `locales` copy
ADD_PATHS_HEAD = "self._all_locales = None\nfor d in paths:\n"
ADD_PATHS_LOCALES = "    if 'locales' in d:\n        rv['locales'] = d['locales'][:]\n    self.paths.append(rv)"


def read_facts():
    tree = ast.parse(_source_of("paths.project"))

    def body(name):
        return _strip_doc(_method(tree, "ProjectConfig", name))
    f = _match(FILTER_T, body("filter"), "ProjectConfig.filter")
    _match(CACHE_T, body("cache"), "ProjectConfig.cache")
    u = _match(UFILTER_T, body("_filter"), "ProjectConfig._filter")
    c = _match(COMPILE_T, body("_compile_rule"), "ProjectConfig._compile_rule")
    _match(ADD_RULES_T, body("add_rules"), "ProjectConfig.add_rules")
    _match(ALL_LOCALES_T, body("all_locales"), "ProjectConfig.all_locales")
    _match(CONFIGS_T, body("configs"), "ProjectConfig.configs")
    _match(SET_LOCALES_T, body("set_locales"), "ProjectConfig.set_locales")
    ap = body("add_paths")
    if not (ap.startswith(ADD_PATHS_HEAD) and ap.endswith(ADD_PATHS_LOCALES)):
        raise RuntimeError("ProjectConfig.add_paths no longer has the shape the model mirrors:\n" + ap)
    # FilterCache.__init__ : locale, rules = [], l10n_paths = []
    fc = None
    for cdef in ast.walk(tree):
        if isinstance(cdef, ast.ClassDef) and cdef.name == "FilterCache":
            fc = "\n".join(ast.unparse(s) for s in cdef.body[0].body)
    if fc != "self.locale = locale\nself.rules = []\nself.l10n_paths = []":
        raise RuntimeError("FilterCache.__init__ changed:\n%s" % fc)
    chain = [u["sev0"], u["sev1"], u["sev2"]]
    if len(set(chain)) != 3 or not all(re.fullmatch(r"[a-z]+", n) for n in chain):
        raise RuntimeError("action names of the final chain are not three distinct words: %r" % chain)
    for slot in ("excl", "early", "default"):
        if u[slot] not in chain:
            raise RuntimeError(f"_filter literal {slot}={u[slot]!r} is not one of {chain}")
    for slot in ("uncovered", "none"):
        if f[slot] not in chain:
            raise RuntimeError(f"filter literal {slot}={f[slot]!r} is not one of {chain}")
    if not c["prefix"]:
        raise RuntimeError("empty regex-key prefix")
    return {"chain": chain, "excl": u["excl"], "early": u["early"], "default": u["default"],
            "uncovered": f["uncovered"], "none": f["none"],
            "prefix": c["prefix"], "skip": int(c["skip"]), "suffix": c["suffix"]}


def regexes():
    """the text appended to an escaped literal key is a regular expression"""
    return {"c14_key_suffix": (read_facts()["suffix"], 0)}


def ctor(name):
    return "A" + name.capitalize()


def generate():
    f = read_facts()
    names = sorted(f["chain"])
    L = [HEADER, "From Coq Require Import NArith List.", "Import ListNotations.", "",
         "(* the action names `_filter` tests for, one constructor each ('A' + Name) *)",
         "Inductive action := " + " | ".join(ctor(n) for n in names) + ".",
         "Scheme Equality for action.   (* action_beq, action_eq_dec *)",
         "Definition all_actions : list action := [" + "; ".join(ctor(n) for n in names) + "].",
         "Definition action_name (a : action) : list N :=",
         "  match a with"]
    for n in names:
        L.append(f"  | {ctor(n)} => {coq_str(n)}  (* {n!r} *)")
    L += ["  end.", "",
          "(* the final chain `if X in actions: return X` of _filter, in source order *)",
          "Definition sev_order : list action := [" + "; ".join(ctor(n) for n in f["chain"]) + "].",
          "(* `if X in actions: return X` right after the children were asked *)",
          f"Definition act_early : action := {ctor(f['early'])}.",
          "(* `action = X` before the reversed scan of the rules *)",
          f"Definition act_default : action := {ctor(f['default'])}.",
          "(* `any(exclude.filter(l10n_file) == X ...)` *)",
          f"Definition act_exclude_trigger : action := {ctor(f['excl'])}.",
          "(* filter(): `l10n_file.locale not in self.all_locales` *)",
          f"Definition act_uncovered : action := {ctor(f['uncovered'])}.",
          "(* filter(): `rv is None` *)",
          f"Definition act_none : action := {ctor(f['none'])}.",
          "",
          f"(* `key.startswith({f['prefix']!r})`, `key[{f['skip']}:]` *)",
          f"Definition key_re_prefix : list N := {coq_str(f['prefix'])}.",
          f"Definition key_re_skip : nat := {f['skip']}.",
          ""]
    return [("FilterFacts.v", "\n".join(L))]
