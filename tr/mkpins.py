"""python tr/mkpins.py <out.json> name...  — (re)compute the digests of modelled functions."""
import json, sys
import factlib
out = sys.argv[1]
json.dump({n: factlib.function_digest(factlib.resolve(n)) for n in sys.argv[2:]}, open(out, "w"), indent=1)
print(open(out).read())
