"""Facts for C06 (checks/properties.py PropertiesChecker, checks/base.py
Checker.check, plurals.py), read from the repository working tree:

* regexes: the `printf` class attribute, the inline patterns of check
  (`\\d+$`) and check_plural (`#([0-9]+)`, twice the same), base.mochibake,
  PropertiesEntity.escape;
* Generated/C06Facts.v: the plural tables, PropertiesEntity.known_escapes'
  keys, and every literal the model needs (comment literal, pluralRule key,
  severities, categories, positions, messages and format strings), taken from
  the syntax tree of the functions at the place where they are used.

Fail-closed: every function is matched against the shape the model was
written for (number and form of the yields, of the raises, of the compared
literals); anything else raises, so the cone of C06 stops building.
"""
import ast
import inspect
import textwrap

from factlib import HEADER, coq_str, inline_patterns, comment_safe

NAME = "c06"


class Shape(Exception):
    pass


def need(cond, what):
    if not cond:
        raise Shape("checks/properties.py no longer has the shape the C06 model mirrors: " + what)


def tree_of(func):
    return ast.parse(textwrap.dedent(inspect.getsource(func))).body[0]


def ordered(nodes):
    return sorted(nodes, key=lambda n: (n.lineno, n.col_offset))


def const(node, typ=str):
    need(isinstance(node, ast.Constant) and isinstance(node.value, typ),
         f"expected a {typ.__name__} literal, found {ast.dump(node)[:80]}")
    return node.value


def yields(fn):
    """the 4-tuples yielded by `yield (...)` (not `yield from`), in source order"""
    out = []
    for n in ordered([n for n in ast.walk(fn) if isinstance(n, ast.Yield)]):
        need(isinstance(n.value, ast.Tuple) and len(n.value.elts) == 4, "yield of a 4-tuple")
        out.append(n.value.elts)
    return out


def src(node):
    return ast.unparse(node)


def regexes():
    from compare_locales.checks import properties, base
    from compare_locales.parser import PropertiesEntity
    C = properties.PropertiesChecker
    R = {}
    R["printf"] = (C.printf.pattern, C.printf.flags)
    pats = inline_patterns(C.check)
    need(len(pats) == 1, "one inline regex in check")
    R["digits_end"] = pats[0]
    pats = inline_patterns(C.check_plural)
    need(len(pats) == 2 and pats[0] == pats[1], "the same inline regex twice in check_plural")
    R["plural_var"] = pats[0]
    R["mochibake"] = (base.mochibake.pattern, base.mochibake.flags)
    R["c06_escape"] = (PropertiesEntity.escape.pattern, PropertiesEntity.escape.flags)
    for g in ("good", "number", "width", "prec", "spec"):
        need(g in C.printf.groupindex, "printf group " + g)
    need("single" in PropertiesEntity.escape.groupindex, "escape group single")
    return R


def literals():
    """name -> str | int, from the syntax trees"""
    from compare_locales.checks import properties, base
    C = properties.PropertiesChecker
    L = {}

    # ---- Checker.check (base) ------------------------------------------------
    fn = tree_of(base.Checker.check)
    ys = yields(fn)
    need(len(ys) == 1, "one yield in Checker.check")
    sev, pos, msg, cat = ys[0]
    L["base_sev"], L["base_cat"] = const(sev), const(cat)
    need(src(pos) == "EntityPos(m.start())", "EntityPos(m.start()) in Checker.check")
    need(isinstance(msg, ast.JoinedStr) and len(msg.values) == 2
         and isinstance(msg.values[1], ast.FormattedValue)
         and src(msg.values[1].value) == "l10nEnt.key" and msg.values[1].conversion == -1
         and msg.values[1].format_spec is None, "f-string '<lit>{l10nEnt.key}'")
    L["base_msg"] = const(msg.values[0])
    fors = [n for n in ast.walk(fn) if isinstance(n, ast.For)]
    need(len(fors) == 1 and src(fors[0].iter) == "mochibake.finditer(l10nEnt.all)",
         "loop over mochibake.finditer(l10nEnt.all)")

    # ---- PropertiesChecker.check ----------------------------------------------
    fn = tree_of(C.check)
    ifs = ordered([n for n in ast.walk(fn) if isinstance(n, ast.If)])
    need(len(ifs) == 3, "three if statements in check")
    sel = ifs[0].test
    need(isinstance(sel, ast.BoolOp) and isinstance(sel.op, ast.And) and len(sel.values) == 4,
         "plural selection is a 4-way and")
    v0, v1, v2, v3 = sel.values
    need(src(v0) == "refEnt.pre_comment", "refEnt.pre_comment")
    need(isinstance(v1, ast.Compare) and len(v1.ops) == 1 and isinstance(v1.ops[0], ast.In)
         and src(v1.comparators[0]) == "refEnt.pre_comment.all", "<lit> in refEnt.pre_comment.all")
    L["plural_comment"] = const(v1.left)
    need(isinstance(v2, ast.Compare) and len(v2.ops) == 1 and isinstance(v2.ops[0], ast.NotEq)
         and src(v2.left) == "refEnt.key", "refEnt.key != <lit>")
    L["plural_rule_key"] = const(v2.comparators[0])
    need(isinstance(v3, ast.UnaryOp) and isinstance(v3.op, ast.Not)
         and isinstance(v3.operand, ast.Call) and src(v3.operand.func) == "re.match"
         and src(v3.operand.args[1]) == "refValue", "not re.match(<lit>, refValue)")
    ys = yields(fn)
    need(len(ys) == 1, "one plain yield in check")
    sev, pos, msg, cat = ys[0]
    L["esc_sev"], L["esc_cat"] = const(sev), const(cat)
    need(src(pos) == "m.start()", "escape position m.start()")
    need(isinstance(msg, ast.BinOp) and isinstance(msg.op, ast.Add)
         and src(msg.right) == "m.group('single')", "<lit> + m.group('single')")
    L["esc_msg"] = const(msg.left)
    need(src(ifs[1].test) ==
         "m.group('single') and m.group('single') not in PropertiesEntity.known_escapes",
         "unknown-escape test")
    need(src(ifs[2].test) == "refSpecs", "if refSpecs")

    # ---- check_plural -----------------------------------------------------------
    fn = tree_of(C.check_plural)
    ys = yields(fn)
    need(len(ys) == 4, "four yields in check_plural")
    for k, (sev, pos, msg, cat) in enumerate(ys):
        nm = ("plural_few", "plural_many", "plural_unused", "plural_extra")[k]
        L[nm + "_sev"], L[nm + "_cat"] = const(sev), const(cat)
        L[nm + "_pos"] = const(pos, int)
        if k < 2:
            need(src(msg) == "msg", "count message variable")
        else:
            L[nm + "_msg"] = const(msg)
    asg = [n for n in ast.walk(fn) if isinstance(n, ast.Assign) and src(n.targets[0]) == "msg"]
    need(len(asg) == 1 and isinstance(asg[0].value, ast.JoinedStr), "msg = f-string")
    parts = asg[0].value.values
    need(len(parts) == 4 and src(parts[1].value) == "expected_forms"
         and src(parts[3].value) == "found_forms"
         and all(p.conversion == -1 and p.format_spec is None for p in (parts[1], parts[3])),
         "f'<lit>{expected_forms}<lit>{found_forms}'")
    L["plural_msg_a"], L["plural_msg_b"] = const(parts[0]), const(parts[2])
    cnt = [n for n in ast.walk(fn) if isinstance(n, ast.Call) and isinstance(n.func, ast.Attribute)
           and n.func.attr == "count"]
    need(len(cnt) == 1 and src(cnt[0].func.value) == "l10nValue", "l10nValue.count(<lit>)")
    sepa = const(cnt[0].args[0])
    need(len(sepa) == 1, "one-character separator")
    L["plural_sep"] = sepa

    # ---- checkPrintf --------------------------------------------------------------
    fn = tree_of(C.checkPrintf)
    ys = yields(fn)
    need(len(ys) == 3, "three yields in checkPrintf")
    for k, (sev, pos, msg, cat) in enumerate(ys):
        nm = ("pf_exc", "pf_err", "pf_warn")[k]
        L[nm + "_sev"], L[nm + "_cat"] = const(sev), const(cat)
        if k == 0:
            need(src(pos) == "e.pos" and src(msg) == "e.msg", "PrintfException pos and msg")
        else:
            L[nm + "_pos"] = const(pos, int)
    need(src(ys[1][2]).endswith(".join(msgs)") and src(ys[2][2]) == "warn", "joined msgs / warn")
    joins = ordered([n for n in ast.walk(fn) if isinstance(n, ast.Call)
                     and isinstance(n.func, ast.Attribute) and n.func.attr == "join"])
    need(len(joins) == 2, "two joins")
    L["pf_join_warn"], L["pf_join_err"] = const(joins[0].func.value), const(joins[1].func.value)
    mods = ordered([n for n in ast.walk(fn) if isinstance(n, ast.BinOp) and isinstance(n.op, ast.Mod)])
    need(len(mods) == 4, "four % formats")
    want = ["(i + 1, refSpecs[i])", "(i + 1, refSpecs[i])", "(i + 1, l10nSpecs[i])",
            "(j + 1, l10nSpecs[j], refSpecs[i])"]
    for nm, m_, w in zip(("pf_fmt_trailing", "pf_fmt_missing", "pf_fmt_obsolete", "pf_fmt_replace"),
                         mods, want):
        L[nm] = const(m_.left)
        need(src(m_.right) == w, "format arguments " + w)
    cmps = ordered([n for n in ast.walk(fn) if isinstance(n, ast.Compare)
                    and src(n.left) == "action"])
    need([const(c.comparators[0]) for c in cmps] == ["equal", "delete", "insert", "replace"],
         "the four difflib tags, in order")

    # ---- getPrintfSpecs -----------------------------------------------------------
    fn = tree_of(C.getPrintfSpecs)
    rs = ordered([n for n in ast.walk(fn) if isinstance(n, ast.Raise)])
    need(len(rs) == 3 and all(isinstance(r.exc, ast.Call) and src(r.exc.func) == "PrintfException"
                              and len(r.exc.args) == 2 for r in rs), "three PrintfException raises")
    for nm, r, p in zip(("pe_single", "pe_mixed", "pe_missing"), rs, ("m.start()", "m.start()", "0")):
        L[nm] = const(r.exc.args[0])
        need(src(r.exc.args[1]) == p, "PrintfException position " + p)
    eqs = [n for n in ast.walk(fn) if isinstance(n, ast.Compare) and isinstance(n.ops[0], ast.Eq)
           and src(n.left) == "m.group('good')"]
    need(len(eqs) == 1, "m.group('good') == <lit>")
    L["pe_escaped"] = const(eqs[0].comparators[0])
    return L


def generate():
    from compare_locales import plurals
    from compare_locales.parser import PropertiesEntity
    by_index = plurals.CATEGORIES_BY_INDEX
    by_locale = plurals.CATEGORIES_BY_LOCALE
    need(isinstance(by_index, tuple) and all(isinstance(t, tuple) and all(isinstance(c, str) for c in t)
                                             for t in by_index), "CATEGORIES_BY_INDEX tuple of tuples of str")
    need(isinstance(by_locale, dict) and all(isinstance(k, str) and isinstance(v, int) and not isinstance(v, bool)
                                             and v >= 0 for k, v in by_locale.items()),
         "CATEGORIES_BY_LOCALE dict str -> non-negative int")
    gp = tree_of(plurals.get_plural_rule)
    seps = [n for n in ast.walk(gp) if isinstance(n, ast.Call) and isinstance(n.func, ast.Attribute)
            and n.func.attr == "split"]
    need(len(seps) == 1 and len(seps[0].args) == 2 and const(seps[0].args[1], int) == 1,
         "locale.split(<lit>, 1)")
    sep = const(seps[0].args[0])
    need(len(sep) == 1, "one-character locale separator")
    L = literals()
    keys = list(PropertiesEntity.known_escapes)
    need(all(isinstance(k, str) for k in keys), "known_escapes keys are str")

    lines = [HEADER, "From Coq Require Import NArith List.", "Import ListNotations.", "",
             "(* plurals.py *)",
             "Definition plural_categories_by_index : list (list (list N)) := ["]
    lines.append(";\n".join("  [" + "; ".join(coq_str(c) for c in t) + "]" for t in by_index) + "].")
    lines.append("")
    lines.append("Definition plural_by_locale : list (list N * nat) := [")
    lines.append(";\n".join(f"  ({coq_str(k)}, {v}) (* {comment_safe(k)} *)" for k, v in by_locale.items()) + "].")
    lines.append("")
    lines.append(f"Definition plural_locale_sep : N := {ord(sep)}%N.")
    lines.append("")
    lines.append("(* parser/properties.py PropertiesEntity.known_escapes (keys) *)")
    lines.append("Definition known_escape_keys : list (list N) := [" +
                 "; ".join(coq_str(k) for k in keys) + "].")
    lines.append("")
    lines.append("(* literals of checks/base.py Checker.check and checks/properties.py *)")
    for k, v in L.items():
        if isinstance(v, int):
            lines.append(f"Definition lit_{k} : nat := {v}.")
        elif k == "plural_sep":
            lines.append(f"Definition lit_{k} : N := {ord(v)}%N.")
        else:
            lines.append(f"(* {comment_safe(repr(v))} *)")
            lines.append(f"Definition lit_{k} : list N := {coq_str(v)}.")
    lines.append("")
    return [("C06Facts.v", "\n".join(lines))]
