"""Facts for C18: the STATE INVENTORY of compare_locales.

Every non-test module of the package is parsed with `ast` (no import) and every
place where state can outlive a call is listed syntactically, as a triple
(module, qualified name, kind):

  module-const        module-level name bound to a mutable value (list / dict / set
                      literal or comprehension, or a call that is not a known
                      constructor of immutable values) that is never mutated
                      syntactically anywhere in the package
  module-mutated      the same, but mutated somewhere (subscript store, `del`,
                      mutating method call, augmented assignment)
  global-rebound      a name rebound through a `global` statement
  class-attr-written  class attribute written through `cls.X`, `self.__class__.X`,
                      `type(self).X` or `ClassName.X`
  class-attr-subclass-copy
                      a subclass of a class whose attribute is written through
                      `self.__class__.X`: the first write from an instance of the
                      subclass creates a separate attribute on the subclass
  class-default-shadowed
                      class attribute given a value in the class body and assigned
                      through `self.X` outside `__init__` (class or subclasses)
  class-singleton-attr
                      `self.A.B = ...` where A is a class-level instance (the class
                      body binds A to a call): state of an object shared by all
                      instances
  singleton-attr      instance attribute assigned through `self.X` outside
                      `__init__` in a class (or a base of a class) that is
                      instantiated at import time (module level or class body)
  instance-attr       the same for classes that are only instantiated at run time
  lazy-attr           instance attribute that no `__init__` of the class or its
                      bases creates: it appears with its first assignment in a method
                      (the `hasattr(self, ...)` idiom)
  instance-mutated    attribute of self mutated in place outside `__init__`
                      (mutating method call, subscript store, `del`), also through a
                      chain `self.A.B`
  param-attr-written  attribute assigned on an object that is not self
                      (`ctx.flag = ...`) inside a function
  mutable-default     mutable default argument
  memoized            function decorated with a functools cache

The list goes to coq/Generated/FactsC18.v as `state_inventory`; the model
coq/Model/History.v declares the state it accounts for as `modelled_state` and
`C18_inventory : state_inventory = modelled_state` is proved by computation,
so a new cache, counter or lazily created attribute in the package breaks that
theorem and the error names the new item.  Fail closed: a construct the
scanner does not understand (a store target it cannot classify) raises.
"""
import ast
import importlib.util
import os

from factlib import HEADER, coq_str

NAME = "c18"

IMMUTABLE_CALLS = {
    "re.compile", "frozenset", "tuple", "int", "str", "float", "bool", "bytes",
    "namedtuple", "collections.namedtuple", "object", "len",
}

MUTATORS = {"append", "extend", "insert", "pop", "remove", "clear", "update", "add",
            "discard", "setdefault", "sort", "reverse", "popitem", "appendleft",
            "popleft", "move_to_end", "subtract", "difference_update",
            "intersection_update", "symmetric_difference_update"}

CACHE_DECORATORS = {"lru_cache", "cache", "cached_property", "functools.lru_cache",
                    "functools.cache", "functools.cached_property"}


def regexes():
    return {}


# ------------------------------------------------------------------ source ---
def package_dir():
    spec = importlib.util.find_spec("compare_locales")
    if spec is None or not spec.submodule_search_locations:
        raise RuntimeError("compare_locales not on sys.path")
    return list(spec.submodule_search_locations)[0]


def is_test_path(rel):
    parts = rel.split(os.sep)
    for p in parts[:-1]:
        if p == "tests" or p.endswith("_tests"):
            return True
    return parts[-1].startswith("test_")


def modules():
    """[(dotted module name, ast.Module)] of every non-test module, sorted"""
    base = package_dir()
    out = []
    for d, dirs, files in os.walk(base):
        dirs.sort()
        for f in sorted(files):
            if not f.endswith(".py"):
                continue
            rel = os.path.relpath(os.path.join(d, f), base)
            if is_test_path(rel):
                continue
            mod = "compare_locales." + rel[:-3].replace(os.sep, ".")
            if mod.endswith(".__init__"):
                mod = mod[: -len(".__init__")]
            src = open(os.path.join(d, f), encoding="utf-8").read()
            out.append((mod, ast.parse(src)))
    out.sort(key=lambda x: x[0])
    if len(out) < 20:
        raise RuntimeError("unexpectedly few modules: %d" % len(out))
    return out


# ----------------------------------------------------------------- helpers ---
def dotted(node):
    """a.b.c for Name/Attribute chains, else None"""
    parts = []
    while isinstance(node, ast.Attribute):
        parts.append(node.attr)
        node = node.value
    if isinstance(node, ast.Name):
        parts.append(node.id)
        return ".".join(reversed(parts))
    return None


def is_mutable_value(v):
    if isinstance(v, (ast.List, ast.Dict, ast.Set, ast.ListComp, ast.DictComp, ast.SetComp)):
        return True
    if isinstance(v, ast.Call):
        name = dotted(v.func)
        return name not in IMMUTABLE_CALLS
    return False


def toplevel_statements(body):
    """statements executed at import time: the module body including the arms
    of top-level if / try / with blocks"""
    for st in body:
        yield st
        if isinstance(st, ast.If):
            yield from toplevel_statements(st.body)
            yield from toplevel_statements(st.orelse)
        elif isinstance(st, ast.Try):
            yield from toplevel_statements(st.body)
            for h in st.handlers:
                yield from toplevel_statements(h.body)
            yield from toplevel_statements(st.orelse)
            yield from toplevel_statements(st.finalbody)
        elif isinstance(st, ast.With):
            yield from toplevel_statements(st.body)


def assign_targets(st):
    """[(target node, value node)] of an assignment statement"""
    if isinstance(st, ast.Assign):
        out = []
        for t in st.targets:
            if isinstance(t, (ast.Tuple, ast.List)):
                out.extend((e, st.value) for e in t.elts)
            else:
                out.append((t, st.value))
        return out
    if isinstance(st, ast.AnnAssign) and st.value is not None:
        return [(st.target, st.value)]
    if isinstance(st, ast.AugAssign):
        return [(st.target, st.value)]
    return []


class ClassInfo:
    def __init__(self, module, qual, node):
        self.module, self.qual, self.node = module, qual, node
        self.simple = node.name
        self.bases = [dotted(b) for b in node.bases]
        self.attrs = {}          # class-body attribute -> value node
        self.init_attrs = set()  # attributes assigned through self in __init__
        self.methods = []        # FunctionDef nodes directly in the body
        for st in node.body:
            for t, v in assign_targets(st):
                if isinstance(t, ast.Name):
                    self.attrs.setdefault(t.id, v)
            if isinstance(st, (ast.FunctionDef, ast.AsyncFunctionDef)):
                self.methods.append(st)
        for m in self.methods:
            if m.name == "__init__":
                for n in ast.walk(m):
                    for t, _ in assign_targets(n) if isinstance(n, ast.stmt) else []:
                        if (isinstance(t, ast.Attribute) and isinstance(t.value, ast.Name)
                                and t.value.id == "self"):
                            self.init_attrs.add(t.attr)


def collect_classes(mods):
    classes = []

    def rec(module, prefix, body):
        for st in body:
            if isinstance(st, ast.ClassDef):
                qual = prefix + st.name
                classes.append(ClassInfo(module, qual, st))
                rec(module, qual + ".", st.body)
    for module, tree in mods:
        rec(module, "", tree.body)
    return classes


class Scanner:
    def __init__(self):
        self.mods = modules()
        self.classes = collect_classes(self.mods)
        self.by_simple = {}
        for c in self.classes:
            self.by_simple.setdefault(c.simple, []).append(c)
        self.items = {}  # (module, name) -> kind, first rule wins in a fixed order
        self.order = []

    def emit(self, module, name, kind):
        key = (module, name, kind)
        if key not in self.items:
            self.items[key] = True
            self.order.append(key)

    # -- class hierarchy by simple names -------------------------------
    def ancestors(self, c, seen=None):
        """c and all its package bases (resolved by the last component of the base name)"""
        seen = seen if seen is not None else []
        if c in seen:
            return seen
        seen.append(c)
        for b in c.bases:
            if b is None:
                continue
            for bc in self.by_simple.get(b.split(".")[-1], []):
                self.ancestors(bc, seen)
        return seen

    def class_attr_owner(self, c, attr):
        for a in self.ancestors(c):
            if attr in a.attrs:
                return a
        return None

    def init_creates(self, c, attr):
        return any(attr in a.init_attrs for a in self.ancestors(c))

    def singleton_classes(self):
        """classes instantiated at import time (module level or class body), with their bases"""
        out = []

        def calls_in(st):
            for n in ast.walk(st):
                if isinstance(n, ast.Call):
                    name = dotted(n.func)
                    if name:
                        yield name.split(".")[-1]
        for module, tree in self.mods:
            for st in toplevel_statements(tree.body):
                if isinstance(st, (ast.FunctionDef, ast.AsyncFunctionDef, ast.ClassDef)):
                    continue
                for nm in calls_in(st):
                    for c in self.by_simple.get(nm, []):
                        self.ancestors(c, out)
        for c in self.classes:
            for st in c.node.body:
                if isinstance(st, (ast.FunctionDef, ast.AsyncFunctionDef, ast.ClassDef)):
                    continue
                for nm in calls_in(st):
                    for k in self.by_simple.get(nm, []):
                        self.ancestors(k, out)
        return out

    # -- rules ------------------------------------------------------------
    def module_level(self):
        cands = {}
        for module, tree in self.mods:
            for st in toplevel_statements(tree.body):
                for t, v in assign_targets(st):
                    if isinstance(t, ast.Name) and is_mutable_value(v):
                        cands.setdefault((module, t.id), True)
        # syntactic mutation anywhere in the package: by bare name in the same
        # module, or as an attribute `something.name` in any module
        mutated = set()
        for module, tree in self.mods:
            for n in ast.walk(tree):
                for nm in self.mutation_names(n):
                    last = nm.split(".")[-1]
                    if "." not in nm:
                        if (module, last) in cands:
                            mutated.add((module, last))
                    else:
                        for (m, name) in cands:
                            if name == last and nm.split(".")[0] not in ("self", "cls"):
                                mutated.add((m, name))
        for (module, name) in sorted(cands):
            self.emit(module, name, "module-mutated" if (module, name) in mutated else "module-const")

    @staticmethod
    def mutation_names(n):
        """dotted names of objects mutated in place by node n (subscripts are
        peeled: `self.summary[a][b] += 1` mutates `self.summary`)"""
        def base(x):
            while isinstance(x, ast.Subscript):
                x = x.value
            return dotted(x)
        if isinstance(n, (ast.Assign, ast.AugAssign, ast.AnnAssign)):
            for t, _ in assign_targets(n):
                if isinstance(t, ast.Subscript):
                    d = base(t)
                    if d:
                        yield d
                elif isinstance(n, ast.AugAssign):
                    d = dotted(t)
                    if d:
                        yield d
        elif isinstance(n, ast.Delete):
            for t in n.targets:
                if isinstance(t, ast.Subscript):
                    d = base(t)
                    if d:
                        yield d
        elif isinstance(n, ast.Call) and isinstance(n.func, ast.Attribute) \
                and n.func.attr in MUTATORS:
            d = base(n.func.value)
            if d:
                yield d

    def globals_(self):
        for module, tree in self.mods:
            for n in ast.walk(tree):
                if isinstance(n, ast.Global):
                    for nm in n.names:
                        self.emit(module, nm, "global-rebound")

    def defaults_and_memo(self):
        for module, tree in self.mods:
            quals = {}

            def rec(prefix, body):
                for st in body:
                    if isinstance(st, ast.ClassDef):
                        rec(prefix + st.name + ".", st.body)
                    elif isinstance(st, (ast.FunctionDef, ast.AsyncFunctionDef)):
                        quals[st] = prefix + st.name
                        rec(prefix + st.name + ".", st.body)
            rec("", tree.body)
            for fn, q in quals.items():
                a = fn.args
                pos = a.posonlyargs + a.args
                for arg, d in zip(pos[len(pos) - len(a.defaults):], a.defaults):
                    if is_mutable_value(d):
                        self.emit(module, f"{q}({arg.arg})", "mutable-default")
                for arg, d in zip(a.kwonlyargs, a.kw_defaults):
                    if d is not None and is_mutable_value(d):
                        self.emit(module, f"{q}({arg.arg})", "mutable-default")
                for dec in fn.decorator_list:
                    name = dotted(dec.func if isinstance(dec, ast.Call) else dec)
                    if name in CACHE_DECORATORS:
                        self.emit(module, q, "memoized")

    def attribute_stores(self):
        singles = self.singleton_classes()
        class_names = set(self.by_simple)
        for c in self.classes:
            for m in c.methods:
                self.scan_function(c, m, singles, class_names)
        # module-level functions: stores on parameters / class names
        for module, tree in self.mods:
            for st in tree.body:
                if isinstance(st, (ast.FunctionDef, ast.AsyncFunctionDef)):
                    self.scan_function(None, st, singles, class_names, module=module)

    def scan_function(self, c, fn, singles, class_names, module=None):
        module = module or c.module
        in_init = fn.name == "__init__"
        where = (c.qual + "." if c else "") + fn.name
        selfname = None
        if c is not None and fn.args.args and not any(
                dotted(d) == "staticmethod" for d in fn.decorator_list):
            selfname = fn.args.args[0].arg
        is_cls = any(dotted(d) == "classmethod" for d in fn.decorator_list)
        # nested classes are scanned on their own
        nodes = []

        def walk(n):
            for ch in ast.iter_child_nodes(n):
                if isinstance(ch, ast.ClassDef):
                    continue
                nodes.append(ch)
                walk(ch)
        walk(fn)
        for n in nodes:
            stores = []   # (target expr, inplace?) for attribute stores
            if isinstance(n, (ast.Assign, ast.AugAssign, ast.AnnAssign)):
                for t, _ in assign_targets(n):
                    if isinstance(t, ast.Attribute):
                        stores.append((t, False))
            for t, _inpl in stores:
                chain = dotted(t)
                if chain is None:
                    # store on the result of an expression, e.g. f().x = 1
                    raise RuntimeError(f"{module}:{where}: attribute store on an expression "
                                       f"the inventory cannot classify: {ast.unparse(t)}")
                parts = chain.split(".")
                head = parts[0]
                if selfname and head == selfname and not is_cls:
                    if parts[1:3] == ["__class__"] + parts[2:3] and len(parts) == 3:
                        owner = self.class_attr_owner(c, parts[2]) or c
                        self.emit(owner.module, f"{owner.qual}.{parts[2]}", "class-attr-written")
                        # written through the instance's class: every subclass gets a
                        # copy of its own with the first write
                        for k in self.classes:
                            if k is not c and c in self.ancestors(k):
                                self.emit(k.module, f"{k.qual}.{parts[2]}", "class-attr-subclass-copy")
                    elif len(parts) == 2:
                        self.self_store(c, parts[1], in_init, singles)
                    else:
                        # self.A.B...: through a class-level instance, or a sub-object
                        a = parts[1]
                        owner = self.class_attr_owner(c, a)
                        if owner is not None and isinstance(owner.attrs[a], ast.Call):
                            self.emit(owner.module, owner.qual + "." + ".".join(parts[1:]),
                                      "class-singleton-attr")
                        elif not in_init:
                            self.emit(c.module, c.qual + "." + ".".join(parts[1:]),
                                      "instance-mutated")
                elif selfname and head == selfname and is_cls:
                    if len(parts) == 2:
                        owner = self.class_attr_owner(c, parts[1]) or c
                        self.emit(owner.module, f"{owner.qual}.{parts[1]}", "class-attr-written")
                    else:
                        self.emit(c.module, c.qual + "." + ".".join(parts[1:]), "class-attr-written")
                elif head in class_names and len(parts) >= 2:
                    for k in self.by_simple[head]:
                        owner = self.class_attr_owner(k, parts[1]) or k
                        self.emit(owner.module, owner.qual + "." + ".".join(parts[1:]),
                                  "class-attr-written")
                elif head == "type":
                    raise RuntimeError(f"{module}:{where}: unexpected store {chain}")
                else:
                    self.emit(module, f"{where}/{chain}", "param-attr-written")
            # type(self).X = ...
            if isinstance(n, (ast.Assign, ast.AugAssign)):
                for t, _ in assign_targets(n):
                    if (isinstance(t, ast.Attribute) and isinstance(t.value, ast.Call)
                            and dotted(t.value.func) == "type" and c is not None):
                        owner = self.class_attr_owner(c, t.attr) or c
                        self.emit(owner.module, f"{owner.qual}.{t.attr}", "class-attr-written")
            # setattr(obj, name, value)
            if isinstance(n, ast.Call) and dotted(n.func) == "setattr":
                self.emit(module, f"{where}/setattr({ast.unparse(n.args[0])})", "param-attr-written")
            # in-place mutation of self attributes
            if selfname and not in_init:
                for nm in self.mutation_names(n):
                    parts = nm.split(".")
                    if parts[0] == selfname and len(parts) >= 2:
                        if isinstance(n, ast.AugAssign) and isinstance(n.target, ast.Attribute):
                            continue  # handled as a store above
                        owner = self.class_attr_owner(c, parts[1])
                        if owner is not None and is_mutable_value(owner.attrs[parts[1]]):
                            self.emit(owner.module, owner.qual + "." + ".".join(parts[1:]),
                                      "class-singleton-attr")
                        else:
                            self.emit(c.module, c.qual + "." + ".".join(parts[1:]),
                                      "instance-mutated")

    def self_store(self, c, attr, in_init, singles):
        if in_init:
            return
        owner = self.class_attr_owner(c, attr)
        if owner is not None:
            self.emit(owner.module, f"{owner.qual}.{attr}", "class-default-shadowed")
            return
        if not self.init_creates(c, attr):
            self.emit(c.module, f"{c.qual}.{attr}", "lazy-attr")
            return
        # attribute owner: the most basic class whose __init__ creates it
        own = [a for a in self.ancestors(c) if attr in a.init_attrs][-1]
        # singleton if the class writing it, or any class inheriting the method, is
        # instantiated at import time
        single = c in singles or any(c in self.ancestors(k) for k in singles)
        self.emit(own.module, f"{own.qual}.{attr}", "singleton-attr" if single else "instance-attr")

    def run(self):
        self.module_level()
        self.globals_()
        self.attribute_stores()
        self.defaults_and_memo()
        return sorted(self.order)


def inventory():
    return Scanner().run()


def parser_table(sc):
    """[(regex, class name)] of parser.__constructors (the last module-level binding), and
    the indices of the parsers whose junk is a subclass of Junk with a counter of its own"""
    tree = dict(sc.mods)["compare_locales.parser"]
    table = None
    for st in tree.body:
        for t, v in assign_targets(st):
            if isinstance(t, ast.Name) and t.id == "__constructors":
                table = v
    if not isinstance(table, ast.List) or not table.elts:
        raise RuntimeError("parser.__constructors is not a non-empty list literal")
    rows = []
    for e in table.elts:
        if not (isinstance(e, ast.Tuple) and len(e.elts) == 2 and isinstance(e.elts[0], ast.Constant)
                and isinstance(e.elts[1], ast.Call) and isinstance(e.elts[1].func, ast.Name)
                and not e.elts[1].args and not e.elts[1].keywords):
            raise RuntimeError("unexpected entry of parser.__constructors: " + ast.unparse(e))
        rows.append((e.elts[0].value, e.elts[1].func.id))
    junk = [c for c in sc.classes if c.simple == "Junk" and c.module == "compare_locales.parser.base"]
    if len(junk) != 1:
        raise RuntimeError("class Junk not found")
    subs = [c for c in sc.classes if c is not junk[0] and junk[0] in sc.ancestors(c)]
    own = []
    for i, (_, cls) in enumerate(rows):
        mods = [c.module for c in sc.by_simple.get(cls, [])]
        if len(mods) != 1:
            raise RuntimeError("parser class %s not found exactly once" % cls)
        tree = dict(sc.mods)[mods[0]]
        made = {dotted(n.func) for n in ast.walk(tree) if isinstance(n, ast.Call) and dotted(n.func)}
        sub_made = [c.simple for c in subs if c.simple in made]
        if sub_made and "Junk" in made:
            raise RuntimeError("%s makes both Junk and %r: the model gives a parser one counter"
                               % (mods[0], sub_made))
        if sub_made:
            own.append(i)
    # nobody else makes an instance of a Junk subclass
    for c in subs:
        for module, tree in sc.mods:
            if module == c.module:
                continue
            for n in ast.walk(tree):
                if isinstance(n, ast.Call) and (dotted(n.func) or "").split(".")[-1] == c.simple:
                    raise RuntimeError("%s constructed outside its module (%s)" % (c.simple, module))
    if len(subs) > 1:
        raise RuntimeError("more than one Junk subclass: %r" % [c.qual for c in subs])
    return rows, own


EXPECTED_KINDS = {"module-const", "module-mutated", "global-rebound", "class-attr-written",
                  "class-default-shadowed", "class-singleton-attr", "singleton-attr",
                  "instance-attr", "lazy-attr", "instance-mutated", "param-attr-written",
                  "mutable-default", "memoized", "class-attr-subclass-copy"}


def generate():
    sc = Scanner()
    inv = sc.run()
    rows, own = parser_table(sc)
    if not inv:
        raise RuntimeError("empty state inventory")
    for m, n, k in inv:
        if k not in EXPECTED_KINDS:
            raise RuntimeError("unknown kind " + k)
    # sanity: the anchors of the property must be found, else the scanner is blind
    must = [("compare_locales.parser.base", "Junk.junkid", "class-attr-written"),
            ("compare_locales.mozpath", "re_cache", "module-mutated"),
            ("compare_locales.parser", "__constructors", "module-const")]
    for t in must:
        if t not in inv:
            raise RuntimeError("state inventory misses the anchor %r" % (t,))
    lines = [HEADER, "From Coq Require Import NArith List.", "Import ListNotations.", "",
             "(* every syntactic source of state that can outlive a call, as",
             "   (module, qualified name, kind); see tr/facts_c18.py for the kinds *)",
             "Definition state_inventory : list (list N * list N * list N) :=", "  ["]
    body = []
    for m, n, k in inv:
        body.append(f"   (* {m} : {n} : {k} *)\n   ({coq_str(m)},\n    {coq_str(n)},\n    {coq_str(k)})")
    lines.append(";\n".join(body))
    lines.append("  ].")
    lines.append("")
    lines.append("(* parser.__constructors in order: (regex, class); a format of the model is an index *)")
    lines.append("Definition parser_table : list (list N * list N) :=\n  [" +
                 ";\n   ".join(f"({coq_str(r)}, {coq_str(c)})" for r, c in rows) + "].")
    lines.append("")
    lines.append("(* parsers whose junk entries are instances of a subclass of Junk (XMLJunk): their")
    lines.append("   ids come from the subclass's own copy of junkid *)")
    lines.append("Definition xmljunk_parsers : list nat := [" + "; ".join(str(i) for i in own) + "].")
    lines.append("")
    return [("FactsC18.v", "\n".join(lines))]


if __name__ == "__main__":
    for m, n, k in inventory():
        print(f"{k:24} {m:40} {n}")
