"""Facts for C04 (l10n-merge): the capability constants of parser/base.py, the
`capabilities` of every registered parser (read from the imported package:
the dispatch list of parser/__init__.py and the default of the Parser base
class), and the literal arguments with which ContentComparer.remove / add /
compare (no-parser branch) call ContentComparer.merge.

The control flow of ContentComparer.merge is hand-modelled in
coq/Model/Merge.v; this plugin checks that the call sites still have exactly
the shape the model mirrors and that merge still has the statements the model
follows (fail closed)."""
import ast
import inspect
import textwrap

from factlib import HEADER, coq_str

NAME = "c04"


def regexes():
    return {}


def cstr(s):
    return "(@nil N)" if s == "" else coq_str(s)


CONSTS = ("CAN_NONE", "CAN_COPY", "CAN_SKIP", "CAN_MERGE")

# short names the Coq development uses for the parser classes it talks about
SHORT = {
    "AndroidParser": "android", "DTDParser": "dtd", "PropertiesParser": "properties",
    "IniParser": "ini", "DefinesParser": "inc", "FluentParser": "ftl", "PoParser": "po",
}

COPY_CALL = ("self.merge(KeyedTuple([]), ref_file, l10n, merge_file, [], [], None, "
             "parser.CAN_COPY, None)")
ADD_CALL = ("self.merge(KeyedTuple([]), orig, missing, merge_file, ['trigger copy'], [], None, "
            "parser.CAN_COPY, None)")
ADD_CAPS = "caps = p.capabilities if p else parser.CAN_COPY"
ADD_TEST = "caps & (parser.CAN_COPY | parser.CAN_MERGE)"
COMPARE_CALL = ("self.merge(ref_entities, ref_file, l10n, merge_file, missings, skips, l10n_ctx, "
                "p.capabilities, p.encoding)")

# statements of ContentComparer.merge the model follows, in source order
MERGE_SHAPE = [
    "if not merge_file:",
    "if capabilities == parser.CAN_NONE:",
    "self.create_merge_dir(merge_file)",
    "if capabilities & parser.CAN_COPY:",
    "if skips or missing:",
    "src = ref_file.fullpath",
    "src = l10n_file.fullpath",
    "shutil.copyfile(src, merge_file)",
    "if not capabilities & parser.CAN_SKIP:",
    "f = None",
    "if skips:",
    "skips.sort(key=lambda s: s.span[0])",
    "f = codecs.open(merge_file, 'wb', encoding)",
    "offset = 0",
    "for skip in skips:",
    "chunk = skip.span",
    "f.write(ctx.contents[offset:chunk[0]])",
    "offset = chunk[1]",
    "f.write(ctx.contents[offset:])",
    "if f is None:",
    "shutil.copyfile(l10n_file.fullpath, merge_file)",
    "if not capabilities & parser.CAN_MERGE:",
    "if skips or missing:",
    "f = codecs.open(merge_file, 'ab', encoding)",
    "trailing = ['\\n'] + [ref_entities[key].all for key in missing] + "
    "[ref_entities[skip.key].all for skip in skips if not isinstance(skip, parser.Junk)]",
    "if not s.endswith('\\n'):",
    "return s + '\\n'",
    "f.write(''.join(map(ensureNewline, trailing)))",
]


def _method(cls, name):
    return ast.parse(textwrap.dedent(inspect.getsource(getattr(cls, name)))).body[0]


def _merge_calls(fn):
    out = []
    for n in ast.walk(fn):
        if (isinstance(n, ast.Call) and isinstance(n.func, ast.Attribute)
                and n.func.attr == "merge" and isinstance(n.func.value, ast.Name)
                and n.func.value.id == "self"):
            out.append((n.lineno, ast.unparse(n)))
    return [s for _, s in sorted(out)]


def _lines(fn):
    """every statement of fn unparsed to its first line, in source order"""
    out = []
    for n in ast.walk(fn):
        if isinstance(n, ast.stmt) and n is not fn:
            out.append((n.lineno, n.col_offset, ast.unparse(n).split("\n")[0]))
    return [s for _, _, s in sorted(out)]


def _expect(cond, msg):
    if not cond:
        raise ValueError("facts_c04: " + msg)


def generate():
    from compare_locales import parser
    from compare_locales.parser import base
    from compare_locales.compare.content import ContentComparer

    vals = {}
    for c in CONSTS:
        v = getattr(base, c)
        _expect(isinstance(v, int) and not isinstance(v, bool) and v >= 0, f"{c} = {v!r}")
        _expect(getattr(parser, c) == v, f"parser.{c} differs from parser.base.{c}")
        vals[c] = v

    constructors = getattr(parser, "__constructors")
    _expect(isinstance(constructors, list) and constructors, "parser.__constructors")
    table, seen = [], {}
    for pat, inst in constructors:
        name = type(inst).__name__
        caps = inst.capabilities
        _expect(isinstance(pat, str) and isinstance(caps, int) and caps >= 0,
                f"dispatch entry {pat!r} {name} {caps!r}")
        _expect(name in SHORT, f"unknown parser class {name}")
        _expect(name not in seen, f"parser class {name} registered twice")
        seen[name] = caps
        table.append((pat, name, caps))
    _expect(set(seen) == set(SHORT), f"registered parsers {sorted(seen)}")
    default = base.Parser.capabilities
    _expect(isinstance(default, int) and default >= 0, "Parser.capabilities")

    # call sites
    rm = _merge_calls(_method(ContentComparer, "remove"))
    _expect(rm == [COPY_CALL.replace("l10n,", "l10n,")], f"remove calls merge as {rm}")
    cmp_fn = _method(ContentComparer, "compare")
    cm = _merge_calls(cmp_fn)
    _expect(cm == [COPY_CALL, COMPARE_CALL], f"compare calls merge as {cm}")
    add_fn = _method(ContentComparer, "add")
    am = _merge_calls(add_fn)
    _expect(am == [ADD_CALL], f"add calls merge as {am}")
    add_lines = _lines(add_fn)
    _expect(ADD_CAPS in add_lines, "add: capability selection changed")
    _expect(("if " + ADD_TEST + ":") in add_lines, "add: capability test changed")
    # the merge call of compare is guarded by `merge_file is not None` only
    cl = _lines(cmp_fn)
    i = cl.index(COMPARE_CALL)
    _expect(cl[i - 1] == "if merge_file is not None:", "compare: guard of the merge call changed")
    # shape of merge itself
    ml = [s for s in _lines(_method(ContentComparer, "merge"))]
    pos = 0
    for want in MERGE_SHAPE:
        try:
            pos = ml.index(want, pos) + 1
        except ValueError:
            raise ValueError("facts_c04: ContentComparer.merge no longer contains, in order: " + want)
    known = set(MERGE_SHAPE) | {"return", "f.close()", "if f:", "if f is not None:",
                                "def ensureNewline(s):", "return s"}
    extra = [s for s in ml if s not in known and not s.startswith(("print(", "'", '"'))]
    _expect(not extra, f"ContentComparer.merge has statements the model does not mirror: {extra}")

    lines = [HEADER, "From Coq Require Import NArith List.", "Import ListNotations.", "",
             "(* compare_locales/parser/base.py *)"]
    for c in CONSTS:
        lines.append(f"Definition {c.lower()} : N := {vals[c]}%N.")
    lines.append("")
    lines.append("(* parser/__init__.py dispatch list: (path regex, parser class, capabilities) *)")
    lines.append("Definition parser_caps : list (list N * list N * N) := [")
    lines.append(";\n".join(f"  ({cstr(pat)}, {cstr(name)}, {caps}%N)" for pat, name, caps in table))
    lines.append("].")
    lines.append("")
    for _, name, caps in table:
        lines.append(f"Definition caps_{SHORT[name]} : N := {caps}%N.   (* {name}.capabilities *)")
    lines.append(f"Definition caps_default : N := {default}%N.   (* Parser.capabilities *)")
    lines.append("")
    lines.append("(* ContentComparer.remove / add / compare without a parser pass these capabilities "
                 "(checked: parser.CAN_COPY at the three call sites) *)")
    lines.append("Definition caps_file_copy : N := can_copy.")
    lines.append("(* ContentComparer.add stages a file iff  caps & (CAN_COPY | CAN_MERGE) *)")
    lines.append("Definition add_mask : N := N.lor can_copy can_merge.")
    lines.append("")
    return [("C04Facts.v", "\n".join(lines))]
