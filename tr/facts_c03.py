"""Facts for C03 (ContentComparer.compare): the key-binding regex keyRE, the way
compare() applies it, the guard under which a checked entity is appended to
`skips`, and the keys of the stats dictionary pushed to
Observer.updateStats.  Everything is read from the working tree; anything
unexpected raises (fail closed)."""
import ast
import inspect
import textwrap

from factlib import HEADER, coq_str

NAME = "c03"

EXPECTED_STATS = ["missing", "missing_w", "report", "obsolete", "changed", "changed_w",
                  "unchanged", "unchanged_w", "keys"]


def regexes():
    from compare_locales.compare.content import ContentComparer
    from compare_locales.parser import base
    count_words_source()
    return {"keyRE": ContentComparer.keyRE,
            # Entry.count_words (Model/CountWords.v)
            "count_br": base.Entry.re_br, "count_sgml": base.Entry.re_sgml}


def count_words_source():
    """Entry.count_words must be: re_br.sub("\\n", val), re_sgml.sub("", .), len(.split())"""
    from compare_locales.parser import base
    body = ast.parse(textwrap.dedent(inspect.getsource(base.Entry.count_words))).body[0].body
    got = [ast.unparse(st) for st in body if not (isinstance(st, ast.Expr)
                                                   and isinstance(st.value, ast.Constant))]
    want = ["value = self.re_br.sub('\\n', self.val)", "value = self.re_sgml.sub('', value)",
            "return len(value.split())"]
    if got != want:
        raise ValueError("Entry.count_words changed: %r" % got)


def _compare_tree():
    from compare_locales.compare.content import ContentComparer
    return ast.parse(textwrap.dedent(inspect.getsource(ContentComparer.compare)))


def key_test():
    """the guard of the `keys += 1` branch must be
    isinstance(entity_id, str) and self.keyRE.search(entity_id)"""
    want = "isinstance(entity_id, str) and self.keyRE.search(entity_id)"
    found = []
    for node in ast.walk(_compare_tree()):
        if isinstance(node, ast.If) and "keyRE" in ast.unparse(node.test):
            found.append(ast.unparse(node.test))
            body = [ast.unparse(s) for s in node.body]
            if body != ["keys += 1"]:
                raise ValueError("unexpected body of the keyRE branch: %r" % body)
    if found != [want]:
        raise ValueError("unexpected use of keyRE in compare(): %r" % found)
    return want


def stats_keys():
    """the literal `stats = {...}` of compare(): key -> counter variable of the same name"""
    dicts = [n for n in ast.walk(_compare_tree())
             if isinstance(n, ast.Assign) and len(n.targets) == 1
             and isinstance(n.targets[0], ast.Name) and n.targets[0].id == "stats"]
    if len(dicts) != 1 or not isinstance(dicts[0].value, ast.Dict):
        raise ValueError("stats is not a single dict literal")
    keys = []
    for k, v in zip(dicts[0].value.keys, dicts[0].value.values):
        if not (isinstance(k, ast.Constant) and isinstance(k.value, str)
                and isinstance(v, ast.Name) and v.id == k.value):
            raise ValueError("stats entry is not 'name': name: " + ast.unparse(dicts[0].value))
        keys.append(k.value)
    if sorted(keys) != sorted(EXPECTED_STATS):
        raise ValueError("stats keys changed: %r" % keys)
    return keys


def skip_guard():
    """the only guarded `skips.append(l10nent)`: once per entity, by membership (identity:
    entities define no __eq__); the unguarded one is `skips.append(junk)`"""
    from compare_locales.parser import base
    for cls in (base.Entry, base.Entity, base.Junk):
        if "__eq__" in cls.__dict__:
            raise ValueError("%s defines __eq__: `l10nent not in skips` is no longer identity" % cls)
    want = "tp == 'error' and merge_file is not None and (l10nent not in skips)"
    found = []
    for node in ast.walk(_compare_tree()):
        if isinstance(node, ast.If) and [ast.unparse(s) for s in node.body] == ["skips.append(l10nent)"]:
            if node.orelse:
                raise ValueError("the skip guard has an else branch")
            found.append(ast.unparse(node.test))
    if found != [want]:
        raise ValueError("unexpected guard of skips.append(l10nent): %r" % found)
    appends = [ast.unparse(n) for n in ast.walk(_compare_tree())
               if isinstance(n, ast.Call) and ast.unparse(n.func) == "skips.append"]
    if sorted(appends) != ["skips.append(junk)", "skips.append(l10nent)"]:
        raise ValueError("unexpected appends to skips: %r" % appends)


def add_counts():
    """ContentComparer.add pushes {'missing': len(entities)} and {'missing_w': missing_w}"""
    from compare_locales.compare.content import ContentComparer
    src = ast.unparse(ast.parse(textwrap.dedent(inspect.getsource(ContentComparer.add))))
    for frag in ("entities = [e for e in entities if not isinstance(e, parser.Junk)]",
                 "self.observers.updateStats(missing, {'missing': len(entities)})",
                 "missing_w += e.count_words()",
                 "self.observers.updateStats(missing, {'missing_w': missing_w})"):
        if frag not in src:
            raise ValueError("ContentComparer.add no longer contains: " + frag)


def generate():
    key_test()
    skip_guard()
    add_counts()
    keys = stats_keys()
    lines = [HEADER, "From Coq Require Import NArith List.", "Import ListNotations.", "",
             "(* keys of the stats dict of ContentComparer.compare, in source order *)",
             "Definition c03_stats_keys : list (list N) :=",
             "  [" + ";\n   ".join(coq_str(k) for k in keys) + "].", ""]
    return [("C03Facts.v", "\n".join(lines))]
