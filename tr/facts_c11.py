"""Facts for the path matcher models (properties C11 and C12):
PATH_SPECIAL, the four Android locale regexes written inline in
Matcher.match and AndroidLocale._get_android_locale, the glob regex of
mozpath.match, the legacy language maps, and the literal pieces of text the
code glues around regular expression fragments."""
import ast
import inspect
import textwrap

from factlib import HEADER, coq_str, inline_patterns

NAME = "c11"


def _calls(func, attr):
    """constant string arguments of every re.<attr>(...) call in func, in source order"""
    tree = ast.parse(textwrap.dedent(inspect.getsource(func)))
    out = []
    for node in ast.walk(tree):
        if (isinstance(node, ast.Call) and isinstance(node.func, ast.Attribute)
                and isinstance(node.func.value, ast.Name) and node.func.value.id == "re"
                and node.func.attr == attr):
            out.append((node.lineno, node.col_offset,
                        [a.value if isinstance(a, ast.Constant) else None for a in node.args]))
    out.sort()
    return [a for _, _, a in out]


def _matcher():
    from compare_locales.paths import matcher
    return matcher


def regexes():
    matcher = _matcher()
    from compare_locales import mozpath
    R = {}
    R["path_special"] = (matcher.PATH_SPECIAL.pattern, matcher.PATH_SPECIAL.flags)
    want = {"starstar", "suffix", "star", "variable", "varname"}
    if set(matcher.PATH_SPECIAL.groupindex) != want:
        raise ValueError("PATH_SPECIAL groups changed: %r" % dict(matcher.PATH_SPECIAL.groupindex))
    m_pats = inline_patterns(matcher.Matcher.match)
    if len(m_pats) != 2:
        raise ValueError("Matcher.match: expected two inline regexes, found %r" % (m_pats,))
    R["android_region"], R["android_legacy_in"] = m_pats
    a_pats = inline_patterns(matcher.AndroidLocale._get_android_locale)
    if len(a_pats) != 2:
        raise ValueError("_get_android_locale: expected two inline regexes, found %r" % (a_pats,))
    R["android_legacy_out"], R["android_lang_region"] = a_pats
    g_pats = inline_patterns(mozpath.match)
    if len(g_pats) != 1:
        raise ValueError("mozpath.match: expected one inline regex, found %r" % (g_pats,))
    R["mozpath_glob"] = g_pats[0]
    return R


def _check_code_shapes():
    """the literal templates and call shapes the hand-written model relies on (fail closed)"""
    matcher = _matcher()
    subs = _calls(matcher.Matcher.match, "sub")
    if len(subs) != 2 or subs[0][1] != "-\\1" or subs[1][1] is not None:
        raise ValueError("Matcher.match: re.sub calls changed: %r" % (subs,))
    subs = _calls(matcher.AndroidLocale._get_android_locale, "sub")
    if len(subs) != 1 or subs[0][1] is not None:
        raise ValueError("_get_android_locale: re.sub calls changed: %r" % (subs,))
    if len(_calls(matcher.AndroidLocale._get_android_locale, "match")) != 1:
        raise ValueError("_get_android_locale: re.match calls changed")
    src = inspect.getsource(matcher.AndroidLocale._get_android_locale)
    for piece in ('"{}-r{}".format(*bcp47.split("-"))', '"b+" + bcp47.replace("-", "+")',
                  'elif "-" in bcp47'):
        if piece not in src:
            raise ValueError("_get_android_locale: %r not found" % piece)
    src = inspect.getsource(matcher.Matcher.match)
    for piece in ('locale.startswith("b+")', 'locale[2:].replace("+", "-")',
                  '"android_locale" in d and "locale" not in d'):
        if piece not in src:
            raise ValueError("Matcher.match: %r not found" % piece)
    # the fragments of regular expression text produced by the node classes
    probes = {
        "star": (matcher.Star(7).regex_pattern({}), "(?P<s7>[^/]*)"),
        "starstar": (matcher.Starstar(7, "/").regex_pattern({}), "(?P<s7>.+/)?"),
        "unbound": (matcher.Variable("v").regex_pattern({}), "(?P<v>.+?)"),
        "repeat": (matcher.Variable("v", True).regex_pattern({}), "(?P=v)"),
        "android": (matcher.AndroidLocale().regex_pattern({}), "(?P<android_locale>.+?)"),
    }
    for k, (got, want) in probes.items():
        if got != want:
            raise ValueError("regex fragment of %s changed: %r" % (k, got))
    # the root test of Pattern.regex_pattern / Pattern.expand (Model/Pattern.v first_segment)
    src = inspect.getsource(matcher.Pattern._first_segment)
    for piece in ("if not self or isinstance(self[0], Star):", 'return ""', "return self[0].expand(env)"):
        if piece not in src:
            raise ValueError("Pattern._first_segment: %r not found" % piece)
    for fn in (matcher.Pattern.regex_pattern, matcher.Pattern.expand):
        if "if not os.path.isabs(self._first_segment(env)):" not in inspect.getsource(fn):
            raise ValueError("%s: root test changed" % fn.__name__)
    src = inspect.getsource(matcher.Matcher._cache_regex)
    if 'self.pattern.regex_pattern(self.env) + "$"' not in src:
        raise ValueError("_cache_regex changed")


def generate():
    matcher = _matcher()
    _check_code_shapes()
    legacy = dict(matcher.ANDROID_LEGACY_MAP)
    standard = dict(matcher.ANDROID_STANDARD_MAP)
    if not legacy or any(not (isinstance(k, str) and isinstance(v, str)) for k, v in legacy.items()):
        raise ValueError("ANDROID_LEGACY_MAP is not a str->str dict")

    def table(name, d):
        body = ";\n  ".join(f"({coq_str(k)}, {coq_str(v)})" for k, v in d.items())
        return f"Definition {name} : list (list N * list N) := [\n  {body}].\n"
    lines = [HEADER, "From Coq Require Import NArith List.", "Import ListNotations.", "",
             table("android_legacy_map", legacy), table("android_standard_map", standard)]
    return [("PathFacts.v", "\n".join(lines))]
