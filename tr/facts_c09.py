"""Facts for C09 (Android checker): the regular expressions of
checks/android.py (+ the encoding check of checks/base.py), every literal of the
yielded tuples (severity, message / message template, category), the string
constants of the early exits, the replacement string of the silencer and the
whitespace table of str.strip().

Everything is read from the source with `ast`; the shape of each function is
checked (number of yields, position expression, kind of message expression) and
the plugin raises when it is not what the model mirrors (fail closed)."""
import ast
import inspect
import string
import textwrap

from factlib import HEADER, inline_patterns

NAME = "c09"


def regexes():
    from compare_locales.checks import android, base
    R = {}
    R["c09_silencer"] = (android.silencer.pattern, android.silencer.flags)
    R["c09_mochibake"] = (base.mochibake.pattern, base.mochibake.flags)
    pats = inline_patterns(android.check_apostrophes)
    if len(pats) != 2:
        raise ValueError(f"check_apostrophes: expected 2 inline patterns, got {pats}")
    R["c09_dq"], R["c09_apos"] = pats
    pats = inline_patterns(android.get_params)
    if len(pats) != 1:
        raise ValueError(f"get_params: expected 1 inline pattern, got {pats}")
    R["c09_params"] = pats[0]
    import re
    for name in ("order", "format"):
        if name not in re.compile(R["c09_params"][0]).groupindex:
            raise ValueError("get_params: group " + name + " missing")
    return R


# ------------------------------------------------------------------ helpers ---
def cstr(s):
    if s == "":
        return "(@nil N)"
    return "[" + "; ".join(str(ord(c)) for c in s) + "]%N"


def func_tree(func):
    return ast.parse(textwrap.dedent(inspect.getsource(func))).body[0]


def tuple_yields(tree):
    """the `yield (a, b, c, d)` expressions of a function, in source order"""
    ys = [n for n in ast.walk(tree) if isinstance(n, ast.Yield) and isinstance(n.value, ast.Tuple)]
    ys.sort(key=lambda n: (n.lineno, n.col_offset))
    return [n.value for n in ys]


def const(node, what):
    if not (isinstance(node, ast.Constant) and isinstance(node.value, str)):
        raise ValueError(f"{what}: expected a string literal, got {ast.dump(node)}")
    return node.value


def template_of(node, fields, what):
    """message expression -> list of ('lit', text) | ('arg', index into `fields`)
    `fields`: expected source text of the interpolated expressions, in argument order"""
    out = []
    if isinstance(node, ast.JoinedStr):
        for v in node.values:
            if isinstance(v, ast.Constant):
                out.append(("lit", v.value))
            elif isinstance(v, ast.FormattedValue):
                if v.conversion != -1 or v.format_spec is not None:
                    raise ValueError(f"{what}: conversion/format spec in f-string")
                src = ast.unparse(v.value)
                if src not in fields:
                    raise ValueError(f"{what}: unexpected interpolation {src}")
                out.append(("arg", fields.index(src)))
            else:
                raise ValueError(f"{what}: {ast.dump(v)}")
        return out
    raise ValueError(f"{what}: not an f-string: {ast.dump(node)}")


def format_template(text, names, what):
    """a str.format template -> pieces; `names`: field name -> argument index
    (auto-numbered fields use the keys '0', '1', ...)"""
    out, auto = [], 0
    for lit, field, spec, conv in string.Formatter().parse(text):
        if lit:
            out.append(("lit", lit))
        if field is None:
            continue
        if spec or conv:
            raise ValueError(f"{what}: format spec/conversion in template")
        if field == "":
            field = str(auto)
            auto += 1
        if field not in names:
            raise ValueError(f"{what}: unexpected field {field!r}")
        out.append(("arg", names[field]))
    return out


def tpl_coq(pieces):
    items = []
    for k, v in pieces:
        items.append(f"inl {cstr(v)}" if k == "lit" else f"inr {v}")
    return "[" + "; ".join(items) + "]"


def sev(node, what):
    s = const(node, what)
    if s not in ("error", "warning"):
        raise ValueError(f"{what}: severity {s!r}")
    return "true" if s == "error" else "false"


def expect_pos(node, want, what):
    got = ast.unparse(node)
    if got != want:
        raise ValueError(f"{what}: position expression {got!r}, expected {want!r}")


def method_const(tree, method, what, nth=0, argpos=0):
    """the string literal passed as argument `argpos` of the nth call `<x>.method(...)` in tree"""
    calls = [n for n in ast.walk(tree) if isinstance(n, ast.Call) and isinstance(n.func, ast.Attribute)
             and n.func.attr == method]
    calls.sort(key=lambda n: (n.lineno, n.col_offset))
    if len(calls) <= nth:
        raise ValueError(f"{what}: no call of .{method}()")
    return const(calls[nth].args[argpos], what), len(calls)


def space_ranges():
    """code points removed by str.strip() without arguments"""
    out, start = [], None
    for c in range(0x110000):
        ok = chr(c).strip() == ""
        if ok and start is None:
            start = c
        elif not ok and start is not None:
            out.append((start, c - 1))
            start = None
    if start is not None:
        out.append((start, 0x10FFFF))
    return out


# ----------------------------------------------------------------- generate ---
def generate():
    from compare_locales.checks import android, base
    from compare_locales.parser import android as pandroid
    L = [HEADER, "From Coq Require Import NArith List.", "From CL Require Import Base.Str.",
         "Import ListNotations.", "",
         "(* a yielded literal: (is error, message, category) *)",
         "Definition ylit := (bool * str * str)%type.",
         "(* a message template: literal pieces and argument indices *)",
         "Definition tpl := list (str + nat).", ""]

    def ylit(name, t, what, pos):
        expect_pos(t.elts[1], pos, what)
        L.append(f"Definition {name} : ylit := ({sev(t.elts[0], what)}, "
                 f"{cstr(const(t.elts[2], what))}, {cstr(const(t.elts[3], what))}).")

    def ytpl(name, t, pieces, what, pos):
        expect_pos(t.elts[1], pos, what)
        L.append(f"Definition {name} : bool * tpl * str := ({sev(t.elts[0], what)}, "
                 f"{tpl_coq(pieces)}, {cstr(const(t.elts[3], what))}).")

    def yvar(name, t, msgvar, what, pos):
        """severity and category of a yield whose message is a variable"""
        expect_pos(t.elts[1], pos, what)
        if ast.unparse(t.elts[2]) != msgvar:
            raise ValueError(f"{what}: message expression {ast.unparse(t.elts[2])}")
        L.append(f"Definition {name} : bool * str := ({sev(t.elts[0], what)}, "
                 f"{cstr(const(t.elts[3], what))}).")

    # checks/base.py Checker.check
    t = func_tree(base.Checker.check)
    ys = tuple_yields(t)
    if len(ys) != 1 or any(len(y.elts) != 4 for y in ys):
        raise ValueError("Checker.check: expected one 4-tuple yield")
    ytpl("y_encoding", ys[0], template_of(ys[0].elts[2], ["l10nEnt.key"], "Checker.check"),
         "Checker.check", "EntityPos(m.start())")
    fors = [n for n in ast.walk(t) if isinstance(n, ast.For)]
    if len(fors) != 1 or ast.unparse(fors[0].iter) != "mochibake.finditer(l10nEnt.all)":
        raise ValueError("Checker.check: loop is not mochibake.finditer(l10nEnt.all)")

    # AndroidChecker.check
    t = func_tree(android.AndroidChecker.check)
    ys = tuple_yields(t)
    if len(ys) != 2:
        raise ValueError("AndroidChecker.check: expected 2 tuple yields")
    ylit("y_incompatible", ys[0], "AndroidChecker.check[0]", "0")
    ylit("y_unsupported", ys[1], "AndroidChecker.check[1]", "0")
    cmps = [n for n in ast.walk(t) if isinstance(n, ast.Compare) and isinstance(n.comparators[0], ast.Constant)]
    if len(cmps) != 1 or ast.unparse(cmps[0].left) != "refNode.nodeName" or not isinstance(cmps[0].ops[0], ast.NotEq):
        raise ValueError("AndroidChecker.check: nodeName comparison")
    L.append(f"Definition s_string : str := {cstr(const(cmps[0].comparators[0], 'nodeName'))}.")

    # check_string
    t = func_tree(android.AndroidChecker.check_string)
    ys = tuple_yields(t)
    if len(ys) != 5:
        raise ValueError("check_string: expected 5 tuple yields")
    ylit("y_not_translatable", ys[0], "check_string[0]", "0")
    ylit("y_at_string", ys[1], "check_string[1]", "0")
    ylit("y_at_string_ref", ys[2], "check_string[2]", "0")
    ylit("y_non_simple", ys[3], "check_string[3]", "0")
    yvar("y_ref_conflict", ys[4], "error", "check_string[4]", "pos")

    # not_translatable / no_at_string
    t = func_tree(android.AndroidChecker.not_translatable)
    a, n1 = method_const(t, "hasAttribute", "not_translatable")
    b, n2 = method_const(t, "getAttribute", "not_translatable")
    if a != b or n1 != 1 or n2 != 1:
        raise ValueError("not_translatable: attribute names differ")
    cmps = [n for n in ast.walk(t) if isinstance(n, ast.Compare)]
    if len(cmps) != 1 or not isinstance(cmps[0].ops[0], ast.Eq):
        raise ValueError("not_translatable: comparison")
    L.append(f"Definition s_translatable : str := {cstr(a)}.")
    L.append(f"Definition s_false : str := {cstr(const(cmps[0].comparators[0], 'not_translatable'))}.")
    t = func_tree(android.AndroidChecker.no_at_string)
    a, n1 = method_const(t, "startswith", "no_at_string")
    if n1 != 1:
        raise ValueError("no_at_string: startswith calls")
    L.append(f"Definition s_at_string : str := {cstr(a)}.")

    # check_apostrophes
    t = func_tree(android.check_apostrophes)
    ys = tuple_yields(t)
    if len(ys) != 2:
        raise ValueError("check_apostrophes: expected 2 tuple yields")
    ylit("y_double_quotes", ys[0], "check_apostrophes[0]", "m.start()")
    ylit("y_apostrophe", ys[1], "check_apostrophes[1]", "m.start()")
    subs = [n for n in ast.walk(t) if isinstance(n, ast.Call) and ast.unparse(n.func) == "silencer.sub"]
    if len(subs) != 1 or len(subs[0].args) != 2 or ast.unparse(subs[0].args[1]) != "string":
        raise ValueError("check_apostrophes: silencer.sub call")
    repl = const(subs[0].args[0], "silencer.sub replacement")
    if "\\" in repl:
        raise ValueError("silencer.sub: replacement template with escapes")
    L.append(f"Definition s_silence : str := {cstr(repl)}.")
    q1, n1 = method_const(t, "startswith", "check_apostrophes")
    q2, n2 = method_const(t, "endswith", "check_apostrophes")
    if n1 != 1 or n2 != 1:
        raise ValueError("check_apostrophes: startswith/endswith calls")
    L.append(f"Definition s_quote_start : str := {cstr(q1)}.")
    L.append(f"Definition s_quote_end : str := {cstr(q2)}.")

    # get_params
    t = func_tree(android.get_params)
    msgs = [n for n in ast.walk(t) if isinstance(n, ast.Assign) and ast.unparse(n.targets[0]) == "msg"]
    if len(msgs) != 1:
        raise ValueError("get_params: msg assignment")
    fmts = [n for n in ast.walk(t) if isinstance(n, ast.Call) and ast.unparse(n.func) == "msg.format"]
    if len(fmts) != 1 or fmts[0].args:
        raise ValueError("get_params: msg.format call")
    kw = {k.arg: ast.unparse(k.value) for k in fmts[0].keywords}
    if kw != {"order": "order", "f1": "fmt", "f2": "params[order]"}:
        raise ValueError(f"get_params: msg.format keywords {kw}")
    L.append("(* arguments: order, fmt of this occurrence, fmt recorded first *)")
    L.append("Definition t_conflict : tpl := " +
             tpl_coq(format_template(const(msgs[0].value, "msg"), {"order": 0, "f1": 1, "f2": 2}, "msg")) + ".")

    # check_params
    t = func_tree(android.check_params)
    ys = tuple_yields(t)
    if len(ys) != 5:
        raise ValueError("check_params: expected 5 tuple yields")
    yvar("y_l10n_conflict", ys[0], "error", "check_params[0]", "pos")
    ytpl("y_not_in_ref", ys[1], template_of(ys[1].elts[2], ["order", "lparams[order]"], "check_params[1]"),
         "check_params[1]", "0")
    ylit("y_mismatch", ys[2], "check_params[2]", "0")
    call = ys[3].elts[2]
    if not (isinstance(call, ast.Call) and isinstance(call.func, ast.Attribute) and call.func.attr == "format"
            and [ast.unparse(a) for a in call.args] == ["order", "params[order]"] and not call.keywords):
        raise ValueError("check_params[3]: format call")
    ytpl("y_not_in_l10n", ys[3],
         format_template(const(call.func.value, "check_params[3]"), {"0": 0, "1": 1}, "check_params[3]"),
         "check_params[3]", "0")
    ylit("y_count", ys[4], "check_params[4]", "0")

    # parser/android.py textContent is mirrored by hand; make sure it still has the shape
    src = inspect.getsource(pandroid.textContent)
    for needle in ("node.childNodes.length == 0", "CDATA_SECTION_NODE", "return child.data",
                   "node.childNodes.length != 1", "TEXT_NODE", "node.toxml()", "node.childNodes[0].data"):
        if needle not in src:
            raise ValueError("textContent changed: " + needle)

    rs = space_ranges()
    L.append("")
    L.append("(* code points removed by str.strip() *)")
    L.append("Definition py_space_ranges : list (N * N) := [" +
             "; ".join(f"({a}, {b})" for a, b in rs) + "]%N.")
    L.append("")
    return [("C09Facts.v", "\n".join(L))]
