"""Facts for C02 (value semantics on top of the parsers).

Regexes (group "c02"): PropertiesEntityMixin.escape, po.po_escape, android.NEWLINE.
Tables and constants (Generated/C02Facts.v), all read from the source:
  known_escapes      PropertiesEntityMixin.known_escapes   (single character -> single character)
  po_escapes         po.po_escapes                         (single character -> single character)
  uni_base, uni_skip the `int(found["uni"][1:], 16)` of PropertiesEntityMixin.val
  comment offsets    OffsetComment.comment_offset, DefinesParser.Comment.comment_offset,
                     the `self.all[4:-3]` of DTDParser.Comment.val
  android_strip      the argument of `val.strip(...)` in android.normalize and its replacement
The shape of the small functions the model mirrors is checked; the plugin raises
when it is not what the model was written after (fail closed)."""
import ast
import inspect
import textwrap

from factlib import HEADER

NAME = "c02"


def regexes():
    from compare_locales.parser import properties, po, android
    R = {}
    esc = properties.PropertiesEntityMixin.escape
    R["c02_props_escape"] = (esc.pattern, esc.flags)
    for g in ("uni", "nl", "single"):
        if g not in esc.groupindex:
            raise ValueError("properties escape: group %s missing" % g)
    R["c02_po_escape"] = (po.po_escape.pattern, po.po_escape.flags)
    if po.po_escape.groups != 1:
        raise ValueError("po_escape: expected exactly one group")
    R["c02_android_newline"] = (android.NEWLINE.pattern, android.NEWLINE.flags)
    return R


def cstr(s):
    if s == "":
        return "(@nil N)"
    return "[" + "; ".join(str(ord(c)) for c in s) + "]%N"


def tree_of(obj):
    return ast.parse(textwrap.dedent(inspect.getsource(obj)))


def norm_dump(node):
    return ast.dump(node, annotate_fields=False)


def char_table(d, what):
    rows = []
    if not isinstance(d, dict) or not d:
        raise ValueError(what + ": not a non-empty dict")
    for k, v in d.items():
        if not (isinstance(k, str) and isinstance(v, str) and len(k) == 1 and len(v) == 1):
            raise ValueError(f"{what}: entry {k!r}: {v!r} is not char -> char")
        rows.append((ord(k), ord(v)))
    return "[" + "; ".join(f"({a}, {b})" for a, b in rows) + "]%N"


def expect(cond, what):
    if not cond:
        raise ValueError("unexpected shape: " + what)


def props_val_facts():
    """the unescape closure of PropertiesEntityMixin.val"""
    from compare_locales.parser import properties
    fn = tree_of(properties.PropertiesEntityMixin.val.fget).body[0]
    inner = [n for n in fn.body if isinstance(n, ast.FunctionDef)]
    expect(len(inner) == 1 and inner[0].name == "unescape", "val: one inner function unescape")
    src = ast.unparse(inner[0])
    want = ('def unescape(m):\n'
            '    found = m.groupdict()\n'
            "    if found['uni']:\n"
            "        return chr(int(found['uni'][1:], 16))\n"
            "    if found['nl']:\n"
            "        return ''\n"
            "    return self.known_escapes.get(found['single'], found['single'])")
    expect(src == want, "PropertiesEntityMixin.val.unescape is\n" + src)
    ret = fn.body[-1]
    expect(isinstance(ret, ast.Return) and
           ast.unparse(ret.value) == "self.escape.sub(unescape, self.raw_val)",
           "val returns self.escape.sub(unescape, self.raw_val)")
    # constants of chr(int(found['uni'][1:], 16))
    call = inner[0].body[1].body[0].value.args[0]
    base = call.args[1].value
    skip = call.args[0].slice.lower.value
    return base, skip


def po_facts():
    from compare_locales.parser import po
    fn = tree_of(po.eval_stringlist).body[0]
    src = ast.unparse(fn)
    want = ("def eval_stringlist(lines):\n"
            "    return ''.join((po_escape.sub(lambda m: po_escapes[m.group(1)], line) for line in lines))")
    expect(src == want, "eval_stringlist is\n" + src)
    v = ast.unparse(tree_of(po.PoEntityMixin.val.fget).body[0].body[-1])
    expect(v == "return self.stringlist_val if self.stringlist_val else self.stringlist_key[0]",
           "PoEntityMixin.val is " + v)
    k = ast.unparse(tree_of(po.PoEntityMixin.key.fget).body[0].body[-1])
    expect(k == "return self.stringlist_key", "PoEntityMixin.key is " + k)
    ce = inspect.getsource(po.PoParser.createEntity)
    expect("e.stringlist_key = (msgid, msgctxt)" in ce and "e.stringlist_val = msgstr" in ce,
           "createEntity assigns stringlist_key = (msgid, msgctxt), stringlist_val = msgstr")
    psl = inspect.getsource(po.PoParser._parse_string_list)
    expect("frags.append(m.group(1))" in psl and "return eval_stringlist(frags), cursor" in psl,
           "_parse_string_list evaluates the group-1 fragments")


def comment_facts():
    from compare_locales.parser import base, defines, dtd, properties, ini
    v = ast.unparse(tree_of(base.OffsetComment.val.fget).body[0].body[-2])
    want = ("if self._val_cache is None:\n"
            "    self._val_cache = '\\n'.join((line[self.comment_offset:] for line in self.all.split('\\n')))")
    expect(v == want, "OffsetComment.val is\n" + v)
    expect(properties.PropertiesParser.Comment is base.OffsetComment, "properties Comment is OffsetComment")
    expect(ini.IniParser.Comment is base.OffsetComment, "ini Comment is OffsetComment")
    expect(issubclass(defines.DefinesParser.Comment, base.OffsetComment)
           and "val" not in vars(defines.DefinesParser.Comment), "inc Comment is an OffsetComment")
    off = base.OffsetComment.comment_offset
    off_inc = defines.DefinesParser.Comment.comment_offset
    expect(isinstance(off, int) and isinstance(off_inc, int) and off >= 0 and off_inc >= 0,
           "comment offsets are naturals")
    d = tree_of(dtd.DTDParser.Comment.val.fget).body[0]
    assigns = [n for n in ast.walk(d) if isinstance(n, ast.Assign)]
    expect(len(assigns) == 1, "DTD Comment.val: one assignment")
    sub = assigns[0].value
    expect(isinstance(sub, ast.Subscript) and ast.unparse(sub.value) == "self.all"
           and isinstance(sub.slice, ast.Slice), "DTD Comment.val = self.all[a:-b]")
    lo = ast.literal_eval(sub.slice.lower)
    hi = ast.literal_eval(sub.slice.upper)
    expect(isinstance(lo, int) and isinstance(hi, int) and lo >= 0 and hi < 0, "DTD slice bounds")
    # the plain Comment.val is the whole text
    c = ast.unparse(tree_of(base.Comment.val.fget).body[0])
    expect("self._val_cache = self.all" in c, "Comment.val = self.all")
    return off, off_inc, lo, -hi


def android_facts():
    from compare_locales.parser import android
    n = ast.unparse(tree_of(android.normalize).body[0])
    fn = tree_of(android.normalize).body[0]
    ret = fn.body[-1].value
    expect(isinstance(ret, ast.Call) and ast.unparse(ret.func) == "NEWLINE.sub"
           and len(ret.args) == 2 and isinstance(ret.args[0], ast.Constant)
           and ast.unparse(ret.args[1].func) == "val.strip"
           and isinstance(ret.args[1].args[0], ast.Constant), "normalize is " + n)
    return ret.args[0].value, ret.args[1].args[0].value


def generate():
    from compare_locales.parser import properties, po
    base, skip = props_val_facts()
    expect(base == 16 and isinstance(skip, int) and skip >= 0, "int(found['uni'][skip:], 16)")
    po_facts()
    off, off_inc, dlo, dhi = comment_facts()
    repl, strip = android_facts()
    lines = [HEADER, "From Coq Require Import NArith List.", "Import ListNotations.", "",
             "(* PropertiesEntityMixin.known_escapes *)",
             "Definition known_escapes : list (N * N) := "
             + char_table(properties.PropertiesEntityMixin.known_escapes, "known_escapes") + ".",
             "(* chr(int(found['uni'][uni_skip:], uni_base)) *)",
             f"Definition uni_base : N := {base}%N.",
             f"Definition uni_skip : nat := {skip}.",
             "(* po.po_escapes *)",
             "Definition po_escapes : list (N * N) := " + char_table(po.po_escapes, "po_escapes") + ".",
             "(* OffsetComment.comment_offset (properties, ini), DefinesParser.Comment.comment_offset,",
             "   DTDParser.Comment.val = all[dtd_comment_lo : -dtd_comment_hi] *)",
             f"Definition comment_offset : nat := {off}.",
             f"Definition comment_offset_inc : nat := {off_inc}.",
             f"Definition dtd_comment_lo : nat := {dlo}.",
             f"Definition dtd_comment_hi : nat := {dhi}.",
             "(* android.normalize: NEWLINE.sub(android_newline_repl, val.strip(android_strip)) *)",
             f"Definition android_newline_repl : list N := {cstr(repl)}.",
             f"Definition android_strip : list N := {cstr(strip)}.",
             ""]
    return [("C02Facts.v", "\n".join(lines))]
