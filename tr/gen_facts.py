"""Translator: regenerates coq/Generated/*.v from the working tree of the
repository (sys.path must lead to it).  Fail-closed: anything it does not
understand raises, the check then reports the translator obligation broken."""
import os
import sys

HERE = os.path.dirname(os.path.abspath(__file__))
sys.path.insert(0, HERE)
OUT = os.path.join(os.path.dirname(HERE), "coq", "Generated")


def write_if_changed(path, text):
    try:
        if open(path).read() == text:
            return
    except OSError:
        pass
    with open(path, "w") as f:
        f.write(text)


def main():
    os.makedirs(OUT, exist_ok=True)
    import gen_modules
    for name, text in gen_modules.generate():
        write_if_changed(os.path.join(OUT, name), text)


if __name__ == "__main__":
    main()
