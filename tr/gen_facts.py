"""Translator: regenerates coq/Generated/*.v from the working tree of the
repository (sys.path must lead to it).  Fail-closed per plugin: a generator
that does not understand what it reads raises; its status is recorded in
build/facts_status.json and its stale output is deleted."""
import json
import os
import sys

HERE = os.path.dirname(os.path.abspath(__file__))
sys.path.insert(0, HERE)
ROOT = os.path.dirname(HERE)
OUT = os.path.join(ROOT, "coq", "Generated")


def write_if_changed(path, text):
    try:
        if open(path).read() == text:
            return
    except OSError:
        pass
    with open(path, "w") as f:
        f.write(text)


def main():
    os.makedirs(OUT, exist_ok=True)
    os.makedirs(os.path.join(ROOT, "build"), exist_ok=True)
    import gen_modules
    files, status = gen_modules.generate_all()
    keep = set()
    for name, text in files:
        write_if_changed(os.path.join(OUT, name), text)
        keep.add(name)
    for f in os.listdir(OUT):
        if f.endswith(".v") and f not in keep:
            os.remove(os.path.join(OUT, f))
    with open(os.path.join(ROOT, "build", "facts_status.json"), "w") as f:
        json.dump(status, f, indent=1)
    bad = {k: v for k, v in status.items() if v != "ok"}
    for k, v in bad.items():
        print(f"facts plugin {k} FAILED:\n{v}")
    # exit status 0: per-plugin failures are judged per property by the harness
    print("facts:", ", ".join(f"{k}={'ok' if v == 'ok' else 'FAILED'}" for k, v in status.items()))


if __name__ == "__main__":
    main()
