"""Facts for C07 (DTD checker): the regular expressions of checks/dtd.py and of
CSSCheckMixin (checks/base.py), the `tmpl` and `xmllist` literals, the entity
declaration / entity reference templates of the synthetic documents, the column
corrections, every literal of the yielded tuples (severity, message / message
template, category) and the XML Name character classes the `eref` expression
is built from (they parameterise Model/XmlContent.v).

Everything is read from the working tree (import of the package for compiled
patterns and class attributes, `ast` for literals inside function bodies); the
shape of each function is checked and the plugin raises when it is not what the
model mirrors (fail closed)."""
import ast
import inspect
import string
import textwrap

import rx2coq
from factlib import HEADER, inline_patterns

NAME = "c07"


# ------------------------------------------------------------------ helpers ---
def func_tree(func):
    return ast.parse(textwrap.dedent(inspect.getsource(func))).body[0]


def cstr(s):
    if s == "":
        return "(@nil N)"
    return "[" + "; ".join(str(ord(c)) for c in s) + "]%N"


def const(node, what):
    if not (isinstance(node, ast.Constant) and isinstance(node.value, str)):
        raise ValueError(f"{what}: expected a string literal, got {ast.dump(node)}")
    return node.value


def tuple_yields(tree):
    ys = [n for n in ast.walk(tree) if isinstance(n, ast.Yield) and isinstance(n.value, ast.Tuple)]
    ys.sort(key=lambda n: (n.lineno, n.col_offset))
    for y in ys:
        if len(y.value.elts) != 4:
            raise ValueError("yield of a tuple that is not a 4-tuple")
    return [n.value for n in ys]


def sev(node, what):
    s = const(node, what)
    if s not in ("error", "warning"):
        raise ValueError(f"{what}: severity {s!r}")
    return "true" if s == "error" else "false"


def expect_src(node, want, what):
    got = ast.unparse(node)
    if got != want:
        raise ValueError(f"{what}: expression {got!r}, expected {want!r}")


def pct_pieces(text, nargs, what):
    """a %-format template whose only directives are %s -> pieces"""
    parts = text.split("%s")
    if len(parts) != nargs + 1 or any("%" in p for p in parts):
        raise ValueError(f"{what}: {text!r} is not a template with {nargs} %s")
    out = []
    for i, p in enumerate(parts):
        if p:
            out.append(("lit", p))
        if i < nargs:
            out.append(("arg", i))
    return out


def fmt_pieces(text, nargs, what):
    """a str.format template with auto-numbered fields -> pieces"""
    out, auto = [], 0
    for lit, field, spec, conv in string.Formatter().parse(text):
        if lit:
            out.append(("lit", lit))
        if field is None:
            continue
        if field != "" or spec or conv:
            raise ValueError(f"{what}: field {field!r}/{spec!r}/{conv!r}")
        out.append(("arg", auto))
        auto += 1
    if auto != nargs:
        raise ValueError(f"{what}: {auto} fields, expected {nargs}")
    return out


def tpl_coq(pieces):
    return "[" + "; ".join(f"inl {cstr(v)}" if k == "lit" else f"inr {v}" for k, v in pieces) + "]"


def ranges_coq(rs):
    return "[" + "; ".join(f"({a}, {b})" for a, b in rs) + "]%N"


def pct_of(node, what):
    """<literal> % <expr>  ->  (literal, source of expr)"""
    if not (isinstance(node, ast.BinOp) and isinstance(node.op, ast.Mod)):
        raise ValueError(f"{what}: not a %-format: {ast.dump(node)}")
    return const(node.left, what), ast.unparse(node.right)


def stray_quot_parts():
    """the template of the dynamic expression and the values `q` can take"""
    from compare_locales.checks import dtd
    t = func_tree(dtd.DTDChecker.processAndroidContent)
    comp = [n for n in ast.walk(t) if isinstance(n, ast.Call) and ast.unparse(n.func) == "re.compile"]
    if len(comp) != 1 or len(comp[0].args) != 1:
        raise ValueError("processAndroidContent: expected one re.compile(template % q)")
    tmpl, arg = pct_of(comp[0].args[0], "stray_quot")
    if arg != "q" or tmpl.count("%s") != 1 or "%" in tmpl.replace("%s", ""):
        raise ValueError("stray_quot: template")
    qs = [n for n in ast.walk(t) if isinstance(n, ast.Assign) and ast.unparse(n.targets[0]) == "q"]
    qs.sort(key=lambda n: n.lineno)
    if len(qs) != 2 or ast.unparse(qs[0].value) != "m.group('q')":
        raise ValueError("processAndroidContent: assignments to q")
    q_else = const(qs[1].value, "q (not quoted)")
    # the characters group q of `quoted` can capture
    tree, groups = rx2coq.parse(dtd.DTDChecker.quoted.pattern, dtd.DTDChecker.quoted.flags)
    if groups != {"q": 1} or tree[0] != "Cat" or tree[1][0] != "Grp" or tree[1][1] != 1:
        raise ValueError("quoted: shape")
    cls = tree[1][2]
    if cls[0] != "Chr" or cls[1] or cls[3] or sorted(cls[2]) != [(34, 34), (39, 39)]:
        raise ValueError("quoted: group q is not [\"']")
    return tmpl, q_else


def regexes():
    from compare_locales.checks import dtd, base
    D = dtd.DTDChecker
    R = {}
    R["c07_eref"] = (D.eref.pattern, D.eref.flags)
    R["c07_num"] = (D.num.pattern, D.num.flags)
    R["c07_length"] = (D.length.pattern, D.length.flags)
    pats = inline_patterns(base.CSSCheckMixin.parse_css_spec)
    if len(pats) != 2:
        raise ValueError(f"parse_css_spec: expected 2 inline patterns, got {pats}")
    R["c07_css_spec"], R["c07_css_sep"] = pats
    import re
    gi = re.compile(R["c07_css_spec"][0]).groupindex
    if set(gi) != {"prop", "length", "unit"}:
        raise ValueError("css_spec: groups")
    if set(re.compile(R["c07_css_sep"][0]).groupindex) != {"semi"}:
        raise ValueError("css_sep: groups")
    R["c07_quoted"] = (D.quoted.pattern, D.quoted.flags)
    tmpl, q_else = stray_quot_parts()
    R["c07_stray_dq"] = (tmpl % '"', 0)
    R["c07_stray_sq"] = (tmpl % "'", 0)
    R["c07_stray_any"] = (tmpl % q_else, 0)
    R["c07_mochibake"] = (base.mochibake.pattern, base.mochibake.flags)
    if D.eref.groups != 1:
        raise ValueError("eref: expected exactly one group")
    return R


# ----------------------------------------------------------------- generate ---
def generate():
    from compare_locales.checks import dtd, base
    D = dtd.DTDChecker
    L = [HEADER, "From Coq Require Import NArith ZArith List.", "From CL Require Import Base.Str.",
         "Import ListNotations.", "",
         "(* a yielded literal: (is error, message, category) *)",
         "Definition ylit := (bool * str * str)%type.",
         "(* a message template: literal pieces and argument indices *)",
         "Definition tpl := list (str + nat).", ""]

    def ylit(name, t, what, pos):
        expect_src(t.elts[1], pos, what)
        L.append(f"Definition {name} : ylit := ({sev(t.elts[0], what)}, "
                 f"{cstr(const(t.elts[2], what))}, {cstr(const(t.elts[3], what))}).")

    def ysc(name, t, what, pos, msg):
        """severity and category of a yield whose message is the expression `msg`"""
        expect_src(t.elts[1], pos, what)
        expect_src(t.elts[2], msg, what)
        L.append(f"Definition {name} : bool * str := ({sev(t.elts[0], what)}, "
                 f"{cstr(const(t.elts[3], what))}).")

    def ytpl(name, t, pieces, what, pos):
        expect_src(t.elts[1], pos, what)
        L.append(f"Definition {name} : bool * tpl * str := ({sev(t.elts[0], what)}, "
                 f"{tpl_coq(pieces)}, {cstr(const(t.elts[3], what))}).")

    # ---- class attributes --------------------------------------------------
    tm = D.tmpl
    if not isinstance(tm, bytes):
        raise ValueError("tmpl is not bytes")
    tm = tm.decode("ascii")
    parts = tm.split("%s")
    if len(parts) != 3 or any("%" in p for p in parts):
        raise ValueError("tmpl: expected exactly two %s")
    for i, p in enumerate(parts):
        L.append(f"Definition tmpl_{'abc'[i]} : str := {cstr(p)}.")
    if not isinstance(D.xmllist, set) or not all(isinstance(x, str) for x in D.xmllist):
        raise ValueError("xmllist")
    L.append("Definition xmllist : list str := [" + "; ".join(cstr(x) for x in sorted(D.xmllist)) + "].")
    if D.needs_reference is not True:
        raise ValueError("needs_reference")

    # ---- Checker.check (encoding warning) -------------------------------------
    t = func_tree(base.Checker.check)
    ys = tuple_yields(t)
    if len(ys) != 1:
        raise ValueError("Checker.check: expected one yield")
    js = ys[0].elts[2]
    if not (isinstance(js, ast.JoinedStr) and len(js.values) == 2 and isinstance(js.values[0], ast.Constant)
            and isinstance(js.values[1], ast.FormattedValue) and ast.unparse(js.values[1].value) == "l10nEnt.key"
            and js.values[1].conversion == -1 and js.values[1].format_spec is None):
        raise ValueError("Checker.check: message f-string")
    ytpl("y_encoding", ys[0], [("lit", js.values[0].value), ("arg", 0)], "Checker.check",
         "EntityPos(m.start())")
    fors = [n for n in ast.walk(t) if isinstance(n, ast.For)]
    if len(fors) != 1 or ast.unparse(fors[0].iter) != "mochibake.finditer(l10nEnt.all)":
        raise ValueError("Checker.check: loop")

    # ---- DTDChecker.check --------------------------------------------------------
    t = func_tree(D.check)
    ys = tuple_yields(t)
    if len(ys) != 6:
        raise ValueError(f"DTDChecker.check: expected 6 tuple yields, got {len(ys)}")
    ylit("y_cant_parse", ys[0], "check[0]", "(0, 0)")
    ysc("y_xmlparse", ys[1], "check[1]", "(lnr, col)", "' '.join(e.args)")
    ysc("y_unknown", ys[2], "check[2]", "(0, 0)", "warntmpl % key")
    call = ys[3].elts[2]
    if not (isinstance(call, ast.Call) and isinstance(call.func, ast.Attribute) and call.func.attr == "format"
            and [ast.unparse(a) for a in call.args] == ["key", "', '.join(sorted(inContext))"]
            and not call.keywords):
        raise ValueError("check[3]: format call")
    ytpl("y_mismatch", ys[3], fmt_pieces(const(call.func.value, "check[3]"), 2, "check[3]"),
         "check[3]", "(0, 0)")
    ylit("y_number", ys[4], "check[4]", "0")
    ylit("y_css_length", ys[5], "check[5]", "0")

    # the entity declarations and the second document's content
    joins = [n for n in ast.walk(t) if isinstance(n, ast.GeneratorExp) and isinstance(n.elt, ast.BinOp)]
    joins.sort(key=lambda n: n.lineno)
    if len(joins) != 2:
        raise ValueError("check: expected two generator expressions building declarations")
    decls = []
    for g, over in zip(joins, ("sorted(reflist)", "missing")):
        lit, arg = pct_of(g.elt, "entity declaration")
        if arg != "s" or ast.unparse(g.generators[0].iter) != over:
            raise ValueError("check: declaration generator over " + ast.unparse(g.generators[0].iter))
        decls.append(lit)
    if decls[0] != decls[1]:
        raise ValueError("check: the two declaration templates differ")
    L.append("Definition t_decl : tpl := " + tpl_coq(pct_pieces(decls[0], 1, "declaration")) + ".")
    refs2 = [n for n in ast.walk(t) if isinstance(n, ast.BinOp) and isinstance(n.op, ast.Mod)
             and isinstance(n.left, ast.Constant) and isinstance(n.left.value, bytes)]
    refs2.sort(key=lambda n: n.lineno)
    if len(refs2) != 2 or refs2[0].left.value != refs2[1].left.value:
        raise ValueError("check: bytes templates of the second documents")
    if [ast.unparse(n.right) for n in refs2] != ["refEnt.key.encode('utf-8')", "l10nEnt.key.encode('utf-8')"]:
        raise ValueError("check: arguments of the second documents")
    L.append("Definition t_selfref : tpl := " +
             tpl_coq(pct_pieces(refs2[0].left.value.decode("ascii"), 1, "self reference")) + ".")
    src = inspect.getsource(D.check)
    for needle in ("reflist = self.known_entities(refValue)", "inContext = self.entities_for_value(refValue)",
                   "self.tmpl % (entities.encode(\"utf-8\"), refValue.encode(\"utf-8\"))",
                   "(refEnt.all + entities).encode(\"utf-8\")",
                   "l10nlist = self.entities_for_value(l10nValue)", "missing = sorted(l10nlist - reflist)",
                   "self.tmpl % (_entities.encode(\"utf-8\"), l10nValue.encode(\"utf-8\"))",
                   "(l10nEnt.all + _entities).encode(\"utf-8\")",
                   "lnr = e.getLineNumber() - 1", "lines = l10nValue.splitlines()",
                   "if lnr > len(lines):", "col = len(lines[lnr - 1]) if lines else 0", "col = e.getColumnNumber()",
                   "if lnr == 1:", "elif lnr == 0:",
                   "if inContext and l10nlist and l10nlist - inContext - set(missing):",
                   "if self.num.match(refValue) and not self.num.match(l10nValue):",
                   "if self.length.match(refValue) and not self.length.match(l10nValue):",
                   "yield from self.maybe_style(refValue, l10nValue)",
                   "yield from self.processAndroidContent(self.texthandler.textcontent)"):
        if needle not in src:
            raise ValueError("DTDChecker.check changed: " + needle)
    # column corrections
    augs = [n for n in ast.walk(t) if isinstance(n, ast.AugAssign) and ast.unparse(n.target) == "col"]
    augs.sort(key=lambda n: n.lineno)
    if len(augs) != 2 or not all(isinstance(n.op, ast.Sub) and isinstance(n.value, ast.Call)
                                 and ast.unparse(n.value.func) == "len" for n in augs):
        raise ValueError("check: column corrections")
    L.append(f"Definition col_line1 : nat := {len(const(augs[0].value.args[0], 'col'))}.")
    L.append(f"Definition col_line0 : nat := {len(const(augs[1].value.args[0], 'col'))}.")
    # warntmpl
    asg = [n for n in ast.walk(t) if isinstance(n, ast.Assign) and ast.unparse(n.targets[0]) == "warntmpl"]
    aug = [n for n in ast.walk(t) if isinstance(n, ast.AugAssign) and ast.unparse(n.target) == "warntmpl"]
    aug.sort(key=lambda n: n.lineno)
    if len(asg) != 1 or len(aug) != 4:
        raise ValueError("check: warntmpl assignments")
    L.append("Definition t_unknown : tpl := " +
             tpl_coq(pct_pieces(const(asg[0].value, "warntmpl"), 1, "warntmpl")) + ".")
    names = ["t_ctx_used", "t_ctx_elsewhere", None, "t_ctx_known"]
    args = ["', '.join(sorted(inContext))", "', '.join(sorted(elsewhere))", None, "', '.join(sorted(reflist))"]
    for n, nm, want in zip(aug, names, args):
        if nm is None:
            L.append(f"Definition s_ctx_close : str := {cstr(const(n.value, 'warntmpl close'))}.")
            if "%" in n.value.value:
                raise ValueError("warntmpl: % in literal")
            continue
        lit, arg = pct_of(n.value, nm)
        if arg != want:
            raise ValueError(f"{nm}: argument {arg}")
        L.append(f"Definition {nm} : tpl := {tpl_coq(pct_pieces(lit, 1, nm))}.")
    L.append(f"Definition s_join : str := {cstr(', ')}.")

    # ---- CSSCheckMixin ---------------------------------------------------------------
    t = func_tree(base.CSSCheckMixin.check_style)
    ys = tuple_yields(t)
    if len(ys) != 3:
        raise ValueError("check_style: expected 3 yields")
    ylit("y_css_spec", ys[0], "check_style[0]", "0")
    if ast.dump(ys[0]) != ast.dump(ys[1]):
        raise ValueError("check_style: the two error yields differ")
    ysc("y_css_warn", ys[2], "check_style[2]", "0", "', '.join(msgs)")
    pcts = [n for n in ast.walk(t) if isinstance(n, ast.BinOp) and isinstance(n.op, ast.Mod)]
    pcts.sort(key=lambda n: n.lineno)
    if len(pcts) != 3:
        raise ValueError("check_style: message templates")
    wants = [("t_only_l10n", "prop", 1), ("t_units", "(prop, unit, ref_unit)", 3), ("t_only_ref", "prop", 1)]
    for n, (nm, want, k) in zip(pcts, wants):
        lit, arg = pct_of(n, nm)
        if arg != want:
            raise ValueError(f"{nm}: argument {arg}")
        L.append(f"Definition {nm} : tpl := {tpl_coq(pct_pieces(lit, k, nm))}.")
    src = inspect.getsource(base.CSSCheckMixin)
    for needle in ("ref_map, _ = self.parse_css_spec(ref_value)", "if not ref_map:",
                   "l10n_map, errors = self.parse_css_spec(l10n_value)", "if not l10n_map:", "if errors:",
                   "msgs.insert(0, \"%s only in l10n\" % prop)", "ref_unit = ref_map.pop(prop)",
                   "if unit != ref_unit:", "msgs.append(", "msgs.insert(0, \"%s only in reference\" % prop)",
                   "if end == 0 and m.start() == m.end():", "return None, None", "if m.start() > end:",
                   "split = self._css_sep.match(val, end, m.start())", "if split is None:",
                   "elif end > 0 and split.group(\"semi\") is None:", "if m.group(\"prop\"):",
                   "refMap[m.group(\"prop\")] = m.group(\"unit\")", "end = m.end()"):
        if needle not in src:
            raise ValueError("CSSCheckMixin changed: " + needle)
    t = func_tree(base.CSSCheckMixin.parse_css_spec)
    codes = [const(v, "code") for n in ast.walk(t) if isinstance(n, ast.Dict)
             for k, v in zip(n.keys, n.values) if const(k, "key") == "code"]
    if codes != ["css-bad-content", "css-missing-semicolon"]:
        raise ValueError(f"parse_css_spec: error codes {codes}")

    # ---- processAndroidContent ------------------------------------------------------------
    t = func_tree(D.processAndroidContent)
    ys = tuple_yields(t)
    if len(ys) != 2:
        raise ValueError("processAndroidContent: expected 2 yields")
    ysc("y_android_escape", ys[0], "android[0]", "e.args[2]", "e.args[4]")
    ysc("y_android_quote", ys[1], "android[1]", "m.end(0) + offset", "msg")
    msgs = [n for n in ast.walk(t) if isinstance(n, ast.Assign) and ast.unparse(n.targets[0]) == "msg"]
    msgs.sort(key=lambda n: n.lineno)
    if len(msgs) != 2:
        raise ValueError("processAndroidContent: msg assignments")
    L.append(f"Definition s_msg_quote : str := {cstr(const(msgs[0].value, 'msg'))}.")
    L.append(f"Definition s_msg_apos : str := {cstr(const(msgs[1].value, 'msg'))}.")
    src = inspect.getsource(D.processAndroidContent)
    for needle in ("m = self.quoted.match(val)", "offset = 0", "val = val[1:-1]", "offset = -1",
                   "for m in stray_quot.finditer(val):", "if len(m.group(0)) % 2:",
                   "if m.group(1) == '\"':"):
        if needle not in src:
            raise ValueError("processAndroidContent changed: " + needle)
    src = inspect.getsource(D.__init__)
    if 'if self.extra_tests is not None and "android-dtd" in self.extra_tests:' not in src:
        raise ValueError("DTDChecker.__init__ changed")

    # ---- known_entities / entities_for_value -----------------------------------------------
    src = inspect.getsource(D.known_entities) + inspect.getsource(D.entities_for_value)
    for needle in ("if self.__known_entities is None and self.reference is not None:",
                   "for ent in self.reference.values():",
                   "self.__known_entities.update(self.entities_for_value(ent.raw_val))",
                   "else self.entities_for_value(refValue)",
                   "reflist = {m.group(1) for m in self.eref.finditer(value)}",
                   "reflist -= self.xmllist"):
        if needle not in src:
            raise ValueError("known_entities/entities_for_value changed: " + needle)

    # ---- Name classes (from the eref expression) --------------------------------------------
    tree, _ = rx2coq.parse(D.eref.pattern, D.eref.flags)
    try:
        amp, (_, grp, semi) = tree[1], tree[2]
        assert tree[0] == "Cat" and amp == ("Chr", False, ((38, 38),), ())
        assert semi == ("Chr", False, ((59, 59),), ())
        assert grp[0] == "Grp" and grp[1] == 1 and grp[2][0] == "Cat"
        first, rest = grp[2][1], grp[2][2]
        assert first[0] == "Chr" and not first[1] and not first[3]
        assert rest[0] == "Rep" and rest[1] is True and rest[2] == 0 and rest[3] is None
        assert rest[4][0] == "Chr" and not rest[4][1] and not rest[4][3]
    except (AssertionError, IndexError, ValueError, TypeError):
        raise ValueError("eref is not & ( NameStartChar NameChar* ) ;")
    L.append("")
    L.append("(* NameStartChar / NameChar of parser/dtd.py, as used by eref *)")
    L.append(f"Definition name_start_ranges : list (N * N) := {ranges_coq(first[2])}.")
    L.append(f"Definition name_char_ranges : list (N * N) := {ranges_coq(rest[4][2])}.")
    L.append("")
    return [("C07Facts.v", "\n".join(L))]
