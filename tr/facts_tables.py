"""\\w, \\d, \\s range tables of the running interpreter."""
import rx2coq
from factlib import HEADER

NAME = "tables"


def regexes():
    return {}


def generate():
    lines = [HEADER, "From Coq Require Import NArith List.", "Import ListNotations.", ""]
    for cat in ("word", "digit", "space"):
        rs = rx2coq.category_ranges(cat)
        body = ";\n  ".join("; ".join(f"({a}, {b})" for a, b in rs[i:i + 6])
                            for i in range(0, len(rs), 6))
        lines.append(f"Definition {cat}_ranges : list (N * N) := [\n  {body}]%N.\n")
    return [("Tables.v", "\n".join(lines))]
