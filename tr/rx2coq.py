"""Python regular expression -> regex AST of coq/Regex/Rx.v.

Walks CPython's own parse tree (re._parser.parse), so escapes and character
classes are read by CPython, not re-interpreted here.  Fail-closed: any
construct outside the declared subset raises Unsupported.

The AST is built as nested Python tuples first (used by the harness for
structural comparison and to run the extracted engine on run-time patterns),
then printed as Coq text or as an sx list.
"""
import re
try:
    import re._parser as sre_parse
    import re._constants as sre_constants
except ImportError:  # pragma: no cover
    import sre_parse
    import sre_constants

C = sre_constants
MAXREPEAT = C.MAXREPEAT
ALLOWED_FLAGS = re.U | re.M | re.S


class Unsupported(Exception):
    pass


# --- range tables of the running interpreter ---------------------------------
_tables = {}


def category_ranges(cat):
    """inclusive code point ranges matched by \\w, \\d, \\s for str patterns"""
    if cat in _tables:
        return _tables[cat]
    rx = re.compile({"word": r"\w", "digit": r"\d", "space": r"\s"}[cat])
    out, start = [], None
    for c in range(0x110000):
        ok = rx.match(chr(c)) is not None
        if ok and start is None:
            start = c
        elif not ok and start is not None:
            out.append((start, c - 1))
            start = None
    if start is not None:
        out.append((start, 0x10FFFF))
    _tables[cat] = out
    return out


CATS = {
    C.CATEGORY_WORD: ("word", False), C.CATEGORY_NOT_WORD: ("word", True),
    C.CATEGORY_DIGIT: ("digit", False), C.CATEGORY_NOT_DIGIT: ("digit", True),
    C.CATEGORY_SPACE: ("space", False), C.CATEGORY_NOT_SPACE: ("space", True),
}


# --- AST constructors (tuples) -------------------------------------------------
def Eps():
    return ("Eps",)


def Chr(neg, ranges, cats=()):
    return ("Chr", bool(neg), tuple(ranges), tuple(cats))


def cat_list(items):
    items = [i for i in items if i != ("Eps",)]
    if not items:
        return Eps()
    out = items[-1]
    for i in reversed(items[:-1]):
        out = ("Cat", i, out)
    return out


def alt_list(items):
    out = items[-1]
    for i in reversed(items[:-1]):
        out = ("Alt", i, out)
    return out


def nullable(t):
    k = t[0]
    if k == "Eps":
        return True
    if k == "Chr":
        return False
    if k == "Cat":
        return nullable(t[1]) and nullable(t[2])
    if k == "Alt":
        return nullable(t[1]) or nullable(t[2])
    if k == "Rep":
        return t[2] == 0 or nullable(t[4])
    if k == "Grp":
        return nullable(t[2])
    return True


def conv_seq(seq, flags):
    return cat_list([conv(op, av, flags) for op, av in seq])


def conv(op, av, flags):
    if op is C.LITERAL:
        return Chr(False, [(av, av)])
    if op is C.NOT_LITERAL:
        return Chr(True, [(av, av)])
    if op is C.ANY:
        return Chr(True, [] if flags & re.S else [(10, 10)])
    if op is C.IN:
        neg, ranges, cats = False, [], []
        for o, a in av:
            if o is C.NEGATE:
                neg = True
            elif o is C.LITERAL:
                ranges.append((a, a))
            elif o is C.RANGE:
                ranges.append((a[0], a[1]))
            elif o is C.CATEGORY:
                if a not in CATS:
                    raise Unsupported(f"category {a}")
                name, cneg = CATS[a]
                if cneg:
                    if len(av) != 1:
                        raise Unsupported("negated category inside a class")
                    return Chr(True, [], [name])
                cats.append(name)
            else:
                raise Unsupported(f"class item {o}")
        return Chr(neg, ranges, cats)
    if op is C.BRANCH:
        return alt_list([conv_seq(p, flags) for p in av[1]])
    if op is C.SUBPATTERN:
        group, add, dele, p = av
        if add or dele:
            raise Unsupported("inline flags")
        body = conv_seq(p, flags)
        return body if group is None else ("Grp", group, body)
    if op in (C.MAX_REPEAT, C.MIN_REPEAT):
        lo, hi, p = av
        greedy = op is C.MAX_REPEAT
        body = conv_seq(p, flags)
        if lo == 1 and hi == 1:
            return body
        if lo == 0 and hi == 1:
            return ("Alt", body, Eps()) if greedy else ("Alt", Eps(), body)
        if nullable(body):
            raise Unsupported("repetition of a nullable body")
        if lo > 64:
            raise Unsupported("large repetition count")
        return ("Rep", greedy, lo, None if hi == MAXREPEAT else hi, body)
    if op is C.GROUPREF:
        return ("Bref", av)
    if op is C.AT:
        if av is C.AT_BEGINNING:
            return ("Bol", bool(flags & re.M))
        if av is C.AT_BEGINNING_STRING:
            return ("Bol", False)
        if av is C.AT_END:
            return ("Eol", bool(flags & re.M))
        if av is C.AT_END_STRING:
            return ("EndStr",)
        raise Unsupported(f"anchor {av}")
    if op in (C.ASSERT, C.ASSERT_NOT):
        direction, p = av
        body = conv_seq(p, flags)
        if direction < 0 and p.getwidth() != (1, 1):
            raise Unsupported("look-behind of width other than 1")
        return ("Look", direction > 0, op is C.ASSERT_NOT, body)
    raise Unsupported(f"opcode {op}")


def parse(pattern, flags=0):
    """-> (ast, groupdict)"""
    if isinstance(pattern, bytes):
        raise Unsupported("bytes pattern")
    tree = sre_parse.parse(pattern, flags)
    fl = tree.state.flags
    if fl & ~ALLOWED_FLAGS:
        raise Unsupported(f"flags {fl}")
    return conv_seq(tree.data, fl), dict(tree.state.groupdict)


def of_compiled(p):
    return parse(p.pattern, p.flags)


# --- printers --------------------------------------------------------------------
def coq_ranges(ranges, cats):
    lit = "[" + "; ".join(f"({a}, {b})" for a, b in ranges) + "]%N"
    parts = ([lit] if ranges or not cats else []) + [f"{c}_ranges" for c in cats]
    return "(" + " ++ ".join(parts) + ")"


def to_coq(t):
    k = t[0]
    if k == "Eps":
        return "Eps"
    if k == "Chr":
        return f"(Chr {str(t[1]).lower()} {coq_ranges(t[2], t[3])})"
    if k in ("Cat", "Alt"):
        return f"({k} {to_coq(t[1])} {to_coq(t[2])})"
    if k == "Rep":
        hi = "None" if t[3] is None else f"(Some {t[3]})"
        return f"(Rep {str(t[1]).lower()} {t[2]} {hi} {to_coq(t[4])})"
    if k == "Grp":
        return f"(Grp {t[1]} {to_coq(t[2])})"
    if k == "Bref":
        return f"(Bref {t[1]})"
    if k in ("Bol", "Eol"):
        return f"({k} {str(t[1]).lower()})"
    if k == "EndStr":
        return "EndStr"
    if k == "Look":
        return f"(Look {str(t[1]).lower()} {str(t[2]).lower()} {to_coq(t[3])})"
    raise Unsupported(k)


def to_sx(t):
    """wire form understood by Regex/RxSx.v: tag first"""
    k = t[0]
    if k == "Eps":
        return [0]
    if k == "Chr":
        rs = [list(r) for r in t[2]]
        for c in t[3]:
            rs += [list(r) for r in category_ranges(c)]
        return [1, int(t[1]), rs]
    if k == "Cat":
        return [2, to_sx(t[1]), to_sx(t[2])]
    if k == "Alt":
        return [3, to_sx(t[1]), to_sx(t[2])]
    if k == "Rep":
        return [4, int(t[1]), t[2], [] if t[3] is None else [t[3]], to_sx(t[4])]
    if k == "Grp":
        return [5, t[1], to_sx(t[2])]
    if k == "Bref":
        return [6, t[1]]
    if k == "Bol":
        return [7, int(t[1])]
    if k == "Eol":
        return [8, int(t[1])]
    if k == "EndStr":
        return [9]
    if k == "Look":
        return [10, int(t[1]), int(t[2]), to_sx(t[3])]
    raise Unsupported(k)
