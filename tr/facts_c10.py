"""Facts for C10 (Observer / ObserverList / exit status).

Read from the source of compare_locales/compare/observer.py and
compare_locales/commands.py with `ast` (no import of the package): the
category names and quiet thresholds of Observer.notify, the summary key list of
Observer.__init__, the key that sets the error flag in updateStats, the suffix
that turns a category into its summary key, and the exit statuses of
CompareLocales.handle.

The control flow of notify/updateStats is hand-modelled in coq/Model/Observer.v;
this plugin checks that the source still has exactly the shape the model
mirrors (the unparsed function must match a template in which only the
thresholds and names are free) and raises otherwise (fail closed).
"""
import ast
import importlib.util
import os
import re

from factlib import HEADER, coq_str

NAME = "c10"


def regexes():
    return {}


def _source_of(modname):
    spec = importlib.util.find_spec("compare_locales")
    if spec is None or not spec.submodule_search_locations:
        raise RuntimeError("compare_locales not on sys.path")
    base = list(spec.submodule_search_locations)[0]
    path = os.path.join(base, *modname.split(".")) + ".py"
    return open(path, encoding="utf-8").read()


def _method(tree, cls, name):
    for c in tree.body:
        if isinstance(c, ast.ClassDef) and c.name == cls:
            for f in c.body:
                if isinstance(f, ast.FunctionDef) and f.name == name:
                    return f
    raise RuntimeError(f"{cls}.{name} not found")


def _strip_doc(fn):
    body = list(fn.body)
    if (body and isinstance(body[0], ast.Expr) and isinstance(body[0].value, ast.Constant)
            and isinstance(body[0].value.value, str)):
        body = body[1:]
    return "\n".join(ast.unparse(s) for s in body)


NAME_RE = r"'(?P<%s>[A-Za-z_]+)'"
NUM_RE = r"(?P<%s>\d+)"


def _template(text):
    """turn a literal template with <<n:name>> (number) and <<s:name>> (string
    literal, first occurrence defines, later ones must repeat it) into a regex"""
    out, seen, pos = [], set(), 0
    for m in re.finditer(r"<<([ns]):([a-zA-Z0-9_]+)>>", text):
        out.append(re.escape(text[pos:m.start()]))
        kind, nm = m.group(1), m.group(2)
        if nm in seen:
            out.append("'(?P=%s)'" % nm if kind == "s" else "(?P=%s)" % nm)
        else:
            seen.add(nm)
            out.append((NAME_RE if kind == "s" else NUM_RE) % nm)
        pos = m.end()
    out.append(re.escape(text[pos:]))
    return re.compile("".join(out) + r"\Z")


NOTIFY_T = """rv = <<s:v_error>>
if category in [<<s:missingFile>>, <<s:obsoleteFile>>]:
    if self.filter is not None:
        rv = self.filter(file)
    if rv == <<s:v_ignore>> or self.quiet >= <<n:files_hidden>>:
        return rv
    if self.quiet == <<n:obsolete_file_shown>> or category == <<s:missingFile>>:
        self.details[file].append({category: rv})
    return rv
if self.filter is not None:
    rv = self.filter(file, data)
    if rv == <<s:v_ignore>>:
        return rv
if category in [<<s:missingEntity>>, <<s:obsoleteEntity>>]:
    if category == <<s:missingEntity>> and self.quiet < <<n:missingEntity_lt>> or (category == <<s:obsoleteEntity>> and self.quiet < <<n:obsoleteEntity_lt>>):
        self.details[file].append({category: data})
    return rv
if category == <<s:error>>:
    self.error = True
if category in (<<s:error>>, <<s:warning>>):
    if category == <<s:error>> and self.quiet < <<n:error_lt>> or (category == <<s:warning>> and self.quiet < <<n:warning_lt>>):
        self.details[file].append({category: data})
    self.summary[file.locale][category + <<s:suffix>>] += 1
return rv"""

STATS_T = """if self.filter is not None and self.filter(file, entity='') == <<s:v_ignore>>:
    return
for category, value in stats.items():
    if category == <<s:errors_key>>:
        self.error = True
    self.summary[file.locale][category] += value"""

LIST_NOTIFY_T = """rvs = {observer.notify(category, file, data) for observer in self.observers}
if all((rv == <<s:v_ignore>> for rv in rvs)):
    return <<s:v_ignore>>
super().notify(category, file, data)
rvs.discard(<<s:v_ignore>>)
if <<s:v_error>> in rvs:
    return <<s:v_error>>
assert len(rvs) == 1
return rvs.pop()"""

LIST_STATS_T = """for observer in self.observers:
    observer.updateStats(file, stats)
super().updateStats(file, stats)"""

EXIT_T = "rv = <<n:exit_error>> if not return_zero and observers.error else <<n:exit_ok>>"


# ObserverList.serializeSummaries: the display key tuple, the two widths, the
# key list of the total and the key of the rate are free; everything else
# (column order, the extra column for several projects, `or ''`, row.strip(),
# sorted locales, summaries[-1], the percent line) is the shape the model
# coq/Model/Summaries.v mirrors.
SUMMARIES_T = """summaries = {loc: [] for loc in self.summary.keys()}
for observer in self.observers:
    for loc, lst in summaries.items():
        lst.append(observer.summary.get(loc, {}))
if len(self.observers) > 1:
    for loc, lst in summaries.items():
        lst.append(self.summary[loc])
keys = @@DKEYS@@
leads = [f'{k:<<n:lead_w>>}' for k in keys]
out = []
for locale, summaries in sorted(summaries.items()):
    if locale:
        out.append(locale + ':')
    segment = [''] * len(keys)
    for summary in summaries:
        for row, key in enumerate(keys):
            segment[row] += ' {:<<n:cell_w>>}'.format(summary.get(key) or '')
    out += [lead + row for lead, row in zip(leads, segment) if row.strip()]
    total = sum((summaries[-1].get(k, 0) for k in @@RKEYS@@))
    rate = 0
    if total:
        rate = (<<s:rate_key>> in summary and summary[<<s:rate_key>>] * 100 or 0) / total
    out.append('%d%% of entries changed' % rate)
return '\\n'.join(out)"""


def _summaries_facts(obs):
    text = _strip_doc(_method(obs, "ObserverList", "serializeSummaries"))
    rx = _template(SUMMARIES_T).pattern
    rx = rx.replace(re.escape("@@DKEYS@@"), r"(?P<dkeys>\([^()]*\))")
    rx = rx.replace(re.escape("@@RKEYS@@"), r"(?P<rkeys>\[[^\[\]]*\])")
    m = re.compile(rx).match(text)
    if not m:
        raise RuntimeError("ObserverList.serializeSummaries no longer has the shape the model "
                           "mirrors:\n" + text)
    d = m.groupdict()
    dkeys, rkeys = ast.literal_eval(d["dkeys"]), ast.literal_eval(d["rkeys"])
    for what, ks in (("display keys", dkeys), ("rate keys", rkeys)):
        if not (isinstance(ks, (tuple, list)) and ks and all(isinstance(k, str) for k in ks)
                and len(set(ks)) == len(ks)):
            raise RuntimeError("serializeSummaries: %s are not distinct string literals: %r" % (what, ks))
    return {"dkeys": list(dkeys), "rkeys": list(rkeys), "rate_key": d["rate_key"],
            "lead_w": int(d["lead_w"]), "cell_w": int(d["cell_w"])}


def _match(tmpl, text, what):
    m = _template(tmpl).match(text)
    if not m:
        raise RuntimeError(f"{what} no longer has the shape the model mirrors:\n{text}")
    return m.groupdict()


def read_facts():
    obs = ast.parse(_source_of("compare.observer"))
    n = _match(NOTIFY_T, _strip_doc(_method(obs, "Observer", "notify")), "Observer.notify")
    s = _match(STATS_T, _strip_doc(_method(obs, "Observer", "updateStats")), "Observer.updateStats")
    ln = _match(LIST_NOTIFY_T, _strip_doc(_method(obs, "ObserverList", "notify")), "ObserverList.notify")
    _match(LIST_STATS_T, _strip_doc(_method(obs, "ObserverList", "updateStats")),
           "ObserverList.updateStats")
    # the verdict literals: the model's VError/VIgnore stand for these
    for d in (n, s, ln):
        if d.get("v_ignore", "ignore") != "ignore" or d.get("v_error", "error") != "error":
            raise RuntimeError("verdict literals changed: %r" % d)
    # summary keys: the dict literal of the defaultdict factory in Observer.__init__
    init = _method(obs, "Observer", "__init__")
    keys = None
    for node in ast.walk(init):
        if (isinstance(node, ast.Assign) and len(node.targets) == 1
                and ast.unparse(node.targets[0]) == "self.summary"):
            call = node.value
            if not (isinstance(call, ast.Call) and ast.unparse(call.func) == "defaultdict"
                    and len(call.args) == 1 and isinstance(call.args[0], ast.Lambda)
                    and isinstance(call.args[0].body, ast.Dict)):
                raise RuntimeError("Observer.summary is no longer defaultdict(lambda: {...})")
            d = call.args[0].body
            if not all(isinstance(k, ast.Constant) and isinstance(k.value, str) for k in d.keys):
                raise RuntimeError("summary keys are not string literals")
            if not all(isinstance(v, ast.Constant) and v.value == 0 and not isinstance(v.value, bool)
                       for v in d.values):
                raise RuntimeError("summary counters do not start at 0")
            keys = [k.value for k in d.keys]
    if not keys or len(set(keys)) != len(keys):
        raise RuntimeError("summary key list not found or has duplicates")
    names = [n[k] for k in ("missingFile", "obsoleteFile", "missingEntity", "obsoleteEntity",
                            "error", "warning")]
    if len(set(names)) != 6:
        raise RuntimeError("category names are not pairwise distinct: %r" % names)
    # exit status
    cmd = ast.parse(_source_of("commands"))
    handle = _method(cmd, "CompareLocales", "handle")
    ex = None
    for node in ast.walk(handle):
        if isinstance(node, ast.Assign) and ast.unparse(node.targets[0]) == "rv":
            ex = _match(EXIT_T, ast.unparse(node), "exit status in CompareLocales.handle")
    if ex is None:
        raise RuntimeError("exit status assignment not found in CompareLocales.handle")
    rets = [ast.unparse(x) for x in ast.walk(handle) if isinstance(x, ast.Return)]
    if rets != ["return rv"]:
        raise RuntimeError("CompareLocales.handle returns %r" % rets)
    sm = _summaries_facts(obs)
    if not set(sm["dkeys"]) <= set(keys) or not set(sm["rkeys"]) <= set(keys) \
            or sm["rate_key"] not in keys:
        raise RuntimeError("serializeSummaries reads keys the counter dict does not have: %r" % sm)
    return {
        "summaries": sm,
        "names": names, "keys": keys, "suffix": n["suffix"], "errors_key": s["errors_key"],
        "thr": {k: int(n[k]) for k in ("files_hidden", "obsolete_file_shown", "missingEntity_lt",
                                       "obsoleteEntity_lt", "error_lt", "warning_lt")},
        "exit_error": int(ex["exit_error"]), "exit_ok": int(ex["exit_ok"]),
    }


def generate():
    f = read_facts()
    L = [HEADER, "From Coq Require Import NArith ZArith List.", "Import ListNotations.", "",
         "(* category names compared against in Observer.notify, in the order",
         "   missingFile, obsoleteFile, missingEntity, obsoleteEntity, error, warning *)"]
    for tag, nm in zip(("missingFile", "obsoleteFile", "missingEntity", "obsoleteEntity",
                        "error", "warning"), f["names"]):
        L.append(f"Definition name_{tag} : list N := {coq_str(nm)}.  (* {nm!r} *)")
    L.append("")
    L.append("(* `self.quiet >= n`: missing/obsolete files are not detailed at all *)")
    L.append(f"Definition thr_files_hidden : nat := {f['thr']['files_hidden']}.")
    L.append("(* `self.quiet == n or category == 'missingFile'` *)")
    L.append(f"Definition thr_obsolete_file_shown : nat := {f['thr']['obsolete_file_shown']}.")
    L.append("(* `category == c and self.quiet < n` *)")
    L.append(f"Definition thr_missingEntity : nat := {f['thr']['missingEntity_lt']}.")
    L.append(f"Definition thr_obsoleteEntity : nat := {f['thr']['obsoleteEntity_lt']}.")
    L.append(f"Definition thr_error : nat := {f['thr']['error_lt']}.")
    L.append(f"Definition thr_warning : nat := {f['thr']['warning_lt']}.")
    L.append("")
    L.append("(* keys of the per-locale counter dict, in the order of the dict literal *)")
    L.append("Definition summary_keys : list (list N) := [\n  " +
             ";\n  ".join(f"{coq_str(k)} (* {k} *)" for k in f["keys"]) + "].")
    L.append(f"Definition summary_suffix : list N := {coq_str(f['suffix'])}.  (* category + {f['suffix']!r} *)")
    L.append(f"Definition stats_errors_key : list N := {coq_str(f['errors_key'])}.  (* {f['errors_key']!r} *)")
    L.append("")
    L.append("(* `rv = a if not return_zero and observers.error else b` *)")
    L.append(f"Definition exit_error : Z := {f['exit_error']}%Z.")
    L.append(f"Definition exit_ok : Z := {f['exit_ok']}%Z.")
    sm = f["summaries"]
    L.append("(* ObserverList.serializeSummaries: the rows shown (in this order), the width of")
    L.append("   the row label and of a cell, the keys summed into the total of the percent line")
    L.append("   and the key of its numerator *)")
    L.append("Definition display_keys : list (list N) := [\n  " +
             ";\n  ".join(f"{coq_str(k)} (* {k} *)" for k in sm["dkeys"]) + "].")
    L.append(f"Definition lead_width : nat := {sm['lead_w']}.")
    L.append(f"Definition cell_width : nat := {sm['cell_w']}.")
    L.append("Definition rate_keys : list (list N) := [\n  " +
             ";\n  ".join(f"{coq_str(k)} (* {k} *)" for k in sm["rkeys"]) + "].")
    L.append(f"Definition rate_key : list N := {coq_str(sm['rate_key'])}.  (* {sm['rate_key']!r} *)")
    L.append(f"Definition rate_suffix : list N := {coq_str('% of entries changed')}.")
    L.append("")
    return [("ObserverFacts.v", "\n".join(L))]
