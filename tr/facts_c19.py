"""Facts for the lint model (property C19): the parser dispatch table of
compare_locales/parser/__init__.py (`__constructors`: regular expression ->
parser instance), in table order, and the shape of getParser / hasParser /
L10nLinter.lint the hand-written model relies on."""
import ast
import inspect
import textwrap

from factlib import HEADER

NAME = "c19"


def _table():
    from compare_locales import parser
    table = parser.__dict__.get("__constructors")
    if not isinstance(table, list) or not table:
        raise ValueError("parser.__constructors is not a non-empty list: %r" % (table,))
    out = []
    for item in table:
        if (not isinstance(item, tuple) or len(item) != 2 or not isinstance(item[0], str)
                or not isinstance(item[1], parser.Parser)):
            raise ValueError("parser.__constructors entry of unexpected shape: %r" % (item,))
        out.append((item[0], type(item[1]).__name__))
    return out


def _check_code_shapes():
    from compare_locales import parser
    from compare_locales.lint import linter
    src = inspect.getsource(parser.getParser)
    tree = ast.parse(textwrap.dedent(src))
    fors = [n for n in ast.walk(tree) if isinstance(n, ast.For)]
    if not fors or ast.unparse(fors[0].iter) != "__constructors":
        raise ValueError("getParser: first loop is not over __constructors")
    body = fors[0].body
    if (len(body) != 1 or not isinstance(body[0], ast.If)
            or ast.unparse(body[0].test) != "re.search(item[0], path)"
            or ast.unparse(body[0].body[0]) != "return item[1]"):
        raise ValueError("getParser: dispatch is not `if re.search(item[0], path): return item[1]`")
    if 'raise UserWarning("Cannot find Parser")' not in src:
        raise ValueError("getParser: no UserWarning at the end")
    src = inspect.getsource(parser.hasParser)
    for piece in ("return bool(getParser(path))", "except UserWarning", "return False"):
        if piece not in src:
            raise ValueError("hasParser: %r not found" % piece)
    src = inspect.getsource(linter.L10nLinter.lint)
    for piece in ("if not parser.hasParser(path):", "continue",
                  "ref, extra_tests = get_reference_and_tests(path)",
                  "results.extend(self.lint_file(path, ref, extra_tests))"):
        if piece not in src:
            raise ValueError("L10nLinter.lint: %r not found" % piece)


def regexes():
    return {"c19_disp%d" % i: (pat, 0) for i, (pat, _) in enumerate(_table())}


def generate():
    _check_code_shapes()
    table = _table()
    lines = [HEADER, "From Coq Require Import NArith List.",
             "From CL Require Import Regex.Rx Generated.RxC19.", "Import ListNotations.", "",
             "(* compare_locales/parser/__init__.py __constructors, in order: " +
             ", ".join("%s" % cls for _, cls in table) + " *)",
             "Definition parser_dispatch : list rx := [" +
             "; ".join("rx_c19_disp%d" % i for i in range(len(table))) + "].", ""]
    return [("C19Facts.v", "\n".join(lines))]
