"""Facts for the parser models: every regular expression of compare_locales/parser."""
from factlib import inline_patterns

NAME = "parser"


def regexes():
    """name -> (pattern text, flags).  Everything the parser models refer to."""
    from compare_locales import parser
    from compare_locales.parser import base, properties, dtd, ini, defines, po
    R = {}

    def add(name, obj):
        if isinstance(obj, tuple):
            R[name] = obj
        else:
            R[name] = (obj.pattern, obj.flags)

    add("ws_base", base.Parser.reWhitespace)
    (nl,) = inline_patterns(base.Parser.Context.linecol)
    add("nl_linecol", nl)
    add("re_br", base.Entry.re_br)
    add("re_sgml", base.Entry.re_sgml)
    pp = properties.PropertiesParser()
    add("props_key", pp.reKey)
    add("props_comment", pp.reComment)
    add("props_ws", pp.reWhitespace)
    add("props_escaped_end", pp._escapedEnd)
    add("props_trailing_ws", pp._trailingWS)
    add("props_escape", properties.PropertiesEntityMixin.escape)
    dp = dtd.DTDParser()
    add("dtd_key", dp.reKey)
    add("dtd_header", dp.reHeader)
    add("dtd_comment", dp.reComment)
    add("dtd_pe", dp.rePE)
    add("dtd_ws", dp.reWhitespace)
    ip = ini.IniParser()
    add("ini_comment", ip.reComment)
    add("ini_section", ip.reSection)
    add("ini_key", ip.reKey)
    add("ini_ws", ip.reWhitespace)
    fp = defines.DefinesParser()
    add("inc_ws", fp.reWhitespace)
    add("inc_comment", fp.reComment)
    add("inc_key", fp.reKey)
    add("inc_pi", fp.rePI)
    op = po.PoParser()
    add("po_key", op.reKey)
    add("po_value", op.reValue)
    add("po_comment", op.reComment)
    add("po_listitem", op.reListItem)
    add("po_ws", op.reWhitespace)
    from compare_locales.parser import fluent
    lead, trail = inline_patterns(fluent.FluentParser.walk)
    add("ftl_lead", lead)
    add("ftl_trail", trail)
    return R


def generate():
    return []
