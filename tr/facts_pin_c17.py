"""Pins the source (AST digest) of the functions the hand-written C17 model mirrors.  A change to any
of them breaks this obligation: the model has to be re-validated against the new code."""
import json
import os

import factlib

NAME = "pin_c17"


def regexes():
    return {}


def generate():
    pins = json.load(open(os.path.join(os.path.dirname(os.path.abspath(__file__)), "pins_c17.json")))
    factlib.check_pins(pins)
    return []
