"""Facts for C05 (comparison and linting always produce a report).

Read from the source with `ast` (fail closed: every shape that the model mirrors
is checked and the plugin raises when it is not what is expected):

  * the `mochibake` regex of checks/base.py and the one yield of Checker.check
    (severity, position expression `EntityPos(m.start())`, message f-string, category,
    the loop `for m in mochibake.finditer(l10nEnt.all)`);
  * the keyword arguments of open() in Parser.readFile (errors="replace",
    newline=None, encoding=self.encoding) and the error-handler argument of the
    decoder call in Parser.readContents;
  * the message template of the formatting branch of ContentComparer.compare
    ("%s at line %d, column %d for %s" % (msg, line, col, refent.key)) and the
    position resolution in front of it (EntityPos -> position, else value_position),
    the same resolution in EntityLinter.lint_value and the keys of its result dict;
  * which statements of compare / add / lint_file are guarded by which `except`
    clause, and what the handler does (notify "error" with str(e), return);
  * the exception class names caught around minidom.parseString in
    AndroidParser.walk and around the sax parses in DTDChecker.check.
"""
import ast
import inspect
import textwrap

from factlib import HEADER

NAME = "c05"


def regexes():
    from compare_locales.checks import base
    return {"c05_mochibake": (base.mochibake.pattern, base.mochibake.flags)}


# ------------------------------------------------------------------ helpers ---
def cstr(s):
    if s == "":
        return "(@nil N)"
    return "[" + "; ".join(str(ord(c)) for c in s) + "]%N"


def cbool(b):
    return "true" if b else "false"


def func_tree(func):
    return ast.parse(textwrap.dedent(inspect.getsource(func))).body[0]


def const(node, what):
    if not (isinstance(node, ast.Constant) and isinstance(node.value, str)):
        raise ValueError(f"{what}: expected a string literal, got {ast.dump(node)}")
    return node.value


def tpl_coq(pieces):
    return "[" + "; ".join(f"inl {cstr(v)}" if k == "lit" else f"inr {v}" for k, v in pieces) + "]"


def parents(tree):
    par = {}
    for n in ast.walk(tree):
        for c in ast.iter_child_nodes(n):
            par[c] = n
    return par


def find_stmt(tree, src, what):
    """the unique statement of the function whose source text is `src`"""
    hits = [n for n in ast.walk(tree) if isinstance(n, ast.stmt) and ast.unparse(n) == src]
    if len(hits) != 1:
        raise ValueError(f"{what}: expected exactly one statement {src!r}, found {len(hits)}")
    return hits[0]


def handler_names(h, what):
    if h.type is None:
        return ["BaseException"]
    if isinstance(h.type, ast.Tuple):
        return [ast.unparse(e) for e in h.type.elts]
    return [ast.unparse(h.type)]


def guard_of(tree, par, stmt, what):
    """-> (caught class names, handler kind) of the innermost try whose BODY holds stmt,
    or ([], 'none') when the statement is not inside any try body of the function"""
    n = stmt
    while n in par:
        p = par[n]
        if isinstance(p, ast.Try) and any(n is b for b in p.body):
            names, kinds = [], set()
            for h in p.handlers:
                names += handler_names(h, what)
                kinds.add(handler_kind(h))
            if len(kinds) != 1:
                raise ValueError(f"{what}: handlers of different kinds")
            return names, kinds.pop()
        n = p
    return [], "none"


def handler_kind(h):
    """'report' : self.observers.notify("error", <file>, str(<e>)); return
       'junk'   : yield <Junk>(...); return
       other shapes are returned as their source text (the caller decides)"""
    body = h.body
    if (len(body) == 2 and isinstance(body[1], ast.Return) and body[1].value is None
            and isinstance(body[0], ast.Expr)):
        e = body[0].value
        if (isinstance(e, ast.Call) and ast.unparse(e.func) == "self.observers.notify"
                and len(e.args) == 3 and isinstance(e.args[0], ast.Constant) and e.args[0].value == "error"
                and h.name and ast.unparse(e.args[2]) == f"str({h.name})"):
            return "report"
        if isinstance(e, ast.Yield) and isinstance(e.value, ast.Call):
            return "junk:" + ast.unparse(e.value.func)
    return "other:" + " ; ".join(ast.unparse(s) for s in body)


def catches_everything(names):
    return "Exception" in names or "BaseException" in names


def percent_template(text, nargs, what):
    """a %-format string with only %s / %d directives -> pieces (('lit', s) | ('arg', i)), kinds"""
    out, kinds, i, arg, lit = [], [], 0, 0, ""
    while i < len(text):
        c = text[i]
        if c != "%":
            lit += c
            i += 1
            continue
        if i + 1 >= len(text):
            raise ValueError(f"{what}: dangling %")
        d = text[i + 1]
        if d == "%":
            lit += "%"
        elif d in "sd":
            if lit:
                out.append(("lit", lit))
                lit = ""
            out.append(("arg", arg))
            kinds.append(d)
            arg += 1
        else:
            raise ValueError(f"{what}: unsupported directive %{d}")
        i += 2
    if lit:
        out.append(("lit", lit))
    if arg != nargs:
        raise ValueError(f"{what}: {arg} directives for {nargs} arguments")
    return out, kinds


def check_resolution(tree, entity, what):
    """the position resolution in front of the formatting:
         if isinstance(pos, <EntityPos>): line, col = <entity>.position(pos)
         else:                            line, col = <entity>.value_position(pos)"""
    ifs = [n for n in ast.walk(tree) if isinstance(n, ast.If) and ast.unparse(n.test).startswith("isinstance(pos, ")]
    if len(ifs) != 1:
        raise ValueError(f"{what}: expected one isinstance(pos, ...) test")
    n = ifs[0]
    cls = ast.unparse(n.test.args[1])
    if cls not in ("EntityPos", "checks.EntityPos"):
        raise ValueError(f"{what}: isinstance against {cls}")
    if len(n.body) != 1 or len(n.orelse) != 1:
        raise ValueError(f"{what}: resolution branches")
    a, b = ast.unparse(n.body[0]), ast.unparse(n.orelse[0])
    targets = {a.split(" = ")[0], b.split(" = ")[0]}
    if len(targets) != 1:
        raise ValueError(f"{what}: different targets {targets}")
    t = targets.pop()
    if a != f"{t} = {entity}.position(pos)" or b != f"{t} = {entity}.value_position(pos)":
        raise ValueError(f"{what}: resolution is {a!r} / {b!r}")
    return t


# ----------------------------------------------------------------- generate ---
def generate():
    from compare_locales.checks import base, dtd
    from compare_locales.compare import content
    from compare_locales.lint import linter
    from compare_locales.parser import base as pbase, android as pandroid
    L = [HEADER, "From Coq Require Import NArith List.", "From CL Require Import Base.Str.",
         "Import ListNotations.", "",
         "(* a message template: literal pieces and argument indices *)",
         "Definition c05_tpl := list (str + nat).", ""]

    # ---- checks/base.py Checker.check ------------------------------------------
    t = func_tree(base.Checker.check)
    ys = [n.value for n in ast.walk(t) if isinstance(n, ast.Yield)]
    if len(ys) != 1 or not isinstance(ys[0], ast.Tuple) or len(ys[0].elts) != 4:
        raise ValueError("Checker.check: expected one 4-tuple yield")
    sev, pos, msg, cat = ys[0].elts
    if const(sev, "Checker.check severity") not in ("warning", "error"):
        raise ValueError("Checker.check: severity")
    if ast.unparse(pos) != "EntityPos(m.start())":
        raise ValueError("Checker.check: position is " + ast.unparse(pos))
    fors = [n for n in ast.walk(t) if isinstance(n, ast.For)]
    if len(fors) != 1 or ast.unparse(fors[0].iter) != "mochibake.finditer(l10nEnt.all)" \
            or ast.unparse(fors[0].target) != "m":
        raise ValueError("Checker.check: loop is not `for m in mochibake.finditer(l10nEnt.all)`")
    if not isinstance(msg, ast.JoinedStr):
        raise ValueError("Checker.check: message is not an f-string")
    pieces = []
    for v in msg.values:
        if isinstance(v, ast.Constant):
            pieces.append(("lit", v.value))
        elif (isinstance(v, ast.FormattedValue) and v.conversion == -1 and v.format_spec is None
              and ast.unparse(v.value) == "l10nEnt.key"):
            pieces.append(("arg", 0))
        else:
            raise ValueError("Checker.check: message piece " + ast.dump(v))
    if not issubclass(base.EntityPos, int):
        raise ValueError("EntityPos is not an int subclass")
    L.append("(* Checker.check: yield (severity, EntityPos(m.start()), message(key), category) *)")
    L.append(f"Definition c05_enc_is_error : bool := {cbool(sev.value == 'error')}.")
    L.append(f"Definition c05_enc_msg : c05_tpl := {tpl_coq(pieces)}.")
    L.append(f"Definition c05_enc_cat : str := {cstr(const(cat, 'category'))}.")
    if len(base.mochibake.pattern) != 1:
        raise ValueError("mochibake is not a single literal character")
    L.append(f"Definition c05_fffd : N := {ord(base.mochibake.pattern)}%N.")
    L.append("")

    # ---- parser/base.py readFile / readContents --------------------------------
    t = func_tree(pbase.Parser.readFile)
    opens = [n for n in ast.walk(t) if isinstance(n, ast.Call) and ast.unparse(n.func) == "open"]
    if len(opens) != 1:
        raise ValueError("readFile: expected one open() call")
    kw = {k.arg: k.value for k in opens[0].keywords}
    if set(kw) != {"encoding", "errors", "newline"} or len(opens[0].args) != 1:
        raise ValueError(f"readFile: open() arguments {sorted(kw)}")
    if ast.unparse(kw["encoding"]) != "self.encoding":
        raise ValueError("readFile: encoding argument")
    if not (isinstance(kw["newline"], ast.Constant) and kw["newline"].value in (None, "")):
        raise ValueError("readFile: newline argument " + ast.unparse(kw["newline"]))
    L.append("(* Parser.readFile: open(file, encoding=self.encoding, errors=..., newline=...) *)")
    L.append(f"Definition c05_open_errors : str := {cstr(const(kw['errors'], 'open errors'))}.")
    L.append(f"Definition c05_open_universal_newlines : bool := {cbool(kw['newline'].value is None)}.")
    t = func_tree(pbase.Parser.readContents)
    calls = [n for n in ast.walk(t) if isinstance(n, ast.Call)
             and ast.unparse(n.func) == "codecs.getdecoder(self.encoding)"]
    if len(calls) != 1 or len(calls[0].args) != 2:
        raise ValueError("readContents: decoder call")
    L.append(f"Definition c05_decode_errors : str := {cstr(const(calls[0].args[1], 'decoder errors'))}.")
    init = func_tree(pbase.Parser.__init__)
    encs = [n for n in ast.walk(init) if isinstance(n, ast.Assign) and ast.unparse(n.targets[0]) == "self.encoding"]
    if len(encs) != 1:
        raise ValueError("Parser.__init__: self.encoding assignment")
    L.append(f"Definition c05_default_encoding : str := {cstr(const(encs[0].value, 'default encoding'))}.")
    L.append(f"Definition c05_s_replace : str := {cstr('replace')}.")
    L.append("")

    # ---- compare/content.py: formatting branch -----------------------------------
    t = func_tree(content.ContentComparer.compare)
    par = parents(t)
    tgt = check_resolution(t, "l10nent", "compare")
    if tgt != "line, col":
        raise ValueError("compare: resolution target " + tgt)
    mods = [n for n in ast.walk(t) if isinstance(n, ast.BinOp) and isinstance(n.op, ast.Mod)
            and isinstance(n.left, ast.Constant) and isinstance(n.left.value, str)]
    if len(mods) != 1:
        raise ValueError("compare: expected one %-formatted message")
    args = [ast.unparse(a) for a in mods[0].right.elts] if isinstance(mods[0].right, ast.Tuple) else None
    if args != ["msg", "line", "col", "refent.key"]:
        raise ValueError(f"compare: format arguments {args}")
    pieces, kinds = percent_template(mods[0].left.value, 4, "compare message")
    if kinds != ["s", "d", "d", "s"]:
        raise ValueError(f"compare: directives {kinds}")
    call = par[mods[0]]
    if not (isinstance(call, ast.Call) and ast.unparse(call.func) == "self.observers.notify"
            and [ast.unparse(a) for a in call.args[:2]] == ["tp", "l10n"]):
        raise ValueError("compare: the message is not passed to self.observers.notify(tp, l10n, ...)")
    loop = [n for n in ast.walk(t) if isinstance(n, ast.For)
            and ast.unparse(n.iter) == "checker.check(refent, l10nent)"]
    if len(loop) != 1 or ast.unparse(loop[0].target) not in ("(tp, pos, msg, cat)", "tp, pos, msg, cat"):
        raise ValueError("compare: check loop")
    L.append("(* compare: notify(tp, l10n, TEMPLATE % (msg, line, col, refent.key)); arguments 0..3 *)")
    L.append(f"Definition c05_fmt : c05_tpl := {tpl_coq(pieces)}.")
    L.append("")

    # ---- compare / add / lint_file: what is guarded ------------------------------
    def guard(tree, par_, src, what):
        names, kind = guard_of(tree, par_, find_stmt(tree, src, what), what)
        if names and kind != "report":
            raise ValueError(f"{what}: handler of {src!r} is {kind}")
        return catches_everything(names), names

    L.append("(* which steps sit in a try body whose handler reports an error and returns *)")
    names, _ = guard_of(t, par, find_stmt(t, "p = parser.getParser(ref_file.file)", "compare"), "compare")
    if names != ["UserWarning"]:
        raise ValueError(f"compare: getParser guard {names}")
    rows = []
    for label, tree_, src in (
            ("compare_read_ref", t, "p.readFile(ref_file)"),
            ("compare_parse_ref", t, "ref_entities = p.parse()"),
            ("compare_read_l10n", t, "p.readFile(l10n)"),
            ("compare_parse_l10n", t, "l10n_entities = p.parse()")):
        g, names = guard(tree_, par, src, "compare")
        rows.append((label, g, names))
    ta = func_tree(content.ContentComparer.add)
    para = parents(ta)
    for label, src in (("add_read", "p.readFile(f)"), ("add_parse", "entities = p.parse()")):
        g, names = guard(ta, para, src, "add")
        rows.append((label, g, names))
    tl = func_tree(linter.L10nLinter.lint_file)
    parl = parents(tl)
    for label, src in (("lint_read_ref", "file_parser.readFile(ref)"), ("lint_parse_ref", "reference = file_parser.parse()"),
                       ("lint_read", "file_parser.readFile(path)"), ("lint_parse", "current = file_parser.parse()")):
        g, names = guard(tl, parl, src, "lint_file")
        rows.append((label, g, names))
    for label, g, names in rows:
        L.append(f"Definition c05_guarded_{label} : bool := {cbool(g)}.   (* caught: {', '.join(names) or 'nothing'} *)")
    # the order of the steps the skeleton mirrors
    order = [find_stmt(t, s, "compare").lineno for s in
             ("p = parser.getParser(ref_file.file)", "p.readFile(ref_file)", "ref_entities = p.parse()",
              "p.readFile(l10n)", "l10n_entities = p.parse()")]
    if order != sorted(order):
        raise ValueError("compare: steps are not in the modelled order")
    L.append("")

    # ---- lint/linter.py lint_value -------------------------------------------------
    tv = func_tree(linter.EntityLinter.lint_value)
    tgt = check_resolution(tv, "current_entity", "lint_value")
    if tgt != "lineno, col":
        raise ValueError("lint_value: resolution target " + tgt)
    dicts = [n for n in ast.walk(tv) if isinstance(n, ast.Dict)]
    if len(dicts) != 1:
        raise ValueError("lint_value: result dict")
    d = {const(k, "lint key"): ast.unparse(v) for k, v in zip(dicts[0].keys, dicts[0].values)}
    if d != {"lineno": "lineno", "column": "col", "level": "tp", "message": "msg"}:
        raise ValueError(f"lint_value: result dict {d}")
    L.append("(* lint_value yields {lineno: line, column: col, level: tp, message: msg}: checked *)")
    L.append("")

    # ---- exception classes caught around the XML libraries ---------------------------
    tw = func_tree(pandroid.AndroidParser.walk)
    parw = parents(tw)
    names, kind = guard_of(tw, parw, find_stmt(tw, "doc = minidom.parseString(contents.encode('utf-8'))",
                                               "AndroidParser.walk"), "AndroidParser.walk")
    if kind != "junk:XMLJunk":
        raise ValueError("AndroidParser.walk: handler is " + kind)
    L.append("(* AndroidParser.walk: except <names>: yield XMLJunk(contents); return *)")
    L.append("Definition c05_android_caught : list str := [" + "; ".join(cstr(n) for n in names) + "].")
    L.append(f"Definition c05_android_catches_all : bool := {cbool(catches_everything(names))}.")
    # spans of Android entries: what `skips.sort(key=lambda s: s.span[0])` compares
    src = inspect.getsource(pandroid)
    if ".span" in src.replace("# most span", ""):
        raise ValueError("parser/android.py mentions .span: spans may no longer be the constructor's")

    def super_init_args(cls, what):
        ti = func_tree(cls.__init__)
        cs = [n for n in ast.walk(ti) if isinstance(n, ast.Call) and ast.unparse(n.func) == "super().__init__"]
        if len(cs) != 1:
            raise ValueError(f"{what}: super().__init__ call")
        return [ast.unparse(a) for a in cs[0].args]
    a = super_init_args(pandroid.AndroidEntity, "AndroidEntity")
    if len(a) != 6 or a[3] != "(None, None)" or pandroid.AndroidEntity.__mro__[1] is not pbase.Entity:
        raise ValueError(f"AndroidEntity: span argument {a}")
    j = super_init_args(pandroid.XMLJunk, "XMLJunk")
    if len(j) != 2 or j[1] != "(0, 0)" or pandroid.XMLJunk.__mro__[1] is not pbase.Junk:
        raise ValueError(f"XMLJunk: span argument {j}")
    tm = func_tree(content.ContentComparer.merge)
    sorts = [n for n in ast.walk(tm) if isinstance(n, ast.Call) and ast.unparse(n.func) == "skips.sort"]
    if len(sorts) != 1 or ast.unparse(sorts[0]) != "skips.sort(key=lambda s: s.span[0])":
        raise ValueError("merge: skips.sort call")
    g = guard_of(tm, parents(tm), [n for n in ast.walk(tm) if isinstance(n, ast.Expr) and n.value is sorts[0]][0],
                 "merge")
    if g[1] != "none":
        raise ValueError("merge: skips.sort is guarded")
    L.append("(* the sort key `s.span[0]` of the entries compare() puts into `skips` for strings.xml:")
    L.append("   AndroidEntity passes (None, None) as its span, XMLJunk (0, 0) *)")
    L.append("Definition c05_android_entity_key : option nat := None.")
    L.append("Definition c05_android_junk_key : option nat := Some 0.")
    L.append("")
    td = func_tree(dtd.DTDChecker.check)
    tries = [n for n in ast.walk(td) if isinstance(n, ast.Try)]
    tries.sort(key=lambda n: n.lineno)
    if len(tries) != 2:
        raise ValueError("DTDChecker.check: expected two try blocks")
    caught = []
    for n in tries:
        if not all(isinstance(s, ast.Expr) and ast.unparse(s.value.func) in
                   ("parser.parse", "parser.setContentHandler") for s in n.body):
            raise ValueError("DTDChecker.check: try body is not only sax parses")
        for h in n.handlers:
            caught += handler_names(h, "DTDChecker.check")
            if not any(isinstance(x, ast.Yield) for s in h.body for x in ast.walk(s)):
                raise ValueError("DTDChecker.check: handler does not yield a result")
    L.append("(* DTDChecker.check: the two sax parses; each handler yields a check result *)")
    L.append("Definition c05_dtd_caught : list str := [" + "; ".join(cstr(n) for n in caught) + "].")
    L.append("")
    return [("C05Facts.v", "\n".join(L))]
