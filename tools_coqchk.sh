#!/bin/bash
# tools_coqchk.sh: re-check every compiled property file (and all it depends on) with Coq's independent
# checker and record the context summary (axioms, type-in-type, unsafe fixpoints, assumed positivity).
# Run after ./setup.sh; takes several minutes.  Output: coqchk_report.txt
cd /verif/coq || exit 2
mods=$(ls Properties/C*.v | sed 's|Properties/\(C[0-9]*\)\.v|CL.Properties.\1|')
( date -u; coqc --version | head -1; echo "modules: $mods"; timeout 7200 coqchk -silent -o -Q . CL $mods 2>&1 | tail -40 ) > ../coqchk_report.txt
tail -20 ../coqchk_report.txt
