#!/venv/bin/python
"""Writes seeded/INDEX.md from seeded/*/meta.json (which property, what it needs, which check catches it)."""
import glob, json, os
rows = []
for d in sorted(glob.glob("/verif/seeded/*/")):
    mp = os.path.join(d, "meta.json")
    if not os.path.exists(mp):
        continue
    m = json.load(open(mp))
    rows.append((os.path.basename(d.rstrip("/")), m.get("property", ""), m.get("summary", "").replace("\n", " ")[:200],
                 m.get("needs", "").replace("\n", " ")[:200], m.get("caught_by", "").replace("\n", " ")))
with open("/verif/seeded/INDEX.md", "w") as f:
    f.write("# Seeded changes and the checks that catch them\n\n"
            "Each directory holds patch.diff, demo.py, meta.json. All were re-verified in a fresh scratch worktree "
            "(tests pass, demo fails with / passes without the change). `caught_by` is what was observed when the "
            "checks were run against the mutated tree.\n\n| seed | property | change | needs | caught by |\n|---|---|---|---|---|\n")
    for r in rows:
        f.write("| " + " | ".join(x.replace("|", "/") for x in r) + " |\n")
print(len(rows), "seeds")
