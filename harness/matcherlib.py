"""Shared machinery of the C11 and C12 checks (path matcher): generators of
pattern pairs from the configuration grammar, environments and paths; running
the implementation; the implementation-only oracles.

A *side* is (pattern text, env dict as list of pairs, root or None).
A generated case carries what the generator knows by construction: the flat
atom list of each side, the resolved value of every variable, the fills.
"""
import os
import re
import sys

from harness import common
from harness.common import canon, ok, raised

sys.path.insert(0, os.path.join(common.VERIF, "tr"))
import rx2coq  # noqa: E402

# --------------------------------------------------------------------------
# implementation runners
# --------------------------------------------------------------------------
TAGS = dict(common.TAGS)
TAGS["RecursionError"] = 9        # unbounded recursion = the model's OutOfFuel


def impl_result(fn, conv=canon):
    try:
        return ok(conv(fn()))
    except RecursionError:
        return raised(9)
    except Exception as e:  # noqa
        code = TAGS.get(type(e).__name__)
        if code is None:
            # an exception the model has no tag for: never equal to a model answer
            return [2, canon(type(e).__name__)]
        return raised(code)


def mk(side):
    from compare_locales.paths.matcher import Matcher
    pat, env, root = side
    return Matcher(pat, env=dict(env), root=root)


def try_match(chk, side, path, what):
    """match for an oracle: an exception where the construction guarantees a match is a failure"""
    try:
        return True, mk(side).match(path)
    except Exception as e:  # noqa
        chk.fail(what + "-raised", {"side": side, "path": path}, repr(e))
        return False, None


def side_sx(side):
    pat, env, root = side
    return [canon(pat), [[canon(k), canon(v)] for k, v in env], [] if root is None else [canon(root)]]


def canon_dict(d):
    if d is None:
        return []
    return [[[canon(k), [] if v is None else [canon(v)]] for k, v in d.items()]]


def impl_match(side, path):
    return impl_result(lambda: mk(side).match(path), canon_dict)


def impl_sub(a, b, path):
    def go():
        return mk(a).sub(mk(b), path)
    return impl_result(go, lambda r: [] if r is None else [canon(r)])


def impl_prefix(side):
    return impl_result(lambda: mk(side).prefix)


def impl_str(side):
    return impl_result(lambda: str(mk(side)))


def canon_node(n):
    from compare_locales.paths import matcher as M
    if isinstance(n, M.Literal):
        return [0, canon(str(n))]
    if isinstance(n, M.AndroidLocale):
        return [2, int(n.repeat)]
    if isinstance(n, M.Variable):
        return [1, canon(n.name), int(n.repeat)]
    if isinstance(n, M.Starstar):
        return [4, n.number, canon(n.suffix)]
    if isinstance(n, M.Star):
        return [3, n.number]
    raise TypeError(type(n))


def impl_parse(pat):
    from compare_locales.paths.matcher import PatternParser

    def go():
        p = PatternParser().parse(pat)
        return [[canon_node(n) for n in p], [] if p.root is None else [canon(p.root)],
                p.prefix_length]
    return impl_result(go, lambda x: x)


def impl_regex(side):
    """structure of the regular expression the implementation compiles, read by
    CPython's own parser (tr/rx2coq.py), and the name -> group number table"""
    def go():
        m = mk(side)
        m._cache_regex()
        ast, groups = rx2coq.parse(m._cached_re.pattern, 0)
        if m._cached_re.flags & ~re.U:
            raise ValueError("unexpected flags")
        names = sorted(groups.items(), key=lambda kv: kv[1])
        return [rx2coq.to_sx(ast), [[canon(k), n] for k, n in names]]
    return impl_result(go, lambda x: x)


def impl_views(m_fn, path):
    """[str, prefix, match] of a constructed matcher (with_env / concat)"""
    try:
        m = m_fn()
    except RecursionError:
        return raised(9)
    except Exception as e:  # noqa
        code = TAGS.get(type(e).__name__)
        if code is None:
            return [2, canon(type(e).__name__)]
        return raised(code)
    return ok([impl_result(lambda: str(m)), impl_result(lambda: m.prefix),
               impl_result(lambda: m.match(path), canon_dict)])


def ascii_names_only(*texts):
    """the model declines (NotSupported) variable names that are not ASCII"""
    from compare_locales.paths.matcher import PATH_SPECIAL
    for t in texts:
        for m in PATH_SPECIAL.finditer(t):
            v = m.group("varname")
            if v and not v.isascii():
                return False
    return True


# --------------------------------------------------------------------------
# the configuration grammar
# --------------------------------------------------------------------------
LIT_SEGS = ["browser", "locales", "en-US", "l10n", "a", "b", "x", "y", "chrome", "res",
            "values", "f.ftl", "toolkit", "d", "e", "1", "2", "3"]
SPECIAL = list(".-_+()[]^$|?#~ ") + ["\\", "é", "あ", "\U0001F600", "-r", "b+", "s1"]
AFFIX = ["", "", "x-", ".ftl", "_", "-", ".", "a", ".properties", "y_", "-b", "+", "(", "$",
         ".ftl.ftl", "é"]
STAR_FILLS = ["", "foo", "a.b", "-", "_", "x", "f o", "é", "a-b_c", "\U0001F600", "q.ftl", "0"]
DIR_NAMES = ["d", "e", "1", "2", "x", "y", "sub", "a-b", "f.ftl"]

LOCALES = {  # locale -> android resource qualifier, written out by hand
    "de": "de", "en-US": "en-rUS", "sr-Latn": "b+sr+Latn", "he": "iw", "id-ID": "in-rID",
    "zh-Hant-TW": "b+zh+Hant+TW", "fr": "fr", "yi": "ji", "he-Latn": "b+iw+Latn", "min": "min",
    "che": "che", "pt-BR": "pt-rBR",
}


def rand_lit(rng):
    if rng.random() < 0.75:
        return rng.choice(LIT_SEGS)
    return "".join(rng.choice(SPECIAL + list("abxy019")) for _ in range(rng.randint(1, 4)))


# configuration roots with regex metacharacters (re.escape on the root matters)
META_ROOTS = ["/data/c++/strings", "/x/gecko-strings (copy)", "/r[1]", "/a?b", "/p$q", "/d.e+f", "/w|z", "/{n}x"]


class Env:
    """environment with, for every variable, its resolved value (None when the
    expansion is cut: unbound, self- or mutually-referential, wildcard value)"""

    def __init__(self):
        self.pairs = []          # (name, value text)
        self.resolved = {}       # name -> str | None

    def add(self, name, text, resolved):
        self.pairs.append((name, text))
        self.resolved[name] = resolved


def gen_env(rng, exotic):
    """-> Env.  `exotic` allows self/mutual references, wildcard values, odd names"""
    e = Env()
    loc = rng.choice(list(LOCALES))
    if rng.random() < 0.9:
        if rng.random() < 0.15:
            e.add("loc2", loc, loc)
            e.add("locale", "{loc2}", loc)
        else:
            e.add("locale", loc, loc)
    if rng.random() < 0.7:
        k = rng.random()
        if k < 0.4:
            e.add("l10n_base", "l10n", "l10n")
        elif k < 0.7:
            e.add("l10n_base", "/abs/l10n", "/abs/l10n")
        else:
            e.add("topdir", "/src", "/src")
            e.add("l10n_base", "{topdir}/l10n-central", "/src/l10n-central")
    if rng.random() < 0.6:
        v = rand_lit(rng)
        e.add("v", v, v)
    if rng.random() < 0.4:
        if "v" in e.resolved and rng.random() < 0.6:
            e.add("w", "{v}-n", e.resolved["v"] + "-n")
        elif "v" in e.resolved:
            e.add("w", "p{ v }{v}", "p" + e.resolved["v"] * 2)
        else:
            e.add("w", "ww", "ww")
    if rng.random() < 0.25:
        # a variable bound to the empty string is bound
        e.add("variant", "", "")
        if rng.random() < 0.4:
            e.add("nv", "{variant}x", "x")
    if exotic:
        k = rng.random()
        if k < 0.2:
            e.add("self", "{self}x", None)
        elif k < 0.4:
            e.add("m1", "a{m2}", None)
            e.add("m2", "b{m1}", None)
        elif k < 0.5:
            e.add("st", rng.choice(["*", "**/q", "q*", "{v}*"]), None)
        elif k < 0.6:
            e.add("s1", "zz", "zz")
        elif k < 0.65:
            e.add("1a", "one", "one")
        elif k < 0.7:
            e.add("android_locale", "nope", "nope")
        elif k < 0.75:
            e.add("deep", "{w}/{v}/{locale}", None if not all(
                e.resolved.get(x) is not None for x in ("w", "v", "locale")) else
                "/".join(e.resolved[x] for x in ("w", "v", "locale")))
        rng.shuffle(e.pairs)
    return e


# atoms: ("L", text) ("V", name, spelled) ("A",) ("S",) ("SS", suffix)
def atoms_text(atoms):
    out = []
    for a in atoms:
        if a[0] == "L":
            out.append(a[1])
        elif a[0] == "V":
            out.append(a[2])
        elif a[0] == "A":
            out.append("{android_locale}")
        elif a[0] == "S":
            out.append("*")
        else:
            out.append("**" + a[1])
    return "".join(out)


def render(atoms, env, fills):
    """the path a side denotes for given wildcard fills; None if some variable has no value"""
    out, i = [], 0
    for a in atoms:
        if a[0] == "L":
            out.append(a[1])
        elif a[0] == "V":
            v = env.resolved.get(a[1])
            if v is None:
                return None
            out.append(v)
        elif a[0] == "A":
            loc = env.resolved.get("locale")
            if loc is None:
                return None
            out.append(LOCALES[loc])
        else:
            if i >= len(fills):
                return None
            out.append(fills[i])
            i += 1
    return "".join(out)


def render_prefix(atoms, env):
    """text up to the first wildcard / the first variable without a value"""
    out = []
    for a in atoms:
        if a[0] == "L":
            out.append(a[1])
        elif a[0] == "V":
            v = env.resolved.get(a[1])
            if v is None:
                break
            out.append(v)
        elif a[0] == "A":
            loc = env.resolved.get("locale")
            if loc is None:
                break
            out.append(LOCALES[loc])
        else:
            break
    return "".join(out)


def spell(name, rng):
    return rng.choice(["{%s}", "{%s}", "{%s}", "{ %s }", "{%s }"]) % name


def var_segment(rng, names, first):
    """atoms of one segment made of a variable with optional literal affixes"""
    k = rng.random()
    if first and "l10n_base" in names and k < 0.5:
        return [("V", "l10n_base", spell("l10n_base", rng))]
    if k < 0.25:
        return [("L", "values-"), ("A",)]
    if k < 0.3:
        return [("A",)]
    name = rng.choice(names)
    seg = [("V", name, spell(name, rng))]
    if rng.random() < 0.3:
        seg.insert(0, ("L", rng.choice(["pre-", "x", "."])))
    if rng.random() < 0.2:
        seg.append(("L", rng.choice(["-suf", ".d", "_"])))
    return seg


def gen_side(rng, wild, names, stars_per_seg=1, lead_var=0.5):
    """segments of one side carrying the wildcard sequence `wild` (list of 'S' / 'SS')"""
    segs = []       # list of atom lists; an SS segment is [("SS", "/")] and carries its own slash
    if rng.random() < lead_var and names:
        segs.append(var_segment(rng, names, True))
    todo = list(wild)
    while todo or rng.random() < 0.35:
        k = rng.random()
        if todo and k < 0.55:
            w = todo.pop(0)
            if w == "SS":
                segs.append([("SS", "/")])
            else:
                seg = []
                pre, suf = rng.choice(AFFIX), rng.choice(AFFIX)
                if pre:
                    seg.append(("L", pre))
                seg.append(("S",))
                n = 1
                while n < stars_per_seg and todo and todo[0] == "S" and rng.random() < 0.7:
                    seg.append(("L", rng.choice(["-", "_", ".", "x"])))
                    seg.append(("S",))
                    todo.pop(0)
                    n += 1
                if suf:
                    seg.append(("L", suf))
                segs.append(seg)
        elif k < 0.8 or not names:
            segs.append([("L", rand_lit(rng))])
        else:
            segs.append(var_segment(rng, names, False))
        if len(segs) > 9 and not todo:
            break
    # a pattern must not end in a `**/` segment: give it a file part
    if not segs or segs[-1][0][0] == "SS":
        if rng.random() < 0.15 and segs:
            segs[-1] = [("SS", "")]
        else:
            segs.append([("L", rand_lit(rng))])
    atoms = []
    for i, seg in enumerate(segs):
        atoms.extend(seg)
        if i + 1 < len(segs) and seg[0][0] != "SS":
            atoms.append(("L", "/"))
    # merge adjacent literals (the parser produces one Literal per run)
    merged = []
    for a in atoms:
        if a[0] == "L" and merged and merged[-1][0] == "L":
            merged[-1] = ("L", merged[-1][1] + a[1])
        else:
            merged.append(a)
    return merged


def gen_fills(rng, atoms):
    """fills for the wildcards of `atoms`, sometimes containing the neighbouring literals"""
    fills = []
    for i, a in enumerate(atoms):
        if a[0] == "S":
            neigh = [x[1] for x in atoms[max(0, i - 1):i + 2] if x[0] == "L"]
            cands = list(STAR_FILLS)
            for t in neigh:
                t = t.replace("/", "")
                cands += [t, t + "x", "x" + t, t + t]
            fills.append(rng.choice(cands))
        elif a[0] == "SS":
            if a[1] == "":
                fills.append(rng.choice(["", "f", "d/f", "d/e/f.ftl"]))
                continue
            n = rng.choice([0, 0, 1, 1, 2, 3])
            dirs = [rng.choice(DIR_NAMES) for _ in range(n)]
            if n and rng.random() < 0.3:
                nxt = [x[1] for x in atoms[i + 1:i + 2] if x[0] == "L"]
                if nxt and nxt[0].strip("/"):
                    dirs[-1] = nxt[0].strip("/").split("/")[0] or dirs[-1]
            fills.append("".join(d + "/" for d in dirs))
    return fills


def break_path(rng, path):
    """deliberately non-matching (or differently matching) variants"""
    out = []
    if not path:
        return [("extended", "x")]
    j = rng.randrange(len(path) + 1)
    out.append(("extra-dir", path[:j] + "/q" + path[j:]))
    out.append(("sep-inside", path[:j] + "p/q" + path[j:]))
    out.append(("truncated", path[:rng.randrange(len(path))]))
    out.append(("extended", path + rng.choice(["x", "/x", "/", ".bak"])))
    out.append(("trailing-newline", path + "\n"))
    out.append(("newline-inside", path[:j] + "\n" + path[j:]))
    out.append(("leading", rng.choice(["x", "/", "./"]) + path))
    k = rng.sample(out, rng.choice([1, 2]))
    return k


_VAR = re.compile(r"{ *(\w+) *}")


def group_names(atoms, env):
    """names of the capture groups the pattern's regular expression would define
    (a variable's value contributes the variables it mentions, once per value)"""
    values = dict(env.pairs)

    def nested(name, seen):
        out = [name]
        if name in values and name not in seen:
            inner = []
            for m in _VAR.finditer(values[name]):
                if m.group(1) not in inner:
                    inner.append(m.group(1))
            for n in inner:
                out += nested(n, seen | {name})
        return out
    names, top = [], set()
    for a in atoms:
        if a[0] == "V" and a[1] not in top:
            top.add(a[1])
            names += nested(a[1], set())
        elif a[0] == "A" and "android_locale" not in top:
            top.add("android_locale")
            names.append("android_locale")
    return names


def reuses_nested_variable(atoms, env):
    """a variable used in the pattern and again inside another variable's value:
    the implementation then defines the same group name twice (re.error)"""
    g = group_names(atoms, env)
    return len(g) != len(set(g))


def in_grammar(atoms, env, max_ss=1):
    """the grammar of the property: literal segments, at most one star per
    segment with literal affixes, at most one `**`, variables bound to
    wildcard-free values"""
    stars_in_seg, nss = 0, 0
    for a in atoms:
        if a[0] == "L":
            if "/" in a[1]:
                stars_in_seg = 0
        elif a[0] == "S":
            stars_in_seg += 1
            if stars_in_seg > 1:
                return False
        elif a[0] == "SS":
            nss += 1
            stars_in_seg = 0
            if nss > max_ss:
                return False
        elif a[0] == "V" and reuses_nested_variable(atoms, env):
            return False
        elif a[0] == "V":
            if env.resolved.get(a[1]) is None:
                return False
        elif a[0] == "A":
            if env.resolved.get("locale") is None:
                return False
    return True


def star_adjacent_to_variable(atoms):
    """a variable inside a star's own segment: the affixes are then not literal"""
    seg = []
    for a in atoms + [("L", "/")]:
        if a[0] == "L" and "/" in a[1]:
            kinds = {x[0] for x in seg}
            if "S" in kinds and ({"V", "A"} & kinds):
                return True
            seg = []
        else:
            seg.append(a)
    return False


class Case:
    pass


def fix_empty_lead(atoms, env):
    """a leading variable bound to "" makes the root test look at an empty first
    segment; keep the expectation simple by giving such patterns a literal head"""
    if atoms and atoms[0][0] == "V" and env.resolved.get(atoms[0][1]) == "":
        return [("L", "z")] + atoms
    return atoms


def gen_case(rng, two_starstar=False, loose=False):
    """a pattern pair with the same wildcard sequence + environments"""
    c = Case()
    exotic = loose and rng.random() < 0.6
    c.enva, c.envb = gen_env(rng, exotic), gen_env(rng, exotic)
    if two_starstar:
        wild = ["SS", "SS"] + (["S"] if rng.random() < 0.7 else [])
    else:
        wild = []
        for _ in range(rng.choice([0, 1, 1, 2, 2, 3])):
            wild.append("S")
        if rng.random() < 0.45:
            wild.insert(rng.randrange(len(wild) + 1), "SS")
    sps = 2 if loose and rng.random() < 0.5 else 1
    na = [n for n in c.enva.resolved if n not in ("topdir", "loc2")]
    nb = [n for n in c.envb.resolved if n not in ("topdir", "loc2")]
    if loose and rng.random() < 0.3:
        na = na + ["unbound"]
    if loose and rng.random() < 0.3:
        nb = nb + ["free"]
    c.atoms_a = fix_empty_lead(gen_side(rng, wild, na, sps, lead_var=0.3), c.enva)
    c.atoms_b = fix_empty_lead(gen_side(rng, wild, nb, sps, lead_var=0.7), c.envb)
    roota = rng.choice([None] * 6 + ["/r", "/r/s", "/"] + META_ROOTS)
    rootb = rng.choice([None] * 6 + ["/l", "/abs"] + META_ROOTS[:3])
    c.a = (atoms_text(c.atoms_a), list(c.enva.pairs), roota)
    c.b = (atoms_text(c.atoms_b), list(c.envb.pairs), rootb)
    c.wild = [x for x in c.atoms_a if x[0] in ("S", "SS")]
    c.same_wild = [x for x in c.atoms_b if x[0] in ("S", "SS")] == c.wild
    mss = 2 if two_starstar else 1
    c.grammar = (in_grammar(c.atoms_a, c.enva, mss) and in_grammar(c.atoms_b, c.envb, mss) and c.same_wild
                 and not star_adjacent_to_variable(c.atoms_a)
                 and not star_adjacent_to_variable(c.atoms_b)
                 and not any(n in c.enva.resolved or n in c.envb.resolved
                             for n in ("s1", "1a", "st", "self", "m1", "android_locale")))
    # (a rooted pattern whose first node is a wildcard is relative to the root)
    c.grammar_but_two = c.grammar
    if two_starstar:
        c.grammar = False
        c.a, c.b = (c.a[0], c.a[1], None), (c.b[0], c.b[1], None)
    c.fills = gen_fills(rng, c.atoms_a)
    return c


def root_prefix(side, rendered):
    """the text the root contributes in front of a rendered pattern"""
    root = side[2]
    if root is None or rendered.startswith("/"):
        return ""
    return root.rstrip("/") + "/" if root != "/" else "//"


def root_prefix_atoms(side, atoms, env):
    """the root decision is taken on the first segment: a leading wildcard (and an empty
    pattern) is relative to the root, else the text of the first node decides"""
    if not atoms or atoms[0][0] in ("S", "SS"):
        first = ""
    else:
        first = render(atoms[:1], env, []) or ""
    return root_prefix(side, first)


def expected_path(c, which, fills):
    atoms, env, side = ((c.atoms_a, c.enva, c.a) if which == "a" else (c.atoms_b, c.envb, c.b))
    r = render(atoms, env, fills)
    if r is None:
        return None
    return root_prefix_atoms(side, atoms, env) + r


# --------------------------------------------------------------------------
# random (malformed) pattern texts
# --------------------------------------------------------------------------
TOKENS = ["*", "**", "**/", "/", "{", "}", "{v}", "{ v }", "{w}", "{locale}", "{android_locale}",
          "a", "b", "-", ".", "x", " ", "{v", "v}", "{}", "{ }", "{1a}", "{s1}", "\n", "é", "$",
          "{v}{v}", "(", "\\"]


def rand_pattern(rng):
    return "".join(rng.choice(TOKENS) for _ in range(rng.randint(0, 7)))


def rand_env(rng):
    out = []
    for name in rng.sample(["v", "w", "locale", "s1", "1a", "android_locale"], rng.randint(0, 3)):
        out.append((name, rng.choice(["x", "a/b", "", "{w}", "{v}", "*", "**/", "he-IL", "en",
                                      "{android_locale}", "{locale}", "a{v}b", "{locale}-{w}",
                                      rand_pattern(rng)])))
    return out


def rand_path(rng):
    return "".join(rng.choice(["a", "b", "x", "/", "-", ".", "\n", " ", "é", "he", "iw-rIL", "b+sr+Latn"])
                   for _ in range(rng.randint(0, 7)))


# --------------------------------------------------------------------------
# universal oracles (hold of every pattern whenever match succeeds)
# --------------------------------------------------------------------------
def wildcard_kinds(pat):
    """number -> 'S' | ('SS', suffix), by the implementation's parser (top level)"""
    from compare_locales.paths import matcher as M
    kinds = {}
    for n in M.PatternParser().parse(pat):
        if isinstance(n, M.Starstar):
            kinds[n.number] = ("SS", n.suffix)
        elif isinstance(n, M.Star):
            kinds[n.number] = "S"
    return kinds


def check_kinds(chk, side, path, d, tag):
    """a star never matches '/', a double star matches nothing or .+SUFFIX; only for
    patterns whose variables hold no wildcards of their own (group names would clash)"""
    kinds = wildcard_kinds(side[0])
    for n, kind in kinds.items():
        v = d.get("s%d" % n)
        if kind == "S":
            if v is None or "/" in v:
                chk.fail("star-matched-separator", {"side": side, "path": path, "tag": tag},
                         {"group": n, "value": v})
        else:
            suf = kind[1]
            if v not in (None, "") and not (v.endswith(suf) and len(v) > len(suf)):
                chk.fail("starstar-not-directories", {"side": side, "path": path, "tag": tag},
                         {"group": n, "value": v})


def check_prefix(chk, side, path, tag):
    try:
        p = mk(side).prefix
    except Exception:  # noqa
        return
    if not path.startswith(p):
        chk.fail("match-outside-prefix", {"side": side, "path": path, "tag": tag}, {"prefix": p})


# --------------------------------------------------------------------------
# stateful streams: derived matchers (with_env, copy with a root, concat)
# created AFTER their source was used.  Implementation-only oracle: history
# independence — every observation on the derived matcher equals the same
# observation on a matcher derived by the same chain from never-used objects.
# --------------------------------------------------------------------------
NESTED_BASES = [
    # (pattern, env pairs, root)
    ("{l}browser/**/*.ftl", [("l", "{l10n_base}/{locale}/"), ("l10n_base", "/src/l10n")], None),
    ("{l}browser/**", [("l", "{l10n_base}/{locale}/"), ("l10n_base", "l10n")], None),
    ("{l}toolkit/*.ftl", [("l", "{l10n_base}/{locale}/"), ("l10n_base", "/src/l10n"), ("locale", "de")], None),
    ("res/values-{android_locale}/strings.xml", [], None),
    ("{base}/res/values-{android_locale}/*.xml", [("base", "app")], None),
    ("res/values-{android_locale}/strings.xml", [("locale", "en-US")], None),
    ("{l10n_base}/{locale}/browser/*.ftl", [("l10n_base", "l10n"), ("locale", "de")], "/src/one"),
    ("{l10n_base}/{locale}/browser/{file}.ftl", [("l10n_base", "l10n"), ("locale", "de")], "/src/one"),
    ("{l10n_base}/{locale}/", [("l10n_base", "l10n"), ("locale", "de")], None),
    ("{w}/x/*", [("w", "{v}-n"), ("v", "q")], None),
]
CHAIN_LOCALES = ["de", "fr", "sr-Latn", "he", "pt-BR", "id-ID"]
TAILS = ["a.ftl", "x/a.ftl", "browser/a.ftl", "browser/x/y/a.ftl", "strings.xml", "toolkit/about.ftl",
         "browser/menu.ftl", "x/q", ""]


def gen_op(rng, names):
    k = rng.random()
    if k < 0.5:
        env = []
        for name in rng.sample(["locale", "l10n_base", "file", "v", "base", "unused"], rng.choice([1, 1, 2])):
            val = {"locale": rng.choice(CHAIN_LOCALES), "l10n_base": rng.choice(["/other/l10n", "l10n-x"]),
                   "file": "menu", "v": rng.choice(["q", "zz"]), "base": "lib", "unused": "u"}[name]
            env.append((name, val))
        if rng.random() < 0.1:
            env = []
        return ("with_env", env)
    if k < 0.75:
        return ("root", rng.choice(["/src/two", "/r", None] + META_ROOTS[:5]))
    return ("concat", rng.choice(["toolkit/about.ftl", "/**", "/sub/*.ftl", "x", "{locale}.ftl"]),
            rng.choice([[], [], [("locale", "fr")]]))


def derive(m, op):
    from compare_locales.paths.matcher import Matcher
    if op[0] == "with_env":
        return m.with_env(dict(op[1]))
    if op[0] == "root":
        return Matcher(m, root=op[1])
    return m.concat(Matcher(op[1], env=dict(op[2])))


def op_sx(op):
    if op[0] == "with_env":
        return [0, [[canon(k), canon(v)] for k, v in op[1]]]
    if op[0] == "root":
        return [1, [] if op[1] is None else [canon(op[1])]]
    return [2, canon(op[1]), [[canon(k), canon(v)] for k, v in op[2]]]


def use(m, paths, partner):
    """what a caller does with a matcher before deriving from it (fills its regex cache)"""
    for p in paths:
        try:
            m.match(p)
        except Exception:  # noqa
            pass
    for f in (lambda: m.prefix, lambda: str(m), lambda: m.sub(partner, paths[0]) if paths else None):
        try:
            f()
        except Exception:  # noqa
            pass


def build_chain(base, ops, used, paths, partner_side, stages=None):
    m = mk(base)
    partner = mk(partner_side)
    for op in ops:
        if used:
            use(m, paths, partner)
        if stages is not None:
            stages.append((m, observe(m, partner, paths)))
        m = derive(m, op)
    return m, partner


def observe(m, partner, paths):
    sub_c = lambda r: [] if r is None else [canon(r)]  # noqa: E731
    return [impl_result(lambda: str(m)), impl_result(lambda: m.prefix),
            [impl_result(lambda p=p: m.match(p), canon_dict) for p in paths],
            [impl_result(lambda p=p: m.sub(partner, p), sub_c) for p in paths],
            [impl_result(lambda p=p: partner.sub(m, p), sub_c) for p in paths]]


def chain_paths(rng, base, ops, partner_side):
    """paths around the expansions / prefixes of the chain's matchers, also for other locales"""
    pool = set()
    for loc in rng.sample(CHAIN_LOCALES, 2) + [None]:
        try:
            m = mk(base)
            stages = [m]
            for op in ops:
                if op[0] == "with_env" and loc is not None:
                    op = ("with_env", [(k, (loc if k == "locale" else v)) for k, v in op[1]])
                m = derive(m, op)
                stages.append(m)
            if loc is not None:
                stages.append(m.with_env({"locale": loc}))
        except Exception:  # noqa
            continue
        for st in stages:
            for f in (lambda: st.prefix, lambda: str(st)):
                try:
                    pre = f()
                except Exception:  # noqa
                    continue
                for t in rng.sample(TAILS, 3):
                    pool.add(pre + t)
                    if loc:
                        pool.add(pre + LOCALES.get(loc, loc) + "/" + t)
    pool = sorted(pool)
    rng.shuffle(pool)
    return pool[:8] or ["x"]


def root_shift(chk, case, base, ops, rooted, obs, paths):
    """a root only prefixes: the rooted matcher's expansion is root + "/" + the unrooted
    one's, and it matches root + "/" + p exactly when the unrooted matcher matches p"""
    root = base[2]
    for op in ops:
        if op[0] == "root" and op[1] is not None:
            root = op[1]
    if root is None:
        return
    try:
        plain = mk((base[0], base[1], None))
        for op in ops:
            if op[0] != "root":
                plain = derive(plain, op)
        s = str(plain)
    except Exception:  # noqa
        return
    if s.startswith("/") or obs[0][0] != 0:
        return
    pre = root.rstrip("/") + "/" if root != "/" else "//"
    if common.l2s(obs[0][1]) != pre + s:
        # the first node decides about the root, not the whole expansion
        return
    chk.hist("oracle_root_shift", "meta" if root in META_ROOTS else "plain")
    for p in [s] + [q for q in paths if not q.startswith("/")][:4]:
        try:
            a = plain.match(p)
        except Exception:  # noqa
            continue
        try:
            b = rooted.match(pre + p)
        except Exception as e:  # noqa
            b = repr(e)
        if a != b:
            chk.fail("root-not-a-plain-prefix", dict(case, root=root),
                     {"path": p, "unrooted": a, "rooted": b})
            return


def run_equality(chk, model, n):
    """Matcher.__eq__ / Pattern ==: pairs equal by construction and pairs that differ in
    exactly one node"""
    rng = chk.rng
    reqs, impl, desc = [], [], []

    def norm(atoms):
        out = []
        for a in atoms:
            a = ("V", a[1]) if a[0] == "V" else a
            if a[0] == "L" and out and out[-1][0] == "L":
                out[-1] = ("L", out[-1][1] + a[1])
            elif a != ("L", ""):
                out.append(a)
        return out

    for i in range(n):
        env = gen_env(rng, False)
        names = [x for x in env.resolved if x not in ("topdir", "loc2")] or ["v"]
        wild = [rng.choice(["S", "S", "SS"]) for _ in range(rng.choice([1, 1, 2]))]
        atoms = gen_side(rng, wild, names, lead_var=0.5)
        k = rng.random()
        other = list(atoms)
        kind = "same"
        if k < 0.2:
            kind = "respelled"
            other = [("V", a[1], spell(a[1], rng)) if a[0] == "V" else a for a in atoms]
        elif k < 0.45:
            kind = "star-vs-starstar-end"
            base = [a for a in atoms if a[0] not in ("S", "SS")] or [("L", "dir")]
            if base[-1][0] == "L" and not base[-1][1].endswith("/"):
                base[-1] = ("L", base[-1][1] + "/")
            elif base[-1][0] != "L":
                base.append(("L", "/"))
            atoms, other = base + [("S",)], base + [("SS", "")]
        elif k < 0.6:
            kind = "star-vs-starstar-middle"
            base = [a for a in atoms if a[0] not in ("S", "SS")] or [("L", "dir")]
            atoms = [("L", "top/"), ("S",), ("L", "/")] + base
            other = [("L", "top/"), ("SS", "/")] + base
        elif k < 0.7:
            kind = "literal-vs-variable"
            atoms = atoms + [("L", "/locale")]
            other = other + [("L", "/"), ("V", "locale", "{locale}")]
        elif k < 0.8:
            kind = "android-vs-locale"
            atoms = atoms + [("L", "/"), ("A",)]
            other = other + [("L", "/"), ("V", "locale", "{locale}")]
        elif k < 0.9:
            kind = "star-moved"
            atoms = [("L", "a/"), ("S",), ("L", "/b/x")] + atoms
            other = [("L", "a/x/b/"), ("S",)] + other
        ra = rng.choice([None, None, "/r"])
        rb = ra if rng.random() < 0.85 else ("/other" if ra is None else None)
        ea = list(env.pairs)
        eb = list(ea)
        ek = rng.random()
        env_conflict = False
        if ek < 0.15 and eb:
            j = rng.randrange(len(eb))
            eb[j] = (eb[j][0], eb[j][1] + "x")
            env_conflict = True
        elif ek < 0.3:
            eb = eb + [("extra", "e")]
        elif ek < 0.4:
            eb = eb[1:]
        a = (atoms_text(atoms), ea, ra)
        b = (atoms_text(other), eb, rb)
        want = norm(atoms) == norm(other) and ra == rb and not env_conflict
        chk.count(("eq", a, b))
        chk.hist("equality", kind + ("=" if want else "!"))
        got = impl_result(lambda: mk(a) == mk(b), int)
        gotp = impl_result(lambda: (mk(a).pattern == mk(b).pattern) and not (mk(a).pattern != mk(b).pattern), int)
        desc.append(("eq", a, b))
        impl.append(got)
        reqs.append((12, side_sx(a) + side_sx(b)))
        if got != [0, int(want)]:
            chk.fail("matcher-equality-wrong", {"a": a, "b": b, "kind": kind},
                     {"got": got, "expected": want})
        wantp = norm(atoms) == norm(other) and ra == rb
        if gotp != [0, int(wantp)]:
            chk.fail("pattern-equality-wrong", {"a": a, "b": b, "kind": kind},
                     {"got": gotp, "expected": wantp})
    if model:
        outs = model.call(reqs)
        chk.correspond("EQUALITY", desc, impl, outs)


def run_stateful(chk, model, n, suite="STATEFUL"):
    rng = chk.rng
    reqs, impl, desc = [], [], []
    for i in range(n):
        if rng.random() < 0.6:
            base = rng.choice(NESTED_BASES)
        else:
            c = gen_case(rng)
            base = c.a
        partner_side = rng.choice([("/stage/{locale}/**", [], None), ("ref/**/*.ftl", [], None),
                                   ("out/*", [("locale", "fr")], None)])
        ops = [gen_op(rng, None) for _ in range(rng.choice([1, 1, 2, 3]))]
        if not ascii_names_only(base[0], *[v for _, v in base[1]]):
            continue
        paths = chain_paths(rng, base, ops, partner_side)
        case = {"base": base, "ops": ops, "partner": partner_side, "paths": paths}
        try:
            fresh, fp = build_chain(base, ops, False, paths, partner_side)
            fresh_err = None
        except Exception as e:  # noqa
            fresh, fresh_err = None, type(e).__name__
        stages = []
        try:
            usedm, up = build_chain(base, ops, True, paths, partner_side, stages)
            used_err = None
        except Exception as e:  # noqa
            usedm, used_err = None, type(e).__name__
        # aliasing: deriving from a matcher (and using what was derived) leaves the source
        # and every earlier sibling as they were
        if usedm is not None:
            use(usedm, paths, up)
            for k, (st, before) in enumerate(stages):
                after = observe(st, up, paths)
                if after != before:
                    names = ["str", "prefix", "match", "sub-to-partner", "sub-from-partner"]
                    what = [nm for nm, x, y in zip(names, before, after) if x != y]
                    chk.fail("matcher-aliasing", dict(case, stage=k),
                             {"changed": what, "before": before[:2], "after": after[:2]})
                    break
        chk.count(("stateful", base, tuple(map(repr, ops)), tuple(paths)))
        chk.hist("chain_ops", "+".join(op[0] for op in ops))
        if fresh is None or usedm is None:
            if fresh_err != used_err:
                chk.fail("matcher-history-dependence", case, {"fresh": fresh_err, "used": used_err})
            got = raised(TAGS.get(fresh_err, 99)) if fresh_err in TAGS else [2, canon(str(fresh_err))]
        else:
            a = observe(fresh, fp, paths)
            b = observe(usedm, up, paths)
            if a != b:
                names = ["str", "prefix", "match", "sub-to-partner", "sub-from-partner"]
                diff = {}
                for nm, x, y in zip(names, a, b):
                    if x != y:
                        if nm in ("str", "prefix"):
                            diff[nm] = {"fresh": x, "after-use": y}
                        else:
                            j = next(k for k in range(len(paths)) if x[k] != y[k])
                            diff[nm] = {"path": paths[j], "fresh": x[j], "after-use": y[j]}
                chk.fail("matcher-history-dependence", case, diff)
            # a derived matcher that has an expansion matches it and stays inside its prefix
            s, pre = b[0], b[1]
            if s[0] == 0 and pre[0] == 0:
                own = common.l2s(s[1])
                try:
                    d = usedm.match(own)
                    d0 = fresh.match(own)
                except Exception:  # noqa
                    d = d0 = None
                if d0 is not None and d is None:
                    chk.fail("derived-rejects-own-expansion", case, {"expansion": own})
                for p, mres in zip(paths, b[2]):
                    if mres[0] == 0 and mres[1] and not p.startswith(common.l2s(pre[1])):
                        chk.fail("match-outside-prefix", case, {"path": p, "prefix": common.l2s(pre[1])})
            got = ok(a)
            root_shift(chk, case, base, ops, fresh, a, paths)
        desc.append(case)
        impl.append(got)
        reqs.append((14, side_sx(base) + [[op_sx(o) for o in ops], [canon(p) for p in paths]]
                     + side_sx(partner_side)))
    if model:
        outs = model.call(reqs)
        chk.correspond(suite, desc, impl, outs)


# --------------------------------------------------------------------------
# patterns whose FIRST node is a wildcard: the prefix is the empty string
# --------------------------------------------------------------------------
WILD_FIRST = ["*", "*.ftl", "**", "*/foo", "**/foo/*", "*/{v}/**", "**/*.ftl", "*-x/{locale}/f", "*/*",
              "**/{v}", "*{v}", "**/x-*"]


def run_wild_first(chk, model, n):
    rng = chk.rng
    reqs, impl, desc = [], [], []
    for i in range(n):
        pat = rng.choice(WILD_FIRST) if i >= len(WILD_FIRST) else WILD_FIRST[i]
        if rng.random() < 0.3:
            pat = pat + rng.choice(["/more", ".x", "/{locale}"])
        env = [("v", rng.choice(["q", "a-b"])), ("locale", rng.choice(["de", "fr"]))]
        if rng.random() < 0.3:
            env = env[:1]
        root = rng.choice([None, None, "/r", "/src/one", "/data/c++/strings"])
        side = (pat, env, root)
        want_prefix = "" if root is None else root + "/"
        extra = [("unused", "u")] if rng.random() < 0.5 else [("v", "zz")]
        chk.count(("wild-first", side, tuple(extra)))
        chk.hist("wild_first", "rooted" if root else "unrooted")
        got = impl_prefix(side)
        copy = impl_result(lambda: mk(side).with_env(dict(extra)).prefix)
        desc += [("prefix", side), ("prefix-with_env", side, extra)]
        impl += [got, copy]
        sx = side_sx(side)
        reqs += [(4, sx), (4, [sx[0], sx[1] + [[canon(k), canon(v)] for k, v in extra if k not in dict(env)]
                               if extra[0][0] not in dict(env) else
                               [[canon(k), canon(dict(extra).get(k, v))] for k, v in env], sx[2]])]
        for what, g in (("prefix", got), ("prefix-of-with_env-copy", copy)):
            if g != [0, canon(want_prefix)]:
                chk.fail("wildcard-first-prefix-wrong", {"side": side, "extra_env": extra, "what": what},
                         {"got": g, "expected": want_prefix})
        # every matched path starts with the prefix
        fills = {"*": rng.choice(["a", "q.b", ""]), "**": rng.choice(["", "d/", "d/e/"])}
        path = pat.replace("**/", fills["**"]).replace("**", fills["**"] + "f").replace("*", fills["*"])
        for k, v in env:
            path = path.replace("{%s}" % k, v)
        path = want_prefix + path
        m = impl_match(side, path)
        desc.append(("match", side, path))
        impl.append(m)
        reqs.append((2, sx + [canon(path)]))
        if m[0] == 0 and m[1] and got[0] == 0 and not path.startswith(common.l2s(got[1])):
            chk.fail("match-outside-prefix", {"side": side, "path": path}, {"prefix": common.l2s(got[1])})
        if ("{locale}" not in pat or dict(env).get("locale")) and not re.search(r"\*\*(?!/|$)", pat):
            # a filled path under the root matches (no exception, no miss)
            if not (m[0] == 0 and m[1]):
                chk.fail("wildcard-first-filled-path-not-matched", {"side": side, "path": path}, {"got": m})
    if model:
        outs = model.call(reqs)
        chk.correspond("WILDCARD-FIRST", desc, impl, outs)


# --------------------------------------------------------------------------
# an unbound variable needs at least one character ("nothing but complete paths match")
# --------------------------------------------------------------------------
UNBOUND_SHAPES = ["l/{locale}/b", "{v}", "{d}/{f}", "a-{v}.ftl", "{base}/{locale}/x.ftl", "res/values-{v}/s.xml",
                  "{v}/", "/{v}", "x{v}y{w}z", "{bound}/{v}/f"]


def run_unbound_empty(chk, model, n):
    """patterns of literals, bound variables and UNBOUND variables (no wildcards): a path in
    which some unbound variable's piece is empty has fewer characters than any match needs"""
    rng = chk.rng
    reqs, impl, desc = [], [], []
    for i in range(n):
        pat = UNBOUND_SHAPES[i] if i < len(UNBOUND_SHAPES) else rng.choice(UNBOUND_SHAPES)
        if i >= len(UNBOUND_SHAPES) and rng.random() < 0.4:
            pat = rng.choice(["pre/", "", "a."]) + pat + rng.choice(["", "/post", ".x"])
        env = [("bound", "bb")]
        names = []
        for m in _VAR.finditer(pat):
            if m.group(1) != "bound" and m.group(1) not in names:
                names.append(m.group(1))
        empty = set(rng.sample(names, rng.randint(1, len(names)))) if names else set()
        side = (pat, env, None)
        sx = side_sx(side)

        def fill(empties):
            t = pat.replace("{bound}", "bb")
            for nm in names:
                t = t.replace("{%s}" % nm, "" if nm in empties else rng.choice(["de", "q", "a-b"]))
            return t
        for kind, path in (("all-filled", fill(set())), ("empty-piece", fill(empty))):
            if kind == "empty-piece" and not empty:
                continue
            chk.count(("unbound", side, path))
            chk.hist("unbound_empty", kind)
            got = impl_match(side, path)
            desc.append((kind, side, path))
            impl.append(got)
            reqs.append((2, sx + [canon(path)]))
            if kind == "all-filled" and not (got[0] == 0 and got[1]) and len(set(names)) == len(names):
                chk.fail("unbound-variable-filled-path-not-matched", {"side": side, "path": path}, {"got": got})
            if kind == "empty-piece" and got[0] == 0 and got[1]:
                chk.fail("unbound-variable-matched-empty", {"side": side, "path": path,
                                                           "empty": sorted(empty)}, {"got": mk(side).match(path)})
    if model:
        outs = model.call(reqs)
        chk.correspond("UNBOUND-EMPTY", desc, impl, outs)
