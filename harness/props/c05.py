"""C05 — comparison and linting always produce a report, whatever the content.

Suites
  RX[c05]      engine + translator on the `mochibake` regex against CPython re
  ROBUST       pairs of BYTE strings per file type (.properties .dtd .ini .inc .po .ftl,
               android strings.xml, an unknown extension): structured files, raw mutations of
               them, truncation at every position of a small file, arbitrary bytes.  Each pair
               is written to disk and observed through the public entry points
                 ContentComparer.compare (without and with a merge path), .add, .remove,
                 L10nLinter.lint_file
               in worker processes (a hang or a hard crash of the interpreter is an outcome,
               not something waited for).  Judged by the implementation-only oracle.
  ENCODING     model `encoding_findings` against the real Checker.check on random texts
  FORMAT       model of the formatting branch of compare()/lint_value() (position resolution
               + message) against the real compare()/lint_file() on .ini/.inc pairs, where
               the base Checker is the only checker
  SKELETON     model of the try/except structure of compare/add/lint_file (generated guard
               table) against the ROBUST observations: which failing step is reported, which escapes
  SKIPSORT     model of skips.sort(key=lambda s: s.span[0]) for strings.xml against the merging runs
  DECODE       contract of the decoder oracle: open(errors="replace", newline=None) never
               raises, yields no carriage return; one U+FFFD per injected 0xFF byte

Oracle (implementation only): no exception, no hang; every entry of
observers.toJSON()["details"] is {error|warning|missingEntity|obsoleteEntity|missingFile|
obsoleteFile: text-or-key}; check messages carry integer positions >= 1 (android: >= 0, its
entities answer (0, offset) by design); lint results have integer lineno/column and level
error|warning; every localized string shared with the reference gets exactly one encoding
warning per U+FFFD of its text (expected counts known by construction for the structured
stream, recomputed from the parse for the others).
"""
import json
import os
import re
import select
import shutil
import signal
import subprocess
import sys
import tempfile
import threading
import time
import traceback

from harness import common
from harness.common import Model, canon

FACTS = ("tables", "parser", "c05")
RUNNERS = ["RX"]

RULE = ("pairs of byte strings per file type (8 types incl. an unknown extension): structured "
        "mostly-valid files from record lists (values with printf/plural/CSS/entity-reference/"
        "placeable shapes, optional injected 0xFF bytes), byte-level mutations of them (delete, "
        "insert, duplicate, splice, invalid UTF-8 sequences, NUL, CR/CRLF, BOMs, unbalanced quotes "
        "and tags), truncation at every position of a small file, arbitrary bytes and token soups, and "
        "large / deeply nested / numerically extreme content as the value of a shared string, and every "
        "single-character edit (removed, doubled, 0, 9) of each format's value tokens (printf, plural, "
        "escapes, entity/character references, placeables, variants) on the localized, reference and both sides, "
        "and every one-step change of shape at the entry level (Fluent: attribute added/removed/duplicated, "
        "value removed/replaced, message/term/attribute references and selects inside values and attributes; "
        "DTD: extra entity references, elements, CSS; Android: extra format arguments, CDATA, inline markup, "
        "resource types; properties: plural markers and printf arguments; added and replaced entries); "
        "each pair observed through compare / compare+merge / add / remove / lint_file in a worker "
        "process under a watchdog; distinct by (type, ref bytes, l10n bytes); non-trivial = the two "
        "files share at least one key or the localization has junk")

FT = ["properties", "dtd", "ini", "inc", "po", "ftl", "android", "unknown"]
FILE = {"properties": "f.properties", "dtd": "f.dtd", "ini": "f.ini", "inc": "f.inc",
        "po": "f.po", "ftl": "f.ftl", "android": "strings.xml", "unknown": "f.bin"}
OPS = ["compare", "merge", "add", "remove", "lint"]
CATEGORIES = {"error", "warning", "missingEntity", "obsoleteEntity", "missingFile", "obsoleteFile"}
FFFD = "�"


# ================================================================ generators ===
KEYS = ["title", "intro", "ok-label", "cancel_label", "file.accesskey", "openKey",
        "k1", "k2", "k3", "k4", "k5", "k6", "long-description", "x"]

VALUES = [b"value", b"Hello %S", b"%1$S and %2$S", b"%1$s of %2$d", b"#1 file;#1 files", b"width: 10em",
          b"width: 20ch; height: 3em", b"10", b"12.5", b"&brandShortName; rocks", b"&foo; &bar;",
          b"caf\xc3\xa9 \xe2\x82\xac \xf0\x9f\x98\x80", b"<b>bold</b> text", b"{ $count } items",
          b"{ -brand }", b"100% sure", b"don't", b"a 'quoted' word", b"two  spaces", b"x",
          b"\\u0041\\n", b"tab\\there", b"%S", b"%(name)s", b"@string/foo", b"it\\'s", b"a \\\"q\\\"",
          b"very " * 12 + b"long", b"\xe3\x81\x82\xe3\x81\x84", b"a=b:c", b"[x]", b"#hash", b"; semi",
          b"50%% off", b"%d%%", b"<a href='u'>l</a>"]
COMMENTS = [b"a comment", b"LOCALIZATION NOTE (k1): explain", b"This Source Code Form is subject to the "
            b"terms of the Mozilla Public License", b"caf\xc3\xa9", b"", b"-*- Mode: Java -*-",
            b"LOCALIZATION NOTE: Semicolon-separated list, see Localization_and_Plurals"]


def xml_escape(v):
    return v.replace(b"&", b"&amp;").replace(b"<", b"&lt;").replace(b">", b"&gt;")


def safe_value(ft, v):
    """make a value harmless for the format's quoting (the structured stream is mostly valid)"""
    v = v.replace(b"\n", b" ")
    if ft == "dtd":
        return v.replace(b'"', b"'")
    if ft == "po":
        return v.replace(b"\\", b"\\\\").replace(b'"', b'\\"')
    if ft == "android":
        return xml_escape(v)
    if ft == "ftl":
        v = v.replace(b"{", b"(").replace(b"}", b")") if b"{ " not in v else v
        v = v.lstrip(b" [*.")
        return v or b"v"
    if ft in ("properties", "ini", "inc"):
        return v.rstrip(b"\\") if ft == "properties" else v
    return v


def safe_key(ft, k):
    if ft in ("ftl",):
        return k.replace(".", "-").replace("_", "-")
    if ft == "inc":
        return k.replace("-", "_").replace(".", "_")
    return k


def serialize(ft, recs, rng):
    """recs: list of (key str, value bytes, comment bytes or None) -> file bytes"""
    out = []
    if ft == "properties":
        for k, v, c in recs:
            if c is not None:
                out.append(b"# " + c + b"\n")
            sep = rng.choice([b"=", b" = ", b": ", b"="])
            out.append(k.encode() + sep + v + b"\n")
            if rng.random() < 0.2:
                out.append(b"\n")
    elif ft == "dtd":
        for k, v, c in recs:
            if c is not None:
                out.append(b"<!-- " + c.replace(b"--", b"- ") + b" -->\n")
            out.append(b"<!ENTITY " + k.encode() + b' "' + v + b'">\n')
            if rng.random() < 0.2:
                out.append(b"\n")
    elif ft == "ini":
        out.append(b"; " + (recs[0][2] or b"head") + b"\n[Strings]\n" if recs and rng.random() < 0.9
                   else b"[Strings]\n")
        for k, v, c in recs:
            if c is not None:
                out.append(b"; " + c + b"\n")
            out.append(k.encode() + b"=" + v + b"\n")
    elif ft == "inc":
        for k, v, c in recs:
            if c is not None:
                out.append(b"# " + c + b"\n")
            out.append(b"#define " + k.encode() + b" " + v + b"\n")
            if rng.random() < 0.2:
                out.append(b"\n")
    elif ft == "po":
        if rng.random() < 0.5:
            out.append(b'msgid ""\nmsgstr ""\n"Content-Type: text/plain; charset=UTF-8\\n"\n\n')
        for k, v, c in recs:
            if c is not None:
                out.append(b"#. " + c + b"\n")
            out.append(b'msgid "' + k.encode() + b'"\nmsgstr "' + v + b'"\n\n')
    elif ft == "ftl":
        for k, v, c in recs:
            if c is not None:
                out.append(b"# " + c + b"\n")
            out.append(k.encode() + b" = " + v + b"\n")
            if rng.random() < 0.25:
                out.append(b"    .title = tooltip " + str(len(v)).encode() + b"\n")
            if rng.random() < 0.2:
                out.append(b"\n")
    elif ft == "android":
        out.append(b'<?xml version="1.0" encoding="utf-8"?>\n<resources>\n')
        for k, v, c in recs:
            if c is not None:
                out.append(b"  <!-- " + c.replace(b"--", b"- ") + b" -->\n")
            out.append(b'  <string name="' + k.encode() + b'">' + v + b"</string>\n")
            if rng.random() < 0.08:     # resource types the parser does not read: junk entries
                out.append(rng.choice([b'  <plurals name="p"><item quantity="one">x</item></plurals>\n',
                                       b"  <string>no name</string>\n",
                                       b'  <string-array name="a"><item>x</item></string-array>\n']))
        out.append(b"</resources>\n")
    else:
        for k, v, c in recs:
            out.append(k.encode() + b"\t" + v + b"\n")
    return b"".join(out)


def gen_records(rng, ft, keys=None):
    if keys is None:
        n = rng.choice([0, 1, 1, 2, 3, 4, 6])
        keys = rng.sample(KEYS, min(n, len(KEYS)))
    recs = []
    for k in keys:
        v = safe_value(ft, rng.choice(VALUES))
        c = rng.choice(COMMENTS) if rng.random() < 0.25 else None
        recs.append((safe_key(ft, k), v, c))
    return recs


def gen_structured(rng, ft):
    """-> (ref bytes, l10n bytes, expect: {key: number of encoding warnings} or None)"""
    ref = gen_records(rng, ft)
    keys = [k for k, _, _ in ref]
    lkeys = [k for k in keys if rng.random() < 0.8]
    extra = [safe_key(ft, k) for k in rng.sample(KEYS, rng.choice([0, 0, 1, 2]))]
    lkeys += [k for k in extra if k not in keys and k not in lkeys]
    if rng.random() < 0.3:
        rng.shuffle(lkeys)
    l10n = []
    expect = {}
    refmap = {k: v for k, v, _ in ref}
    for k, v, c in gen_records(rng, ft, lkeys):
        r = rng.random()
        if k in refmap and r < 0.35:
            v = refmap[k]              # unchanged
        n = 0
        if rng.random() < 0.3:         # undecodable bytes in the value
            n = rng.choice([1, 1, 2, 3])
            for _ in range(n):
                p = rng.randint(0, len(v))
                # never split a multi-byte sequence or an escape: insert at an ASCII boundary
                while p < len(v) and (v[p] & 0xC0) == 0x80:
                    p += 1
                while ft == "po" and p > 0 and v[p - 1:p] == b"\\":
                    p -= 1
                if ft == "android" and b"&" in v[:p] and b";" in v[p:]:
                    p = len(v)
                if ft in ("dtd",) and b"&" in v[:p] and b";" in v[p:]:
                    p = len(v)
                if ft == "ftl" and (p == 0 or b"{" in v):
                    p = len(v)
                v = v[:p] + b"\xff" + v[p:]
        if k in refmap:
            expect[k] = n
        l10n.append((k, v, c))
    if ft == "unknown":
        expect = None
    # comments attach to entities by format-specific rules: with an undecodable byte in a
    # comment the expectation is left to the parse-based oracle
    if rng.random() < 0.1 and l10n:
        i = rng.randrange(len(l10n))
        k, v, c = l10n[i]
        l10n[i] = (k, v, (c or b"note") + b" \xff")
        expect = None
    if len(set(k for k, _, _ in l10n)) != len(l10n):
        expect = None
    return serialize(ft, ref, rng), serialize(ft, l10n, rng), expect


BAD_UTF8 = [b"\xff", b"\xfe", b"\xc3", b"\xe2\x82", b"\xf0\x9f\x98", b"\xed\xa0\x80", b"\xc0\x80",
            b"\xf8\x88\x80\x80\x80", b"\x80", b"\xbf", b"\xf4\x90\x80\x80", b"\xef\xbf\xbd", b"\xef\xbf\xbe"]
TOKENS = [b'"', b"'", b"<", b">", b"<b>", b"</b>", b"<![CDATA[", b"]]>", b"<!--", b"-->", b"&", b"&amp",
          b"&#0;", b"&#xD800;", b"%", b"%S", b"%1$", b"{", b"}", b"{ $", b"\\", b"\\u12", b"\\ud800", b"\\x",
          b"\r", b"\r\n", b"\n", b"\n\n", b"\x00", b"\x0c", b"\x0b", b"\x1a", b"\x7f", b"\x85", b"\xe2\x80\xa8",
          b"\xef\xbb\xbf", b"\xff\xfe", b"\xfe\xff", b"=", b":", b"#", b";", b"[", b"]", b"msgid", b"msgstr",
          b"msgctxt", b"msgid \"", b"#define", b"#filter emptyLines", b"<!ENTITY", b"<!ENTITY % x SYSTEM 'y'>",
          b"<string", b"</string>", b"<resources>", b"</resources>", b"<plurals name='p'>", b"<?xml",
          b"<!DOCTYPE x [", b"name=", b" = ", b"    .a = ", b"*[one]", b" ->", b"-term", b"##", b"width:",
          b"; ", b"#1", b";#2", b" " * 8, b"\t"]


def nest(o, x, c, n):
    return o * n + x + c * n


# content that is large, deep or numerically extreme (reachable by a localizer's commit like any other)
HOSTILE = [b"%3000000000$S", b"%" + b"9" * 4301 + b"$S", b"#" + b"9" * 4301, b"%1$" + b"9" * 4301 + b"S",
           nest(b"{ ", b'"a"', b" }", 300), nest(b"<b>", b"x", b"</b>", 300), nest(b"<b>", b"x", b"</b>", 1200),
           nest(b"{ $n ->\n *[a] ", b"x", b"\n }", 120), b"{ " * 400, b"<b>" * 2000,
           b"\\" * 3001, b'"' * 2001, b"'" * 2001, b"&" * 3000, b"&a;" * 2000, b"&amp;" * 2000, b"%S" * 3000,
           b"%" * 3001, b"\n" * 5000, b" " * 6000, b"a" * 8000, b"<!--" * 1000, b"-" * 5001, b"[" * 3000,
           b"\\u" * 2000, b"\xff" * 5000, b"\x00" * 5000, b"width: 1em; " * 1000, b"1" * 5000 + b"em",
           b"#1;" * 3000, b"k" * 5000 + b"=", b"=" * 5000, b"\r" * 5000, b"{ -t(a: 1) }" * 800]


# the syntactic tokens of each format's values; suite ROBUST applies every single-character edit to them
NEAR_TOKENS = {
    "properties": [b"%1$S", b"%S", b"%d", b"%.2f", b"%2$S %1$S", b"%1$10.3f", b"%*d", b"%%", b"#1", b"#1;#2",
                   b"\\u0041", b"\\n", b"\\:"],
    "dtd": [b"&name;", b"&#38;", b"&#x26;", b"&amp;", b"%S", b"%1$S", b"10em", b"width: 10em", b"12.5", b"<b>x</b>",
            b"\\u0041"],
    "android": [b"%1$s", b"%s", b"%d", b"%.2f", b"%2$s %1$d", b"\\'", b'\\"', b"\\u0041", b"@string/x", b"&amp;",
                b"&#38;", b"<![CDATA[x]]>", b"<b>x</b>"],
    "ftl": [b"{ $x }", b"{ -term }", b"{ msg.attr }", b'{ "lit" }', b"{ NUMBER($n) }", b"{ -t(a: 1) }",
            b"{ $n ->\n    [one] a\n   *[other] b\n  }", b"\\u0041", b'{ "\\u0041" }'],
    "ini": [b"%S", b"%1$S", b"\\n", b"&name;"],
    "inc": [b"%S", b"%1$S", b"\\n", b"&name;"],
    "po": [b"%S", b"%1$s", b"%(name)s", b"{0}", b'\\"', b"\\\\", b"\\n"],
    "unknown": [b"%S"],
}


def near_misses(tok):
    """every single-character edit of a token: character removed, doubled, replaced by 0 / 9"""
    out, seen = [], {tok}
    for p in range(len(tok)):
        for v in (tok[:p] + tok[p + 1:], tok[:p] + tok[p:p + 1] + tok[p:], tok[:p] + b"0" + tok[p + 1:],
                  tok[:p] + b"9" + tok[p + 1:]):
            if v not in seen:
                seen.add(v)
                out.append(v)
    return out


# ---- shape edits at the entry level ---------------------------------------------------------
FTL_PATTERNS = [b"Plain text", b"{ other }", b"{ -term }", b"{ other.title }", b"{ -term.attr }", b"{ missing }",
                b"{ -nope }", b"{ $n ->\n        [one] a\n       *[other] b\n    }",
                b"{ $n ->\n        [one] { other }\n       *[other] { -term }\n    }",
                b"{ -term(case: \"x\") }", b"{ NUMBER($n) }", b"width: 10em", b"a { $x } b { other } c"]
FTL_DEFS = b"other = O\n    .title = OT\n-term = T\n    .attr = a\n"
# (identifier, value or None, [(attribute, pattern)])
FTL_BASES = [("msg", b"Plain", []),
             ("msg", b"Plain", [(b"title", b"Tip")]),
             ("msg", None, [(b"label", b"L"), (b"accesskey", b"A")]),
             ("msg", b"{ other } and { -term }", [(b"title", b"{ other.title }")]),
             ("-brand", b"X", [(b"gender", b"m")]),
             ("msg", b"{ $n ->\n        [one] a\n       *[other] b\n    }", [(b"style", b"width: 10em")])]


def ftl_entry(ident, value, attrs):
    out = ident.encode() + b" =" + (b" " + value if value is not None else b"") + b"\n"
    for a, pat in attrs:
        out += b"    ." + a + b" = " + pat + b"\n"
    return out


def ftl_shape_edits(base):
    """every one-step change of shape of a Fluent entry: attribute added (each name x each pattern),
    removed, duplicated, its pattern replaced; value removed, replaced, extended by a reference"""
    ident, value, attrs = base
    out = []
    for name in (b"title", b"label", b"style", b"extra"):
        for pat in FTL_PATTERNS:
            out.append((ident, value, attrs + [(name, pat)]))
            out.append((ident, value, [(name, pat)] + attrs))
    for i in range(len(attrs)):
        out.append((ident, value, attrs[:i] + attrs[i + 1:]))
        out.append((ident, value, attrs[:i + 1] + attrs[i:]))
        for pat in FTL_PATTERNS:
            out.append((ident, value, attrs[:i] + [(attrs[i][0], pat)] + attrs[i + 1:]))
    out.append((ident, None, attrs))
    for pat in FTL_PATTERNS:
        out.append((ident, pat, attrs))
        if value is not None:
            out.append((ident, value + b" " + pat, attrs))
    return out


# what a localizer adds to (or puts in place of) a value, per format
VALUE_EXTRAS = {
    "properties": [b"#1", b"#2", b";", b"#1;#1", b"#1;#2;#3;#4;#5;#6;#7", b"%S", b"%1$S", b"%2$S", b"%3$S", b"%%", b"%",
                   b"%d", b"%1$d", b"\\u0041", b"\\"],
    "dtd": [b"&brandShortName;", b"&other;", b"&title;", b"&amp;", b"&#38;", b"&", b"<b>x</b>", b"<a href='u'>l</a>",
            b"<br/>", b"<b>", b"</b>", b"%S", b"%other;", b"10em", b"width: 10em; height: 2em", b"height: 3",
            b"<![CDATA[x]]>", b"<!-- c -->", b"<?pi x?>", b"\\'", b"\\u00zz"],
    "android": [b"%1$s", b"%2$d", b"%s", b"%3$s", b"%1$d", b"%1$.2f", b"%%", b"<![CDATA[x]]>", b"<![CDATA[%1$s]]> y",
                b"<b>x</b>", b'<xliff:g id="x">%1$s</xliff:g>', b"\\'", b"'", b'""', b'"q"', b"@string/x",
                b"&amp;", b"&lt;b&gt;", b"\\u0041", b"\\n"],
    "ini": [b"%S", b"=", b"[x]", b";c", b"&a;"],
    "inc": [b"%S", b"#define", b"# c", b"&a;"],
    "po": [b"%s", b"%(n)s", b"%1$s", b'\\"', b"\\n", b"{0}"],
    "ftl": [],
    "unknown": [b"%S"],
}
VALUE_BASES = {
    "properties": [b"Open %S", b"#1 file;#1 files", b"%1$S of %2$S"],
    "dtd": [b"Open &brandShortName;", b"10em", b"width: 10em", b"<b>x</b> y"],
    "android": [b"Open %1$s", b"plain", b"%1$s of %2$d", b"<![CDATA[x]]>"],
}
# whole entries a localizer adds, or writes in place of the shared entry `title`
ENTRY_SNIPPETS = {
    "properties": [b"title = again\n", b"title\n", b"title =\n", b"= v\n", b"# Localization_and_Plurals\n",
                   b"title = a\\\n   b\n", b"! c\n"],
    "dtd": [b'<!ENTITY title "again">\n', b"<!ENTITY title 'q'>\n", b'<!ENTITY % o SYSTEM "u">\n%o;\n',
            b'<!ENTITY title "">\n', b"<!ENTITY title>\n", b'<!ENTITY other "&title;">\n', b"<!-- c -->\n"],
    "android": [b'  <string name="title">again</string>\n', b'  <string name="title" translatable="false">v</string>\n',
                b"  <string>v</string>\n", b'  <plurals name="title"><item quantity="one">x</item></plurals>\n',
                b'  <string-array name="title"><item>x</item></string-array>\n', b'  <string name="title"/>\n',
                b'  <string name="title"><![CDATA[a]]><![CDATA[b]]></string>\n', b"  <!-- c -->\n\n\n  <!-- d -->\n",
                b'  <string name="title" xmlns:xliff="urn:x"><xliff:g>%1$s</xliff:g></string>\n'],
    "ini": [b"title=again\n", b"[Other]\n", b"title\n", b"=v\n", b"; c\n"],
    "inc": [b"#define title again\n", b"#filter emptyLines\n", b"#unfilter emptyLines\n", b"#include x\n",
            b"#define title\n", b"#define\n"],
    "po": [b'msgid "title"\nmsgstr "again"\n\n', b'msgctxt "c"\nmsgid "title"\nmsgstr "v"\n\n',
           b'msgid "title"\nmsgstr ""\n\n', b'msgid "ti"\n"tle"\nmsgstr "a"\n"b"\n\n',
           b'msgid "title"\nmsgid_plural "titles"\nmsgstr[0] "a"\nmsgstr[1] "b"\n\n', b'#, fuzzy\nmsgid "title"\nmsgstr "f"\n\n',
           b'msgid "title"\n\n'],
    "ftl": [b"title = again\n", b"-title = term\n", b"title =\n", b"### c\n", b"title = a\n    .x = 1\n    .x = 2\n"],
    "unknown": [b"x\n"],
}


XML_ENCODINGS = [  # known, unknown, multi-byte, odd spellings
    b"utf-8", b"UTF-8", b"utf8", b"utf-16", b"utf-16le", b"utf-32", b"latin-1", b"iso-8859-1", b"ascii", b"us-ascii",
    b"windows-1252", b"cp1252", b"koi8-r", b"utf-7", b"utf-9", b"x-foo", b"", b" ", b"none", b"undefined", b"idna",
    b"rot13", b"hex", b"base64", b"zlib", b"unicode-escape", b"raw_unicode_escape", b"mbcs", b"punycode",
    b"shift_jis", b"euc-jp", b"gb2312", b"big5", b"euc-kr", b"gbk", b"gb18030", b"iso-2022-jp", b"hz", b"cp932",
    b"utf-8-sig", b"\xff", b"a" * 300, b"utf-8\x00", b"&amp;"]
XML_DECLS = [b'<?xml version="1.0" encoding="%s"?>' % e for e in XML_ENCODINGS] + [
    b"<?xml version='1.0' encoding='%s'?>" % e for e in (b"utf-8", b"utf-9", b"shift_jis")] + [
    b'<?xml version="1.1" encoding="utf-8"?>', b'<?xml version="2.0"?>', b'<?xml version="1.0"?>', b"<?xml?>", b"<?xml ?>",
    b'<?xml encoding="utf-8"?>', b'<?xml encoding="utf-9"?>', b'<?xml version="1.0" encoding="utf-8" standalone="yes"?>',
    b'<?xml version="1.0" encoding="utf-8" standalone="maybe"?>', b'<?xml version="1.0" standalone="no" encoding="utf-8"?>',
    b'<?xml version="1.0" encoding=utf-8?>', b'<?xml version="1.0" encoding="utf-8"', b'<?xml version="1.0" encoding="utf-8">',
    b'<?XML version="1.0" encoding="utf-8"?>', b' <?xml version="1.0" encoding="utf-8"?>', b'\n<?xml version="1.0"?>',
    b'\xef\xbb\xbf<?xml version="1.0" encoding="utf-8"?>', b'\xef\xbb\xbf<?xml version="1.0" encoding="utf-16"?>',
    b'<?xml version="1.0" encoding="utf-8"?><?xml version="1.0" encoding="utf-8"?>', b"",
    b'<?xml version="1.0" encoding="utf-8"?>\n<!DOCTYPE resources [<!ENTITY e "v">]>',
    b'<?xml version="1.0" encoding="utf-8"?>\n<!DOCTYPE resources SYSTEM "x.dtd">',
    b'<?xml version="1.0" encoding="utf-8"?>\n<!DOCTYPE resources [<!ENTITY a "&#38;a;&#38;a;"><!ENTITY b "&a;&a;&a;">]>',
    b'<?xml version="1.0" encoding="utf-8"?>\n<?pi x?><!-- c -->']
XML_BODY = b'\n<resources>\n  <string name="title">Open %1$s</string>\n  <string name="k1">value</string>\n</resources>\n'


def shape_cases(ft, rng):
    """(ref bytes, l10n bytes) for every shape edit, on the localized side, the reference side, both"""
    out = []

    def three(good, bad):
        out.append((good, bad))
        out.append((bad, good))
        out.append((bad, bad))
    if ft == "dtd":
        # multi-line values and pre-comments x XML defects: expat reports errors by LINE of the wrapper
        # document (value inside <elem>, then the whole declaration inside the DOCTYPE), so the number of
        # lines of the value, of its tail and of the attached comment all matter
        good = b'<!ENTITY title "Open &brandShortName;">\n<!ENTITY k1 "value">\n'
        defects = [b"", b"<b>bold", b"<b>", b"</b>", b"<b><i>x</b>", b"<b attr>x</b>", b"&amp", b"&", b"&unterminated",
                   b"%", b"%foo;", b"% x", b"50%", b"<", b"]]>", b"<!--", b"<?", b"&#;", b"&#xZ;", b"&#0;"]
        comments = [b"", b"<!-- one line -->\n", b"<!-- a\n     b\n     c -->\n",
                    b"<!-- LOCALIZATION NOTE (title):\n     l2\n     l3\n     l4\n     l5 -->\n"]
        for c in comments:
            for before in (b"", b"first\n", b"first\nsecond\n"):
                for d in defects:
                    for tail in (b"", b"\n", b"\n\n", b" end\n"):
                        for q in (b'"', b"'") if d in (b"<b>bold", b"%") else (b'"',):
                            bad = c + b"<!ENTITY title " + q + before + d + tail + q + b">\n<!ENTITY k1 \"value\">\n"
                            three(good, bad)
    if ft == "android":
        # the XML declaration: encodings known / unknown / multi-byte to pyexpat, malformed declarations,
        # every single-character edit of the usual one; and the file really encoded otherwise
        good = XML_DECLS[0] + XML_BODY
        for decl in XML_DECLS[1:] + near_misses(XML_DECLS[0]):
            three(good, decl + XML_BODY)
        text = good.decode("utf-8")
        for codec in ("utf-16", "utf-16-le", "utf-32", "utf-8-sig", "shift_jis", "cp037"):
            three(good, text.replace("utf-8", codec).encode(codec))
            three(good, text.encode(codec))
    if ft == "ftl":
        for base in FTL_BASES:
            good = FTL_DEFS + ftl_entry(*base) + b"k1 = value\n"
            for e in ftl_shape_edits(base):
                three(good, FTL_DEFS + ftl_entry(*e) + b"k1 = value\n")
            # the same without the definitions the references point to
            for e in ftl_shape_edits(base)[::7]:
                three(ftl_entry(*base), ftl_entry(*e))
    for v0 in VALUE_BASES.get(ft, [b"value"]):
        note = b"see Localization_and_Plurals" if b"#1" in v0 else None
        good = serialize(ft, [("title", v0, note), ("k1", b"value", None)], rng)
        for x in VALUE_EXTRAS[ft]:
            for v in (v0 + b" " + x, x + b" " + v0, x, v0 + b" " + x + b" " + x):
                three(good, serialize(ft, [("title", v, note), ("k1", b"value", None)], rng))
    plain = [("title", VALUE_BASES.get(ft, [b"value"])[0], None), ("k1", b"value", None)]
    good = serialize(ft, plain, rng)
    for snip in ENTRY_SNIPPETS[ft]:
        head, _, tail = serialize(ft, plain[:1], rng), None, serialize(ft, plain[1:], rng)
        if ft == "android":     # keep the snippet inside <resources>
            body = good.split(b"<resources>\n", 1)
            cut = body[1].index(b"</string>\n") + len(b"</string>\n")
            variants = [body[0] + b"<resources>\n" + snip + body[1],
                        body[0] + b"<resources>\n" + body[1][:cut] + snip + body[1][cut:],
                        body[0] + b"<resources>\n" + snip + body[1][cut:]]
        else:
            variants = [snip + good, good + snip, head + snip + tail, snip + tail]
        for v in variants:
            three(good, v)
    return out


def mutate(rng, b, other):
    """one byte-level mutation"""
    b = bytearray(b)
    n = len(b)
    op = rng.randrange(12)
    p = rng.randint(0, n)
    if op == 0 and n:                                   # delete a range
        q = min(n, p + rng.choice([1, 1, 1, 2, 5, 20]))
        del b[p:q]
    elif op == 1:                                       # insert a token
        b[p:p] = rng.choice(TOKENS)
    elif op == 2 and n:                                 # duplicate a range
        q = min(n, p + rng.choice([1, 3, 10, 40]))
        b[p:p] = b[p:q]
    elif op == 3 and other:                             # splice from the other file
        a = rng.randint(0, len(other))
        b[p:p] = other[a:a + rng.choice([1, 5, 20, 80])]
    elif op == 4:                                       # invalid UTF-8
        b[p:p] = rng.choice(BAD_UTF8)
    elif op == 5 and n:                                 # overwrite one byte
        b[min(p, n - 1)] = rng.randrange(256)
    elif op == 6:                                       # NUL
        b[p:p] = b"\x00" * rng.choice([1, 1, 3])
    elif op == 7:                                       # truncate
        del b[p:]
    elif op == 8 and n:                                 # swap two ranges
        q = rng.randint(0, n)
        a, c = sorted((p, q))
        m = (a + c) // 2
        b[a:c] = b[m:c] + b[a:m]
    elif op == 9:                                       # newline conventions
        b = bytearray(bytes(b).replace(b"\n", rng.choice([b"\r\n", b"\r", b"\n\n", b""])))
    elif op == 10 and n:                                # flip a bit
        i = min(p, n - 1)
        b[i] ^= 1 << rng.randrange(8)
    else:                                               # unbalanced quote / tag
        b[p:p] = rng.choice([b'"', b"'", b"<", b">", b"</x>", b"<x", b"&", b"{", b"\\"])
    return bytes(b)


def gen_raw(rng, ft):
    r = rng.random()
    if r < 0.5:
        return bytes(rng.randrange(256) for _ in range(rng.choice([0, 1, 2, 3, 8, 20, 64])))
    n = rng.randint(0, 12)
    return b"".join(rng.choice(TOKENS) if rng.random() < 0.6 else
                    rng.choice([b"k", b"v", b" ", b"\n", b"a b", b"1"]) for _ in range(n))


def make_cases(chk):
    rng = chk.rng
    cases = []

    def add(ft, ref, l10n, stream, expect=None):
        cases.append({"ft": ft, "ref": ref, "l10n": l10n, "stream": stream, "expect": expect,
                      "filter": rng.random() < 0.25,
                      "extra": ["android-dtd"] if ft == "dtd" and rng.random() < 0.3 else None})

    n_struct, n_mut, n_raw = chk.n((700, 2000, 800), (5000, 15000, 7000))
    for i in range(n_struct):
        ft = FT[i % len(FT)]
        ref, l10n, expect = gen_structured(rng, ft)
        add(ft, ref, l10n, "structured", expect)
    for i in range(n_mut):
        ft = FT[i % len(FT)]
        ref, l10n, _ = gen_structured(rng, ft)
        r = rng.random()
        for _ in range(rng.choice([1, 1, 2, 3, 6])):
            if r < 0.6:
                l10n = mutate(rng, l10n, ref)
            elif r < 0.8:
                ref = mutate(rng, ref, l10n)
            else:
                ref, l10n = mutate(rng, ref, l10n), mutate(rng, l10n, ref)
        add(ft, ref, l10n, "mutated")
    # truncation at every position of a small file
    per_ft = chk.n(1, 8)
    for ft in FT:
        for _ in range(per_ft):
            for _try in range(50):
                ref, l10n, _ = gen_structured(rng, ft)
                if 8 <= len(l10n) <= chk.n(48, 120) and len(ref) <= 200:
                    break
            for p in range(len(l10n)):
                add(ft, ref, l10n[:p], "truncated")
            for p in range(0, len(ref), chk.n(4, 1)):
                add(ft, ref[:p], l10n, "truncated")
    # hostile content as the value of a shared string, on either side, and at a random place
    hostile = HOSTILE if chk.thorough else [h for i, h in enumerate(HOSTILE) if i < 8 or (i + chk.seed) % 3 == 0]
    for ft in FT:
        for h in hostile:
            note = b"see Localization_and_Plurals" if h.startswith(b"#") else None
            base = [("title", b"value #1", note), ("k1", safe_value(ft, b"Hello %S"), None)]
            big = [("title", h, note), ("k1", safe_value(ft, b"Hello %S"), None)]
            add(ft, serialize(ft, big, rng), serialize(ft, base, rng), "hostile")
            add(ft, serialize(ft, base, rng), serialize(ft, big, rng), "hostile")
            if chk.thorough:
                add(ft, serialize(ft, big, rng), serialize(ft, big, rng), "hostile")
                plain = serialize(ft, base, rng)
                p = rng.randint(0, len(plain))
                add(ft, plain, plain[:p] + h + plain[p:], "hostile")
    # near-miss tokens: a small exhaustive enumeration, format-aware, on the localized side (which is
    # also the linted file), on the reference side, and on both; the edited token is the FIRST
    # placeholder of its value
    for ft in FT:
        for tok in NEAR_TOKENS[ft]:
            note = b"see Localization_and_Plurals" if tok.startswith(b"#") else None

            def recs(t):
                return [("title", b"a " + t + b" b", note), ("k1", b"value", None)]
            good = recs(tok)
            add(ft, serialize(ft, good, rng), serialize(ft, good, rng), "near-miss")
            for v in near_misses(tok):
                add(ft, serialize(ft, good, rng), serialize(ft, recs(v), rng), "near-miss")
                add(ft, serialize(ft, recs(v), rng), serialize(ft, good, rng), "near-miss")
                add(ft, serialize(ft, recs(v), rng), serialize(ft, recs(v), rng), "near-miss")
    # shape edits at the entry level (attributes, references, selects, extra arguments / markup /
    # plural markers, added and replaced entries): small exhaustive enumeration, quick tier too
    for ft in FT:
        for ref, l10n in shape_cases(ft, rng):
            add(ft, ref, l10n, "shape")
    for i in range(n_raw):
        ft = FT[i % len(FT)]
        r = rng.random()
        if r < 0.4:
            add(ft, gen_raw(rng, ft), gen_raw(rng, ft), "raw")
        elif r < 0.7:
            ref, _, _ = gen_structured(rng, ft)
            add(ft, ref, gen_raw(rng, ft), "raw")
        else:
            _, l10n, _ = gen_structured(rng, ft)
            add(ft, gen_raw(rng, ft), l10n, "raw")
    return cases


# ==================================================================== worker ===
class SoftTimeout(BaseException):
    pass


def _alarm(signum, frame):
    raise SoftTimeout()


def typed(v):
    if isinstance(v, bool):
        return ["bool", v]
    if isinstance(v, int):
        return ["int", v]
    if isinstance(v, str):
        return ["str", v]
    if v is None:
        return ["none"]
    if isinstance(v, tuple):
        return ["tuple", [typed(x) for x in v]]
    if isinstance(v, float):
        return ["float", repr(v)]
    return [type(v).__name__, repr(v)[:200]]


def flatten_details(d, path=""):
    """Tree.toJSON(): nested dicts whose leaves are the per-file lists"""
    out = []
    if isinstance(d, list):
        ents = []
        for item in d:
            if isinstance(item, dict):
                ents.append(["dict", [[typed(k), typed(v)] for k, v in item.items()]])
            else:
                ents.append(typed(item))
        out.append([path, ents])
    elif isinstance(d, dict):
        for k, v in d.items():
            out.extend(flatten_details(v, path + "/" + k if path else k))
    else:
        out.append([path, [typed(d)]])
    return out


def guarded(fn, seconds):
    """-> {"kind": "ok", ...} | {"kind": "exc", ...} | {"kind": "hang"}"""
    old = signal.signal(signal.SIGALRM, _alarm)
    signal.setitimer(signal.ITIMER_REAL, seconds)
    t0 = time.time()
    try:
        try:
            res = fn()
            signal.setitimer(signal.ITIMER_REAL, 0)
            return dict(kind="ok", t=round(time.time() - t0, 3), **res)
        except SoftTimeout:
            return {"kind": "hang"}
        except BaseException as e:  # noqa: every way of not producing a report is an outcome
            signal.setitimer(signal.ITIMER_REAL, 0)
            tb = traceback.extract_tb(e.__traceback__)
            frames = [[os.path.basename(f.filename), f.name, (f.line or "")[:120]] for f in tb]
            return {"kind": "exc", "type": type(e).__name__, "msg": str(e)[:300], "tb": frames[-6:],
                    "head": frames[:6]}
    finally:
        signal.setitimer(signal.ITIMER_REAL, 0)
        signal.signal(signal.SIGALRM, old)


def key_filter(file, entity=None):
    """a deterministic project filter: verdict from the entity name"""
    if entity is None or entity == "":
        return "error"
    h = sum(ord(c) for c in str(entity))
    return ("error", "warning", "ignore")[h % 3]


def observe(case, tmp, seconds=5.0):
    """run the five entry points on one pair; everything returned is plain JSON"""
    from compare_locales.compare.content import ContentComparer
    from compare_locales.compare.observer import Observer
    from compare_locales.lint.linter import L10nLinter
    from compare_locales.paths import File
    from compare_locales import parser as P

    name = FILE[case["ft"]]
    for d in ("ref", "l10n", "merge"):
        shutil.rmtree(os.path.join(tmp, d), ignore_errors=True)
        os.makedirs(os.path.join(tmp, d))
    refp, l10np = os.path.join(tmp, "ref", name), os.path.join(tmp, "l10n", name)
    mergep = os.path.join(tmp, "merge", name)
    with open(refp, "wb") as f:
        f.write(case["ref"])
    with open(l10np, "wb") as f:
        f.write(case["l10n"])

    def comparer():
        cc = ContentComparer()
        cc.observers.append(Observer())
        if case.get("filter"):
            cc.observers.append(Observer(filter=key_filter))
        return cc

    def report(cc):
        js = cc.observers.toJSON()
        return {"details": flatten_details(js["details"]),
                "summary": [[typed(loc), [[typed(k), typed(v)] for k, v in s.items()]]
                            for loc, s in js["summary"].items()],
                "text": typed(cc.observers.serializeDetails()),
                "children": [flatten_details(o.toJSON()["details"]) for o in cc.observers]}

    def op_compare(merge):
        def go():
            cc = comparer()
            rv = cc.compare(File(refp, name), File(l10np, name, locale="de"), mergep if merge else None,
                            extra_tests=case.get("extra"))
            out = report(cc)
            out["rv"] = typed(rv)
            out["merged"] = os.path.isfile(mergep)
            return out
        return go

    def op_add():
        cc = comparer()
        cc.add(File(refp, name), File(l10np, name, locale="de"), mergep)
        return report(cc)

    def op_remove():
        cc = comparer()
        cc.remove(File(refp, name), File(l10np, name, locale="de"), mergep)
        return report(cc)

    def op_lint():
        if P.hasParser(l10np):
            res = list(L10nLinter().lint_file(l10np, refp, []))
        else:  # L10nLinter.lint skips files without a parser; lint_file is not called for them
            res = L10nLinter().lint([l10np], lambda p: (refp, []))
        return {"results": [typed(r) if not isinstance(r, dict) else
                            ["dict", [[typed(k), typed(v)] for k, v in r.items()]] for r in res]}

    def op_parse(side, path):
        """the parse of one side, for the oracle's expected encoding warnings and the skeleton"""
        def go():
            if not P.hasParser(name):
                return {"entries": None}
            p = P.getParser(name)
            p.readFile(path)
            ents = list(p.parse())
            return {"entries": [[typed(e.key), isinstance(e, P.Junk), e.all.count(FFFD), str(e.key)]
                                for e in ents]}
        return go

    obs = {}
    budget = [seconds]

    def run_op(name, fn):
        obs[name] = guarded(fn, budget[0])
        if obs[name]["kind"] == "hang":
            budget[0] = min(budget[0], 1.0)   # one hang is the outcome of the case; do not wait five more times

    run_op("compare", op_compare(False))
    os.makedirs(os.path.join(tmp, "merge"), exist_ok=True)
    run_op("merge", op_compare(True))
    shutil.rmtree(os.path.join(tmp, "merge"), ignore_errors=True)
    run_op("add", op_add)
    shutil.rmtree(os.path.join(tmp, "merge"), ignore_errors=True)
    run_op("remove", op_remove)
    run_op("lint", op_lint)
    run_op("parse_ref", op_parse("ref", refp))
    run_op("parse_l10n", op_parse("l10n", l10np))
    return obs


def enc_case(c):
    return {"ft": c["ft"], "ref": c["ref"].decode("latin-1"), "l10n": c["l10n"].decode("latin-1"),
            "filter": bool(c.get("filter")), "extra": c.get("extra")}


def dec_case(c):
    return {"ft": c["ft"], "ref": c["ref"].encode("latin-1"), "l10n": c["l10n"].encode("latin-1"),
            "filter": c.get("filter", False), "extra": c.get("extra")}


def worker_main(jobfile, start, seconds):
    """python -m harness.props.c05 --worker JOB START SECONDS : one JSON line per case on stdout;
    scratch files live next to the job file (the parent removes that directory)"""
    import resource
    lim = 3 << 30     # an allocation bomb is an outcome (MemoryError), not a danger to the machine
    resource.setrlimit(resource.RLIMIT_AS, (lim, lim))
    cases = json.load(open(jobfile))
    tmp = tempfile.mkdtemp(prefix="w_", dir=os.path.dirname(jobfile))
    out = os.fdopen(os.dup(1), "w")
    # the package prints ("copied reference to ...") while merging: keep the protocol clean
    devnull = os.open(os.devnull, os.O_WRONLY)
    os.dup2(devnull, 1)
    sys.stdout = open(os.devnull, "w")
    try:
        for i in range(start, len(cases)):
            out.write("@%d\n" % i)
            out.flush()
            obs = observe(dec_case(cases[i]), tmp, seconds)
            out.write(json.dumps([i, obs]) + "\n")
            out.flush()
    finally:
        shutil.rmtree(tmp, ignore_errors=True)


class Pool:
    """runs batches of cases in worker processes; a worker that stops answering or dies is
    killed/restarted and the case it was working on gets the outcome hang / crash"""

    def __init__(self, nworkers, soft, hard, max_bad=40):
        self.nworkers, self.soft, self.hard = nworkers, soft, hard
        self.spawned = 0
        self.bad = 0              # hangs / crashes seen so far
        self.max_bad = max_bad    # after that many, the rest of the run is abandoned (not-run)

    def run_batch(self, batch, results, lock):
        tmpd = tempfile.mkdtemp(prefix="c05job_")
        job = os.path.join(tmpd, "job.json")
        with open(job, "w") as f:
            json.dump([enc_case(c) for _, c in batch], f)
        start = 0
        try:
            while start < len(batch):
                with lock:
                    if self.bad >= self.max_bad:
                        return
                    self.spawned += 1
                proc = subprocess.Popen(
                    [common.PY, "-m", "harness.props.c05", "--worker", job, str(start), str(self.soft)],
                    stdout=subprocess.PIPE, stderr=subprocess.PIPE, cwd=common.VERIF,
                    env=dict(os.environ, PYTHONPATH=common.VERIF + ":" + common.REPO,
                             PYTHONDONTWRITEBYTECODE="1"))
                fd = proc.stdout.fileno()
                buf = b""
                current = None
                last = time.time()
                outcome = None
                while True:
                    r, _, _ = select.select([fd], [], [], 0.5)
                    if r:
                        chunk = os.read(fd, 1 << 16)
                        if not chunk:
                            break
                        buf += chunk
                        while b"\n" in buf:
                            line, buf = buf.split(b"\n", 1)
                            last = time.time()
                            if line.startswith(b"@"):
                                current = int(line[1:])
                            else:
                                i, obs = json.loads(line)
                                with lock:
                                    results[batch[i][0]] = obs
                                    if any(o.get("kind") == "hang" for o in obs.values()):
                                        self.bad += 1
                                start = i + 1
                                current = None
                    elif time.time() - last > self.hard:
                        outcome = "hang"
                        proc.kill()
                        break
                proc.wait()
                err = proc.stderr.read().decode("utf-8", "replace")[-600:]
                proc.stdout.close()
                proc.stderr.close()
                if start >= len(batch):
                    break
                # the worker stopped before the end of the batch
                if outcome is None:
                    outcome = "crash"
                idx = current if current is not None else start
                with lock:
                    self.bad += 1
                    results[batch[idx][0]] = {"process": {"kind": outcome, "rc": proc.returncode,
                                                          "stderr": err}}
                start = idx + 1
        finally:
            shutil.rmtree(tmpd, ignore_errors=True)

    def run(self, cases, batch_size):
        results = [None] * len(cases)
        lock = threading.Lock()
        indexed = list(enumerate(cases))
        batches = [indexed[i:i + batch_size] for i in range(0, len(indexed), batch_size)]
        todo = list(reversed(batches))

        def loop():
            while True:
                with lock:
                    if not todo:
                        return
                    b = todo.pop()
                self.run_batch(b, results, lock)
        threads = [threading.Thread(target=loop) for _ in range(self.nworkers)]
        for t in threads:
            t.start()
        for t in threads:
            t.join()
        return results


# ==================================================================== oracle ===
POS_TAIL = re.compile(r" at line (-?[0-9]+), column (-?[0-9]+)$")


def well_typed_key(tv):
    """text, or the (msgid, msgctxt) pair of a PO message"""
    if tv[0] == "str":
        return True
    return (tv[0] == "tuple" and len(tv[1]) == 2 and tv[1][0][0] == "str"
            and tv[1][1][0] in ("str", "none"))


def key_text(tv):
    if tv[0] == "str":
        return tv[1]
    if tv[0] == "tuple":
        return "(" + ", ".join(repr(None if x[0] == "none" else x[1]) for x in tv[1]) + ")"
    return None


def position_signature(ft, low):
    if low < 0:
        return ft + "-position-negative"
    if ft == "dtd":
        # DTDEntityMixin.value_position((0, col)): line - 1, column col (0 for the checker's (0, 0))
        return "dtd-whole-value-position-line-minus-one"
    return ft + "-position-zero"


def judge_report(ft, rep, keytexts, where):
    """shape of one report; -> list of (signature, detail)"""
    bad = []
    minpos = 0 if ft == "android" else 1
    for path, ents in rep["details"]:
        for ent in ents:
            if ent[0] != "dict" or len(ent[1]) != 1:
                bad.append(("detail-not-a-single-entry", {"where": where, "entry": ent}))
                continue
            (k, v), = ent[1]
            if k[0] != "str" or k[1] not in CATEGORIES:
                bad.append(("detail-unknown-category", {"where": where, "entry": ent}))
                continue
            cat = k[1]
            if cat in ("error", "warning"):
                if v[0] != "str":
                    bad.append(("message-not-text", {"where": where, "entry": ent}))
                    continue
                # check results: "<msg> at line L, column C for <key>"
                for kt in keytexts:
                    suffix = " for " + kt
                    if v[1].endswith(suffix):
                        m = POS_TAIL.search(v[1][:-len(suffix)])
                        if m and (int(m.group(1)) < minpos or int(m.group(2)) < minpos):
                            low = min(int(m.group(1)), int(m.group(2)))
                            bad.append((position_signature(ft, low),
                                        {"where": where, "message": v[1]}))
                            break
            elif cat in ("missingEntity", "obsoleteEntity"):
                if not well_typed_key(v):
                    bad.append(("entity-key-not-text", {"where": where, "entry": ent}))
            else:
                if v[0] != "str":
                    bad.append(("file-verdict-not-text", {"where": where, "entry": ent}))
    if rep["text"][0] != "str":
        bad.append(("serializeDetails-not-text", {"where": where}))
    for loc, stats in rep["summary"]:
        for k, v in stats:
            if k[0] != "str" or v[0] != "int" or v[1] < 0:
                bad.append(("summary-not-counts", {"where": where, "stat": [k, v]}))
    return bad


def messages(rep, cat):
    return [ent[1][0][1][1] for _, ents in rep["details"] for ent in ents
            if ent[0] == "dict" and len(ent[1]) == 1 and ent[1][0][0] == ["str", cat]
            and ent[1][0][1][0] == "str"]


def expected_fffd(parse):
    """{key text: expected number of encoding warnings} from the parse of both sides"""
    if not parse:
        return {}
    refkeys = {json.dumps(k) for k, junk, _, _ in parse["ref"] if not junk}
    last = {}
    for k, junk, n, text in parse["l10n"]:
        last[json.dumps(k)] = (junk, n, text)          # KeyedTuple: the last entity with a key wins
    return {text: n for kk, (junk, n, text) in last.items() if kk in refkeys and not junk}


def judge_fffd(rep, want, where):
    got = [m for m in messages(rep, "warning") if m.startswith(FFFD + " in: ")]
    total = sum(want.values())
    bad = []
    if len(got) != total:
        bad.append(("encoding-warning-count", {"where": where, "expected": want, "got": got}))
        return bad
    # per key, when the attribution is unambiguous
    per = {k: 0 for k in want}
    amb = False
    for m in got:
        hits = [k for k in want if re.fullmatch(
            re.escape(FFFD + " in: " + k) + r" at line -?[0-9]+, column -?[0-9]+ for " + re.escape(k), m, re.S)]
        if len(hits) == 1:
            per[hits[0]] += 1
        else:
            amb = amb or len(hits) > 1
            if not hits:
                bad.append(("encoding-warning-text", {"where": where, "message": m}))
    if not amb and not bad and per != want:
        bad.append(("encoding-warning-per-key", {"where": where, "expected": want, "got": per}))
    return bad


def judge(case, obs):
    """-> list of (signature, detail) for one observed case"""
    ft = case["ft"]
    if "process" in obs:
        return [("%s-process-%s" % (ft, obs["process"]["kind"]), obs["process"])]
    bad = []
    for op in OPS:
        o = obs[op]
        if o["kind"] == "hang":
            bad.append(("%s-hang" % ft, {"entry_point": op}))
        elif o["kind"] == "exc":
            sig = "%s-raises-%s" % (ft, o["type"])
            if (ft == "android" and op == "merge" and o["type"] == "TypeError"
                    and any("skips.sort" in fr[2] for fr in o["tb"])):
                sig = "android-two-skips-typeerror"
            elif o["type"] == "RecursionError" and ft in ("ftl", "android") and (
                    op == "lint" or any("ref_entities = p.parse()" in fr[2] for fr in o["head"])):
                # the known family: the unguarded parse of the reference in compare(), and lint_file()
                sig = ft + "-deep-nesting-recursionerror"
            elif ft == "properties" and o["type"] == "MemoryError" \
                    and any(fr[1] == "getPrintfSpecs" for fr in o["tb"]):
                sig = "properties-printf-ordinal-memoryerror"
            elif ft == "properties" and o["type"] == "ValueError" and "integer string conversion" in o["msg"]:
                sig = "properties-int-digit-limit-valueerror"
            bad.append((sig, {"entry_point": op, "exception": o["type"], "message": o["msg"],
                             "traceback": o["tb"]}))
    parse = parse_of(obs)
    keytexts = []
    if parse:
        keytexts = sorted({t for side in ("ref", "l10n") for _, _, _, t in parse[side]}, key=len, reverse=True)
    for op in ("compare", "merge", "add", "remove"):
        if obs[op]["kind"] == "ok":
            bad.extend(judge_report(ft, obs[op], keytexts, op))
            for ch in obs[op]["children"]:
                bad.extend(judge_report(ft, {"details": ch, "text": ["str", ""], "summary": []}, keytexts,
                                        op + "/child"))
            if op in ("compare", "merge") and obs[op]["rv"] != ["none"]:
                bad.append(("compare-returns-value", {"where": op, "rv": obs[op]["rv"]}))
    # encoding warnings
    if ft != "unknown":
        want = expected_fffd(parse) if parse else None
        for op in ("compare", "merge"):
            if obs[op]["kind"] != "ok":
                continue
            if want is not None:
                bad.extend(judge_fffd(obs[op], want, op))
            if case.get("expect") is not None:
                # by construction of the structured input
                exp = case["expect"]
                if ft == "po":      # PO keys are (msgid, msgctxt)
                    exp = {str((k, None)): n for k, n in exp.items()}
                bad.extend(("construction-" + s, d) for s, d in judge_fffd(obs[op], exp, op))
    # lint
    if obs["lint"]["kind"] == "ok":
        minpos = 0 if ft == "android" else 1
        for r in obs["lint"]["results"]:
            d = dict((k[1], v) for k, v in r[1]) if r[0] == "dict" and all(k[0] == "str" for k, _ in r[1]) else None
            if d is None or set(d) != {"lineno", "column", "level", "message", "path"}:
                bad.append(("lint-result-shape", {"result": r}))
                continue
            if d["lineno"][0] != "int" or d["column"][0] != "int":
                bad.append(("lint-position-not-integer", {"result": r}))
            elif d["lineno"][1] < minpos or d["column"][1] < minpos:
                low = min(d["lineno"][1], d["column"][1])
                bad.append((position_signature(ft, low),
                            {"where": "lint", "result": r}))
            if d["level"] not in (["str", "error"], ["str", "warning"]):
                bad.append(("lint-level", {"result": r}))
            if d["message"][0] != "str" or d["path"][0] != "str":
                bad.append(("lint-message-not-text", {"result": r}))
    return bad


def parse_of(obs):
    """{"ref": entries, "l10n": entries} when both sides were parsed, else None"""
    a, b = obs.get("parse_ref"), obs.get("parse_l10n")
    if not a or not b or a["kind"] != "ok" or b["kind"] != "ok" or a["entries"] is None:
        return None
    return {"ref": a["entries"], "l10n": b["entries"]}


def universal_decode(b):
    """what open(errors="replace", newline=None) hands over (the decoder oracle, re-stated)"""
    return b.decode("utf-8", "replace").replace("\r\n", "\n").replace("\r", "\n")


def expat_rejects(text):
    from xml.parsers import expat
    try:
        expat.ParserCreate(namespace_separator=" ").Parse(text.encode("utf-8"), True)
        return False
    except expat.ExpatError:
        return True
    except Exception:  # noqa: anything else says nothing about well-formedness
        return False


def judge_android_junk(case, obs):
    """a strings.xml that expat rejects is one junk entry: one lint error, one 'Unparsed content'"""
    if case["ft"] != "android" or "process" in obs or not expat_rejects(universal_decode(case["l10n"])):
        return []
    bad = []
    pl = obs["parse_l10n"]
    if pl["kind"] == "ok" and [e[1] for e in pl["entries"]] != [True]:
        bad.append(("android-broken-xml-not-single-junk", {"entries": pl["entries"][:5]}))
    if obs["lint"]["kind"] == "ok":
        res = obs["lint"]["results"]
        d = dict((k[1], v) for k, v in res[0][1]) if len(res) == 1 and res[0][0] == "dict" else {}
        if len(res) != 1 or d.get("level") != ["str", "error"] \
                or not str(d.get("message", ["", ""])[1]).startswith("Unparsed content"):
            bad.append(("android-broken-xml-lint", {"results": res[:3]}))
    if obs["compare"]["kind"] == "ok" and not any(
            m.startswith('Unparsed content "') for m in messages(obs["compare"], "error")):
        bad.append(("android-broken-xml-not-reported", {"details": obs["compare"]["details"]}))
    return bad


def skeleton_rows(case, obs):
    """(model request, implementation class) per entry point, from one ROBUST observation.
    classes: 0 no comparison, 1 one-error report, 2 the body ran, 3 the exception escaped"""
    if "process" in obs:
        return []
    pr, pl = obs["parse_ref"], obs["parse_l10n"]
    if pr["kind"] == "hang" or pl["kind"] == "hang":
        return []
    hp = case["ft"] != "unknown"
    pr_ok, pl_ok = pr["kind"] == "ok", pl["kind"] == "ok"
    rows = []

    def has_error(rep, msg):
        return msg in messages(rep, "error")
    for op in ("compare", "merge"):
        o = obs[op]
        if o["kind"] == "hang":
            continue
        if o["kind"] == "exc":
            # raised by the parse of the reference, or later (then the body was reached)
            cls = 3 if any("ref_entities = p.parse()" in fr[2] for fr in o["head"]) else 2
        elif not hp:
            cls = 0 if not o["details"] and not o["summary"] else 2
        elif not pl_ok and pr_ok:
            only = sum(len(e) for _, e in o["details"]) == 1 and has_error(o, pl["msg"])
            cls = 1 if only else 2
        else:
            cls = 2
        rows.append(((2, [hp, True, pr_ok, True, pl_ok]), cls, op))
    o = obs["add"]
    if o["kind"] != "hang":
        if o["kind"] == "exc":
            cls = 3
        elif not hp:
            cls = 0
        elif not pr_ok:
            cls = 1 if has_error(o, pr["msg"]) else 2
        else:
            cls = 2 if not messages(o, "error") else 1
        rows.append(((3, [hp, True, pr_ok]), cls, "add"))
    o = obs["lint"]
    if hp and o["kind"] != "hang":
        # an exception of the checks (the body) is not the skeleton's; one of a read/parse step is
        esc = o["kind"] == "exc" and any("file_parser.parse()" in fr[2] or "file_parser.readFile(" in fr[2]
                                         for fr in o["head"])
        rows.append(((4, [True, True, pr_ok, True, pl_ok]), 3 if esc else 2, "lint"))
    return rows


def skipsort_row(case, obs, keytexts):
    """strings.xml: the skips of the merging run, counted on the report of the plain run"""
    if case["ft"] != "android" or "process" in obs or obs["compare"]["kind"] != "ok":
        return None
    m = obs["merge"]
    if m["kind"] == "ok":
        impl = [0, []]
    elif m["kind"] == "exc" and m["type"] == "TypeError" and any("skips.sort" in fr[2] for fr in m["tb"]):
        impl = [1, common.TAGS["TypeError"]]
    else:
        return None
    n_junk = 0
    bad_keys = set()        # an entity is listed once, whatever the number of its errors
    for msg in messages(obs["compare"], "error"):
        if msg.startswith('Unparsed content "'):
            n_junk += 1
            continue
        for kt in keytexts:
            if msg.endswith(" for " + kt) and POS_TAIL.search(msg[:-len(" for " + kt)]):
                bad_keys.add(kt)
                break
    return (5, [len(bad_keys), n_junk]), impl


def nontrivial(obs):
    p = parse_of(obs)
    if not p:
        return False
    refkeys = {json.dumps(k) for k, junk, _, _ in p["ref"] if not junk}
    return any(junk or json.dumps(k) in refkeys for k, junk, _, _ in p["l10n"])


def outcome_class(obs):
    if "process" in obs:
        return obs["process"]["kind"]
    kinds = []
    for op in OPS:
        o = obs[op]
        kinds.append("report" if o["kind"] == "ok" else o["type"] if o["kind"] == "exc" else "hang")
    return "report" if all(k == "report" for k in kinds) else "+".join(sorted(set(kinds) - {"report"}))


# ======================================================= correspondence suites ===
def rand_text(rng, maxlen=24):
    n = rng.randint(0, maxlen)
    out = []
    for _ in range(n):
        r = rng.random()
        if r < 0.3:
            out.append(FFFD)
        elif r < 0.5:
            out.append("\n")
        elif r < 0.55:
            out.append(rng.choice(["￼", "￾", "﻿", "\U0001F600", "\x00", " ", "\x85"]))
        else:
            out.append(rng.choice("abk=# ;[]v"))
    return "".join(out)


class _Ent:
    def __init__(self, all, key):
        self.all, self.key = all, key


def impl_encoding(text):
    from compare_locales.checks.base import Checker, EntityPos
    out = []
    for tp, pos, msg, cat in Checker(None).check(None, _Ent(text, "k")):
        out.append([{"warning": 0, "error": 1}[tp], [int(isinstance(pos, EntityPos)), int(pos)],
                    canon(msg), canon(cat)])
    return out


def suite_encoding(chk, model):
    rng = chk.rng
    texts = ["", FFFD, FFFD * 3, "a" + FFFD, FFFD + "\n" + FFFD]
    texts += [rand_text(rng) for _ in range(chk.n(1500, 15000))]
    impl = []
    for t in texts:
        got = impl_encoding(t)
        impl.append([0, got])
        chk.count(("enc", t))
        # oracle: one warning per occurrence, at its offset
        want = [i for i, c in enumerate(t) if c == FFFD]
        if [g[1][1] for g in got] != want or any(g[0] != 0 or g[1][0] != 1 for g in got):
            chk.fail("encoding-finditer", {"text": t}, {"got": got, "expected_offsets": want})
    if model:
        outs = model.call([(0, [canon(t), canon("k")]) for t in texts])
        chk.correspond("ENCODING", texts, impl, outs)


def impl_format(ft, ref, l10n):
    """real compare() / lint_file() on a decoded pair of a format whose checker is the base
    Checker: (encoding warnings of the report, lint results of lint_value)"""
    from compare_locales.compare.content import ContentComparer
    from compare_locales.compare.observer import Observer
    from compare_locales.lint.linter import L10nLinter
    from compare_locales.paths import File
    from compare_locales import parser as P
    tmp = tempfile.mkdtemp(prefix="c05f_")
    try:
        name = FILE[ft]
        refp, l10np = os.path.join(tmp, "r_" + name), os.path.join(tmp, "l_" + name)
        for path, text in ((refp, ref), (l10np, l10n)):
            with open(path, "w", encoding="utf-8", newline="") as f:
                f.write(text)
        cc = ContentComparer()
        cc.observers.append(Observer())
        cc.compare(File(refp, name), File(l10np, name, locale="de"), None)
        flat = {"details": flatten_details(cc.observers.toJSON()["details"])}
        warns = [[sev, m] for sev, cat in ((0, "warning"), (1, "error")) for m in messages(flat, cat)
                 if m.startswith(FFFD)]
        lint = [[r["level"], r["lineno"], r["column"], r["message"]]
                for r in L10nLinter().lint_file(l10np, None, []) if r["message"].startswith(FFFD)]
        p = P.getParser(name)
        p.readUnicode(ref)
        refkeys = []
        for e in p.parse():
            if not isinstance(e, P.Junk) and e.key not in refkeys:
                refkeys.append(e.key)
        p.readUnicode(l10n)
        ents = list(p.parse())
        last = {e.key: e for e in ents if not isinstance(e, P.Junk)}

        def wire(e):
            start = e.pre_comment.span[0] if getattr(e, "pre_comment", None) is not None else e.span[0]
            return [start, e.span[0], e.span[1], list(e.key_span),
                    [list(e.val_span)] if e.val_span is not None else []]
        shared = [wire(last[k]) for k in refkeys if k in last]
        every = [wire(e) for e in ents if not isinstance(e, P.Junk)]
        return warns, lint, shared, every
    finally:
        shutil.rmtree(tmp, ignore_errors=True)


def suite_format(chk, model):
    rng = chk.rng
    cases = []
    for i in range(chk.n(500, 5000)):
        ft = ("ini", "inc")[i % 2]
        recs = gen_records(rng, ft)
        ref = serialize(ft, recs, rng).decode("utf-8")
        lrecs = []
        for k, v, c in gen_records(rng, ft, [k for k, _, _ in recs if rng.random() < 0.85]):
            v = v.decode("utf-8")
            for _ in range(rng.choice([0, 0, 1, 2])):
                p = rng.randint(0, len(v))
                v = v[:p] + FFFD + v[p:]
            if c is not None and rng.random() < 0.5:
                c = c + b" \xef\xbf\xbd"
            lrecs.append((k, v.encode("utf-8"), c))
        l10n = serialize(ft, lrecs, rng).decode("utf-8")
        if rng.random() < 0.15:
            l10n = FFFD + l10n
        if rng.random() < 0.15:
            l10n = l10n.rstrip("\n")
        cases.append((ft, ref, l10n))
    impl, reqs = [], []
    for ft, ref, l10n in cases:
        warns, lint, shared, every = impl_format(ft, ref, l10n)
        impl.append([0, [[[sev, canon(w)] for sev, w in warns],
                         [[{"warning": 0, "error": 1}[lv], ln, col, canon(msg)] for lv, ln, col, msg in lint]]])
        reqs.append((1, [canon(l10n), shared, every]))
        chk.count(("fmt", ft, ref, l10n))
    chk.sample({"suite": "FORMAT", "type": cases[3][0], "ref": cases[3][1], "l10n": cases[3][2],
                "impl": [common.l2s(w) for _, w in impl[3][1][0]]})
    if model:
        outs = model.call(reqs)
        chk.correspond("FORMAT", [list(c) for c in cases], impl, outs)


def suite_decode(chk):
    """the decoder oracle's contract, on the harness's byte strings"""
    from compare_locales import parser as P
    rng = chk.rng
    tmp = tempfile.mkdtemp(prefix="c05d_")
    n = 0
    try:
        path = os.path.join(tmp, "f.ini")
        p = P.getParser(path)
        for i in range(chk.n(400, 4000)):
            k = rng.randint(0, 4)
            parts = [rng.choice([b"abc", b"caf\xc3\xa9", b"\n", b"\r\n", b"\r", b"x=y", b"\x00"])
                     for _ in range(rng.randint(0, 6))]
            pos = sorted(rng.randint(0, len(parts)) for _ in range(k))
            for j, q in enumerate(pos):
                parts.insert(q + j, b"\xff")
            data = b"".join(parts)
            with open(path, "wb") as f:
                f.write(data)
            try:
                p.readFile(path)
                text = p.ctx.contents
                p.readContents(data)
                text2 = p.ctx.contents
            except Exception as e:  # noqa
                chk.fail("decode-raises", {"bytes": data.decode("latin-1")}, repr(e))
                continue
            n += 1
            if "\r" in text or text.count(FFFD) != k or text2.count(FFFD) != k:
                chk.fail("decode-contract", {"bytes": data.decode("latin-1")},
                         {"readFile": text, "readContents": text2, "injected": k})
    finally:
        shutil.rmtree(tmp, ignore_errors=True)
    chk.assumptions.append(
        f"decoder oracle (UTF-8, errors='replace', universal newlines): never raises, no carriage "
        f"return in the decoded text, one U+FFFD per injected 0xFF byte: checked on {n} byte strings")


# =================================================================== RX suite ===
def rx_alignment():
    """rxsuite addresses a generated regex by its index in tr's registry; the runner was built
    from Generated/Regexes.v.  The two orders differ while some OTHER property's facts plugin
    fails in generate() (its regexes are then missing from Regexes.v but not from the registry).
    -> (aligned up to group c05, names of the groups missing from the build)"""
    from harness import rxsuite  # noqa: puts tr/ on sys.path
    import gen_modules
    txt = open(os.path.join(common.COQ, "Generated", "Regexes.v")).read()
    m = re.search(r"all_regexes : list rx := (.*?)\.\s*$", txt, re.S | re.M)
    built = [g.strip()[:-len("_regexes")] for g in m.group(1).split("++")] if m else []
    want = []
    for pl in gen_modules.plugins():
        try:
            if gen_modules.registry_of(pl):
                want.append(gen_modules.load(pl).NAME)
        except Exception:  # noqa
            continue

    def cut(l):
        return l[:l.index("c05") + 1] if "c05" in l else None
    return cut(built) is not None and cut(built) == cut(want), [g for g in want if g not in built]


def rx_wire_only(chk):
    """engine + translator on the mochibake regex through the wire AST (no index into the
    generated list); the generated Coq term itself is exercised by suite ENCODING"""
    from harness import rxsuite
    import gen_modules
    import rx2coq
    pat, flags = gen_modules.registry(["c05"])["c05_mochibake"]
    cre = re.compile(pat, flags)
    ast, _ = rx2coq.parse(pat, flags)
    sxr = rx2coq.to_sx(ast)
    rng = chk.rng
    cases, impl, reqs = [], [], []
    for s in ["", FFFD, "a" + FFFD + FFFD] + [rand_text(rng, 10) for _ in range(chk.n(300, 1500))]:
        sl = common.s2l(s)
        for off in range(len(s) + 1):
            mm = cre.match(s, off)
            cases.append(("match-wire", s, off)); impl.append([rxsuite.span_list(mm, 0)] if mm else [])
            reqs.append((0, [sxr, 0, sl, off]))
            ms = cre.search(s, off)
            cases.append(("search-wire", s, off)); impl.append([rxsuite.span_list(ms, 0)] if ms else [])
            reqs.append((1, [sxr, 0, sl, off]))
        cases.append(("finditer-wire", s, 0)); impl.append([rxsuite.span_list(x, 0) for x in cre.finditer(s)])
        reqs.append((2, [sxr, 0, sl, 0]))
        chk.count(("rx", s))
    outs = Model("RX").call(reqs)
    chk.correspond("RX[c05, wire AST]", cases, impl, outs)


# ======================================================================= run ===
def describe(case):
    return {"type": case["ft"], "file": FILE[case["ft"]], "stream": case["stream"],
            "ref_bytes": case["ref"].decode("latin-1"), "l10n_bytes": case["l10n"].decode("latin-1"),
            "filter": bool(case.get("filter")), "extra": case.get("extra"), "expect": case.get("expect"),
            "encoding_of_bytes": "latin-1 (one character per byte)"}


KNOWN_WITNESSES = [
    # android, two entities with error-level check results, merging
    {"ft": "android", "stream": "witness", "expect": None, "filter": False,
     "ref": b'<?xml version="1.0" encoding="utf-8"?>\n<resources>\n  <string name="a">x</string>\n'
            b'  <string name="b">y</string>\n</resources>\n',
     "l10n": b'<?xml version="1.0" encoding="utf-8"?>\n<resources>\n  <string name="a">don\'t</string>\n'
             b'  <string name="b">can\'t</string>\n</resources>\n'},
]


def confirm_hangs(cases, results, pool):
    """a hang under load may be a slow machine: re-run such cases alone with a long budget"""
    idx = [i for i, o in enumerate(results)
           if o is None or "process" in o and o["process"]["kind"] == "hang"
           or "process" not in o and any(o[op]["kind"] == "hang" for op in OPS + ["parse_ref", "parse_l10n"])]
    idx = [i for i in idx if results[i] is not None]      # None: abandoned, reported as not run
    if not idx:
        return 0
    idx = idx[:6]           # a few confirmations tell slow from stuck; the others keep their outcome
    slow = Pool(min(3, len(idx)), soft=20.0, hard=90.0)
    again = slow.run([cases[i] for i in idx], 1)
    for i, o in zip(idx, again):
        results[i] = o if o is not None else {"process": {"kind": "hang", "rc": None, "stderr": ""}}
    return len(idx)


def run(chk, runner_ok):
    from harness import rxsuite
    model = Model("C05") if runner_ok else None
    if runner_ok:
        aligned, missing = rx_alignment()
        if aligned:
            rxsuite.run_rx(chk, groups=["c05"], per_regex=chk.n(200, 1000))
        else:
            chk.notes.append("RX by index skipped: the facts plugin(s) of " + ", ".join(missing) + " failed, so "
                             "the registry's indices do not address Generated.all_regexes; ran the wire-AST "
                             "form of the suite instead (the generated term is exercised by ENCODING)")
            rx_wire_only(chk)
    # corpus first
    cases = []
    cdir = os.path.join(common.VERIF, "corpus", "C05")
    if os.path.isdir(cdir):
        for fn in sorted(os.listdir(cdir)):
            if fn.endswith(".json"):
                c = json.load(open(os.path.join(cdir, fn)))
                cases.append({"ft": c["type"], "ref": c["ref_bytes"].encode("latin-1"),
                              "l10n": c["l10n_bytes"].encode("latin-1"), "stream": "corpus",
                              "expect": None, "filter": c.get("filter", False)})
    cases += [dict(c) for c in KNOWN_WITNESSES]
    cases += make_cases(chk)
    nw = max(2, min(8, (os.cpu_count() or 4) // 2))
    pool = Pool(nw, soft=chk.n(5.0, 5.0), hard=chk.n(40.0, 40.0))
    t0 = time.time()
    results = pool.run(cases, batch_size=chk.n(60, 250))
    rechecked = confirm_hangs(cases, results, pool)
    wall = time.time() - t0
    sampled = 0
    skel, skips = [], []
    slowest = (0.0, None, None)
    abandoned = xml_rejected = 0
    for case, obs in zip(cases, results):
        key = (case["ft"], case["ref"], case["l10n"])
        chk.evaluations += 1
        if obs is not None and nontrivial(obs):
            import hashlib
            chk.distinct.add(hashlib.sha1(repr(key).encode()).digest()[:8])
        if obs is None:
            abandoned += 1
            continue
        chk.hist("stream", case["stream"])
        chk.hist("type", case["ft"])
        chk.hist("outcome", outcome_class(obs))
        if "process" not in obs and obs["compare"]["kind"] == "ok":
            n = sum(len(e) for _, e in obs["compare"]["details"])
            chk.hist("compare_detail_entries", min(n, 10))
            chk.hist("encoding_warnings", min(sum(m.startswith(FFFD) for m in messages(obs["compare"], "warning")), 6))
            chk.hist("lint_results", min(len(obs["lint"].get("results", [])), 10))
        if "process" not in obs:
            for op in OPS:
                if obs[op]["kind"] == "ok" and obs[op]["t"] > slowest[0]:
                    slowest = (obs[op]["t"], op, case)
        if case["ft"] == "android" and expat_rejects(universal_decode(case["l10n"])):
            xml_rejected += 1
        for sig, detail in judge(case, obs) + judge_android_junk(case, obs):
            chk.fail(sig, describe(case), detail)
        for req, cls, op in skeleton_rows(case, obs):
            skel.append((req, cls, {"entry_point": op, **describe(case)} if cls != 2 else op))
            chk.hist("skeleton_class", "%s:%d" % (op, cls))
        parse = parse_of(obs)
        row = skipsort_row(case, obs, sorted({t for side in ("ref", "l10n") for _, _, _, t in parse[side]},
                                             key=len, reverse=True)) if parse else None
        if row:
            skips.append((row[0], row[1], describe(case)))
            chk.hist("android_skips", "%d entities, %d junk" % (min(row[0][1][0], 3), min(row[0][1][1], 3)))
        if sampled < 3 and case["stream"] == "mutated" and "process" not in obs \
                and obs["compare"]["kind"] == "ok" and obs["compare"]["details"]:
            sampled += 1
            chk.sample({"suite": "ROBUST", **describe(case),
                        "compare_details": obs["compare"]["details"][:1],
                        "lint": obs["lint"].get("results", [])[:2]})
    if abandoned:
        chk.fail("robust-run-abandoned", {"cases_not_run": abandoned},
                 f"the run was cut short after {pool.bad} hangs/crashes (each is reported on its own)")
    chk.suites.append({"name": "ROBUST", "cases": len(cases) - abandoned, "disagreements": 0})
    chk.notes.append(f"ROBUST: {len(cases)} pairs x 5 entry points in {pool.spawned} worker processes "
                     f"({nw} at a time), {wall:.1f}s; {rechecked} case(s) re-run alone after a watchdog hit; "
                     f"soft watchdog {pool.soft}s per entry point, hard {pool.hard}s per case")
    if model:
        outs = model.call([r for r, _, _ in skel])
        chk.correspond("SKELETON", [d for _, _, d in skel], [c for _, c, _ in skel], outs)
        outs = model.call([r for r, _, _ in skips])
        chk.correspond("SKIPSORT", [d for _, _, d in skips], [i for _, i, _ in skips], outs)
    if slowest[1]:
        c = slowest[2]
        chk.notes.append(f"slowest entry point that answered: {slowest[1]} {slowest[0]}s on a {c['ft']} pair "
                         f"({c['stream']}; {len(c['ref'])} + {len(c['l10n'])} bytes, l10n starts "
                         f"{c['l10n'][:40]!r})")
    chk.assumptions.append(
        f"minidom/expat oracle: a strings.xml that expat (namespace-aware, as minidom uses it) rejects raises "
        f"inside minidom.parseString and becomes a single junk entry, one lint error, one 'Unparsed content' "
        f"error: checked on {xml_rejected} rejected localizations")
    chk.assumptions.append(
        "xml.sax / fluent.syntax oracles: exceptions other than those the code catches (SAXParseException around "
        "the sax parses; fluent.syntax reports syntax errors as Junk) are observed by ROBUST as outcomes; the "
        "RecursionError family is listed in known_findings.json")
    suite_decode(chk)
    suite_encoding(chk, model)
    suite_format(chk, model)
    chk.trusted.append("oracles (contracts named in Properties/C05.v and checked at run time): the UTF-8 "
                       "decoder with errors='replace' and universal newlines; xml.dom.minidom / expat / "
                       "xml.sax; fluent.syntax")


def replay(chk, path):
    data = json.load(open(path))
    rc = 0
    tmp = tempfile.mkdtemp(prefix="c05r_")
    try:
        for f in data.get("failures", []):
            c = f["case"]
            if "ref_bytes" not in c:
                print("case", c, "(not a ROBUST case)")
                continue
            case = {"ft": c["type"], "ref": c["ref_bytes"].encode("latin-1"),
                    "l10n": c["l10n_bytes"].encode("latin-1"), "stream": c.get("stream", "replay"),
                    "expect": c.get("expect"), "filter": c.get("filter", False), "extra": c.get("extra")}
            res = Pool(1, soft=20.0, hard=90.0).run([case], 1)[0]
            bad = judge(case, res) + judge_android_junk(case, res) if res is not None else [("not-run", {})]
            print("case", c["type"], repr(case["ref"]), repr(case["l10n"]))
            print("  outcome:", outcome_class(res) if res else None)
            for sig, detail in bad:
                print("  FAIL", sig, json.dumps(detail, default=str)[:600])
            rc |= bool(bad)
    finally:
        shutil.rmtree(tmp, ignore_errors=True)
    for d in data.get("disagreements", []):
        print("disagreement", d)
        rc = 1
    return int(rc)


if __name__ == "__main__":
    if len(sys.argv) >= 5 and sys.argv[1] == "--worker":
        worker_main(sys.argv[2], int(sys.argv[3]), float(sys.argv[4]))
