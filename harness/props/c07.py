"""C07 — DTD: malformed XML values are errors, well-formed ones never are.

Suites
  RX[c07]             engine + translator on the ten regular expressions of the check
  DTD-CHECK           localized values from a value grammar (text, references to known / unknown /
                      predefined entities, character references not to & or <, balanced markup with
                      attributes) against reference files with varying sets of known entity names
  DTD-CHECK-edits     the fixed well-formedness-breaking edits applied at every position of
                      grammar values
  DTD-CHECK-numcss    number / length / CSS-spec references and localizations over a token space
  DTD-CHECK-wild      token soup values and reference files with junk (correspondence only)
  DTD-CHECK-empty     empty localized values whose declaration expat rejects on a later line (a key that
                      is a Name for parser/dtd.py but not for expat): an error at (0, 0), never an exception
  DTD-CHECK-android   extra_tests={"android-dtd"}: quoting alphabet
  END-TO-END          (oracle only) ContentComparer.compare with an Observer and L10nLinter.lint_file on real
                      .dtd files in a temporary directory: ids plain / *Key / *.accesskey ..., values equal to
                      the reference (well-formed and broken), shared unknown entities and CSS specs
  DTD-documents       the four synthetic documents
  XML                 Model/XmlContent.v (xml_doc) against real xml.sax on the documents the checker
                      built in the suites above and on documents over an XML token soup
  XML-value           content_ok / value_ok against the verdicts of the two localized documents
  DTD-entities, CSS-parse, CSS-check_style, ANDROID-content, DTD-value_position
                      the helper functions on their own
In every DTD-CHECK suite the entities come from real .dtd text parsed by getParser('x.dtd'); the
checker is getChecker(File('x.dtd', ...), extra_tests).  expat is an oracle of the model: each
parser.parse() call of the implementation is recorded (document, SAXParseException or None,
characters delivered) by wrapping xml.sax.make_parser at run time, and the model is given that
table; a document the model builds that the implementation did not parse is an `oracle-miss` and
shows up as a disagreement.

Oracle (implementation only), expected results known by construction of the token lists: grammar
values are never xmlparse errors and never make the reference unparseable; edited values always are
errors; one `Referencing unknown entity` warning per referenced name that no reference value uses,
naming it; `used in context` warnings; number / length / CSS verdicts from the token lists.
"""
import io
import itertools
import json
import re
import xml.sax
from xml.sax.handler import ContentHandler

from harness import common, rxsuite
from harness.common import Model, canon

RUNNERS = ["RX"]
FACTS = ("tables", "c07")

RULE = ("(reference file, localized file) pairs of real .dtd text: reference files of 1-6 entities "
        "whose values come from the value grammar over a per-file pool of 0-4 known entity names; "
        "localized values from the same grammar over known, unknown and predefined names; the "
        "breaking edits {bare &, bare <, unterminated reference, unclosed tag, stray end tag, "
        "mis-nested tags, %name;, bare %} at EVERY position of a sample of grammar values; number / "
        "length / CSS references x localizations exhaustively over short token sequences; a case is "
        "distinct by (reference file, localized file, key, flags); non-trivial = at least one issue")

XMLLIST = {"amp", "lt", "gt", "apos", "quot"}


# ------------------------------------------------------------ recording sax ---
class _Tee(ContentHandler):
    def __init__(self, inner, rec):
        ContentHandler.__init__(self)
        self.inner, self.rec = inner, rec

    def characters(self, content):
        self.rec.text.append(content)
        self.inner.characters(content)


class _RecParser:
    def __init__(self, real, log):
        self.real, self.log, self.text = real, log, []

    def setFeature(self, *a):
        return self.real.setFeature(*a)

    def setContentHandler(self, h):
        self.real.setContentHandler(_Tee(h, self))

    def parse(self, source):
        data = source.getvalue()
        self.text = []
        try:
            self.real.parse(io.BytesIO(data))
        except xml.sax.SAXParseException as e:
            self.log.append((data.decode("utf-8"),
                             [e.getLineNumber(), e.getColumnNumber(), " ".join(e.args)],
                             "".join(self.text)))
            raise
        self.log.append((data.decode("utf-8"), None, "".join(self.text)))


class Recording:
    """every parser.parse() of the implementation: (document, error or None, characters)"""

    def __enter__(self):
        self.log = []
        self.orig = xml.sax.make_parser
        xml.sax.make_parser = lambda *a, **k: _RecParser(self.orig(*a, **k), self.log)
        return self

    def __exit__(self, *a):
        xml.sax.make_parser = self.orig


def real_sax(doc):
    """the verdict of xml.sax on a document, as the checker configures the parser"""
    p = xml.sax.make_parser()
    p.setFeature(xml.sax.handler.feature_external_ges, False)
    p.setContentHandler(ContentHandler())
    try:
        p.parse(io.BytesIO(doc.encode("utf-8")))
    except xml.sax.SAXParseException:
        return 1
    return 0


_div_cache = {}


def name_divergent(c):
    """does expat's own table (XML 1.0 4th edition) disagree with parser/dtd.py's NameStartChar /
    NameChar about the character c?  Such documents are outside what XmlContent claims to model."""
    if c in _div_cache:
        return _div_cache[c]
    from compare_locales.parser import DTDParser
    repo_start = re.match("[" + DTDParser.NameStartChar + "]$", c) is not None
    repo_char = re.match("[" + DTDParser.NameChar + "]$", c) is not None
    sax_start = real_sax('<!DOCTYPE e [<!ENTITY %s "">]><e/>' % c) == 0
    sax_char = real_sax('<!DOCTYPE e [<!ENTITY a%s "">]><e/>' % c) == 0
    _div_cache[c] = (repo_start != sax_start) or (repo_char != sax_char)
    return _div_cache[c]


def names_agree(text):
    return not any(ord(c) >= 0x80 and name_divergent(c) for c in set(text))


# ----------------------------------------------------------- implementation ---
def parse_dtd(text):
    from compare_locales.parser import getParser
    p = getParser("x.dtd")
    p.readUnicode(text)
    return p.parse()


def get_checker(extra=None):
    from compare_locales.checks import getChecker
    from compare_locales.paths import File
    return getChecker(File("x.dtd", "x.dtd", locale="de"), extra_tests=extra)


def canon_pos(p):
    from compare_locales.checks import EntityPos
    if isinstance(p, tuple):
        return [2, int(p[0]), int(p[1])]
    if isinstance(p, EntityPos):
        return [1, int(p)]
    return [0, int(p)]


def canon_issues(issues):
    out = []
    for s, p, m, c in issues:
        if s not in ("error", "warning"):
            raise ValueError("severity " + repr(s))
        out.append([int(s == "error"), canon_pos(p), canon(m), canon(c)])
    return out


def cache_of(checker):
    k = checker._DTDChecker__known_entities
    return [] if k is None else [[canon(n) for n in sorted(k)]]


def ent_sx(e):
    return [canon(e.key), canon(e.raw_val), canon(e.all)]


def uesc_answer(checker, text):
    try:
        checker.unicode_escape(text)
    except UnicodeDecodeError as e:
        return [[e.args[2], canon(e.args[4])]]
    return []


def run_check(checker, ref_ent, l10n_ent, android):
    """-> (canonical result, raw issues or None, model request payload, recorded log)"""
    cache_in = cache_of(checker)
    if checker.reference is None:
        reference = []
    elif cache_in:
        reference = [[]]        # known_entities answers from the cache: the values are not read again
    else:
        # every entry of the reference, whatever values() makes of repeated keys
        reference = [[canon(e.raw_val) for e in tuple.__iter__(checker.reference)]]
    raw = []
    with Recording() as rec:
        try:
            raw.extend(checker.check(ref_ent, l10n_ent))
            res = [0, [canon_issues(raw), cache_of(checker)]]
        except Exception as e:  # noqa
            res, raw = [1, common.TAGS.get(type(e).__name__, 99), type(e).__name__], None
    raised = None
    if raw is None:
        raised, res = res[2], res[:2]
    table = [[canon(d), [] if err is None else [[err[0], err[1], canon(err[2])]], canon(t)]
             for d, err, t in rec.log]
    ut = []
    if android:
        text = checker.texthandler.textcontent
        ut = [[canon(text), uesc_answer(checker, text)]]
    payload = [cache_in, reference, int(android), ent_sx(ref_ent), ent_sx(l10n_ent), table, ut]
    run_check.raised = raised
    return res, raw, payload, rec.log


# ------------------------------------------------------------ value grammar ---
# nodes: ("t", text) | ("e", name) | ("c", code point, hex?) | ("el", name, attrs, children | None)
# attrs: [(name, [parts])], parts are "t" / "e" / "c" nodes
TEXT_CHARS = list("abcxyz ABC .,;:#=/!?-_()[]>*+") + ["\n", "é", "あ", "\U0001F600", "\xa0", "]"]
ATTR_CHARS = list("abc xyz.,;:#=/!?->_()[]") + ["é", "\n"]
CHARREF_TARGETS = [32, 10, 9, 37, 62, 34, 39, 93, 65, 233, 0x3042, 0x1F600, 0xA0, 59, 35, 0x2028]
TAG_NAMES = ["b", "i", "a", "html:span", "x-y", "em"]
ATTR_NAMES = ["href", "class", "id", "xml:lang", "data-x"]
NAME_POOL = ["brandShortName", "foo", "bar.baz", "a-b", "x1", "_u", "é", "vendor", "n", "foo.bar"]
# entity names that are, or start like, an HTML5 named character reference (html.unescape would
# replace them: Entity.val vs raw_val): with the trailing-; form (nbsp, hellip, copy, eacute) and the
# legacy form without it (copy|right, reg|ion, times|tamp, not|ification, amp|le, lt|r, gt|k)
HTML_LIKE_NAMES = ["copyright", "region", "timestamp", "notification", "nbsp", "hellip", "copy", "eacute",
                   "ample", "ltr", "gtk", "quote", "copy.label", "reg-x"]
UNKNOWN_POOL = ["unk", "zzz", "other.name", "Q", "b", "brandShortNam", "foo2"]
SHADOW_NAMES = ["brandShortName", "brandFullName", "shadow.only", "vendorShortName"]


def gen_text(rng, alphabet, q):
    n = rng.randint(1, 5)
    out = []
    for _ in range(n):
        if rng.random() < 0.08:
            out.append(q)                 # the quote character that is not the DTD delimiter
        else:
            out.append(rng.choice(alphabet))
    return "".join(out)


def gen_ref(rng, names):
    r = rng.random()
    if r < 0.2 or not names:
        return ("e", rng.choice(sorted(XMLLIST)))
    return ("e", rng.choice(names))


def gen_charref(rng):
    return ("c", rng.choice(CHARREF_TARGETS), rng.random() < 0.4)


def gen_nodes(rng, names, q, depth, maxn):
    out = []
    for _ in range(rng.randint(0, maxn)):
        r = rng.random()
        if r < 0.4:
            out.append(("t", gen_text(rng, TEXT_CHARS, q)))
        elif r < 0.62:
            out.append(gen_ref(rng, names))
        elif r < 0.72:
            out.append(gen_charref(rng))
        elif depth < 3:
            attrs = []
            for an in rng.sample(ATTR_NAMES, rng.choice([0, 0, 1, 1, 2])):
                parts = []
                for _ in range(rng.randint(0, 3)):
                    rr = rng.random()
                    if rr < 0.6:
                        parts.append(("t", gen_text(rng, ATTR_CHARS, "")))
                    elif rr < 0.85:
                        parts.append(gen_ref(rng, names))
                    else:
                        parts.append(gen_charref(rng))
                attrs.append((an, parts))
            kids = None if rng.random() < 0.25 else gen_nodes(rng, names, q, depth + 1, 3)
            out.append(("el", rng.choice(TAG_NAMES), attrs, kids))
        else:
            out.append(("t", gen_text(rng, TEXT_CHARS, q)))
    return out


def render_part(p, repl=False):
    if p[0] == "t":
        return p[1]
    if p[0] == "e":
        return "&" + p[1] + ";"
    if repl:
        return chr(p[1])
    return ("&#x%x;" % p[1]) if p[2] else ("&#%d;" % p[1])


def render(nodes, q, repl=False, sp=None):
    """q: the quote character of attribute values; repl: character references replaced (the
    replacement text expat parses in the second document)"""
    out = []
    for n in nodes:
        if n[0] != "el":
            out.append(render_part(n, repl))
            continue
        _, name, attrs, kids = n
        s = "<" + name
        for an, parts in attrs:
            s += " " + an + "=" + q + "".join(render_part(p, repl) for p in parts) + q
        if kids is None:
            s += "/>"
        else:
            s += ">" + render(kids, q, repl) + "</" + name + ">"
        out.append(s)
    return "".join(out)


def names_of(nodes):
    out = set()
    for n in nodes:
        if n[0] == "e":
            out.add(n[1])
        elif n[0] == "el":
            for _, parts in n[2]:
                out |= names_of(parts)
            if n[3] is not None:
                out |= names_of(n[3])
    return out


def hazards(nodes, q):
    """character references that change the parse of the REPLACEMENT TEXT (second document):
    a reference to the attribute's own quote inside its value; text in which ]]> only appears
    once the references are replaced"""
    out = set()

    def walk(ns):
        flat, flat_r = [], []
        for n in ns:
            if n[0] == "el":
                flat.append("<")
                flat_r.append("<")
                for _, parts in n[2]:
                    if any(p[0] == "c" and chr(p[1]) == q for p in parts):
                        out.add("charref-quote-in-attribute")
                if n[3] is not None:
                    walk(n[3])
            else:
                flat.append(render_part(n))
                flat_r.append(render_part(n, True))
        if "]]>" in "".join(flat_r) and "]]>" not in "".join(flat):
            out.add("charref-completes-cdata-end")
    walk(nodes)
    return out


def gen_value(rng, names, q, maxn=4):
    """a well-formed value (no ]]> in text)"""
    while True:
        nodes = gen_nodes(rng, names, q, 0, maxn)
        s = render(nodes, q)
        if "]]>" not in s:
            return nodes


# the breaking edits: every one makes every grammar value malformed at every position
EDITS = [
    ("bare-amp", "& "),
    ("bare-lt", "< "),
    ("unterminated-ref", "&foo "),
    ("unclosed-tag", "<u>"),
    ("stray-end-tag", "</u>"),
    ("mis-nested", "<u><s></u></s>"),
    ("stray-percent-ref", "%foo;"),
    ("bare-percent", "% "),
]


def dtd_entity(key, value, delim, comment=None):
    pre = "" if comment is None else "<!-- " + comment + " -->\n"
    return pre + "<!ENTITY " + key + " " + delim + value + delim + ">"


def other_quote(q):
    return "'" if q == '"' else '"'


# ------------------------------------------------------------------ oracle ---
UNKNOWN_PREFIX = "Referencing unknown entity `"
MISMATCH_RE = re.compile(r"^Entity (.*) referenced, but (.*) used in context$")


def judge_grammar(chk, info, raw, l10n_nodes, ref_nodes, known, q):
    """a grammar value: never an xmlparse error; unknown / context warnings by construction"""
    if raw is None:
        chk.fail("check-raises", info, "check() raised")
        return
    errs = [i for i in raw if i[0] == "error" and i[3] == "xmlparse"]
    hz = hazards(l10n_nodes, q)
    if errs:
        sig = "false-error:" + sorted(hz)[0] if hz else "false-error:well-formed-value"
        chk.fail(sig, info, [list(map(str, i)) for i in errs])
    if any(i[2] == "can't parse en-US value" for i in raw) and not hazards(ref_nodes, q):
        chk.fail("false-warning:reference-unparseable", info, [list(map(str, i)) for i in raw])
    refnames = names_of(ref_nodes) - XMLLIST
    lnames = names_of(l10n_nodes) - XMLLIST
    want_unknown = sorted(lnames - known)
    got_unknown = []
    got_mismatch = []
    for s, p, m, c in raw:
        if c != "xmlparse" or s != "warning":
            continue
        if m.startswith(UNKNOWN_PREFIX):
            got_unknown.append(m[len(UNKNOWN_PREFIX):].split("`")[0])
            if p != (0, 0):
                chk.fail("warning-position", info, str(p))
        mm = MISMATCH_RE.match(m)
        if mm:
            got_mismatch.append((mm.group(1), mm.group(2)))
    if got_unknown != want_unknown:
        chk.fail("unknown-entity-warnings", info, {"got": got_unknown, "expected": want_unknown})
    want_mismatch = [(k, ", ".join(sorted(refnames))) for k in sorted((lnames & known) - refnames)] \
        if refnames else []
    if got_mismatch != want_mismatch:
        chk.fail("context-warnings", info, {"got": got_mismatch, "expected": want_mismatch})


def judge_broken(chk, info, raw, edit):
    if raw is None:
        chk.fail("check-raises", info, "check() raised")
        return
    errs = [i for i in raw if i[0] == "error" and i[3] == "xmlparse"]
    if not errs:
        chk.fail("missed:" + edit, info, [list(map(str, i)) for i in raw])
    elif not isinstance(errs[0][1], tuple):
        chk.fail("error-position-shape", info, str(errs[0][1]))


# ----------------------------------------------------- files of grammar values ---
class FileCase:
    """one reference file and one localized file with the same keys"""

    def __init__(self, rng, n, wild=False):
        self.q = rng.choice(['"', "'"])               # attribute quote; DTD delimiter is the other
        self.delim = other_quote(self.q)
        self.pool = rng.sample(NAME_POOL, rng.choice([0, 1, 2, 2, 3, 4])) + \
            rng.sample(HTML_LIKE_NAMES, rng.choice([0, 0, 1, 2]))
        self.ref_nodes, self.l10n_nodes = [], []
        # names that occur in the reference only as ESCAPED TEXT (&amp;name;): not references, not known
        escaped = [x for x in rng.sample(UNKNOWN_POOL + NAME_POOL + HTML_LIKE_NAMES, rng.choice([0, 0, 1, 2]))
                   if x not in self.pool]
        l10n_names = self.pool + rng.sample(UNKNOWN_POOL, rng.randint(0, 3)) + \
            rng.sample(NAME_POOL, rng.randint(0, 2)) + rng.sample(HTML_LIKE_NAMES, rng.randint(0, 1)) + escaped * 2
        for _ in range(n):
            self.ref_nodes.append(gen_value(rng, self.pool, self.q))
            self.l10n_nodes.append(gen_value(rng, l10n_names, self.q))
        for x in escaped:
            if n:
                v = self.ref_nodes[rng.randrange(n)]
                v[rng.randint(0, len(v)):0] = [("e", "amp"), ("t", x + ";")]
        # repeated keys in the reference: an EARLIER definition (shadowed by the later one) that is the
        # only user of some entity; the known entities are collected from ALL reference values
        self.dups = []
        if n and rng.random() < 0.35:
            for x in rng.sample([y for y in SHADOW_NAMES if y not in self.pool], rng.choice([1, 1, 2])):
                self.dups.append((rng.randrange(n), [("t", rng.choice(["", "old "])), ("e", x)]))
                for v in self.l10n_nodes:
                    if rng.random() < 0.5:
                        v.insert(rng.randint(0, len(v)), ("e", x))
        self.comments = [rng.choice([None, None, "note", "a\n b"]) for _ in range(n)]

    def ref_text(self):
        shadowed = "".join(dtd_entity("k%d" % i, render(v, self.q), self.delim) + "\n"
                           for i, v in getattr(self, "dups", []))
        return shadowed + "\n".join(dtd_entity("k%d" % i, render(v, self.q), self.delim, self.comments[i])
                                    for i, v in enumerate(self.ref_nodes)) + "\n"

    def l10n_text(self, override=None):
        vals = [render(v, self.q) for v in self.l10n_nodes]
        if override:
            vals[override[0]] = override[1]
        return "\n\n".join(dtd_entity("k%d" % i, v, self.delim) for i, v in enumerate(vals)) + "\n"

    def known(self):
        out = set()
        for v in self.ref_nodes + [v for _, v in getattr(self, "dups", [])]:
            out |= names_of(v)
        return out - XMLLIST


class Batch:
    """collects cases of one suite: implementation results, model requests, recorded documents;
    the model is consulted every FLUSH cases so that memory stays bounded"""
    FLUSH = 2500

    def __init__(self, chk, suite, model=None):
        self.chk, self.suite, self.model = chk, suite, model
        self.cases, self.impl, self.reqs = [], [], []
        self.n = 0
        self.bad = []                               # (case, impl, model) of disagreements
        self.last = None
        self.docs = {}                              # document -> sax verdict (0 ok, 1 error)
        self.values = []                            # (declared, key, value, doc3 ok, doc4 ok or None)
        self.fourdocs = []                          # (request, four documents)

    def add(self, desc, checker, r, l, android=False):
        res, raw, payload, log = run_check(checker, r, l, android)
        self.cases.append(desc)
        self.impl.append(res)
        self.reqs.append((0, payload))
        self.n += 1
        self.last = (desc, res)
        self.chk.evaluations += 1
        if raw is None:
            self.chk.fail("check-raises:" + str(run_check.raised), desc,
                          "an exception escaped DTDChecker.check()")
        if raw:
            self.chk.distinct.add((self.suite, json.dumps(desc, sort_keys=True, default=str)))
        for d, err, _ in log:
            self.docs[d] = int(err is not None)
        # the localized documents: the last one or two of the log
        if raw is not None and len(log) >= 2:
            first_l10n = 2 if (len(log) >= 3 and log[0][1] is None) else 1
            if log[0][1] is None and len(log) == 4 and len(self.fourdocs) < 8000 and len(payload[1]) < 2:
                ref_payload = payload[1] if not payload[0] else [[]]
                self.fourdocs.append(((8, [payload[0], ref_payload, payload[3], payload[4]]),
                                      [canon(x[0]) for x in log]))
            l10n_docs = log[first_l10n:]
            d3 = l10n_docs[0]
            declared = re.findall(r'<!ENTITY (\S+) "">', d3[0])
            d4 = l10n_docs[1] if len(l10n_docs) > 1 else None
            self.values.append((declared, l.key, l.raw_val, int(d3[1] is None),
                                None if d4 is None else int(d4[1] is None)))
        if len(self.reqs) >= self.FLUSH:
            self.flush()
        return res, raw

    def flush(self):
        if self.model and self.reqs:
            outs = self.model.call(self.reqs)
            for c, a, b in zip(self.cases, self.impl, outs):
                if a != b and len(self.bad) < 50:
                    self.bad.append((c, a, b))
                elif a != b:
                    self.bad.append((None, 1, 0))
        self.cases, self.impl, self.reqs = [], [], []

    def finish(self):
        self.flush()
        if self.model and self.n:
            ok = self.n - len(self.bad)
            self.chk.correspond(self.suite, [b[0] for b in self.bad] + [None] * ok,
                                [b[1] for b in self.bad] + [0] * ok, [b[2] for b in self.bad] + [0] * ok)


# ---------------------------------------------------------------- num / css ---
NUM_TOKENS = ["1", "12", ".", "5", "em", "px", "ch", "in", "pt", "%", " ", "x", ""]
CSS_PROPS = ["width", "height", "min-width", "max-height"]
CSS_UNITS = ["em", "px", "ch", "pt", "rem"]
# characters Python's \s matches that are NOT CSS white space (CSS: space, tab, LF, CR, FF is
# white space in CSS but not in the checker's class [ \t\r\n]); the last two are not XML characters
CSS_NOT_WS = ["\xa0", "\u2003", "\u3000", "\u202f", "\x0c", "\x0b"]
# junk and broken declarations (missing unit, unknown property, unknown unit, stray tokens)
CSS_JUNK = ["junk ", "x ", "color: red; ", "width: 20; ", "line-height: 2em; ", "height: 2 em; ",
            "width 20ch; ", "width: 20xy; ", "12 ", "! "]


def tok_number(toks):
    """the token list spells [0-9]+ or [0-9]*.[0-9]+ (by construction of the tokens)"""
    s = [t for t in toks if t != ""]
    if not s or any(t not in ("1", "12", "5", ".") for t in s):
        return False
    if s.count(".") > 1:
        return False
    if "." in s:
        return s[-1] != "."
    return True


def tok_length(toks):
    s = [t for t in toks if t != ""]
    return len(s) >= 2 and s[-1] in ("em", "px", "ch", "cm", "in") and tok_number(s[:-1])


def render_specs(specs, rng, trailing):
    out = []
    for i, (p, n, u) in enumerate(specs):
        out.append(p + rng.choice(["", " "]) + ":" + rng.choice(["", " ", "\n"]) + n + u)
    sep = rng.choice([";", "; ", " ;\n"])
    return sep.join(out) + (rng.choice([";", " ; "]) if trailing else "")


def spec_map(specs):
    d = {}
    for p, n, u in specs:
        d[p] = u
    return d


# -------------------------------------------------------------- end to end ---
E2E_MSG = re.compile(r"^(.*) at line (-?\d+), column (-?\d+) for (\S+)$", re.S)
ANDROID_MSG = re.compile(r"^(Quotes in Android|Apostrophes in Android|.*\\[uUxN].* escape|.*escape)")
ID_STYLES = ["k%d", "open%dKey", "item%d.accesskey", "cmd%d.key", "lbl%d.commandkey", "Keyboard%d", "title%d"]
LINE0_EDITS = {"stray-percent-ref", "bare-percent"}     # reported on the DOCTYPE line: value line - 1


def e2e_file(rng, n):
    """entities of one (reference, localized) file pair: dicts with id, ref text, l10n text, kind
    and what the oracle knows by construction"""
    q = rng.choice(['"', "'"])
    pool = rng.sample(NAME_POOL + HTML_LIKE_NAMES, rng.choice([1, 2, 3]))
    shared_unknown = rng.sample(UNKNOWN_POOL, 2)
    lnames = pool + shared_unknown
    spec = [(rng.choice(CSS_PROPS), rng.choice(["1", "2.5"]), rng.choice(CSS_UNITS)) for _ in range(2)]
    spec_text = render_specs(spec, rng, True)
    ents = []
    for i in range(n):
        eid = ID_STYLES[(i + rng.randrange(len(ID_STYLES))) % len(ID_STYLES)] % i
        kind = rng.choice(["grammar", "grammar", "equal", "edit", "edit", "equal-broken", "css-same",
                           "css-units", "css-junk", "css-ws"])
        e = {"id": eid, "kind": kind, "q": q, "unknown": None, "broken": False, "edit": None}
        ref_nodes = gen_value(rng, pool, q, maxn=3)
        if kind == "grammar":
            l10n_nodes = gen_value(rng, lnames, q, maxn=3)
            e.update(ref=render(ref_nodes, q), l10n=render(l10n_nodes, q), ref_nodes=ref_nodes,
                     l10n_nodes=l10n_nodes, hazard=bool(hazards(l10n_nodes, q)))
        elif kind == "equal":
            e.update(ref=render(ref_nodes, q), l10n=render(ref_nodes, q), ref_nodes=ref_nodes,
                     l10n_nodes=ref_nodes, hazard=bool(hazards(ref_nodes, q)))
        elif kind == "edit":
            l10n_nodes = gen_value(rng, lnames, q, maxn=3)
            v = render(l10n_nodes, q)
            name, ins = rng.choice(EDITS)
            pos = rng.randint(0, len(v))
            e.update(ref=render(ref_nodes, q), l10n=v[:pos] + ins + v[pos:], ref_nodes=ref_nodes,
                     broken=True, edit=name)
        elif kind == "equal-broken":
            # the same broken text on both sides; the edit at an end, so that the names the
            # reference uses are still those of its nodes
            name, ins = rng.choice([x for x in EDITS if x[0] in ("bare-amp", "bare-lt", "unclosed-tag",
                                                                 "bare-percent", "stray-end-tag")])
            v = render(ref_nodes, q)
            v = ins + v if rng.random() < 0.5 else v + ins
            e.update(ref=v, l10n=v, ref_nodes=ref_nodes, broken=True, edit=name)
        else:
            e.update(ref=spec_text, ref_nodes=[])
            if kind == "css-same":
                e["l10n"] = spec_text if rng.random() < 0.5 else render_specs(list(reversed(spec)), rng, False)
                if spec_map(list(reversed(spec))) != spec_map(spec):
                    e["l10n"] = spec_text
            elif kind == "css-units":
                other = [(spec[0][0], "3", "mm")] + [s_ for s_ in spec[1:] if s_[0] != spec[0][0]]
                e["l10n"] = render_specs(other, rng, False)
                e["css"] = "warning" if spec_map(other) != spec_map(spec) else None
            elif kind == "css-ws":
                # valid except for one non-CSS white-space character (XML-legal ones only here)
                wsc = rng.choice(CSS_NOT_WS[:4])
                j = spec_text.index(":")
                e["l10n"] = rng.choice([spec_text[:j] + wsc + spec_text[j:], spec_text[:j + 1] + wsc + spec_text[j + 1:],
                                        wsc + spec_text, spec_text + wsc,
                                        spec_text.replace(";", ";" + wsc, 1)])
                e["css"] = "error"
            else:
                piece = rng.choice(CSS_JUNK)
                e["l10n"] = rng.choice([piece + spec_text, spec_text + " " + piece])
                e["css"] = "error"
        ents.append(e)
    known = set()
    for e in ents:
        known |= names_of(e["ref_nodes"])
    known -= XMLLIST
    for e in ents:
        if e["kind"] in ("grammar", "equal"):
            e["unknown"] = sorted(names_of(e["l10n_nodes"]) - XMLLIST - known)
    return ents, q


def e2e_text(ents, q, side, lead):
    """file text and the 1-based (first, last) line of every entity"""
    delim = other_quote(q)
    out, spans, line = [], {}, 1
    if lead:
        out.append("<!-- " + "\n".join("license line %d" % i for i in range(lead)) + " -->\n\n")
        line += lead + 1
    for e in ents:
        text = "<!ENTITY " + e["id"] + " " + delim + e[side] + delim + ">"
        spans[e["id"]] = (line, line + text.count("\n"))
        out.append(text + "\n\n")
        line += text.count("\n") + 2
    return "".join(out), spans, line - 1


def run_e2e(chk, rng):
    """ContentComparer.compare and L10nLinter.lint_file on real files: every broken value is an error
    naming its key, no well-formed one is, unknown entities are warned by name — whatever the id
    looks like and whether or not the value equals the reference; positions inside the file"""
    import os
    import shutil
    import tempfile
    from compare_locales.compare.content import ContentComparer
    from compare_locales.compare.observer import Observer
    from compare_locales.lint.linter import L10nLinter
    from compare_locales.paths import File

    work = tempfile.mkdtemp(prefix="verif_c07_")
    nent = 0
    try:
        for fi in range(chk.n(40, 400)):
            android = fi % 5 == 4
            ents, q = e2e_file(rng, rng.randint(6, 12))
            rtext, rspans, rlines = e2e_text(ents, q, "ref", 0)
            ltext, lspans, llines = e2e_text(ents, q, "l10n", rlines + 3)
            rpath, lpath = os.path.join(work, "ref", "x.dtd"), os.path.join(work, "de", "x.dtd")
            for path, text in ((rpath, rtext), (lpath, ltext)):
                os.makedirs(os.path.dirname(path), exist_ok=True)
                with open(path, "w", encoding="utf-8", newline="") as f:
                    f.write(text)
            log = []

            class Rec(Observer):
                def notify(self, category, file, data):
                    log.append((category, data))
                    return super().notify(category, file, data)
            cc = ContentComparer()
            cc.observers.append(Rec())
            info = {"ref_file": rtext, "l10n_file": ltext, "android": android}
            try:
                cc.compare(File(rpath, "x.dtd", locale="de"), File(lpath, "x.dtd", locale="de"), None,
                           extra_tests=["android-dtd"] if android else None)
            except Exception as exc:  # noqa
                chk.fail("e2e-compare-raises:" + type(exc).__name__, info, str(exc))
                continue
            per = {e["id"]: {"error": [], "warning": []} for e in ents}
            for cat, data in log:
                if cat not in ("error", "warning"):
                    continue
                m = E2E_MSG.match(data)
                if not m or m.group(4) not in per:
                    chk.fail("e2e-unattributed-message", info, [cat, data])
                    continue
                per[m.group(4)][cat].append((m.group(1), int(m.group(2)), int(m.group(3))))
            for e in ents:
                nent += 1
                chk.count(("e2e", rtext, ltext, e["id"]))
                chk.hist("e2e_kind", e["kind"])
                chk.hist("e2e_id_style", re.sub(r"\d+", "N", e["id"]))
                got = per[e["id"]]
                einfo = dict(info, key=e["id"], kind=e["kind"], edit=e["edit"])
                errs = [x for x in got["error"] if not (android and ANDROID_MSG.match(x[0]))]
                if e["broken"] and not errs:
                    chk.fail("e2e-missed-error:" + e["kind"], einfo, got)
                if e["kind"] in ("grammar", "equal") and errs and not e["hazard"]:
                    chk.fail("e2e-false-error:" + e["kind"], einfo, got)
                if e["unknown"] is not None and not e.get("hazard"):
                    names = [x[0][len(UNKNOWN_PREFIX):].split("`")[0] for x in got["warning"]
                             if x[0].startswith(UNKNOWN_PREFIX)]
                    if names != e["unknown"]:
                        chk.fail("e2e-unknown-entity-warnings", einfo, {"got": names, "expected": e["unknown"]})
                if e["kind"].startswith("css"):
                    css_err = [x for x in got["error"] if x[0] == "reference is a CSS spec"]
                    css_warn = [x for x in got["warning"] if "units for" in x[0] or "only in" in x[0]]
                    want = e.get("css")
                    if (want == "error") != bool(css_err) or (want == "warning") != bool(css_warn):
                        chk.fail("e2e-css-verdict:" + e["kind"], einfo, got)
                first, last = lspans[e["id"]]
                for cat in ("error", "warning"):
                    for msg, line, col in got[cat]:
                        # the line-0 family: every message the checker puts at (0, 0) — all its xmlparse
                        # warnings — and the errors expat reports on the DOCTYPE line (stray %) are
                        # resolved by DTDEntity.value_position to the line before the value
                        lo = first - 1 if (cat == "warning" or e["edit"] in LINE0_EDITS
                                           or e["kind"] == "equal-broken") else first
                        if not (lo <= line <= llines) or (line >= first and col < 0):
                            chk.fail("e2e-position", einfo, [cat, msg, line, col, {"entity_lines": [first, last]}])
            # the linter: the localized file linted as if it were the source, then the reference itself
            for path, side, spans in ((lpath, "l10n", lspans), (rpath, "ref", rspans)):
                try:
                    res = list(L10nLinter().lint_file(path, rpath if side == "l10n" else None,
                                                      ["android-dtd"] if android else []))
                except Exception as exc:  # noqa
                    chk.fail("e2e-lint-raises:" + type(exc).__name__, info, str(exc))
                    continue
                for e in ents:
                    first, last = spans[e["id"]]
                    mine = [r for r in res if r["level"] == "error" and first - 1 <= r["lineno"] <= last
                            and not (android and ANDROID_MSG.match(r["message"]))]
                    broken = e["broken"] if side == "l10n" else e["kind"] == "equal-broken"
                    css_junk = side == "l10n" and False
                    einfo = dict(info, key=e["id"], kind=e["kind"], edit=e["edit"], linted=side)
                    if broken and not mine:
                        chk.fail("e2e-lint-missed-error:" + e["kind"], einfo, [dict(r) for r in res][:6])
                    clean = (e["kind"] in ("grammar", "equal") and not e["hazard"]) if side == "l10n" \
                        else (e["kind"] != "equal-broken" and not hazards(e["ref_nodes"], q))
                    if clean and mine:
                        chk.fail("e2e-lint-false-error:" + e["kind"], einfo, [dict(r) for r in mine])
    finally:
        shutil.rmtree(work, ignore_errors=True)
    chk.notes.append(f"END-TO-END: {nent} entities through ContentComparer.compare (Observer) and "
                     "L10nLinter.lint_file on real files in a temporary directory; a fifth of the files "
                     "with android-dtd; ids plain / *Key / *.accesskey / *.key / *.commandkey / Key*; kinds "
                     "grammar, equal to the reference, edited, broken and equal to the reference, CSS specs")
    chk.suites.append({"name": "END-TO-END (oracle only)", "cases": nent, "disagreements": 0})


# --------------------------------------------------------------------- run ---
def describe_case(c):
    return c


def run(chk, runner_ok):
    rng = chk.rng
    model = Model("C07") if runner_ok else None
    if runner_ok:
        rxsuite.run_rx(chk, groups=["c07"], per_regex=chk.n(40, 300))
    all_docs = {}
    all_values = []
    fourdocs = []

    # ---- DTD-CHECK: grammar values ------------------------------------------------------
    b = Batch(chk, "DTD-CHECK", model)
    target = chk.n(3000, 40000)
    # the fixed probes: the two hazards (see hazards()) and plain cases
    probes = [
        ([("t", "plain string")], [("t", "plain localized string")]),
        ([("t", "a "), ("e", "foo")], [("e", "foo"), ("t", " b "), ("e", "unk")]),
        ([("t", "x")], [("t", "]]"), ("c", 62, False)]),
        ([("t", "x")], [("el", "a", [("href", [("c", 34, False)])], None)]),
        ([("t", "x")], [("el", "a", [("href", [("t", "a"), ("c", 34, True)])], [("t", "y")])]),
        ([("t", "x")], [("c", 93, False), ("t", "]>")]),
        # escaped text in the reference is not a reference: &amp;vendor; knows nothing
        ([("t", "x "), ("e", "amp"), ("t", "vendor; "), ("e", "amp"), ("t", "nbsp;")], [("e", "vendor"), ("e", "nbsp")]),
        # names that are or start like an HTML named character reference are ordinary entity names
        ([("e", "copyright"), ("t", " "), ("e", "region"), ("e", "timestamp"), ("e", "notification")],
         [("e", "copyright"), ("e", "region"), ("e", "timestamp"), ("e", "notification")]),
        ([("e", "nbsp"), ("e", "copy"), ("e", "hellip")], [("e", "copy"), ("e", "nbsp"), ("e", "eacute")]),
        # a repeated key: the shadowed earlier definition is the only user of brandShortName
        ([("t", "plain")], [("e", "brandShortName"), ("t", " x")], [(0, [("e", "brandShortName"), ("t", " old")])]),
        ([("e", "foo")], [("e", "brandShortName"), ("e", "foo"), ("e", "unk")],
         [(0, [("e", "brandShortName")]), (0, [("t", "older "), ("e", "vendorShortName")])]),
    ]
    for probe in probes:
        ref_nodes, l10n_nodes = probe[0], probe[1]
        fc = FileCase(rng, 0)
        fc.q, fc.delim = '"', "'"
        fc.ref_nodes, fc.l10n_nodes, fc.comments = [ref_nodes], [l10n_nodes], [None]
        fc.dups = list(probe[2]) if len(probe) > 2 else []
        rents, lents = parse_dtd(fc.ref_text()), parse_dtd(fc.l10n_text())
        checker = get_checker()
        checker.set_reference(rents)
        info = {"ref_file": fc.ref_text(), "l10n_file": fc.l10n_text(), "key": "k0", "set_reference": True}
        res, raw = b.add(info, checker, rents["k0"], lents[0])
        judge_grammar(chk, info, raw, l10n_nodes, ref_nodes, fc.known(), fc.q)
    nfiles = 0
    while b.n < target:
        n = rng.randint(1, 6)
        fc = FileCase(rng, n)
        rtext, ltext = fc.ref_text(), fc.l10n_text()
        rents, lents = parse_dtd(rtext), parse_dtd(ltext)
        if len(rents) != n + len(fc.dups) or len(lents) != n or any(e.key != "k%d" % i for i, e in enumerate(lents)):
            raise RuntimeError("generated .dtd did not parse into its entities: " + repr(rtext))
        setref = rng.random() < 0.85
        checker = get_checker()
        if setref:
            checker.set_reference(rents)
        nfiles += 1
        chk.hist("known_names_per_file", len(fc.known()))
        for i in range(n):
            info = {"ref_file": rtext, "l10n_file": ltext, "key": "k%d" % i, "set_reference": setref}
            res, raw = b.add(info, checker, rents["k%d" % i], lents[i])
            known = fc.known() if setref else (names_of(fc.ref_nodes[i]) - XMLLIST)
            judge_grammar(chk, info, raw, fc.l10n_nodes[i], fc.ref_nodes[i], known, fc.q)
            if raw is not None:
                kinds = sorted({("E:" if s == "error" else "W:") + c for s, _, _, c in raw})
                chk.hist("grammar_issue_kinds", "+".join(kinds) or "none")
                chk.hist("l10n_value_length", min(len(lents[i].raw_val) // 10 * 10, 100))
    chk.notes.append(f"DTD-CHECK: {b.n} (reference entity, localized entity) pairs from {nfiles} "
                     "generated file pairs; 85% with set_reference, the rest with the checker's fallback "
                     "to the reference value's own names")
    chk.sample({"suite": "DTD-CHECK", "case": b.last[0], "impl": b.last[1]})
    b.finish()
    all_docs.update(b.docs)
    all_values += b.values
    fourdocs += b.fourdocs

    # ---- DTD-CHECK-edits: every edit at every position ------------------------------------
    b = Batch(chk, "DTD-CHECK-edits", model)
    target = chk.n(3000, 40000)
    nvalues = 0
    while b.n < target:
        fc = FileCase(rng, rng.randint(1, 3))
        i = rng.randrange(len(fc.l10n_nodes))
        fc.l10n_nodes[i] = gen_value(rng, fc.pool + UNKNOWN_POOL[:2], fc.q, maxn=3)
        value = render(fc.l10n_nodes[i], fc.q)
        if len(value) > 40 or not value:
            continue
        nvalues += 1
        rtext = fc.ref_text()
        rents = parse_dtd(rtext)
        checker = get_checker()
        checker.set_reference(rents)
        chk.hist("edited_value_length", len(value) // 5 * 5)
        for pos in range(len(value) + 1):
            for name, ins in EDITS:
                edited = value[:pos] + ins + value[pos:]
                ltext = fc.l10n_text((i, edited))
                lents = parse_dtd(ltext)
                if len(lents) != len(fc.l10n_nodes) or lents[i].raw_val != edited:
                    raise RuntimeError("edited .dtd did not parse into its entities: " + repr(ltext))
                info = {"ref_file": rtext, "l10n_file": ltext, "key": "k%d" % i, "set_reference": True,
                        "edit": name, "position": pos, "value": value}
                res, raw = b.add(info, checker, rents["k%d" % i], lents[i])
                judge_broken(chk, info, raw, name)
                chk.hist("edit", name)
    chk.notes.append(f"DTD-CHECK-edits: {len(EDITS)} edits at every position of {nvalues} grammar values "
                     f"(length <= 40): {b.n} cases")
    chk.sample({"suite": "DTD-CHECK-edits", "case": b.last[0], "impl": b.last[1]})
    b.finish()
    all_docs.update(b.docs)
    all_values += b.values

    # ---- DTD-CHECK-numcss --------------------------------------------------------------------
    b = Batch(chk, "DTD-CHECK-numcss", model)
    seqs = [list(p) for n in range(1, chk.n(3, 4) + 1) for p in itertools.product(NUM_TOKENS[:-1], repeat=n)]
    seqs = [s for s in seqs if "".join(s).strip() == "".join(s) and "".join(s)]
    vals = sorted({"".join(s): s for s in seqs}.items())
    refs = [v for v in vals if tok_number(v[1]) or tok_length(v[1])]
    refs = rng.sample(refs, min(len(refs), chk.n(12, 40)))
    l10ns = rng.sample(vals, min(len(vals), chk.n(150, 800)))
    ncases = []
    for rs, rt in refs:
        for ls, lt in l10ns:
            ncases.append((rs, rt, ls, lt))
    def pairs_in_files(cases, per_file=400):
        """(case, reference entity, localized entity, checker) with at most per_file entities a file"""
        for lo in range(0, len(cases), per_file):
            part = cases[lo:lo + per_file]
            rtext = "".join(dtd_entity("n%d" % i, c[0], '"') + "\n" for i, c in enumerate(part))
            ltext = "".join(dtd_entity("n%d" % i, c[1], '"') + "\n" for i, c in enumerate(part))
            rents, lents = parse_dtd(rtext), parse_dtd(ltext)
            if len(rents) != len(part) or len(lents) != len(part):
                raise RuntimeError("num/css .dtd did not parse into its entities")
            checker = get_checker()
            checker.set_reference(rents)
            for i, c in enumerate(part):
                yield c, rents[i], lents[i], checker
    for (rs, ls, rt, lt), rent, lent, checker in pairs_in_files([(c[0], c[2], c[1], c[3]) for c in ncases]):
        info = {"ref": rs, "l10n": ls}
        res, raw = b.add(info, checker, rent, lent)
        if raw is None:
            chk.fail("check-raises", info, res)
            continue
        got = sorted((s, c, m) for s, _, m, c in raw if c in ("number", "css"))
        want = []
        if tok_number(rt) and not tok_number(lt):
            want.append(("warning", "number", "reference is a number"))
        if tok_length(rt) and not tok_length(lt):
            want.append(("error", "css", "reference is a CSS length"))
        if got != sorted(want):
            chk.fail("number-length-verdict", info, {"got": got, "expected": sorted(want)})
        chk.hist("numcss_verdict", "+".join(w[1] for w in want) or "none")
    # CSS specs
    speclists = []
    triples = [(p, n, u) for p in CSS_PROPS for n in ("1", "2.5", ".5") for u in CSS_UNITS]
    for n in range(1, 3):
        for combo in itertools.product(rng.sample(triples, chk.n(7, 12)), repeat=n):
            speclists.append(list(combo))
    ccases = []
    for _ in range(chk.n(700, 8000)):
        rspec = rng.choice(speclists)
        kind = rng.choice(["same", "other", "other", "garbage", "nosemi", "text"])
        if kind == "same":
            lspec = list(rspec)
            rng.shuffle(lspec)
        else:
            lspec = rng.choice(speclists)
        rv = render_specs(rspec, rng, rng.random() < 0.5)
        lv = render_specs(lspec, rng, rng.random() < 0.5)
        expect_error = False
        if kind == "garbage":
            j = rng.randint(0, len(lv))
            lv = lv[:j] + rng.choice(["x", "!", "width", ":", "12", "em;"]) + lv[j:]
            expect_error = None                      # depends on where it lands: correspondence only
        elif kind == "nosemi" and len(lspec) > 1:
            lv = " ".join(p + ":" + n + u for p, n, u in lspec)
            expect_error = True
        elif kind == "text":
            lv = rng.choice(["wide", "12", "30em", "", "auto"])
            expect_error = True
        ccases.append((rv, lv, rspec, lspec, expect_error))
    # junk or a broken declaration in a gap of an otherwise clean localized spec: before the first
    # declaration, between two, after the last — for EVERY reference spec list of the token space.
    # Each piece has a non-blank, non-semicolon character and ends with a blank or a semicolon, so
    # it cannot fuse with its neighbours into a valid declaration: the value is unparseable by
    # construction (line-height contains a valid `height: 2em`; the `line-` before it is the junk).
    njunk = 0
    for rspec in speclists:
        rv = render_specs(rspec, rng, rng.random() < 0.5)
        bodies = [list(rspec)]
        other = rng.choice(speclists)
        bodies.append(other if len(other) > 1 else other + [rng.choice(triples)])
        for lspec in bodies:
            if len(lspec) < 2:
                lspec = lspec + [rng.choice(triples)]
            decls = [p_ + rng.choice(["", " "]) + ":" + rng.choice(["", " "]) + n_ + u_ for p_, n_, u_ in lspec]
            for piece in CSS_JUNK:
                for where in ("before", "between", "after"):
                    gaps = [rng.choice(["", " "])] + [rng.choice([";", "; ", " ;\n"]) for _ in decls[1:]] + \
                        [rng.choice(["", ";", " ; "])]
                    gi = {"before": 0, "between": rng.randint(1, len(decls) - 1), "after": len(decls)}[where]
                    # the piece goes to the end of the gap (after its semicolon); after the last
                    # declaration a separating semicolon is put in front of it
                    gaps[gi] = (gaps[gi] if gi < len(decls) else "; ") + piece
                    lv = gaps[0] + "".join(d + g for d, g in zip(decls, gaps[1:]))
                    ccases.append((rv, lv, rspec, lspec, "junk-" + where))
                    njunk += 1
    chk.notes.append(f"DTD-CHECK-numcss: {njunk} localized specs with one of {len(CSS_JUNK)} junk pieces / broken "
                     f"declarations before, between or after the declarations, for each of the {len(speclists)} "
                     "reference spec lists; expected: the css error")
    # a spec that is valid EXCEPT for one character that \s matches but [ \t\r\n] does not: next to the
    # colon, before the first declaration, between two, after the last — unparseable by construction
    nws = 0
    for rspec in speclists:
        rv = render_specs(rspec, rng, rng.random() < 0.5)
        lspec = list(rspec)
        for wsc in CSS_NOT_WS:
            for where in ("colon-before", "colon-after", "before", "between", "after"):
                if where == "between" and len(lspec) < 2:
                    continue
                di = rng.randrange(len(lspec))
                decls = []
                for j, (p_, n_, u_) in enumerate(lspec):
                    pre = wsc if (where == "colon-before" and j == di) else rng.choice(["", " "])
                    post = wsc if (where == "colon-after" and j == di) else rng.choice(["", " "])
                    decls.append(p_ + pre + ":" + post + n_ + u_)
                gaps = [wsc if where == "before" else ""] + [rng.choice([";", "; "]) for _ in decls[1:]] + \
                    [rng.choice(["", ";"])]
                if where == "between":
                    gi = rng.randint(1, len(decls) - 1)
                    gaps[gi] = rng.choice([";" + wsc, wsc + ";", "; " + wsc + " "])
                if where == "after":
                    gaps[-1] = rng.choice([";" + wsc, wsc, "; " + wsc])
                lv = gaps[0] + "".join(d + g for d, g in zip(decls, gaps[1:]))
                ccases.append((rv, lv, rspec, lspec, "ws-" + where))
                nws += 1
    chk.notes.append(f"DTD-CHECK-numcss: {nws} localized specs valid except for one of {len(CSS_NOT_WS)} characters "
                     "that \\s matches but the checker's white-space class does not (NBSP, U+2003, U+3000, U+202F, "
                     "FF, VT) next to the colon, before, between or after the declarations; expected: the css error")
    for (rv, lv, rspec, lspec, expect_error), rent, lent, checker in pairs_in_files(ccases):
        info = {"ref": rv, "l10n": lv}
        res, raw = b.add(info, checker, rent, lent)
        if raw is None:
            chk.fail("check-raises", info, res)
            continue
        css = [(s, m) for s, _, m, c in raw if c == "css"]
        if expect_error is None:
            continue
        if expect_error:
            if css != [("error", "reference is a CSS spec")]:
                chk.fail("css-" + expect_error + "-not-error" if isinstance(expect_error, str)
                         else "css-unparseable-not-error", info, css)
            chk.hist("css_verdict", expect_error if isinstance(expect_error, str) else "error")
        else:
            same = spec_map(rspec) == spec_map(lspec)
            errs = [x for x in css if x[0] == "error"]
            warns = [x for x in css if x[0] == "warning"]
            if errs:
                chk.fail("css-false-error", info, css)
            if same and warns:
                chk.fail("css-false-warning", info, css)
            if not same and len(warns) != 1:
                chk.fail("css-missed-warning", info, css)
            if not same and warns:
                # every differing property is named
                rm, lm = spec_map(rspec), spec_map(lspec)
                for p in set(rm) | set(lm):
                    if rm.get(p) != lm.get(p) and p not in warns[0][1]:
                        chk.fail("css-warning-does-not-name-property", info, css)
            chk.hist("css_verdict", "same" if same else "warning")
    chk.notes.append(f"DTD-CHECK-numcss: {len(ncases)} number/length pairs ({len(refs)} references x "
                     f"{len(l10ns)} localizations over token sequences), {len(ccases)} CSS spec pairs")
    b.finish()

    # ---- DTD-CHECK-wild: token soup, junk in the reference, exotic line breaks ----------------
    b = Batch(chk, "DTD-CHECK-wild", model)
    soup = ["&", "<", ">", "%", ";", "&foo;", "&unk;", "&amp;", "&#38;", "&#x41;", "&#0;", "<b>", "</b>",
            "<b", "/>", " a='1'", "a", " ", "\n", "\r\n", "\x85", " ", "\x0b", "é", "�", "]]>",
            "<!--", "-->", "<![CDATA[", "?>", "<?pi ", "12", "em", "width:1px", ";", "\\", "\\u00", "x",
            "&k0;", "&Ͱ;", "#", "=", "\U0001F600"]
    corpus = [
        ('<!ENTITY foo "">', '<!ENTITY\nͰ "">', None),        # was IndexError (lines[-1] of []); now (0, 0)
        ('<!ENTITY foo "">', '<!ENTITY\nͰ "x">', None),       # negative column
        ('<!ENTITY foo "a">', '<!-- c\n -->\n<!ENTITY foo "<b>x\n\n y %">', None),
        ('<!ENTITY foo "&foo;">', '<!ENTITY foo "&foo;">', None),
        ('<!ENTITY % x SYSTEM "u">\n%x;\n<!ENTITY foo "&a;">', '<!ENTITY foo "&a; &b;">', None),
        ('junk &j; <!ENTITY foo "&a;">', '<!ENTITY foo "&j;">', None),
    ]
    for rtext, ltext, _ in corpus:
        rents, lents = parse_dtd(rtext), parse_dtd(ltext)
        rk = [e for e in rents if e.key == lents[0].key or len(rents) == 1]
        checker = get_checker()
        checker.set_reference(rents)
        b.add({"ref_file": rtext, "l10n_file": ltext}, checker, rk[-1], lents[0])
    for _ in range(chk.n(1500, 20000)):
        n = rng.randint(1, 3)
        delim = rng.choice(['"', "'"])

        def soupval():
            v = "".join(rng.choice(soup) for _ in range(rng.randint(0, 6)))
            return v.replace(delim, "")
        rvals = [soupval() if rng.random() < 0.5 else render(gen_value(rng, NAME_POOL[:3], ""), "")
                 for _ in range(n)]
        lvals = [soupval() for _ in range(n)]
        rtext = "".join(dtd_entity("k%d" % i, v, delim, rng.choice([None, "c"])) +
                        rng.choice(["\n", "\n junk &jj; \n", ""]) for i, v in enumerate(rvals))
        ltext = "".join(dtd_entity("k%d" % i, v, delim, rng.choice([None, "c\n"])) + "\n"
                        for i, v in enumerate(lvals))
        rents, lents = parse_dtd(rtext), parse_dtd(ltext)
        rmap = {e.key: e for e in rents if not type(e).__name__ == "Junk"}
        checker = get_checker({"android-dtd"} if rng.random() < 0.15 else None)
        if rng.random() < 0.8:
            checker.set_reference(rents)
        for l in lents:
            if type(l).__name__ == "Junk" or l.key not in rmap:
                continue
            b.add({"ref_file": rtext, "l10n_file": ltext, "key": l.key,
                   "set_reference": checker.reference is not None, "android": checker.processContent},
                  checker, rmap[l.key], l, android=checker.processContent)
            chk.hist("wild_outcome", "raise" if b.last[1][0] else
                     ("error" if any(i[0] for i in b.last[1][1][0]) else "no-error"))
    b.finish()
    all_docs.update(b.docs)
    all_values += b.values

    # ---- DTD-CHECK-empty: empty localized values whose documents expat rejects -----------------------
    # The key (or a name a reference value uses) is a Name for parser/dtd.py but not for expat, and
    # sits on a later line of the declaration (line feed after <!ENTITY, multi-line pre-comment), so
    # the error is reported past the (empty) value.  Expected: no exception; exactly one xmlparse
    # error, at (0, 0).
    b = Batch(chk, "DTD-CHECK-empty", model)
    from compare_locales.parser import DTDParser
    cands = [c for c in map(chr, list(range(0x370, 0x380)) + [0x200C, 0x2070, 0x2C00, 0x3001, 0xF900, 0xFDF0,
                                                           0xFFFD, 0x1FFF, 0x218F, 0x2FEF])
             if re.match("[" + DTDParser.NameStartChar + "]$", c) and real_sax('<!DOCTYPE e [<!ENTITY %s "">]><e/>' % c)]
    if not cands:
        raise RuntimeError("no name character that parser/dtd.py accepts and expat rejects")
    layouts = ['<!ENTITY\n%s %s>', '<!ENTITY\n\n %s\n %s>', '<!-- c\n d -->\n<!ENTITY %s %s>',
               '<!-- c -->\n<!ENTITY\t%s\n%s\n>', '<!ENTITY %s %s>']
    for bad in cands:
        for tail in ("", "a", bad):
            key = bad + tail
            for lay in layouts:
                for empty in ('""', "''"):
                    for rval in ("", "x", "&" + key + ";"):
                        rtext = '<!ENTITY %s "%s">\n<!ENTITY other "y">\n' % (key, rval)
                        ltext = lay % (key, empty) + "\n"
                        rents, lents = parse_dtd(rtext), parse_dtd(ltext)
                        if len(lents) != 1 or lents[0].key != key or lents[0].raw_val != "":
                            raise RuntimeError("empty-value .dtd did not parse into its entity: " + repr(ltext))
                        checker = get_checker()
                        if rng.random() < 0.8:
                            checker.set_reference(rents)
                        info = {"ref_file": rtext, "l10n_file": ltext, "key": key,
                                "set_reference": checker.reference is not None}
                        res, raw = b.add(info, checker, rents[0], lents[0])
                        if raw is not None:
                            errs = [(p_, c_) for s_, p_, m_, c_ in raw if s_ == "error"]
                            # past the value only when the first document (which declares the names the
                            # reference uses, on line 1) is accepted and the declaration has a line feed
                            past = "\n" in ltext.strip() and not rval.startswith("&")
                            if len(errs) != 1 or errs[0][1] != "xmlparse" or \
                                    (past and errs[0][0] != (0, 0)) or (not past and errs[0][0][0] != 0):
                                chk.fail("empty-value-error", info, [list(map(str, i)) for i in raw])
                        chk.hist("empty_value_layout", layouts.index(lay))
    chk.notes.append(f"DTD-CHECK-empty: {b.n} empty localized values with a key expat rejects "
                     f"({len(cands)} characters x 3 key shapes x {len(layouts)} layouts x 2 quotes x 3 reference values)")
    b.finish()
    all_docs.update(b.docs)

    # ---- DTD-CHECK-android -----------------------------------------------------------------------
    b = Batch(chk, "DTD-CHECK-android", model)
    qalpha = ["a", " ", "\\", "'", '"', "\\'", '\\"', "\\u0041", "\\u00", "é", "&apos;", "&quot;",
              "&#39;", "<b>", "</b>", "\n", "\\\\"]
    acases = []
    for _ in range(chk.n(800, 8000)):
        toks = [rng.choice(qalpha) for _ in range(rng.randint(0, 7))]
        acases.append(toks)
    rtext = "".join(dtd_entity("a%d" % i, "x", '"') + "\n" for i in range(len(acases)))
    ltext = ""
    for i, toks in enumerate(acases):
        v = "".join(toks)
        delim = '"' if '"' not in v else "'"
        if delim == "'":
            v = v.replace("'", "&apos;")
        ltext += dtd_entity("a%d" % i, v, delim) + "\n"
    rents, lents = parse_dtd(rtext), parse_dtd(ltext)
    if len(lents) != len(acases):
        raise RuntimeError("android .dtd did not parse into its entities")
    checker = get_checker({"android-dtd"})
    checker.set_reference(rents)
    for i, toks in enumerate(acases):
        info = {"l10n": lents[i].raw_val}
        res, raw = b.add(info, checker, rents[i], lents[i], android=True)
        # token-level oracle for unquoted, markup-free, well-formed values: every bare quote or
        # apostrophe is an error at its offset in the text, nothing else is
        plain = all(t in ("a", " ", "'", '"', "\\'", '\\"', "é", "\\\\", "\\u0041") for t in toks)
        text = "".join(toks)
        quoted = len(text) >= 2 and text[0] in "'\"" and text[-1] == text[0]
        if raw is not None and plain and not quoted:
            want, off = [], 0
            for t in toks:
                if t in ("'", '"'):
                    want.append(off)
                off += len(t)
            got = sorted(int(p) for s, p, m, c in raw if c == "android" and s == "error")
            if got != want:
                chk.fail("android-quotes", info, {"got": got, "expected": want})
    b.finish()

    # ---- END-TO-END: ContentComparer.compare / L10nLinter.lint_file on real files ------------------------
    run_e2e(chk, rng)

    # ---- the four documents ---------------------------------------------------------------------------
    if model and fourdocs:
        fd = fourdocs[:: max(1, len(fourdocs) // chk.n(600, 6000))]
        outs = model.call([r for r, _ in fd])
        chk.correspond("DTD-documents", [c[0][1][2:] for c in fd], [[0, d] for _, d in fd], outs)

    # ---- XML: XmlContent against expat ------------------------------------------------------------------
    xsoup = ["a", " ", "\n", "&", "<", ">", ";", "&foo;", "&und;", "&amp;", "&lt;", "&#65;", "&#x1F600;",
             "&#0;", "&#xFFFE;", "&#xD800;", "&#38;", "&#x;", "&#;", "&#X41;", "<b>", "</b>", "<i>", "</i>",
             "<b/>", "<b />", "</b >", "< b>", "<b a='1'>", "<b a=\"2\" c='3'>", "<b a='1' a='2'>",
             "<b a='1'c='2'>", "<b a = '1'>", "<b a='<'>", "<b a='&foo;'>", "<b a='&und;'>", "<b a>",
             "<b a=1>", "<!-- c -->", "<!-- -- -->", "<!--->", "<![CDATA[ <&]] ]]>", "<![CDATA[", "]]>", "]]",
             "]", "<?pi x?>", "<?pi?>", "<?xml x?>", "<?XmL?>", "<?p", "?>", "<!DOCTYPE x>", "<!", "é", "\x0b",
             "￾", "%", "%foo;", "'", '"', "<é>", "</é>", "<a:b>", "</a:b>", "<-a>", "<a.b/>", "&a-b;"]
    xdocs = dict(all_docs)
    tm_a, tm_b, tm_c = "<!DOCTYPE elem [", "]>\n<elem>", "</elem>\n"
    for _ in range(chk.n(4000, 40000)):
        declared = rng.sample(["foo", "a-b", "bar"], rng.randint(0, 3))
        content = "".join(rng.choice(xsoup) for _ in range(rng.randint(0, 7)))
        subset = "".join('<!ENTITY %s "">' % d for d in declared)
        if rng.random() < 0.3:
            # second-document shape: the entity's own declaration, referenced once
            lit = content.replace('"', "")
            subset = rng.choice(["", "<!-- c -->\n"]) + '<!ENTITY self "%s">' % lit + subset
            content = "&self;"
        d = tm_a + subset + tm_b + content + tm_c
        if d not in xdocs:
            xdocs[d] = real_sax(d)
    items = sorted(xdocs.items())
    nall = len(items)
    items = [(d, v) for d, v in items if names_agree(d)]
    chk.notes.append(f"XML: {nall - len(items)} of {nall} documents left out because they contain a "
                     "character on which expat's name tables (XML 1.0 4th edition) and parser/dtd.py's "
                     "NameStartChar/NameChar (5th edition) differ, e.g. U+0370, U+FFFD")
    if len(items) > chk.n(12000, 120000):
        items = rng.sample(items, chk.n(12000, 120000))
    if model:
        outs = []
        for lo in range(0, len(items), 4000):
            outs += model.call([(6, [canon(d)]) for d, _ in items[lo:lo + 4000]])
        kept = [(d, v, o) for (d, v), o in zip(items, outs) if o != 2]
        unsup = len(items) - len(kept)
        chk.notes.append(f"XML: {len(items)} documents, {unsup} outside the fragment xml_doc supports "
                         "(parameter entities, external ids, processing instructions in the subset); "
                         f"expat rejects {sum(v for _, v, _ in kept)} of the {len(kept)} compared")
        chk.correspond("XML", [d for d, _, _ in kept], [v for _, v, _ in kept], [o for _, _, o in kept])
        for d, v in items[:: max(1, len(items) // 2000)]:
            chk.count(("xml", d))
        vals = all_values[:: max(1, len(all_values) // chk.n(4000, 40000))]
        outs = model.call([(7, [[canon(n) for n in dec], canon(key), canon(v)])
                           for dec, key, v, _, _ in vals])
        vc, vi, vo = [], [], []
        for (dec, key, v, ok3, ok4), o in zip(vals, outs):
            if (ok3 and ok4 is None) or not names_agree(v + key + "".join(dec)):
                continue
            vc.append((dec, key, v))
            vi.append([ok3, int(bool(ok3 and ok4))])
            vo.append(o)
        chk.correspond("XML-value", vc, vi, vo)

    # ---- helper functions on their own ------------------------------------------------------------------------
    from compare_locales.checks.dtd import DTDChecker
    from compare_locales.checks.base import CSSCheckMixin
    checker = get_checker({"android-dtd"})
    esoup = ["&", ";", "&foo;", "&amp;", "&a-b;", "&é;", "&#1;", "x", " ", "&&", "foo", "&:x;", "&.x;", "&-;",
             "&Ͱ;", "&x\xb7y;", "&lt;", "&unk;", "\n"]
    strs = ["".join(rng.choice(esoup) for _ in range(rng.randint(0, 6))) for _ in range(chk.n(1500, 15000))]
    impl = [[0, [canon(n) for n in sorted(checker.entities_for_value(s))]] for s in strs]
    for s in strs[::10]:
        chk.count(("erefs", s))
    if model:
        chk.correspond("DTD-entities", strs, impl, model.call([(1, [canon(s)]) for s in strs]))

    csoup = ["width", "height", "min-", "max-", ":", ";", " ", "\n", "1", ".5", "2.", "em", "px", "rem", "ch",
             "x", "width:1px", "height: 2em;", "-", "\t"]
    strs = ["".join(p) for n in range(chk.n(3, 4)) for p in itertools.product(csoup[:12], repeat=n)]
    strs += ["".join(rng.choice(csoup) for _ in range(rng.randint(0, 9))) for _ in range(chk.n(3000, 30000))]
    mixin = CSSCheckMixin()
    codes = {"css-bad-content": 0, "css-missing-semicolon": 1}

    def css_canon(s):
        m, e = mixin.parse_css_spec(s)
        return [0, [[] if m is None else [[[canon(k), canon(v)] for k, v in m.items()]],
                    [] if e is None else [[[x["pos"], codes[x["code"]]] for x in e]]]]
    impl = [css_canon(s) for s in strs]
    for s in strs[::10]:
        chk.count(("css", s))
    if model:
        chk.correspond("CSS-parse", strs, impl, model.call([(2, [canon(s)]) for s in strs]))
    # parse(render(specs)) = the map, no errors: the statement of C07_css on the implementation
    for specs in speclists[:: max(1, len(speclists) // chk.n(300, 2000))]:
        s = render_specs(specs, rng, rng.random() < 0.5)
        m, e = mixin.parse_css_spec(s)
        if m != spec_map(specs) or e:
            chk.fail("css-parse-rendered-spec", {"specs": specs, "text": s}, {"map": m, "errors": e})
    # the statements of C07_css_parse / C07_css_parse_errors on the implementation: declaration lists
    # of any length, arbitrary white-space layout, arbitrary inert text in the gaps
    WSC = " \t\r\n"
    ALLP = ["width", "height", "min-width", "min-height", "max-width", "max-height"]
    ALLU = ["ch", "em", "ex", "rem", "px", "cm", "mm", "in", "pc", "pt"]
    INERT = " \t\n;:.-019xyzabcdefgijklnopqrstuv!#é"          # no m, w, h: nothing starts a declaration

    def wsrun(n=3):
        return "".join(rng.choice(WSC) for _ in range(rng.randint(0, n)))

    def gap_verdict(j, after):
        """independent scanner: None | 'css-bad-content' | 'css-missing-semicolon'"""
        if not j:
            return None
        t = j.lstrip(WSC)
        semi = t.startswith(";")
        if semi:
            t = t[1:].lstrip(WSC)
        if t:
            return "css-bad-content"
        return "css-missing-semicolon" if (after and not semi) else None
    for _ in range(chk.n(1500, 15000)):
        n = rng.randint(1, 6)
        decls, text, want_errs, junk = [], "", [], rng.random() < 0.5
        for i in range(n):
            if junk and rng.random() < 0.4:
                gap = "".join(rng.choice(INERT) for _ in range(rng.randint(0, 4)))
            elif i == 0:
                gap = wsrun() + rng.choice(["", ";" + wsrun()])
            else:
                gap = wsrun() + ";" + wsrun()
            v = gap_verdict(gap, i > 0)
            if v:
                want_errs.append({"pos": len(text), "code": v})
            p_, u_ = rng.choice(ALLP), rng.choice(ALLU)
            num = rng.choice(["%d" % rng.randint(0, 999), "%s.%d" % (rng.choice(["", "0", "12"]), rng.randint(0, 99)),
                              "007"])
            text += gap + p_ + wsrun() + ":" + wsrun() + num + u_
            decls.append((p_, u_))
        tr = "".join(rng.choice(INERT) for _ in range(rng.randint(0, 3))) if junk and rng.random() < 0.4 \
            else rng.choice(["", wsrun() + ";" + wsrun()])
        v = gap_verdict(tr, True)
        if v:
            want_errs.append({"pos": len(text), "code": v})
        text += tr
        want_map = {}
        for p_, u_ in decls:
            want_map[p_] = u_
        got = mixin.parse_css_spec(text)
        if got != (want_map, want_errs or None) or list(got[0]) != list(want_map):
            chk.fail("css-parse-grammar", {"text": text}, {"got": got, "expected": (want_map, want_errs or None)})
        chk.count(("cssgrammar", text))
    maps = [None, {}] + [spec_map(sl) for sl in speclists[:: max(1, len(speclists) // 25)]]
    scases, impl = [], []
    for rm in maps[2:]:
        for lm in maps:
            for errs in (None, [], [{"pos": 3, "code": "css-bad-content"}]):
                raw = list(mixin.check_style(dict(rm), None if lm is None else dict(lm), errs))
                scases.append((rm, lm, errs))
                impl.append(canon_issues(raw))
    for c in scases[::5]:
        chk.count(("style", str(c)))
    if model:
        def m_sx(m):
            return [[canon(k), canon(v)] for k, v in m.items()]
        reqs = [(3, [m_sx(rm), [] if lm is None else [m_sx(lm)],
                     [] if errs is None else [[[x["pos"], codes[x["code"]]] for x in errs]]])
                for rm, lm, errs in scases]
        chk.correspond("CSS-check_style", [str(c) for c in scases], impl, model.call(reqs))

    asoup = ["a", " ", "\\", "'", '"', "\\'", '\\"', "\\u0041", "\\u00", "é", "\n", "\\\\", "\U0001F600", "\\x"]
    strs = ["".join(p) for n in range(chk.n(4, 5) + 1) for p in itertools.product("a\\'\"", repeat=n)]
    strs += ["".join(rng.choice(asoup) for _ in range(rng.randint(0, 9))) for _ in range(chk.n(2000, 20000))]
    impl, reqs = [], []
    for s in strs:
        impl.append([0, canon_issues(list(checker.processAndroidContent(s)))])
        reqs.append((5, [canon(s), [[canon(s), uesc_answer(checker, s)]]]))
    for s in strs[::10]:
        chk.count(("android", s))
    if model:
        chk.correspond("ANDROID-content", strs, impl, model.call(reqs))

    # value_position with a (line, column) tuple
    ptext = '<!-- c -->\n<!ENTITY a "x\ny">\n  <!ENTITY b\n   "zz">\n'
    pents = parse_dtd(ptext)
    pcases, impl, reqs = [], [], []
    for e in pents:
        base = e.value_position()
        for lp in range(0, 5):
            for cp in range(-2, 9):
                pcases.append((e.key, lp, cp))
                impl.append(list(e.value_position((lp, cp))))
                reqs.append((9, [base[0], base[1], lp, cp]))
    if model:
        chk.correspond("DTD-value_position", pcases, impl, model.call(reqs))
    chk.trusted.append("xml.sax / expat: an oracle of the model (every parse of the implementation is "
                       "recorded and replayed to the model); Model/XmlContent.v, the stand-in the two "
                       "_partial theorems are about, agrees with expat on the documents of suite XML")
    chk.trusted.append("the unicode-escape codec behind DTDChecker.unicode_escape (oracle of the model)")


def replay_e2e(f):
    """re-run one end-to-end failure; 1 if it still fails"""
    import os
    import shutil
    import tempfile
    from compare_locales.compare.content import ContentComparer
    from compare_locales.compare.observer import Observer
    from compare_locales.paths import File
    c, sig = f["case"], f["signature"]
    work = tempfile.mkdtemp(prefix="verif_c07_replay_")
    try:
        paths = {}
        for side in ("ref", "l10n"):
            paths[side] = os.path.join(work, side, "x.dtd")
            os.makedirs(os.path.dirname(paths[side]))
            with open(paths[side], "w", encoding="utf-8", newline="") as fh:
                fh.write(c[side + "_file"])
        log = []

        class Rec(Observer):
            def notify(self, category, file, data):
                log.append((category, data))
                return super().notify(category, file, data)
        cc = ContentComparer()
        cc.observers.append(Rec())
        try:
            cc.compare(File(paths["ref"], "x.dtd", locale="de"), File(paths["l10n"], "x.dtd", locale="de"), None,
                       extra_tests=["android-dtd"] if c.get("android") else None)
        except Exception as exc:  # noqa
            print("  compare raised", type(exc).__name__)
            return 1
    finally:
        shutil.rmtree(work, ignore_errors=True)
    got = {"error": [], "warning": []}
    for cat, data in log:
        m = E2E_MSG.match(data) if cat in got else None
        if m and m.group(4) == c.get("key"):
            got[cat].append((m.group(1), int(m.group(2)), int(m.group(3))))
    print("signature", sig, "key", c.get("key"), "\n  impl    ", got, "\n  recorded", f["detail"])
    errs = [x for x in got["error"] if not (c.get("android") and ANDROID_MSG.match(x[0]))]
    if sig.startswith("e2e-missed-error"):
        return int(not errs)
    if sig.startswith("e2e-false-error"):
        return int(bool(errs))
    if sig == "e2e-unknown-entity-warnings":
        names = [x[0][len(UNKNOWN_PREFIX):].split("`")[0] for x in got["warning"] if x[0].startswith(UNKNOWN_PREFIX)]
        return int(names != list(f["detail"]["expected"]))
    if sig == "e2e-position":
        first = f["detail"][4]["entity_lines"][0]
        return int(any(line < first - 1 for cat in got for _, line, _ in got[cat]))
    if sig.startswith("e2e-css-verdict"):
        kind = c.get("kind")
        css_err = any(x[0] == "reference is a CSS spec" for x in got["error"])
        css_warn = any("units for" in x[0] or "only in" in x[0] for x in got["warning"])
        return int({"css-junk": not css_err, "css-ws": not css_err, "css-units": False, "css-same": css_err or css_warn}.get(kind, True))
    return 1


def replay(chk, path):
    data = json.load(open(path))
    rc = 0
    for f in data.get("failures", []):
        c = f["case"]
        if f["signature"].startswith("e2e-") and "lint" not in f["signature"] and "ref_file" in c:
            rc |= replay_e2e(f)
            continue
        if "ref_file" in c and "l10n_file" in c:
            rents, lents = parse_dtd(c["ref_file"]), parse_dtd(c["l10n_file"])
            checker = get_checker()
            if c.get("set_reference", True):
                checker.set_reference(rents)
            key = c.get("key", lents[0].key)
            r = ([e for e in rents if e.key == key] or list(rents))[-1]
            l = [e for e in lents if e.key == key][-1]
        elif "ref" in c and "l10n" in c:
            rents = parse_dtd(dtd_entity("k", c["ref"], '"'))
            lents = parse_dtd(dtd_entity("k", c["l10n"], '"'))
            checker = get_checker({"android-dtd"} if f["signature"].startswith("android") else None)
            checker.set_reference(rents)
            r, l = rents[0], lents[0]
        else:
            print("case", c, f["detail"])
            rc = 1
            continue
        try:
            got = [(s, p, m, cat) for s, p, m, cat in checker.check(r, l)]
        except Exception as e:  # noqa
            got = "raised " + type(e).__name__
        print("signature", f["signature"], "\n  case", c, "\n  impl    ", got, "\n  recorded", f["detail"])
        sig = f["signature"]
        errs = [] if isinstance(got, str) else [i for i in got if i[0] == "error" and i[3] == "xmlparse"]
        if sig.startswith("false-error"):
            rc |= bool(errs)
        elif sig.startswith("missed:"):
            rc |= not errs
        elif sig.startswith("check-raises"):
            rc |= isinstance(got, str)
        elif sig == "unknown-entity-warnings" and not isinstance(got, str):
            names = [m[len(UNKNOWN_PREFIX):].split("`")[0] for _, _, m, _ in got if m.startswith(UNKNOWN_PREFIX)]
            rc |= names != list(f["detail"]["expected"])
        elif sig == "context-warnings" and not isinstance(got, str):
            pairs = [list(MISMATCH_RE.match(m).groups()) for _, _, m, _ in got if MISMATCH_RE.match(m)]
            rc |= pairs != [list(x) for x in f["detail"]["expected"]]
        elif sig == "false-warning:reference-unparseable" and not isinstance(got, str):
            rc |= any(m == "can't parse en-US value" for _, _, m, _ in got)
        elif sig.startswith("css-") and sig.endswith("-not-error"):
            rc |= isinstance(got, str) or \
                [(i[0], i[2]) for i in got if i[3] == "css"] != [("error", "reference is a CSS spec")]
        else:
            rc = 1
    for d in data.get("disagreements", []):
        print("disagreement", d)
        rc = 1
    return int(rc)
