"""C04 — l10n-merge output is complete, clean and otherwise untouched.

Suites (correspondence: the extracted model of ContentComparer.merge is given
the arguments the implementation's own compare()/add()/remove() passed to
merge() and must return the action the implementation performed — which file
was copied, which text was written or appended):
  CAPS              generated capability table against the imported parsers
  MERGE-direct      ContentComparer.merge called with synthetic skips (spans incl. None,
                    unsorted, overlapping, out of range), every capability value 0..7
  MERGE-<fmt>       (clean reference, localization) pairs rendered as real files in a
                    temporary directory: record-level edits (drop, obsolete, re-value,
                    reorder), junk injection, check-breaking values; a share with raw
                    character mutations on top; a third of the cases wired like
                    compareProjects: ContentComparer(quiet) + Observer(quiet), quiet 0..4
  MERGE-files       add() / remove() / unknown file types
  MERGE-project     compareProjects on generated TOML projects with a merge stage: a clean file, a
                    file with missing keys, files with error entities / junk, missing localized
                    files (mergeable, skip-only, copy-only / unknown), unknown-type and obsolete
                    files; every staged path against its expectation by construction
  MERGE-inc-sequence 2-4 consecutive .inc comparisons in this process where an earlier file
                    leaves `#filter emptyLines` switched on; each pair's expected staging is
                    computed from its own two texts by a line based reader written here
  MERGE-findings    the dedicated small streams of the known findings
  SPLICE-spec-<fmt> the specification of C04_splice (characters outside every span) executed
                    against what the implementation wrote, for well-placed skip lists
Oracle (implementation only): the staged file is compared again with the
reference: no junk, no check errors, for mergeable formats nothing missing;
every key carries the text of its expected source (localization iff it had an
error-free entity, else reference for mergeable formats, else absent); skip-only
formats gain nothing from the reference; clean complete localizations are byte
copies; .inc and unknown types follow the copy rules; the inputs' hashes and
the directory listing outside the merge path do not change.
"""
import codecs as real_codecs
import contextlib
import hashlib
import io
import json
import os
import re
import shutil as real_shutil
import tempfile

from harness import common
from harness.common import Model, s2l

FACTS = ("tables", "parser", "c02", "c04")

RULE = ("per format (properties, dtd, ini mergeable; ftl, po, android strings.xml skip-only; inc "
        "copy-only; txt unknown): seeded clean references (layout: comments, blank lines, final "
        "newline or not, continuation lines) and localizations made by drop / keep / re-value / "
        "check-breaking value / obsolete / reorder / junk lines, a share of them with 1-3 raw "
        "character or byte mutations; add() and remove() per format; ContentComparer.merge called "
        "directly with synthetic skip lists for every capability value; a case is distinct by "
        "(format, both file contents) or the direct call's arguments; non-trivial = at least one "
        "entity in the reference")

MERGEABLE = ("properties", "dtd", "ini")
SKIPONLY = ("ftl", "po", "android")
FILE = {"properties": "a.properties", "dtd": "a.dtd", "ini": "a.ini", "ftl": "a.ftl",
        "po": "a.po", "android": "strings.xml", "inc": "a.inc", "txt": "a.txt"}
CLS = {"properties": "PropertiesParser", "dtd": "DTDParser", "ini": "IniParser",
       "ftl": "FluentParser", "po": "PoParser", "android": "AndroidParser",
       "inc": "DefinesParser"}
# add(): formats whose reference may stand in for a missing localization
TOLERATES_ENGLISH = ("properties", "dtd", "ini", "inc", "txt")

SIG_D3 = "properties-kept-text-ends-in-odd-backslashes"
SIG_D4 = "android-skip-without-spans"
SIG_D9 = "android-two-skips-typeerror"
SIG_INI = "ini-junk-after-section-joins-comment-line"
SIG_REFCONT = "properties-reference-value-ends-in-continuation"

WORDS = ["alpha", "beta", "gamma", "delta", "uno", "zwei", "trois", "x", "Zed", "café",
         "あい", "it", "is", "ok"]
FTL_FOREIGN_SPACE = ["\u3000", "\u00a0", "\u202f", "\u2028", "\u0085", "\x0b", "\x0c", "\u2003", "\x1f"]
KEYS = ["title", "label", "menu", "tab", "ok", "name", "open", "close", "save", "help",
        "about", "quit", "file", "edit", "view", "zoom"]


# =========================================================== generation =====
def words(rng, lo=1, hi=4):
    return " ".join(rng.choice(WORDS) for _ in range(rng.randint(lo, hi)))


def fresh_key(rng, fmt, used):
    while True:
        k = rng.choice(KEYS) + (str(rng.randint(0, 40)) if rng.random() < 0.8 else "")
        if fmt in ("properties", "dtd") and rng.random() < 0.3:
            k += "." + rng.choice(["label", "accesskey", "tooltip"])
        if fmt == "po":
            k = (words(rng, 1, 3) + " " + k, rng.choice([None, None, "ctx", "menu"]))
        if k not in used:
            used.add(k)
            return k


def backslash_tail(rng, w):
    """a .properties value whose first line ends in 1..6 backslashes: an even number ends
    the value there (escaped backslashes), an odd number continues it on the next line"""
    k = rng.randint(1, 6)
    if k % 2 == 0:
        return w + "\\" * k
    return w + "\\" * k + "\n" + rng.choice(["    ", "", " "]) + words(rng, 1, 2)


def ref_value(rng, fmt):
    """-> (text, spec) where spec describes what a good localization must keep"""
    w = words(rng)
    r = rng.random()
    if fmt == "properties":
        if rng.random() < 0.12:
            return backslash_tail(rng, w), None
        if r < 0.3:
            return w + " %S", ("printf", ["%S"])
        if r < 0.45:
            return "%1$S " + w + " %2$S", ("printf", ["%1$S", "%2$S"])
        if r < 0.55:
            return w + " \\\n    " + words(rng), None
        if r < 0.62:
            return w + " \\u00e9\\n", None
        return w, None
    if fmt == "dtd":
        if r < 0.2:
            return w + " &amp; " + words(rng, 1, 2), None
        if r < 0.35:
            return "<b>" + w + "</b>", None
        if r < 0.45:
            return w + " &brandShortName;", None
        return w, None
    if fmt == "android":
        if r < 0.3:
            return w + " %1$s", ("aprintf", ["%1$s"])
        if r < 0.4:
            return "%1$d " + w + " %2$s", ("aprintf", ["%1$d", "%2$s"])
        return w, None
    if fmt == "ftl":
        if r < 0.25:
            return w + " { $n }", None
        return w, None
    return w, None


def gen_reference(rng, fmt):
    used = set()
    recs = []
    for _ in range(rng.choice([1, 2, 3, 3, 4, 5, 6, 8])):
        k = fresh_key(rng, fmt, used)
        val, spec = ref_value(rng, fmt)
        rec = {"key": k, "val": val, "spec": spec, "comment": None, "attrs": []}
        if rng.random() < 0.3:
            rec["comment"] = words(rng, 1, 3)
        if fmt == "ftl":
            r = rng.random()
            if r < 0.3:
                rec["attrs"] = [(a, words(rng, 1, 2)) for a in rng.sample(["label", "title", "alt"], rng.randint(1, 2))]
            if rec["attrs"] and rng.random() < 0.25:
                rec["val"] = None              # attributes only
            if r > 0.9:
                rec["key"] = "-" + rec["key"]  # a term
                rec["attrs"] = []
        if fmt == "po":
            rec["val"] = ""                    # reference: empty msgstr
        recs.append(rec)
    return recs, used


def l10n_good_value(rng, fmt, ref):
    w = words(rng)
    spec = ref["spec"]
    if spec:
        parts = list(spec[1])
        if len(parts) > 1 and rng.random() < 0.5:
            parts.reverse()
        return parts[0] + " " + w + "".join(" " + p for p in parts[1:])
    if fmt == "properties" and rng.random() < 0.12:
        return backslash_tail(rng, w)
    if fmt == "properties" and rng.random() < 0.15:
        return w + " \\\n  " + words(rng, 1, 2)
    if fmt == "dtd" and rng.random() < 0.2:
        return "<i>" + w + "</i> &amp;"
    return w


def l10n_bad_value(rng, fmt, ref):
    """a value with exactly one error-level check result, or None if the format has none here"""
    w = words(rng, 1, 2)
    if fmt == "properties" and ref["spec"]:
        if len(ref["spec"][1]) == 1:
            # wrong type, obsolete argument, stray %, mixed ordered / unordered, gap
            return rng.choice([w + " %d", "%S " + w + " %S", w + " % " + "%S", "100% " + w,
                               "%1$S " + w + " %S", "%2$S " + w])
        return rng.choice(["%1$S " + w + " %2$d", "%1$S " + w + " %S", "%2$S " + w,
                           "%1$S % " + w + " %2$S", "%3$S " + w + " %1$S"])
    if fmt == "dtd":
        return rng.choice(["<b>" + w, w + " & " + w, w + " <", "</i>" + w])
    if fmt == "android":
        if ref["spec"] and len(ref["spec"][1]) == 1:
            return w + " %1$d"
        return None
    return None


def gen_l10n(rng, fmt, recs, used, allow_bad=True, allow_junk=True):
    """-> items: ('rec', rec, state) | ('junk', text); state in same/revalue/bad/obsolete"""
    items = []
    for ref in recs:
        r = rng.random()
        if r < 0.2:
            continue
        rec = dict(ref, comment=words(rng, 1, 3) if rng.random() < 0.25 else None,
                   attrs=list(ref["attrs"]))
        state = "same"
        if r < 0.4:
            if fmt == "po":
                state, rec["val"] = "same", ""
        elif r < 0.75 or not allow_bad:
            state = "revalue"
            if fmt == "ftl":
                rec["attrs"] = [(a, words(rng, 1, 2)) for a, _ in ref["attrs"]]
                rec["val"] = None if ref["val"] is None else l10n_good_value(rng, fmt, ref)
            else:
                rec["val"] = l10n_good_value(rng, fmt, ref)
        else:
            bad = None
            if fmt == "ftl" and not ref["key"].startswith("-"):
                choices = []
                if ref["attrs"]:
                    choices.append("drop-attr")
                    if ref["val"] is not None and len(ref["attrs"]) >= 1:
                        choices.append("drop-value")
                    else:
                        choices.append("add-value")
                else:
                    choices.append("add-attr")
                c = rng.choice(choices)
                if c == "drop-attr":
                    # exactly one attribute goes missing (one error)
                    if len(rec["attrs"]) == 1 and ref["val"] is None:
                        c = "add-value"
                    else:
                        rec["attrs"] = rec["attrs"][1:]
                if c == "drop-value":
                    rec["val"] = None
                if c == "add-value":
                    rec["val"] = words(rng, 1, 2)
                if c == "add-attr":
                    rec["attrs"] = [("extra", words(rng, 1, 2))]
                bad = True
            else:
                v = l10n_bad_value(rng, fmt, ref)
                if v is not None:
                    rec["val"] = v
                    bad = True
            if bad:
                state = "bad"
            else:
                state = "revalue"
                if fmt != "ftl":
                    rec["val"] = l10n_good_value(rng, fmt, ref)
        items.append(("rec", rec, state))
    for _ in range(rng.choice([0, 0, 1, 1, 2])):
        k = fresh_key(rng, fmt, used)
        rec = {"key": k, "val": words(rng), "spec": None, "attrs": [],
               "comment": words(rng, 1, 2) if rng.random() < 0.2 else None}
        items.append(("rec", rec, "obsolete"))
    if rng.random() < 0.35:
        rng.shuffle(items)
    if allow_junk and rng.random() < 0.45:
        for _ in range(rng.randint(1, 2)):
            i = rng.randint(0, len(items))
            items.insert(i, ("junk", junk_text(rng, fmt)))
    return items


def junk_text(rng, fmt):
    n = rng.randint(0, 99)
    if fmt == "properties":
        return rng.choice(["junk line %d" % n, "no separator here", "garbage %d %%S" % n])
    if fmt == "dtd":
        return rng.choice(["junk text %d" % n, '<!ENTITY broken%d "x"' % n, "<!ENTY x>", "&stray;"])
    if fmt == "ini":
        return rng.choice(["junk text %d" % n, "no equals sign"])
    if fmt == "ftl":
        if rng.random() < 0.35:
            # white space of Unicode (and of `\s`) that Fluent does not treat as blank: it is
            # part of the unparsed content, at either end of the junk line
            ws = rng.choice(FTL_FOREIGN_SPACE)
            body = rng.choice(["junk here %d" % n, "続きの行", "À propos de quoi", "bad id$ = x"])
            return rng.choice([ws + body, body + ws, ws + body + ws, body + " " + ws + "?" + ws])
        return rng.choice(["junk here %d" % n, "= no id", "bad id$ = x"])
    if fmt == "po":
        return rng.choice(["junk text %d" % n, 'msgstr "orphan"', "garbage"])
    if fmt == "android":
        return rng.choice(['<junk n="%d"/>' % n, "<plurals/>"])
    if fmt == "inc":
        return rng.choice(["junk text %d" % n, "define x y"])
    return "junk"


# ------------------------------------------------------------- rendering ---
def po_quote(s):
    return '"' + s.replace("\\", "\\\\").replace('"', '\\"') + '"'


def xml_text(s):
    return s.replace("&", "&amp;").replace("<", "&lt;")


def render_comment(rng, fmt, text):
    if fmt in ("properties", "ftl", "inc"):
        return "# " + text
    if fmt == "ini":
        return rng.choice(["; ", "# "]) + text
    if fmt in ("dtd", "android"):
        return "<!-- " + text + " -->"
    if fmt == "po":
        return "#. " + text
    raise KeyError(fmt)


def render_entity(rng, fmt, rec):
    k, v = rec["key"], rec["val"]
    if fmt == "properties":
        return k + rng.choice(["=", " = ", ": ", " ="]) + v
    if fmt == "dtd":
        q = "'" if rng.random() < 0.2 and "'" not in v else '"'
        return "<!ENTITY " + k + " " + q + v + q + ">"
    if fmt == "ini":
        return k + "=" + v
    if fmt == "ftl":
        out = k + " =" + ("" if v is None else " " + v)
        for a, av in rec["attrs"]:
            out += "\n    ." + a + " = " + av
        return out
    if fmt == "po":
        msgid, ctx = k
        out = ""
        if ctx is not None:
            out += "msgctxt " + po_quote(ctx) + "\n"
        return out + "msgid " + po_quote(msgid) + "\nmsgstr " + po_quote(v)
    if fmt == "android":
        return '<string name="' + k + '">' + v + "</string>"
    if fmt == "inc":
        return "#define " + k + " " + v
    raise KeyError(fmt)


def render(rng, fmt, items, final_newline=None):
    """items: ('rec', rec, state) | ('junk', text) -> file text"""
    out = []
    if fmt == "ini":
        out.append("[Strings]\n")
    if fmt == "android":
        out.append('<?xml version="1.0" encoding="utf-8"?>\n<resources>\n')
    if fmt == "po" and rng.random() < 0.5:
        out.append('msgid ""\nmsgstr "Content-Type: text/plain; charset=UTF-8\\n"\n\n')
    indent = "  " if fmt == "android" else ""
    blank_ok = fmt != "inc"
    n = len(items)
    for i, it in enumerate(items):
        last = i == n - 1
        if it[0] == "junk":
            out.append(indent + it[1])
        else:
            rec = it[1]
            if rec["comment"] is not None:
                out.append(indent + render_comment(rng, fmt, rec["comment"]) + "\n")
            out.append(indent + render_entity(rng, fmt, rec))
        if fmt == "po":
            out.append("\n" if last else "\n\n")
        elif last and fmt != "android":
            pass
        else:
            out.append("\n" + ("\n" if blank_ok and rng.random() < 0.3 else ""))
    if fmt == "android":
        out.append("</resources>\n")
        return "".join(out)
    if not items:
        return "".join(out)
    if final_newline is None:
        final_newline = rng.random() < 0.7
    if fmt == "po":
        return "".join(out) if final_newline else "".join(out).rstrip("\n")
    return "".join(out) + ("\n" if final_newline else "")


MUT_TOKENS = {
    "properties": ["\\", "=", ":", "#", "\n", " ", "%", "%S", "\\u", "!", "\t", "\r"],
    "dtd": ["<", ">", '"', "'", "&", "<!ENTITY ", "<!--", "-->", "\n", "%", ";", " ", "﻿"],
    "ini": ["[", "]", "=", "\n", ";", "#", " "],
    "ftl": ["=", "\n", " ", ".", "{", "}", "$", "#", "-", "    .x = y", "*[", "->",
            "\u3000", "\u00a0", "\u202f", "\x0c", "\n\u3000x", "y\u00a0\n"],
    "po": ['"', "\\", "\n", "msgid ", "msgstr ", "msgctxt ", "#", " "],
    "android": ["<", ">", "&", "'", '"', "\\", "%", "<!--", "\n"],
    "inc": ["#", "#define ", "\n", " ", "\n\n", "#filter emptyLines\n"],
}


def mutate_text(rng, fmt, text):
    """1-3 raw character edits; returns bytes (a byte mutation may leave invalid UTF-8)"""
    toks = MUT_TOKENS[fmt]
    for _ in range(rng.randint(1, 3)):
        if not text:
            text = rng.choice(toks)
            continue
        i = rng.randint(0, len(text))
        r = rng.random()
        if r < 0.3 and i < len(text):
            j = min(len(text), i + rng.choice([1, 1, 1, 2, 5]))
            text = text[:i] + text[j:]
        elif r < 0.75:
            text = text[:i] + rng.choice(toks) + text[i:]
        elif r < 0.85 and i < len(text):
            text = text[:i] + rng.choice(toks) + text[i + 1:]
        elif r < 0.93:
            j = rng.randint(0, len(text))
            a, b = min(i, j), max(i, j)
            text = text[:a] + text[b:] + text[a:b] if rng.random() < 0.5 else text[:b] + text[a:b] + text[b:]
        else:
            text = text[:i] + rng.choice(["é", " ", "\x0b", "\U0001f600", "\x00"]) + text[i:]
    data = text.encode("utf-8")
    if rng.random() < 0.08 and data:
        i = rng.randrange(len(data))
        data = data[:i] + bytes([rng.choice([0xff, 0xc3, 0x80])]) + data[i:]
    if rng.random() < 0.05:
        data = data.replace(b"\n", b"\r\n")
    return data


# ======================================================== implementation ====
class Collector:
    """an observer written here: records what the comparison reported"""

    def __init__(self, verdict="error"):
        self.events = []
        self.stats = {}
        # "ignore" next to a real Observer: ObserverList.notify discards it, the other
        # observers' verdict decides (all-"ignore" cannot happen, a real Observer without a
        # filter never says "ignore")
        self.verdict = verdict

    def notify(self, category, file, data):
        self.events.append((category, data))
        return self.verdict

    def updateStats(self, file, stats):
        for k, v in stats.items():
            self.stats[k] = self.stats.get(k, 0) + v

    def errors(self):
        return [d for c, d in self.events if c == "error"]

    def missing(self):
        return [d for c, d in self.events if c == "missingEntity"]


class _FileProxy:
    def __init__(self, f, trace):
        self._f, self._trace = f, trace

    def write(self, s):
        self._trace.append(("write", s))
        return self._f.write(s)

    def close(self):
        self._trace.append(("close",))
        return self._f.close()


class _ShutilProxy:
    def __init__(self, env):
        self._env = env

    def copyfile(self, src, dst, *a, **kw):
        self._env.trace.append(("copy", src, dst))
        return real_shutil.copyfile(src, dst, *a, **kw)

    def __getattr__(self, name):
        return getattr(real_shutil, name)


class _CodecsProxy:
    def __init__(self, env):
        self._env = env

    def open(self, path, mode="r", encoding=None, *a, **kw):
        self._env.trace.append(("open", path, mode, encoding))
        return _FileProxy(real_codecs.open(path, mode, encoding, *a, **kw), self._env.trace)

    def __getattr__(self, name):
        return getattr(real_codecs, name)


class Env:
    """temporary directories + the instrumented comparer (file effects of
    compare/content.py are traced through proxies of its shutil/codecs names)"""

    def __init__(self):
        from compare_locales.compare import content
        self.content = content
        self.root = tempfile.mkdtemp(prefix="verif_c04_")
        assert not self.root.startswith(("/repo", "/verif"))
        for d in ("ref", "l10n"):
            os.makedirs(os.path.join(self.root, d))
        self.trace = []
        self.calls = []
        self._saved = (content.shutil, content.codecs)
        content.shutil = _ShutilProxy(self)
        content.codecs = _CodecsProxy(self)
        env = self

        class Recording(content.ContentComparer):
            def create_merge_dir(self, merge_file):
                env.trace.append(("mkdir", merge_file))
                return super().create_merge_dir(merge_file)

            def merge(self, ref_entities, ref_file, l10n_file, merge_file, missing, skips,
                      ctx, capabilities, encoding):
                env.calls.append({
                    "trace_start": len(env.trace),
                    "ref_entities": ref_entities, "ref_file": ref_file, "l10n_file": l10n_file,
                    "merge_file": merge_file, "missing": list(missing), "skips": list(skips),
                    "contents": getattr(ctx, "contents", None), "caps": capabilities,
                    "encoding": encoding})
                return super().merge(ref_entities, ref_file, l10n_file, merge_file, missing,
                                     skips, ctx, capabilities, encoding)
        self.Recording = Recording

    def close(self):
        self.content.shutil, self.content.codecs = self._saved
        real_shutil.rmtree(self.root, ignore_errors=True)

    def path(self, side, name):
        return os.path.join(self.root, side, name)

    def merge_path(self, name):
        return os.path.join(self.root, "merge", "sub", name)

    def reset(self):
        self.trace, self.calls = [], []
        real_shutil.rmtree(os.path.join(self.root, "merge"), ignore_errors=True)

    def snapshot(self):
        """listing and hashes of everything below the root except the merge directory"""
        out = []
        for d, dirs, files in os.walk(self.root):
            if d == self.root and "merge" in dirs:
                dirs.remove("merge")
            dirs.sort()
            out.append((os.path.relpath(d, self.root), None))
            for f in sorted(files):
                p = os.path.join(d, f)
                out.append((os.path.relpath(p, self.root), hashlib.sha1(open(p, "rb").read()).hexdigest()))
        return out

    def merge_listing(self):
        out = []
        for d, dirs, files in os.walk(os.path.join(self.root, "merge")):
            for f in files:
                out.append(os.path.join(d, f))
        return sorted(out)


def write(path, data):
    with open(path, "wb") as f:
        f.write(data)


@contextlib.contextmanager
def quiet():
    with contextlib.redirect_stdout(io.StringIO()):
        yield


def kenc(k):
    """entity key -> code point list (injective over str and PO (msgid, msgctxt) tuples)"""
    if isinstance(k, str):
        return [0] + s2l(k)
    if isinstance(k, tuple) and len(k) == 2:
        return [1] + s2l(k[0]) + [0x110000] + ([0x110001] if k[1] is None else s2l(k[1]))
    if k is None:
        return [2]
    raise TypeError(repr(k))


def opt(x):
    return [] if x is None else [x]


def is_junk(s):
    from compare_locales import parser
    return isinstance(s, parser.Junk)


def call_payload(call, caps_sx):
    refs = [[kenc(e.key), s2l(e.all)] for e in call["ref_entities"]]
    skips = [[opt(s.span[0]), opt(s.span[1]), kenc(s.key), int(is_junk(s))] for s in call["skips"]]
    return [int(bool(call["merge_file"])), caps_sx, s2l(call["contents"] or ""), skips,
            [kenc(k) for k in call["missing"]], refs]


def action_of(trace, ref_path, l10n_path, merge_path):
    """the traced file effects as the model's action value; (action, problem or None)"""
    ev = [t for t in trace if t[0] != "close"]
    for t in ev:
        if t[0] == "write":
            continue
        target = t[2] if t[0] == "copy" else t[1]
        if target != merge_path:
            return None, "effect outside merge_file: %r" % (t,)
    if not ev:
        return [0], None
    if ev[0][0] != "mkdir":
        return None, "no create_merge_dir before %r" % (ev[0],)
    ev = ev[1:]
    if not ev:
        return [1], None
    if ev[0][0] == "copy":
        src = ev[0][1]
        if src not in (ref_path, l10n_path):
            return None, "copy from %r" % (src,)
        if len(ev) == 1:
            return ([3] if src == ref_path else [2]), None
        if src == l10n_path and ev[1][0] == "open" and ev[1][2] == "ab" and \
                all(t[0] == "write" for t in ev[2:]):
            return [5, s2l("".join(t[1] for t in ev[2:]))], None
        return None, "unexpected effects %r" % (ev,)
    if ev[0][0] == "open" and ev[0][2] == "wb" and all(t[0] == "write" for t in ev[1:]):
        return [4, s2l("".join(t[1] for t in ev[1:]))], None
    return None, "unexpected effects %r" % (ev,)


def staged_bytes(action, ref_bytes, l10n_bytes, encoding="utf-8"):
    """what the action leaves at merge_file (None: no file)"""
    a = action[0]
    if a in (0, 1):
        return None
    if a == 2:
        return l10n_bytes
    if a == 3:
        return ref_bytes
    text = "".join(chr(c) for c in action[1]).encode(encoding, "surrogatepass")
    return text if a == 4 else l10n_bytes + text


class Result:
    pass


def run_pair(env, fmt, ref_bytes, l10n_bytes, op="compare", quiet_level=None, name=None):
    """one compare()/add()/remove() on fresh files; everything the oracle and the model need.
    quiet_level None: the comparer has the recording Collector as its only observer;
    0..4: wired as compareProjects does it - ContentComparer(quiet) with Observer(quiet=quiet)
    appended - plus the Collector as a passive listener whose verdict never decides"""
    from compare_locales.paths import File
    name = name or FILE[fmt]
    refp, l10np, mergep = env.path("ref", name), env.path("l10n", name), env.merge_path(name)
    for side in ("ref", "l10n"):
        for f in os.listdir(os.path.join(env.root, side)):
            os.unlink(os.path.join(env.root, side, f))
    write(refp, ref_bytes)
    if l10n_bytes is not None:
        write(l10np, l10n_bytes)
    env.reset()
    r = Result()
    r.fmt, r.name, r.op = fmt, name, op
    r.ref_bytes, r.l10n_bytes = ref_bytes, l10n_bytes
    r.refp, r.l10np, r.mergep = refp, l10np, mergep
    before = env.snapshot()
    if quiet_level is None:
        cc = env.Recording()
        col = Collector()
    else:
        from compare_locales.compare.observer import Observer
        cc = env.Recording(quiet_level)
        cc.observers.append(Observer(quiet=quiet_level))
        col = Collector(verdict="ignore")
    cc.observers.append(col)
    r.quiet_level = quiet_level
    r.exc = None
    with quiet():
        try:
            if op == "compare":
                cc.compare(File(refp, name), File(l10np, name, locale="xx"), mergep)
            elif op == "add":
                cc.add(File(refp, name), File(l10np, name, locale="xx"), mergep)
            else:
                cc.remove(File(refp, name), File(l10np, name, locale="xx"), mergep)
        except Exception as e:  # noqa
            # whatever escapes compare()/add()/remove() is a failing input, not a harness crash
            r.exc = type(e).__name__
    r.untouched = before == env.snapshot()
    r.listing = env.merge_listing()
    r.merged = open(mergep, "rb").read() if os.path.isfile(mergep) else None
    r.col = col
    r.calls, r.trace = env.calls, env.trace
    r.action, r.trace_problem = action_of(env.trace, refp, l10np, mergep)
    if r.exc is not None:
        r.impl = common.raised(common.TAGS.get(r.exc, common.TAGS["RuntimeError"]))
    elif r.action is None:
        r.impl = [2, s2l(r.trace_problem)]
    else:
        r.impl = common.ok(r.action)
    return r


def recompare(env, r):
    """second comparison of the staged file against the reference, no merge"""
    from compare_locales.paths import File
    cc = env.content.ContentComparer()
    col = Collector()
    cc.observers.append(col)
    with quiet():
        cc.compare(File(r.refp, r.name), File(r.mergep, r.name, locale="xx"), None)
    return col


def parse_file(name, path):
    """-> (ordered keys, {key: entity text}, {key: raw value}, junk count) by the package's parser"""
    from compare_locales import parser
    p = parser.getParser(name)
    p.readFile(path)
    keys, texts, vals, junk = [], {}, {}, 0
    for e in p:
        if isinstance(e, parser.Junk):
            junk += 1
            continue
        keys.append(e.key)
        if hasattr(e, "node"):
            texts[e.key] = e.node.toxml()
        else:
            texts[e.key] = p.ctx.contents[e.span[0]:e.span[1]]
        vals[e.key] = e.raw_val
    return keys, texts, vals, junk


ERR_KEY = re.compile(r".* at line -?\d+, column -?\d+ for (.*)$", re.S)


def classify_errors(errors):
    """-> (keys with a check error, junk count, duplicate count, unknown messages)"""
    keys, junk, dups, other = [], 0, 0, []
    for msg in errors:
        if msg.startswith("Unparsed content"):
            junk += 1
        elif re.search(r" occurs \d+ times$", msg):
            dups += 1
        else:
            m = ERR_KEY.match(msg)
            if m:
                keys.append(m.group(1))
            else:
                other.append(msg)
    return keys, junk, dups, other


def odd_backslash_tail(text):
    n = 0
    while n < len(text) and text[len(text) - 1 - n] == "\\":
        n += 1
    return n % 2 == 1


def known_condition(r):
    """the narrow circumstances of the listed findings, read off the implementation's own
    merge arguments and file effects; None when none applies"""
    if r.op != "compare" or not r.calls:
        return None
    call = r.calls[-1]
    skips = call["skips"]
    if r.fmt == "android" and skips:
        if r.exc == "TypeError" and len(skips) >= 2 and any(s.span[0] is None for s in skips):
            return SIG_D9
        if r.exc is None:
            return SIG_D4
        return None
    if r.fmt == "ini" and r.exc is None:
        c = call["contents"]
        for s in skips:
            a, b = s.span
            if is_junk(s) and 0 < a < b and c[a - 1] != "\n" and c[b - 1] == "\n" and c[b:b + 1] in (";", "#"):
                return SIG_INI
    if r.fmt == "properties" and r.exc is None and r.action and r.action[0] in (4, 5):
        # a reference entity whose Entity.all ends in a newline (value continued into an
        # empty last line) is appended in front of another one
        try:
            order = sorted((s for s in skips if not is_junk(s)), key=lambda s: s.span[0])
            alls = [call["ref_entities"][k].all for k in call["missing"]] + \
                   [call["ref_entities"][s.key].all for s in order]
        except Exception:  # noqa
            alls = []
        if any(a.endswith("\\\n") for a in alls[:-1]):
            return SIG_REFCONT
        writes = [t[1] for t in r.trace if t[0] == "write"]
        if r.action[0] == 4:
            kept = "".join(writes[:-1]) if (call["missing"] or any(not is_junk(s) for s in skips)) \
                else None
        else:
            kept = call["contents"]
        if kept is not None and odd_backslash_tail(kept):
            return SIG_D3
    return None


# ================================================================ oracle ====
def oracle_compare(chk, env, case, r, expect=None):
    """the statement of C04 on one compare(); returns the list of (signature, detail)"""
    fmt = r.fmt
    fails = []
    pure = []
    if not r.untouched:
        pure.append(("inputs-or-outside-modified", "reference / localization / listing changed"))
    if r.listing not in ([], [r.mergep]):
        pure.append(("wrote-outside-merge-path", r.listing))
    if r.trace_problem:
        pure.append(("unexpected-file-effects", r.trace_problem))
    for call in r.calls:
        if len({id(s) for s in call["skips"]}) < len(call["skips"]):
            # repaired in /repo b431102; a recurrence is a violation whatever else happens
            pure.append(("entity-listed-twice-in-skips", [repr(s.key) for s in call["skips"]]))
    if r.exc is not None:
        fails.append(("compare-raised", r.exc))
        return pure, fails
    if r.action is not None:
        want = staged_bytes(r.action, r.ref_bytes, r.l10n_bytes)
        if want != r.merged:
            pure.append(("file-differs-from-traced-effects", {"file": repr(r.merged), "effects": repr(want)}))
    ekeys, junk1, dups1, other1 = classify_errors(r.col.errors())
    missing1 = r.col.missing()
    if fmt == "txt":
        if r.merged != r.l10n_bytes:
            fails.append(("unknown-type-not-copied-verbatim", repr(r.merged)))
        return pure, fails
    clean = not r.col.errors() and not missing1
    if fmt == "inc" and (dups1 or other1):
        chk.hist("precondition", "duplicate-keys-or-other")
        return pure, fails
    if fmt == "inc":
        want = r.l10n_bytes if clean else r.ref_bytes
        if r.merged != want:
            fails.append(("copy-only-rule", {"clean": clean, "merged": repr(r.merged)}))
        if expect is not None and expect["clean"] != clean:
            fails.append(("first-report-differs-from-construction", {"clean": clean}))
        return pure, fails
    if r.merged is None:
        fails.append(("nothing-staged", None))
        return pure, fails
    if not r.col.errors() and (not missing1 or fmt in SKIPONLY):
        if r.merged != r.l10n_bytes:
            fails.append(("clean-localization-not-byte-identical", repr(r.merged)))
    if dups1 or other1:
        # the statement is about localizations without duplicate keys
        chk.hist("precondition", "duplicate-keys-or-other" )
        return pure, fails
    chk.hist("precondition", "ok")
    # second comparison
    try:
        col2 = recompare(env, r)
    except Exception as e:  # noqa
        fails.append(("recompare-raised", type(e).__name__))
        return pure, fails
    if col2.errors():
        fails.append(("recompare-reports-errors", col2.errors()[:3]))
    if fmt in MERGEABLE and col2.missing():
        fails.append(("recompare-reports-missing", [repr(k) for k in col2.missing()[:5]]))
    # per key: the text of the expected source
    rkeys, rtexts, rvals, rjunk = parse_file(r.name, r.refp)
    lkeys, ltexts, lvals, _ = parse_file(r.name, r.l10np)
    mkeys, mtexts, mvals, mjunk = parse_file(r.name, r.mergep)
    if rjunk or len(rkeys) != len(set(rkeys)):
        raise RuntimeError("harness bug: reference not clean: %r" % (r.ref_bytes,))
    bad = set(ekeys)
    if fmt == "po":
        bad = set()
    want_src = {}
    for k in rkeys:
        if k in ltexts and (k if isinstance(k, str) else k[0]) not in bad:
            want_src[k] = "l10n"
        elif fmt in MERGEABLE:
            want_src[k] = "ref"
    for k in lkeys:
        if k not in rtexts:
            want_src[k] = "l10n"
    if len(mkeys) != len(set(mkeys)):
        fails.append(("staged-file-has-duplicate-keys", [repr(k) for k in mkeys]))
    if set(mkeys) != set(want_src):
        fails.append(("staged-keys", {"extra": [repr(k) for k in set(mkeys) - set(want_src)],
                                      "absent": [repr(k) for k in set(want_src) - set(mkeys)]}))
    for k, src in want_src.items():
        if k in mtexts and mtexts[k] != (ltexts if src == "l10n" else rtexts)[k]:
            fails.append(("staged-text-not-from-" + src, {"key": repr(k), "staged": mtexts[k]}))
            break
    if fmt in SKIPONLY:
        for k in mkeys:
            if k not in ltexts or mtexts[k] != ltexts[k]:
                fails.append(("skip-only-format-gained-reference-text", repr(k)))
                break
    # by construction of the input
    if expect is not None:
        # adjacent junk lines are one Junk entry (android: one per element)
        lo = expect["junk"] if fmt == "android" else min(1, expect["junk"])
        if sorted(bad) != sorted(expect["bad"]) or not lo <= junk1 <= expect["junk"]:
            fails.append(("first-report-differs-from-construction",
                          {"errors": sorted(bad), "junk": junk1, "expected": expect}))
        got = {kenc_s(k): v for k, v in mvals.items() if k != ("", None)}
        if got != expect["values"]:
            fails.append(("staged-values-differ-from-construction",
                          {"staged": got, "expected": expect["values"]}))
    return pure, fails


def kenc_s(k):
    return k if isinstance(k, str) else repr(k)


def expected_by_construction(fmt, recs, items):
    """per-key outcome from the edit script alone"""
    ref = {r["key"]: r for r in recs}
    values, bad, junk = {}, [], 0
    present = set()
    for it in items:
        if it[0] == "junk":
            junk += 1
            continue
        rec, state = it[1], it[2]
        present.add(rec["key"])
        if state == "bad":
            bad.append(rec["key"])
            if fmt in MERGEABLE:
                values[kenc_s(rec["key"])] = ref[rec["key"]]["val"]
        else:
            values[kenc_s(rec["key"])] = "msgstr " + po_quote(rec["val"]) if fmt == "po" else rec["val"]
    dropped = [k for k in ref if k not in present]
    if fmt in MERGEABLE:
        for k in dropped:
            values[kenc_s(k)] = ref[k]["val"]
    return {"values": values, "bad": sorted(bad), "junk": junk,
            "clean": not bad and not junk and not dropped}


def report(chk, env, case, r, expect=None, note=None):
    pure, fails = oracle_compare(chk, env, case, r, expect)
    for sig, detail in pure:
        chk.fail(sig, case, detail)
    if fails:
        known = known_condition(r)
        if known is not None:
            chk.fail(known, case, fails)
        else:
            for sig, detail in fails:
                chk.fail(sig, case, detail)
    return pure, fails


# ================================================================ suites ====
def describe(case):
    return case


def make_case(fmt, ref_bytes, l10n_bytes, stream, op="compare", quiet_level=None):
    return {"format": fmt, "op": op, "stream": stream, "quiet": quiet_level,
            "ref": ref_bytes.decode("utf-8", "replace"),
            "l10n": None if l10n_bytes is None else l10n_bytes.decode("utf-8", "backslashreplace"),
            "l10n_hex": None if l10n_bytes is None else l10n_bytes.hex()}


def model_requests(r):
    """the model requests for the merge() calls the implementation made"""
    reqs = []
    for call in r.calls:
        if r.op == "compare" and r.fmt != "txt":
            caps = [1, s2l(CLS[r.fmt])]
        else:
            caps = [0, call["caps"]]
        reqs.append((0, call_payload(call, caps)))
    return reqs


def check_reference(fmt, env, ref_bytes):
    """the generator's references must be clean: no junk, no duplicates"""
    name = FILE[fmt]
    p = env.path("ref", name)
    write(p, ref_bytes)
    keys, _, _, junk = parse_file(name, p)
    if junk or len(keys) != len(set(keys)) or not keys:
        raise RuntimeError("harness bug: reference not clean for %s: %r" % (fmt, ref_bytes))


def splice_oracle(chk, case, r, spl):
    """C04_splice on the implementation: for skips inside the text, not empty and pairwise
    identical or disjoint, what is written before the appended text is exactly the characters
    of the localization outside every skipped span, once and in order"""
    if r.exc is not None or not r.action or r.action[0] != 4 or not r.calls:
        return
    call = r.calls[-1]
    spans = [tuple(s.span) for s in call["skips"]]
    c = call["contents"]
    if not all(isinstance(a, int) and isinstance(b, int) and 0 <= a < b <= len(c) for a, b in spans):
        return
    if any(not (x == y or x[1] <= y[0] or y[1] <= x[0]) for x in spans for y in spans):
        return
    writes = [t[1] for t in r.trace if t[0] == "write"]
    body = "".join(writes[:len(spans) + 1])
    want = "".join(ch for i, ch in enumerate(c) if not any(a <= i < b for a, b in spans))
    if body != want:
        chk.fail("splice-is-not-the-uncovered-characters", case, {"body": body, "expected": want})
    spl.append((c, spans, body))


def suite_format(chk, env, model, fmt, n):
    rng = chk.rng
    cases, impls, reqs = [], [], []
    spl = []
    structured = mutated = 0
    for i in range(n):
        recs, used = gen_reference(rng, fmt)
        ref_text = render(rng, fmt, [("rec", r_, "same") for r_ in recs])
        ref_bytes = ref_text.encode("utf-8")
        allow_skips = fmt != "android"       # android skips only in MERGE-findings
        items = gen_l10n(rng, fmt, recs, used, allow_bad=allow_skips, allow_junk=allow_skips)
        text = render(rng, fmt, items)
        # raw mutations of android files (not well-formed -> junk without spans) are in MERGE-findings
        do_mut = fmt != "android" and rng.random() < 0.3
        expect = None
        if do_mut:
            l10n_bytes = mutate_text(rng, fmt, text)
            if fmt == "properties" and odd_backslash_tail(l10n_bytes.decode("utf-8", "replace")):
                # the trailing-backslash family is generated in MERGE-findings only
                l10n_bytes += b"x"
            mutated += 1
        else:
            l10n_bytes = text.encode("utf-8")
            expect = expected_by_construction(fmt, recs, items)
            structured += 1
        if i % 25 == 0:
            check_reference(fmt, env, ref_bytes)
        # a third of the cases with real observers at a quiet level (the staged file does not
        # depend on how much is reported)
        ql = rng.randint(0, 4) if rng.random() < 0.35 else None
        case = make_case(fmt, ref_bytes, l10n_bytes, "mutated" if do_mut else "structured",
                         quiet_level=ql)
        chk.hist("stream", case["stream"] + ":" + fmt)
        chk.hist("quiet", ql)
        r = run_pair(env, fmt, ref_bytes, l10n_bytes, quiet_level=ql)
        chk.count((fmt, ref_bytes, l10n_bytes, ql))
        report(chk, env, case, r, expect)
        splice_oracle(chk, case, r, spl)
        call = r.calls[-1] if r.calls else None
        chk.hist("skips_" + fmt, min(len(call["skips"]), 4) if call else "no-merge-call")
        chk.hist("action", (r.action or ["?"])[0] if r.exc is None else "raised")
        if len(r.calls) != 1:
            chk.fail("merge-call-count", case, len(r.calls))
            continue
        cases.append(case)
        impls.append(r.impl)
        reqs.extend(model_requests(r))
        if i < 1:
            chk.sample({"suite": "MERGE-" + fmt, "ref": case["ref"], "l10n": case["l10n"],
                        "staged": None if r.merged is None else r.merged.decode("utf-8", "replace"),
                        "skips": [[s.span[0], s.span[1]] for s in call["skips"]],
                        "missing": [repr(k) for k in call["missing"]]})
    chk.notes.append(f"MERGE-{fmt}: {structured} structured, {mutated} mutated")
    if model:
        outs = model.call(reqs)
        chk.correspond("MERGE-" + fmt, cases, impls, outs)
        if spl:
            outs = model.call([(7, [s2l(c), [[a, b] for a, b in sp]]) for c, sp, _ in spl])
            chk.correspond("SPLICE-spec-" + fmt, [{"contents": c, "spans": sp} for c, sp, _ in spl],
                           [s2l(b) for _, _, b in spl], outs)


# names that contain a known extension but do not end in it: no parser, copied verbatim
LOOKALIKE = [("ini", "application.ini.in"), ("properties", "a.properties.orig"), ("dtd", "b.dtd~"),
             ("ftl", "c.ftl.bak"), ("po", "foo.po.rej"), ("android", "strings.xml.orig"),
             ("inc", "defines.inc.old"), ("properties", "a.properties.in"), ("po", "foo.pot.bak"),
             ("dtd", "x.dtd.txt")]


def suite_unknown(chk, env, model, n):
    rng = chk.rng
    cases, impls, reqs = [], [], []
    for i in range(n):
        if i % 2 == 0:
            name = None
            ref_bytes = words(rng, 1, 5).encode("utf-8") + rng.choice([b"", b"\n"])
            l10n_bytes = bytes(rng.randrange(256) for _ in range(rng.randint(0, 12))) \
                if rng.random() < 0.5 else words(rng, 0, 5).encode("utf-8")
        else:
            # the contents of a known format (with missing / obsolete / broken entries) under
            # a name no parser is registered for
            fmt, name = LOOKALIKE[(i // 2) % len(LOOKALIKE)]
            recs, used = gen_reference(rng, fmt)
            ref_bytes = render(rng, fmt, [("rec", r_, "same") for r_ in recs]).encode("utf-8")
            l10n_bytes = render(rng, fmt, gen_l10n(rng, fmt, recs, used)).encode("utf-8")
        case = make_case("txt", ref_bytes, l10n_bytes, "unknown-type")
        case["name"] = name
        r = run_pair(env, "txt", ref_bytes, l10n_bytes, name=name)
        chk.count(("txt", name, ref_bytes, l10n_bytes))
        chk.hist("unknown_name", name or FILE["txt"])
        report(chk, env, case, r)
        entity_level = [c for c, _ in r.col.events if c not in ("missingFile", "obsoleteFile")]
        if entity_level or r.col.stats:
            chk.fail("unknown-type-reported-on", case, {"events": r.col.events[:5], "stats": r.col.stats})
        cases.append(case)
        impls.append(r.impl)
        reqs.append((2, [1]))
    if model:
        chk.correspond("MERGE-unknown-type", cases, impls, model.call(reqs))


def suite_files(chk, env, model, n):
    """add() and remove() for every format"""
    rng = chk.rng
    cases, impls, reqs = [], [], []
    fmts = list(FILE)
    for i in range(n):
        fmt = fmts[i % len(fmts)]
        if fmt == "txt":
            ref_bytes = words(rng, 1, 4).encode("utf-8")
        else:
            recs, used = gen_reference(rng, fmt)
            ref_bytes = render(rng, fmt, [("rec", r_, "same") for r_ in recs]).encode("utf-8")
        op = "add" if (i // len(fmts)) % 2 == 0 else "remove"
        if op == "add":
            l10n_bytes = None
        elif fmt == "txt":
            l10n_bytes = words(rng, 0, 4).encode("utf-8")
        else:
            items = gen_l10n(rng, fmt, recs, used)
            l10n_bytes = render(rng, fmt, items).encode("utf-8")
            if rng.random() < 0.3:
                l10n_bytes = mutate_text(rng, fmt, l10n_bytes.decode("utf-8"))
        case = make_case(fmt, ref_bytes, l10n_bytes, "files", op)
        r = run_pair(env, fmt, ref_bytes, l10n_bytes, op)
        chk.count((op, fmt, ref_bytes, l10n_bytes))
        chk.hist("files", op + ":" + fmt)
        if not r.untouched:
            chk.fail("inputs-or-outside-modified", case, None)
        if r.listing not in ([], [r.mergep]):
            chk.fail("wrote-outside-merge-path", case, r.listing)
        if r.trace_problem:
            chk.fail("unexpected-file-effects", case, r.trace_problem)
        if r.exc:
            chk.fail("add-remove-raised", case, r.exc)
        if op == "add":
            want = ref_bytes if fmt in TOLERATES_ENGLISH else None
            if r.merged != want:
                chk.fail("missing-file-staging", case, {"staged": repr(r.merged), "expected": repr(want)})
        else:
            if r.merged != l10n_bytes:
                chk.fail("obsolete-file-staging", case, {"staged": repr(r.merged)})
        cases.append(case)
        impls.append(r.impl)
        if op == "add":
            reqs.append((3, [1, [] if fmt == "txt" else [[1, s2l(CLS[fmt])]], s2l("trigger copy")]))
            if len(r.calls) > 1:
                chk.fail("merge-call-count", case, len(r.calls))
        else:
            reqs.append((1, [1]))
        # when merge was called, its arguments through the general entry point too
        for call in r.calls:
            cases.append(dict(case, via="merge"))
            impls.append(r.impl)
            reqs.append((0, call_payload(call, [0, call["caps"]])))
    if model:
        chk.correspond("MERGE-files", cases, impls, model.call(reqs))


# ------------------------------------------------------- whole projects ----
def tree_snapshot(root, skip):
    out = []
    for d, dirs, files in os.walk(root):
        if d == root and skip in dirs:
            dirs.remove(skip)
        dirs.sort()
        for f in sorted(files):
            q = os.path.join(d, f)
            out.append((os.path.relpath(q, root), hashlib.sha1(open(q, "rb").read()).hexdigest()))
    return out


def gen_project(rng):
    """-> list of file descriptions: dict(rel, fmt, ref (bytes or None), l10n (bytes or None),
    kind, expect (by construction, for compared files))"""
    files = []
    used_names = set()

    def relname(fmt, i):
        base = {"android": "strings.xml"}.get(fmt, "f%d%s" % (i, os.path.splitext(FILE[fmt])[1]))
        sub = rng.choice(["", "sub/", "a/b/"])
        rel = sub + base
        while rel in used_names:
            sub += "x/"
            rel = sub + base
        used_names.add(rel)
        return rel

    def pair(fmt, kind):
        recs, used = gen_reference(rng, fmt)
        ref = render(rng, fmt, [("rec", r_, "same") for r_ in recs]).encode("utf-8")
        if kind == "clean":
            items = [("rec", dict(r_, comment=None, val=(r_["val"] if fmt != "po" else words(rng, 1, 2)),
                                  attrs=list(r_["attrs"])), "same") for r_ in recs]
        elif kind == "missing":
            items = [("rec", dict(r_, comment=None, attrs=list(r_["attrs"])), "same")
                     for r_ in recs[1:]]
            if fmt == "po":
                for it in items:
                    it[1]["val"] = words(rng, 1, 2)
        else:  # general: drop / re-value / check-breaking values / obsolete / junk
            items = gen_l10n(rng, fmt, recs, used, allow_bad=fmt != "android", allow_junk=fmt != "android")
        text = render(rng, fmt, items)
        return ref, text.encode("utf-8"), expected_by_construction(fmt, recs, items)

    kinds = [("clean", rng.choice(["properties", "dtd", "ini", "ftl", "po"])),
             ("missing", rng.choice(MERGEABLE)),
             ("general", rng.choice(["properties", "dtd", "ftl"])),
             ("general", rng.choice(["properties", "dtd", "ini", "ftl", "po", "inc", "android"])),
             ("nofile", rng.choice(MERGEABLE)),
             ("nofile", rng.choice(["ftl", "po", "android"])),
             ("nofile", rng.choice(["inc", "txt"])),
             ("unknown", "txt"), ("obsolete", rng.choice(["properties", "ftl", "txt"]))]
    rng.shuffle(kinds)
    for i, (kind, fmt) in enumerate(kinds):
        if fmt == "android" and any(f["fmt"] == "android" for f in files):
            fmt = "ftl"
        d = {"rel": relname(fmt, i), "fmt": fmt, "kind": kind, "expect": None}
        if kind in ("clean", "missing", "general"):
            d["ref"], d["l10n"], d["expect"] = pair(fmt, kind)
        elif kind == "nofile":
            if fmt == "txt":
                d["ref"] = words(rng, 1, 4).encode("utf-8")
            else:
                recs, used = gen_reference(rng, fmt)
                d["ref"] = render(rng, fmt, [("rec", r_, "same") for r_ in recs]).encode("utf-8")
            d["l10n"] = None
        elif kind == "unknown":
            if rng.random() < 0.5:
                f2, nm = rng.choice(LOOKALIKE)
                d["rel"] = "u%d/" % i + nm
                recs, used = gen_reference(rng, f2)
                d["ref"] = render(rng, f2, [("rec", r_, "same") for r_ in recs]).encode("utf-8")
                d["l10n"] = render(rng, f2, gen_l10n(rng, f2, recs, used)).encode("utf-8")
            else:
                d["ref"] = words(rng, 1, 4).encode("utf-8")
                d["l10n"] = bytes(rng.randrange(256) for _ in range(rng.randint(0, 10)))
        else:  # obsolete: no reference file
            d["ref"] = None
            d["l10n"] = words(rng, 0, 4).encode("utf-8") if fmt == "txt" else \
                render(rng, fmt, [("rec", r_, "same") for r_ in gen_reference(rng, fmt)[0]]).encode("utf-8")
        files.append(d)
    return files


def expected_staging(env, d):
    """-> (what, bytes or None): the staged content of one project file by construction where it
    is a copy, else ('merged', None) for the per-key oracle"""
    fmt, kind = d["fmt"], d["kind"]
    if kind == "nofile":
        return ("reference", d["ref"]) if fmt in TOLERATES_ENGLISH else ("nothing", None)
    if kind in ("unknown", "obsolete"):
        return ("localization", d["l10n"])
    ex = d["expect"]
    if fmt == "inc":
        return ("localization", d["l10n"]) if ex["clean"] else ("reference", d["ref"])
    if not ex["bad"] and not ex["junk"] and (ex["clean"] or fmt in SKIPONLY):
        return ("localization", d["l10n"])
    return ("merged", None)


def run_project(chk, env, files, model_rows):
    """compareProjects on a generated TOML project with a merge stage; every staged path is
    checked against its expectation by construction"""
    from compare_locales.compare import compareProjects
    import compare_locales.compare as compare_pkg
    from compare_locales.paths import TOMLParser
    from compare_locales import mozpath
    root = tempfile.mkdtemp(prefix="verif_c04_proj_")
    assert not root.startswith(("/repo", "/verif"))
    case = {"format": "project", "op": "project", "stream": "project",
            "files": [{"rel": d["rel"], "fmt": d["fmt"], "kind": d["kind"],
                       "ref": None if d["ref"] is None else d["ref"].hex(),
                       "l10n": None if d["l10n"] is None else d["l10n"].hex(),
                       "expect": d["expect"]} for d in files]}
    fails = []
    try:
        with open(os.path.join(root, "l10n.toml"), "w") as f:
            f.write('basepath = "."\nlocales = ["xx"]\n[[paths]]\n  reference = "en/app/**"\n'
                    '  l10n = "{l10n_base}/{locale}/app/**"\n')
        for d in files:
            for side, data in (("en", d["ref"]), ("l10n/xx", d["l10n"])):
                if data is not None:
                    q = os.path.join(root, side, "app", d["rel"])
                    os.makedirs(os.path.dirname(q), exist_ok=True)
                    write(q, data)
        os.makedirs(os.path.join(root, "l10n", "xx", "app"), exist_ok=True)
        base = mozpath.abspath(os.path.join(root, "l10n"))
        stage = mozpath.abspath(os.path.join(root, "stage"))
        before = tree_snapshot(root, "stage")
        env.trace, env.calls = [], []
        saved = compare_pkg.ContentComparer
        compare_pkg.ContentComparer = env.Recording
        exc = None
        try:
            configs = [TOMLParser().parse(os.path.join(root, "l10n.toml"), env={"l10n_base": base})]
            with quiet():
                try:
                    rv = compareProjects(configs, ["xx"], base, merge_stage=stage)
                    if rv is None:
                        fails.append(("compareProjects-returned-nothing", None))
                except Exception as e:  # noqa
                    exc = type(e).__name__
        finally:
            compare_pkg.ContentComparer = saved
        if exc:
            fails.append(("compareProjects-raised", exc))
        if tree_snapshot(root, "stage") != before:
            fails.append(("inputs-or-outside-modified", None))
        staged = {}
        for dd, _, fs in os.walk(stage):
            for fn in fs:
                q = os.path.join(dd, fn)
                staged[os.path.relpath(q, os.path.join(stage, "xx", "app"))] = open(q, "rb").read()
        want_paths = set()
        for d in files:
            what, data = expected_staging(env, d)
            got = staged.get(d["rel"])
            if what != "nothing":
                want_paths.add(d["rel"])
            if what == "nothing":
                if got is not None:
                    fails.append(("staged-although-format-does-not-tolerate-english",
                                  {"file": d["rel"], "staged": repr(got)}))
            elif what in ("reference", "localization"):
                if got != data:
                    fails.append(("project-file-not-staged-as-copy-of-" + what,
                                  {"file": d["rel"], "kind": d["kind"], "staged": repr(got)}))
            else:
                if got is None:
                    fails.append(("project-file-not-staged", {"file": d["rel"], "kind": d["kind"]}))
                    continue
                # the per-key outcome by construction, and the second comparison
                name = os.path.basename(d["rel"])
                sp = os.path.join(stage, "xx", "app", d["rel"])
                rp = os.path.join(root, "en", "app", d["rel"])
                try:
                    mkeys, mtexts, mvals, mjunk = parse_file(name, sp)
                    vals = {kenc_s(k): v for k, v in mvals.items() if k != ("", None)}
                    if vals != d["expect"]["values"] or mjunk or len(mkeys) != len(set(mkeys)):
                        fails.append(("project-staged-values-differ-from-construction",
                                      {"file": d["rel"], "staged": vals, "expected": d["expect"]["values"],
                                       "junk": mjunk}))
                    from compare_locales.paths import File
                    cc = env.content.ContentComparer()
                    col = Collector()
                    cc.observers.append(col)
                    with quiet():
                        cc.compare(File(rp, name), File(sp, name, locale="xx"), None)
                    if col.errors() or (d["fmt"] in MERGEABLE and col.missing()):
                        fails.append(("recompare-reports-errors", {"file": d["rel"], "errors": col.errors()[:3],
                                                                   "missing": [repr(k) for k in col.missing()[:3]]}))
                except Exception as e:  # noqa
                    fails.append(("recompare-raised", type(e).__name__))
        extra = sorted(set(staged) - want_paths)
        if extra:
            fails.append(("wrote-outside-expected-merge-paths", extra))
        # the merge() calls, for the model
        calls = env.calls
        for i, call in enumerate(calls):
            end = calls[i + 1]["trace_start"] if i + 1 < len(calls) else len(env.trace)
            tr = env.trace[call["trace_start"]:end]
            action, problem = action_of(tr, call["ref_file"].fullpath, call["l10n_file"].fullpath,
                                        call["merge_file"])
            impl = common.ok(action) if action is not None else [2, s2l(problem)]
            if problem:
                fails.append(("unexpected-file-effects", problem))
            model_rows.append((dict(case, call=i), impl, (0, call_payload(call, [0, call["caps"]]))))
        for sig, detail in fails:
            chk.fail(sig, case, detail)
    finally:
        real_shutil.rmtree(root, ignore_errors=True)
    return fails


def suite_project(chk, env, model, n):
    rng = chk.rng
    rows = []
    for i in range(n):
        files = gen_project(rng)
        chk.count(("project", json.dumps([(d["rel"], d["kind"], d["fmt"],
                                           None if d["l10n"] is None else d["l10n"].hex()) for d in files])))
        for d in files:
            chk.hist("project_files", d["kind"] + ":" + d["fmt"])
        run_project(chk, env, files, rows)
        if i == 0:
            chk.sample({"suite": "MERGE-project", "files": [(d["rel"], d["kind"], d["fmt"]) for d in files]})
    if model and rows:
        outs = model.call([r_[2] for r_ in rows])
        chk.correspond("MERGE-project", [r_[0] for r_ in rows], [r_[1] for r_ in rows], outs)


# ---------------------------------------------------- .inc sequences -------
def inc_reading(text):
    """An independent, line based reading of a defines file (no parser of the package):
    -> (keys in order, clean).  Blank lines are allowed only between `#filter emptyLines`
    and `#unfilter emptyLines` of THIS text and never as the first line; every other line
    is a define, a `# ` comment or a preprocessor instruction."""
    filtering = False
    keys, clean = [], True
    lines = text.split("\n")
    if lines and lines[-1] == "":
        lines.pop()
    for no, line in enumerate(lines):
        if line == "":
            if no == 0 or not filtering:
                clean = False
            continue
        if line.startswith("#define ") or line.startswith("#define\t"):
            rest = line[len("#define"):].lstrip(" \t")
            k = ""
            while k != rest and (rest[len(k)].isalnum() or rest[len(k)] == "_"):
                k += rest[len(k)]
            if k and (len(rest) == len(k) or rest[len(k)] in " \t"):
                keys.append(k)
                continue
            clean = False
            continue
        if line.startswith("# "):
            continue
        if line == "#filter emptyLines":
            filtering = True
            continue
        if line == "#unfilter emptyLines":
            filtering = False
            continue
        clean = False
    return keys, clean


def gen_inc_pair(rng, role):
    """-> (reference text, localization text).  role: 'leave-on' (a file of the pair ends with
    the filter switched on), 'blank' (a localization with blank lines and no filter of its own),
    'any'"""
    n = rng.randint(1, 4)
    keys = ["K%d_%s" % (i, rng.choice(KEYS).upper()) for i in range(n)]

    def body(vals, blanks, comments=True):
        out = []
        for i, k in enumerate(keys):
            if comments and rng.random() < 0.2:
                out.append("# " + words(rng, 1, 2))
            out.append("#define " + k + " " + vals[i])
            if blanks and i < n - 1 and rng.random() < blanks:
                out.append("")
        return out
    rvals = [words(rng, 1, 3) for _ in keys]
    lvals = [v if rng.random() < 0.3 else words(rng, 1, 3) for v in rvals]
    if role == "leave-on":
        kind = rng.choice(["l10n-lost-unfilter", "ref-open", "both-open"])
        ref = ["#filter emptyLines"] + body(rvals, 0.6)
        l10n = ["#filter emptyLines"] + body(lvals, 0.6)
        if kind != "ref-open" and kind != "both-open":
            ref.append("#unfilter emptyLines")
        if kind == "ref-open":
            # the localization does not filter at all but has blank lines: not clean
            if rng.random() < 0.5:
                l10n = body(lvals, 0.9) if n > 1 else body(lvals, 0) + [""]
                if "" not in l10n:
                    l10n.append("")
            else:
                l10n.append("#unfilter emptyLines")
    elif role == "blank":
        filt = rng.random() < 0.25
        ref = (["#filter emptyLines"] if filt else []) + body(rvals, 0.5 if filt else 0) + \
            (["#unfilter emptyLines"] if filt else [])
        l10n = body(lvals, 0.9)
        if "" not in l10n:
            l10n.insert(rng.randint(1, len(l10n)), "")
    else:
        kind = rng.choice(["balanced", "plain", "plain-missing", "leading-blank", "balanced-blank-outside"])
        if kind == "balanced":
            ref = ["#filter emptyLines"] + body(rvals, 0.5) + ["#unfilter emptyLines"]
            l10n = ["#filter emptyLines"] + body(lvals, 0.5) + ["#unfilter emptyLines"]
        elif kind == "plain":
            ref, l10n = body(rvals, 0), body(lvals, 0)
        elif kind == "plain-missing":
            ref, l10n = body(rvals, 0) + ["#define EXTRA_REF x"], body(lvals, 0)
        elif kind == "leading-blank":
            ref = ["#filter emptyLines"] + body(rvals, 0.5) + ["#unfilter emptyLines"]
            l10n = ["", "#filter emptyLines"] + body(lvals, 0.5) + ["#unfilter emptyLines"]
        else:
            ref = ["#filter emptyLines"] + body(rvals, 0.5) + ["#unfilter emptyLines"]
            l10n = ["#filter emptyLines"] + body(lvals, 0.5) + ["#unfilter emptyLines", "",
                                                                 "#define OBSOLETE_L10N y"]
    return "\n".join(ref) + "\n", "\n".join(l10n) + "\n"


def run_inc_sequence(chk, env, pairs, stream="inc-sequence"):
    """consecutive compare-with-merge runs of .inc pairs in this process; the expected staging
    of each pair follows from that pair's own two texts (copy-only rule)"""
    out = []
    for idx, (ref_text, l10n_text) in enumerate(pairs):
        ref_bytes, l10n_bytes = ref_text.encode("utf-8"), l10n_text.encode("utf-8")
        case = {"format": "inc", "op": "sequence", "stream": stream, "index": idx,
                "pairs": [list(p) for p in pairs]}
        r = run_pair(env, "inc", ref_bytes, l10n_bytes)
        rkeys, rclean = inc_reading(ref_text)
        lkeys, lclean = inc_reading(l10n_text)
        if not rclean or len(rkeys) != len(set(rkeys)):
            raise RuntimeError("harness bug: .inc reference not clean: %r" % ref_text)
        fails = []
        if not r.untouched:
            fails.append(("inputs-or-outside-modified", None))
        if r.listing not in ([], [r.mergep]):
            fails.append(("wrote-outside-merge-path", r.listing))
        if r.trace_problem:
            fails.append(("unexpected-file-effects", r.trace_problem))
        if r.exc:
            fails.append(("compare-raised", r.exc))
        clean = lclean and set(rkeys) <= set(lkeys) and len(lkeys) == len(set(lkeys))
        want = l10n_bytes if clean else ref_bytes
        if r.merged != want:
            fails.append(("copy-only-rule-by-construction",
                          {"localization_clean": clean, "staged": repr(r.merged), "expected": repr(want)}))
        if r.merged is not None:
            skeys, sclean = inc_reading(r.merged.decode("utf-8"))
            if not sclean or not set(rkeys) <= set(skeys):
                fails.append(("staged-inc-has-unparsed-content-or-missing",
                              {"staged": repr(r.merged)}))
        reported_clean = not r.col.errors() and not r.col.missing()
        if reported_clean != clean:
            fails.append(("first-report-differs-from-construction",
                          {"reported_clean": reported_clean, "by_construction": clean,
                           "errors": r.col.errors()[:3]}))
        for sig, detail in fails:
            chk.fail(sig, case, detail)
        out.append((case, r, fails))
    return out


def suite_inc_sequences(chk, env, model, n):
    rng = chk.rng
    cases, impls, reqs = [], [], []
    for i in range(n):
        first = gen_inc_pair(rng, "leave-on")
        roles = rng.choice([["blank"], ["blank", "any"], ["any", "blank"], ["blank", "blank"]])
        pairs = [first] + [gen_inc_pair(rng, role) for role in roles]
        chk.count(("inc-seq", json.dumps(pairs)))
        chk.hist("inc_sequence_len", len(pairs))
        for case, r, fails in run_inc_sequence(chk, env, pairs):
            if len(r.calls) == 1:
                cases.append(case)
                impls.append(r.impl)
                reqs.extend(model_requests(r))
        if i == 0:
            chk.sample({"suite": "MERGE-inc-sequence", "pairs": pairs})
    if model:
        chk.correspond("MERGE-inc-sequence", cases, impls, model.call(reqs))


# -------------------------------------------------------- direct calls ------
class FakeEntity:
    def __init__(self, key, all_, span=None):
        self.key, self.all, self.span = key, all_, span


def fake_junk(span):
    from compare_locales import parser

    class FakeJunk(parser.Junk):
        def __init__(self, span):
            self.span = span
            self.key = "_junk_%r" % (span,)
    return FakeJunk(span)


class FakeCtx:
    def __init__(self, contents):
        self.contents = contents


def direct_case(env, d):
    """d: dict(caps, merge, contents, skips=[(a, b, key, junk)], missing=[keys], refs=[(key, all)])"""
    from compare_locales.keyedtuple import KeyedTuple
    from compare_locales.paths import File
    name = "d.properties"
    refp, l10np = env.path("ref", name), env.path("l10n", name)
    mergep = env.merge_path(name)
    env.reset()
    cc = env.Recording()
    refs = KeyedTuple([FakeEntity(k, a) for k, a in d["refs"]])
    skips = [fake_junk((a, b)) if j else FakeEntity(k, "", (a, b)) for a, b, k, j in d["skips"]]
    mf = {0: None, 1: "", 2: mergep}[d["merge"]]
    exc = None
    with quiet():
        try:
            cc.merge(refs, File(refp, name), File(l10np, name, locale="xx"), mf, list(d["missing"]),
                     skips, FakeCtx(d["contents"]), d["caps"], "utf-8")
        except (TypeError, IndexError, KeyError) as e:
            exc = type(e).__name__
    action, problem = action_of(env.trace, refp, l10np, mergep)
    if exc:
        impl = common.raised(common.TAGS[exc])
    elif action is None:
        impl = [2, s2l(problem)]
    else:
        impl = common.ok(action)
    merged = open(mergep, "rb").read() if os.path.isfile(mergep) else None
    call = env.calls[-1]
    return impl, action, merged, (0, call_payload(call, [0, d["caps"]])), exc


def suite_direct(chk, env, model):
    rng = chk.rng
    name = "d.properties"
    ref_bytes, l10n_bytes = b"ref file\n", b"abcdefgh"
    write(env.path("ref", name), ref_bytes)
    write(env.path("l10n", name), l10n_bytes)
    contents = "abcdefgh"
    refs = [("k1", "K1=one\n"), ("k2", "# c\nK2=two"), ("k3", ""), ("k1", "K1=later")]
    ds = []
    ends = [None, 0, 2, 5, 8, 11]
    spans = [(a, b) for a in ends for b in ends]
    # every capability value, with no / one / two skips over a small span alphabet
    for caps in range(8):
        for merge in (0, 1, 2):
            ds.append(dict(caps=caps, merge=merge, contents=contents, skips=[], missing=[], refs=refs))
            ds.append(dict(caps=caps, merge=merge, contents=contents, skips=[], missing=["k2"], refs=refs))
            ds.append(dict(caps=caps, merge=merge, contents=contents,
                           skips=[(2, 4, "k1", 0)], missing=["k3", "k1"], refs=refs))
    for caps in (2, 6, 3, 7, 4):
        for s1 in spans:
            ds.append(dict(caps=caps, merge=2, contents=contents,
                           skips=[(s1[0], s1[1], "k1", 0)], missing=[], refs=refs))
        for s1 in spans[::2]:
            for s2 in spans[::3]:
                ds.append(dict(caps=caps, merge=2, contents=contents,
                               skips=[(s1[0], s1[1], "k2", 0), (s2[0], s2[1], "j", 1)],
                               missing=["k1"] if caps == 6 else [], refs=refs))
    for _ in range(chk.n(600, 6000)):
        n = rng.randint(0, 12)
        cont = "".join(rng.choice("ab\n\\=é") for _ in range(n))
        sk = []
        for _ in range(rng.choice([0, 1, 1, 2, 3, 4, 5])):
            if rng.random() < 0.07:
                a = b = None
                if rng.random() < 0.3:
                    a, b = rng.choice([(0, 0), (None, 3), (2, None)])
            else:
                a = rng.randint(0, n + 2)
                b = rng.randint(0, n + 2) if rng.random() < 0.2 else a + rng.randint(0, 4)
            sk.append((a, b, rng.choice(["k1", "k2", "k3", "k1", "nokey"] if rng.random() < 0.1
                                        else ["k1", "k2", "k3"]), int(rng.random() < 0.4)))
        if rng.random() < 0.5:
            sk.sort(key=lambda s: (s[0] is None, s[0] or 0))
        miss = [rng.choice(["k1", "k2", "k3"]) for _ in range(rng.choice([0, 0, 1, 2]))]
        if rng.random() < 0.03:
            miss.append("absent")
        ds.append(dict(caps=rng.choice([2, 6, 6, 6, 3, 1, 0, 4, 5, 7]), merge=rng.choice([2, 2, 2, 2, 0]),
                       contents=cont, skips=sk, missing=miss,
                       refs=refs if rng.random() < 0.8 else [("k1", "x"), ("k2", "y\n"), ("k3", "\n")]))
    cases, impls, reqs = [], [], []
    for d in ds:
        impl, action, merged, req, exc = direct_case(env, d)
        chk.count(("direct", json.dumps(d, sort_keys=True)))
        chk.hist("direct_caps", d["caps"])
        if exc is None and action is not None:
            if staged_bytes(action, ref_bytes, l10n_bytes) != merged:
                chk.fail("file-differs-from-traced-effects", d, repr(merged))
        cases.append(d)
        impls.append(impl)
        reqs.append(req)
    chk.sample({"suite": "MERGE-direct", "case": ds[60], "impl": impls[60]})
    if model:
        chk.correspond("MERGE-direct", cases, impls, model.call(reqs))
        # remove_spans / ensure_newline on their own
        hcases, himpl, hreq = [], [], []
        for d in ds[:: 7]:
            sp = [(a, b) for a, b, _, _ in d["skips"]]
            off, out = 0, []
            for a, b in sp:
                out.append(d["contents"][off:a])
                off = b
            out.append(d["contents"][off:])
            s = d["contents"]
            himpl.append([s2l("".join(out)), s2l(s if s.endswith("\n") else s + "\n")])
            hreq.append((6, [s2l(s), [[opt(a), opt(b)] for a, b in sp]]))
            hcases.append({"contents": s, "spans": sp})
        chk.correspond("MERGE-helpers", hcases, himpl, model.call(hreq))


def suite_caps(chk, model):
    from compare_locales import parser
    from compare_locales.parser import base
    cases, impls, reqs = [], [], []
    for fmt, cls in CLS.items():
        p = parser.getParser(FILE[fmt])
        cases.append(cls)
        impls.append([p.capabilities] if type(p).__name__ == cls else ["wrong class " + type(p).__name__])
        reqs.append((4, s2l(cls)))
        chk.count(("caps", cls))
    cases.append("constants")
    impls.append([base.CAN_NONE, base.CAN_COPY, base.CAN_SKIP, base.CAN_MERGE, base.Parser.capabilities])
    reqs.append((5, []))
    if model:
        chk.correspond("CAPS", cases, impls, model.call(reqs))


# ------------------------------------------------------ known findings -----
ANDROID_HEAD = '<?xml version="1.0" encoding="utf-8"?>\n<resources>\n'


def suite_findings(chk, env, model):
    rng = chk.rng
    cases, impls, reqs = [], [], []

    def go(fmt, ref_text, l10n_text, stream, must=None):
        ref_bytes, l10n_bytes = ref_text.encode("utf-8"), l10n_text.encode("utf-8")
        case = make_case(fmt, ref_bytes, l10n_bytes, stream)
        r = run_pair(env, fmt, ref_bytes, l10n_bytes)
        chk.count((fmt, ref_bytes, l10n_bytes))
        chk.hist("findings", stream)
        pure, fails = report(chk, env, case, r)
        if must is not None:
            # the dedicated stream must still hit the circumstances it was written for
            if known_condition(r) != must:
                chk.fail("finding-stream-misses-its-condition", case,
                         {"expected": must, "condition": known_condition(r)})
        if len(r.calls) == 1:
            cases.append(case)
            impls.append(r.impl)
            reqs.extend(model_requests(r))
        return r, fails

    n = chk.n(25, 150)
    # D3: kept text ends in an odd run of backslashes and reference text is appended
    for i in range(n):
        recs, used = gen_reference(rng, "properties")
        while len(recs) < 2:
            recs, used = gen_reference(rng, "properties")
        ref_text = render(rng, "properties", [("rec", r_, "same") for r_ in recs], True)
        keep = recs[:rng.randint(1, len(recs) - 1)]
        items = [("rec", dict(r_, comment=None, val=words(rng, 1, 2)), "revalue") for r_ in keep]
        for it in items:
            if it[1]["spec"]:
                it[1]["val"] = " ".join(it[1]["spec"][1])
        text = render(rng, "properties", items, False) + "\\" * rng.choice([1, 1, 3])
        go("properties", ref_text, text, "D3", SIG_D3)
    # D4 / D9: android entities and junk carry no usable spans
    for i in range(n):
        recs, used = gen_reference(rng, "android")
        recs = [r_ for r_ in recs if r_["spec"] and len(r_["spec"][1]) == 1] or None
        if not recs:
            recs = [{"key": "k%d" % i, "val": "v %1$s", "spec": ("aprintf", ["%1$s"]), "comment": None, "attrs": []}]
        kind = i % 6
        if kind == 1 and len(recs) < 2:
            recs = recs + [{"key": "second%d" % i, "val": "w %1$s", "spec": ("aprintf", ["%1$s"]),
                            "comment": None, "attrs": []}]
        recs = recs + [{"key": "plain%d" % i, "val": words(rng), "spec": None, "comment": None, "attrs": []}]
        ref_text = render(rng, "android", [("rec", r_, "same") for r_ in recs])
        items = [("rec", dict(r_), "same") for r_ in recs]
        if kind == 0:                                         # one bad entity -> file written twice
            items[0] = ("rec", dict(recs[0], val="x %1$d"), "bad")
            go("android", ref_text, render(rng, "android", items), "D4-one-entity", SIG_D4)
        elif kind == 1:                                       # two bad entities -> TypeError
            items[0] = ("rec", dict(recs[0], val="x %1$d"), "bad")
            items[1] = ("rec", dict(recs[1], val="y %1$d"), "bad")
            go("android", ref_text, render(rng, "android", items), "D9-two-entities", SIG_D9)
        elif kind == 5:                                       # junk element and a bad entity -> TypeError
            items[0] = ("rec", dict(recs[0], val="x %1$d"), "bad")
            items.insert(rng.randint(0, len(items)), ("junk", junk_text(rng, "android")))
            go("android", ref_text, render(rng, "android", items), "D9-junk-and-entity", SIG_D9)
        elif kind == 2:                                       # one entity, two errors: one skip
            items[-1] = ("rec", dict(recs[-1], val="it's Bob's"), "bad")
            go("android", ref_text, render(rng, "android", items), "D4-one-entity-two-errors", SIG_D4)
        elif kind == 3:                                       # junk element(s): span (0, 0)
            items.insert(rng.randint(0, len(items)), ("junk", junk_text(rng, "android")))
            go("android", ref_text, render(rng, "android", items), "D4-junk-element", SIG_D4)
        else:                                                 # not well-formed: one junk for the file
            text = render(rng, "android", items)
            cut = rng.randint(len(ANDROID_HEAD), len(text) - 2)
            go("android", ref_text, text[:cut], "D4-junk-file", SIG_D4)
    # an entity with two error-level check results is skipped once and its reference text is
    # appended once (listed twice before /repo b431102): the full oracle applies
    for i in range(n):
        unit = rng.choice(["em", "px", "ch"])
        ref_text = '<!ENTITY w%d "%d%s">\n<!ENTITY t%d "%s">\n' % (i, rng.randint(1, 40), unit, i, words(rng))
        l10n_text = '<!ENTITY w%d "%s">\n<!ENTITY t%d "%s">\n' % (
            i, rng.choice(["<b", "a & b", "12 <em"]), i, words(rng))
        r, _ = go("dtd", ref_text, l10n_text, "two-errors-one-entity")
        if len(r.col.errors()) != 2 or len(r.calls[-1]["skips"]) != 1:
            chk.fail("two-errors-stream-misses-its-condition", {"ref": ref_text, "l10n": l10n_text},
                     {"errors": r.col.errors(), "skips": len(r.calls[-1]["skips"])})
    # properties: a reference value that ends in a continuation into an empty line; its
    # Entity.all ends in a newline, nothing is added, the next appended entity is swallowed
    for i in range(n):
        recs, used = gen_reference(rng, "properties")
        while len(recs) < 2:
            recs, used = gen_reference(rng, "properties")
        j = rng.randint(0, len(recs) - 2)
        recs[j] = dict(recs[j], val=words(rng, 1, 2) + "\\\n", spec=None)
        ref_text = render(rng, "properties", [("rec", r_, "same") for r_ in recs], True)
        keep = [r_ for k, r_ in enumerate(recs) if k not in (j, j + 1) and rng.random() < 0.6]
        items = [("rec", dict(r_, comment=None, val=" ".join(r_["spec"][1]) if r_["spec"] else words(rng, 1, 2)),
                  "revalue") for r_ in keep]
        items = [it for it in items if not it[1]["val"].endswith("\n")]
        go("properties", ref_text, render(rng, "properties", items, True) if items else "",
           "reference-continuation", SIG_REFCONT)
    # ini: junk that starts behind a section header on the same line and ends with the line
    # break; the comment line that follows is glued to the section header
    for i in range(n):
        recs, used = gen_reference(rng, "ini")
        ref_text = render(rng, "ini", [("rec", r_, "same") for r_ in recs])
        items = [("rec", dict(r_, comment=None), "same") for r_ in recs]
        items[0][1]["comment"] = words(rng, 1, 2)
        text = render(rng, "ini", items)
        j = rng.randint(1, 7)
        text = "[Strings"[:j] + "]" + "[Strings"[j:] + text[len("[Strings"):]
        go("ini", ref_text, text, "ini-junk-joins-comment", SIG_INI)
    # android: raw mutations (mostly no longer well-formed -> one junk entry with span (0, 0))
    for i in range(n):
        recs, used = gen_reference(rng, "android")
        ref_text = render(rng, "android", [("rec", r_, "same") for r_ in recs])
        items = gen_l10n(rng, "android", recs, used, allow_bad=False, allow_junk=False)
        data = mutate_text(rng, "android", render(rng, "android", items))
        go("android", ref_text, data.decode("utf-8", "replace"), "android-mutated")
    if model:
        chk.correspond("MERGE-findings", cases, impls, model.call(reqs))


def run(chk, runner_ok):
    model = Model("C04") if runner_ok else None
    env = Env()
    try:
        suite_caps(chk, model)
        suite_direct(chk, env, model)
        total = chk.n(3000, 30000)
        share = {"properties": 0.2, "dtd": 0.2, "ini": 0.12, "ftl": 0.14, "po": 0.1,
                 "android": 0.08, "inc": 0.08}
        for fmt, s in share.items():
            suite_format(chk, env, model, fmt, int(total * s))
        suite_unknown(chk, env, model, int(total * 0.03))
        suite_files(chk, env, model, int(total * 0.05))
        suite_inc_sequences(chk, env, model, int(total * 0.02))
        suite_project(chk, env, model, chk.n(40, 300))
        suite_findings(chk, env, model)
    finally:
        env.close()
    chk.trusted.append("shutil.copyfile, codecs.open and the UTF-8 codec (byte copy / encode); the "
                       "file effects of merge are traced through proxies of the names "
                       "compare/content.py uses")


def replay(chk, path):
    data = json.load(open(path))
    env = Env()
    rc = 0
    try:
        for f in data.get("failures", []):
            c = f["case"]
            print("signature", f["signature"])
            if "format" not in c:
                impl, action, merged, req, exc = direct_case(env, c)
                print("direct case", c, "impl", impl)
                continue
            if c.get("op") == "project":
                files = [{"rel": d["rel"], "fmt": d["fmt"], "kind": d["kind"], "expect": d["expect"],
                          "ref": None if d["ref"] is None else bytes.fromhex(d["ref"]),
                          "l10n": None if d["l10n"] is None else bytes.fromhex(d["l10n"])} for d in c["files"]]
                chk2 = common.Check(chk.prop, chk.tier, chk.seed)
                chk2.known = []
                fails = run_project(chk2, env, files, [])
                print("project", [(d["rel"], d["kind"]) for d in files], "oracle", fails)
                rc |= bool(fails)
                continue
            if c.get("op") == "sequence":
                chk2 = common.Check(chk.prop, chk.tier, chk.seed)
                chk2.known = []
                for case, r, fails in run_inc_sequence(chk2, env, [tuple(p) for p in c["pairs"]]):
                    print("pair", case["index"], json.dumps(case["pairs"][case["index"]]),
                          "staged", r.merged, "oracle", fails)
                    rc |= bool(fails)
                continue
            l10n = None if c.get("l10n_hex") is None else bytes.fromhex(c["l10n_hex"])
            r = run_pair(env, c["format"], c["ref"].encode("utf-8"), l10n, c.get("op", "compare"),
                         quiet_level=c.get("quiet"), name=c.get("name"))
            print("case", json.dumps(c, ensure_ascii=False)[:1500])
            print("staged", r.merged, "raised", r.exc)
            if c.get("op", "compare") == "compare":
                chk2 = common.Check(chk.prop, chk.tier, chk.seed)
                chk2.known = []
                pure, fails = report(chk2, env, c, r)
                print("oracle", pure, fails)
                rc |= bool(pure or fails)
            else:
                rc |= 1
        for d in data.get("disagreements", []):
            print("disagreement", json.dumps(d, ensure_ascii=False)[:2000])
            rc = 1
    finally:
        env.close()
    return int(rc)
