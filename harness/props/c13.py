"""C13 — project enumeration finds every covered file once, correctly paired.

Suites
  PROJECT        generated projects (1-3+ TOML files with includes / excludes, overlapping
                 rules, per-rule and per-file locales, tests, environments, wildcards `*`,
                 `**`, mid-segment `foo-*.ftl`, exact files, variables) written to a temp
                 tree populated on both sides; for every locale of the project, a foreign
                 locale and None: ProjectFiles(...) (matcher list after duplicate dropping,
                 or the exception), list(files), files.match(p) for every file and every
                 enumerated path, and the add / remove / compare calls of compareProjects.
                 The model is fed the tables of the real Matcher objects (match, sub,
                 prefix, pattern classes) and the os.walk order of the tree.
  PROJECT-spelled  projects whose l10n / reference directories are reached through one
                 un-normalised spelling (l10n_base ending in `/`, containing `//` or `/./`;
                 `cfg/../l10n/...`; `../l10n/...` from a root one level down); the model's file
                 list carries the paths as os.walk spells them
  PROJECT-multi  2-3 top-level projects in one ProjectFiles / compareProjects run (shared parser
                 env dict, same variable bound differently, cross includes of excluded files
                 through differently spelled paths)
  PROJECT-quirk  small dedicated streams for the two corner cases found while proving
                 completeness (see oracle signatures below); correspondence only differs in
                 the generator
  TOML           TOMLParser.parse against Model/Toml.v (toml.load, expand/normpath and
                 set_root are oracle tables): environment order, rules, includes, excludes,
                 locales, ExcludeError, ConfigNotFound (also ignored), include cycles
  DIRNAME, SORT  posixpath.dirname and sorted() of str against the model's definitions
Oracle (implementation only, independent of ProjectFiles): coverage per file computed from
the generator's own project description with Matcher.match only (paths of the other side
rendered by a template renderer of the harness, not by Matcher.sub): every covered, enabled,
non-excluded file exactly once, sorted, an existing localized file paired with the last
covering rule's reference / merge / tests; enumeration = lookup; parser environment overrides
the file's; compareProjects details name exactly the enumerated files.
"""
import contextlib
import io
import json
import os
import posixpath
import re
import shutil
import tempfile

from harness import common
from harness.common import Model, canon

FACTS = ("c11",)

RULE = ("generated projects: 1-5 TOML files (includes, nested includes, diamond includes, "
        "excludes, excluded-and-included), 1-5 path rules per file from 9 shapes (`**`, "
        "`**/*.ftl`, `*.properties`, mid-segment `foo-*.ftl`, exact file, `*/main.ftl`, "
        "`sub/**`, locale in the file name, l10n-only), overlapping and duplicated rules "
        "(tests merged, mismatching references), per-rule / per-file locales, variables "
        "({l10n_base} absolute, nested {l}, relative {base}, module variable) from the file "
        "or the parser environment (overriding), trees populated on both sides from a name "
        "pool incl. uncovered names, a foreign locale and an unused module; the same [env] "
        "variable bound differently in parent, child and sibling top-level files and used in "
        "their rules; twin rules differing only in a trailing `*` / `**` (both orders, different "
        "tests); include / exclude paths spelled with `.` and `..` segments; runs with 2-3 "
        "top-level projects sharing one parser env dict, one including what another excludes; "
        "include chains of depth 2-3 and diamonds (two children including one grandchild) with "
        "rules in the innermost file, every fourth project built through the ProjectConfig API; "
        "regex metacharacters in directory names and variable values (`c++`, `app (beta)`, `a.b`, "
        "`l10n+central`, `l.10n`) with near-miss siblings (`aXb`, `notes-ftl` next to `*.ftl`), "
        "every Matcher cross-checked against an independent reading of its pattern text; on a "
        "second object iter_reference() first, then iteration and lookups again (no state); "
        "rules whose pattern starts with a wildcard (`*.ftl`, `**/en/x.ftl`, `*-{locale}.ftl`: "
        "prefix = root); every project "
        "locale + foreign + None (+ merge base); a case is distinct by (project text, tree, "
        "locale, merge); non-trivial = at least one rule enabled for the locale")

LOCALES = ["de", "fr", "ja", "pt-BR"]
FOREIGN = "xx"
MODS = ["browser", "toolkit", "mobile"]
TESTS = ["android-dtd", "extra", "l10n-x"]
META_MODS = ["c++", "app (beta)", "a.b"]          # regex metacharacters in directory names
META_LDIRS = ["l10n+central", "l10n (beta)", "l.10n"]
NEAR = {"a.b": "aXb", "l.10n": "lX10n"}            # what the name would also match if read as a regex
POOL = ["notes-ftl", "backup_ftl", "bXproperties", "exact-ftl", "a.ftl", "b.properties", "foo-1.ftl", "foo-x.ftl", "foo-.ftl", "exact.ftl", "z.txt",
        "x/main.ftl", "sub/main.ftl", "sub/b.ftl", "sub/foo-2.ftl", "sub/deep/c.properties",
        "sub/deep/d.ftl", "strings.ftl"]
TAILS = ["**", "**/*.ftl", "*.properties", "foo-*.ftl", "exact.ftl", "*/main.ftl", "sub/**",
         "**", "*.ftl", "*"]
REF_CONTENT = "k1 = v\nk1 = w\nk2 = v\n"
L10N_CONTENT = "k1 = x\n"
ECODE = {"RuntimeError": 8, "TypeError": 1, "AttributeError": 12, "KeyError": 3,
         "ConfigNotFound": 20, "ExcludeError": 5, "RecursionError": 9}


def guarded(fn):
    try:
        return [0, fn()]
    except Exception as e:  # noqa
        # an exception the model does not know is code 99: it disagrees with every model
        # answer and fails the oracle (unexpected-raise), it does not stop the run
        return [1, ECODE.get(type(e).__name__, 99)]


# ----------------------------------------------------------- project description ---
class Rule:
    def __init__(self, ref, l10n, locales=None, tests=None):
        self.ref, self.l10n, self.locales, self.tests = ref, l10n, locales, tests


class Cfg:
    """one TOML file of a generated project"""

    def __init__(self, rel, basepath):
        self.rel = rel                  # path of the file below the project dir
        self.basepath = basepath        # text of `basepath`, None = absent
        self.root_rel = ""              # root below the project dir ("" or "alt/")
        self.env = {}                   # [env]
        self.locales = None
        self.rules = []
        self.includes = []              # [[includes]]: the files, as paths below the project dir
        self.excludes = []
        self.spell = {}                 # file -> the text written as `path` (default: the file itself)

    def texts(self, lst):
        return [self.spell.get(x, x) for x in lst]

    def toml(self):
        out = []
        if self.basepath is not None:
            out.append("basepath = %s" % json.dumps(self.basepath))
        if self.locales is not None:
            out.append("locales = %s" % json.dumps(self.locales))
        if self.env:
            out.append("[env]")
            for k, v in self.env.items():
                out.append("%s = %s" % (k, json.dumps(v)))
        for r in self.rules:
            out.append("[[paths]]")
            if r.ref is not None:
                out.append("reference = %s" % json.dumps(r.ref))
            out.append("l10n = %s" % json.dumps(r.l10n))
            if r.locales is not None:
                out.append("locales = %s" % json.dumps(r.locales))
            if r.tests is not None:
                out.append("test = %s" % json.dumps(r.tests))
        for kind, lst in (("includes", self.includes), ("excludes", self.excludes)):
            for p in self.texts(lst):
                out.append("[[%s]]" % kind)
                out.append("path = %s" % json.dumps(p))
        return "\n".join(out) + "\n"


class Proj:
    def __init__(self):
        self.cfgs = {}          # rel -> Cfg ("l10n.toml" is the top)
        self.top = None
        self.tops = None        # the top-level files of one ProjectFiles run (default: [top])
        self.penv = {}          # parser environment (with {T} for the temp dir)
        self.locales = []
        self.files = []         # relative paths below the project dir
        self.flags = set()      # exotic / raising features: the by-construction oracle is skipped
        self.kind = "main"

    def text(self):
        """the whole case as text: enough to rebuild it (proj_from_text)"""
        return json.dumps({"cfgs": [[c.rel, c.toml()] for c in self.cfgs.values()],
                           "files": sorted(self.files), "penv": sorted(self.penv.items()),
                           "missing": sorted(getattr(self, "missing", [])),
                           "tops": [c.rel for c in self.top_cfgs()],
                           "aliases": getattr(self, "aliases", []),
                           "unrooted": [c.rel for c in self.cfgs.values() if getattr(c, "unrooted", False)],
                           "kind": self.kind, "flags": sorted(self.flags)})

    def top_cfgs(self):
        return [self.cfgs[r] for r in self.tops] if self.tops else [self.top]


def proj_from_text(text):
    """rebuild a generated project from Proj.text() (used by replay)"""
    import toml
    d = json.loads(text)
    p = Proj()
    p.kind = d["kind"]
    p.flags = set(d["flags"])
    p.files = list(d["files"])
    p.penv = dict(d["penv"])
    p.missing = list(d["missing"])
    locs = set()
    for rel, txt in d["cfgs"]:
        data = toml.loads(txt)
        c = Cfg(rel, data.get("basepath"))
        c.env = dict(data.get("env", {}))
        c.locales = data.get("locales")
        c.rules = [Rule(r.get("reference"), r["l10n"], r.get("locales"), r.get("test"))
                   for r in data.get("paths", [])]
        for kind, lst in (("includes", c.includes), ("excludes", c.excludes)):
            for x in data.get(kind, []):
                r = posixpath.normpath(x["path"])
                lst.append(r)
                if r != x["path"]:
                    c.spell[r] = x["path"]
        if (c.basepath or "").endswith("alt"):
            c.root_rel = "alt/"
        c.unrooted = rel in d.get("unrooted", [])
        p.cfgs[rel] = c
        locs.update(c.locales or [])
        if p.top is None:
            p.top = c
    p.locales = sorted(l for l in locs if l)
    p.aliases = [tuple(a) for a in d.get("aliases", [])]
    if len(d.get("tops", [])) > 1:
        p.tops = d["tops"]
    if d.get("tops"):
        p.top = p.cfgs[d["tops"][0]]
    return p


def rel_to(frm_dir, target):
    """path text that leads from directory frm_dir to target (both below the project dir)"""
    return os.path.relpath(target, frm_dir or ".")


def gen_rule(rng, p, c, mods, lbases, refbase=""):
    mod = rng.choice(mods)
    lbase = rng.choice(lbases)
    modtxt = mod
    if "m" in c.env and rng.random() < 0.6:
        # the file's own module variable (files may bind it differently)
        mod = c.env["m"]
        modtxt = "{m}"
    tail = rng.choice(TAILS)
    if rng.random() < 0.08:
        ref = "%s%s/en/strings.ftl" % (refbase, modtxt)
        l10n = "%s/%s/strings-{locale}.ftl" % (lbase, modtxt)
    else:
        ref = "%s%s/en/%s" % (refbase, modtxt, tail)
        l10n = "%s/{locale}/%s/%s" % (lbase, modtxt, tail)
    r = Rule(ref, l10n)
    if rng.random() < 0.12:
        r.ref = None
    if rng.random() < 0.25:
        r.locales = sorted(rng.sample(p.locales, rng.randint(1, len(p.locales))))
    if rng.random() < 0.3:
        r.tests = rng.sample(TESTS, rng.randint(0, 2))
    return r


def gen_project(rng, kind="main", spelled=None):
    """spelled: None | "slash" | "dotdot" | "updir" - the l10n (and reference) directories are
    reached through ONE un-normalised spelling (`//`, `/./`, `dir/../`, `../` from a deeper
    root) by every rule of the project"""
    p = Proj()
    p.kind = kind
    p.locales = sorted(rng.sample(LOCALES, rng.randint(1, 3)))
    mods = rng.sample(MODS + rng.sample(META_MODS, 1), rng.randint(1, 2))
    # the l10n directory, sometimes with regex metacharacters in its name (also as value of
    # l10n_base / base)
    LD = "l10n" if spelled or rng.random() < 0.6 else rng.choice(META_LDIRS)
    # environment ----------------------------------------------------------
    penv, fenv = {}, {}
    lbases = [LD]
    mode = rng.randrange(5)
    if mode == 1:       # only the parser knows l10n_base
        penv["l10n_base"] = "{T}/p/" + LD
        lbases += ["{l10n_base}"] * 2
    elif mode == 2:     # the file's value is overridden by the parser's
        fenv["l10n_base"] = "{T}/p/bogus"
        penv["l10n_base"] = "{T}/p/" + LD
        lbases += ["{l10n_base}"] * 2
    elif mode == 3:     # nested variable in the file, base from the parser
        fenv["l"] = "{l10n_base}"
        penv["l10n_base"] = "{T}/p/" + LD
        lbases += ["{l}", "{l10n_base}"]
    elif mode == 4:     # relative variable of the file
        fenv["base"] = LD
        lbases += ["{base}"] * 2
    refbase = ""
    if spelled == "slash":
        # l10n_base with a trailing slash, a `/./` or a `//`: "{l10n_base}/{locale}/..."
        v = rng.choice(["{T}/p/l10n/", "{T}/p/./l10n", "{T}/p//l10n"])
        penv, fenv = {"l10n_base": v}, {}
        lbases = ["{l10n_base}"]
        p.aliases = [(v + "/", "{T}/p/l10n/")]
    elif spelled == "dotdot":
        penv = {k: v for k, v in penv.items() if k != "l10n_base"}
        fenv = {}
        lbases = ["cfg/../l10n"]
        refbase = rng.choice(["", "cfg/../", "sub/../"])
        p.aliases = [("{T}/p/cfg/../", "{T}/p/")] + ([("{T}/p/" + refbase, "{T}/p/")] if refbase else [])
    elif spelled == "updir":
        # one file whose root is a subdirectory: "../l10n/{locale}/..."
        penv, fenv = {}, {}
        lbases = ["../l10n"]
        refbase = "../"
        p.aliases = [("{T}/p/alt/../", "{T}/p/")]
    if rng.random() < 0.45:
        fenv["m"] = mods[0]
    if rng.random() < 0.2:
        penv["unused"] = "u"
    p.penv = penv
    # configuration files --------------------------------------------------
    top = Cfg("l10n.toml", rng.choice([".", None, "."])) if rng.random() < 0.75 else \
        Cfg("cfg/l10n.toml", "..")
    p.top = top
    p.cfgs[top.rel] = top
    top.env = dict(fenv)
    top.locales = list(p.locales) if rng.random() < 0.85 else None
    if rng.random() < 0.03 and kind == "main":
        top.locales = (top.locales or []) + [""]
        p.flags.add("empty-locale")
    names = ["inc1.toml", "sub/inc2.toml", "cfg/inc3.toml", "exc1.toml", "cfg/exc2.toml"]

    def new_child(rel):
        depth = rel.count("/")
        c = Cfg(rel, "../" * depth if depth else rng.choice([".", None]))
        if depth:
            c.basepath = c.basepath.rstrip("/")
        c.env = dict(fenv) if rng.random() < 0.8 else {k: v for k, v in fenv.items() if k != "m"}
        # a child is only useful if it knows every variable its rules may use
        c.env.update({k: v for k, v in fenv.items() if k != "m"})
        if "m" in c.env and rng.random() < 0.65:
            # the same variable, bound differently in this file: each file's variables are its own
            c.env["m"] = rng.choice([m for m in MODS + ["other"] if m != fenv["m"]])
        r = rng.random()
        if r < 0.3:
            c.locales = sorted(rng.sample(p.locales, rng.randint(1, len(p.locales))))
        elif r < 0.45:
            c.locales = list(p.locales)
        p.cfgs[rel] = c
        return c

    def ref_text(parent, child_rel):
        # includes are resolved against the parent's root (= project dir), with variables
        if "base" in parent.env and rng.random() < 0.2 and child_rel.startswith("cfg/"):
            return child_rel    # plain
        return child_rel

    nfiles = rng.choice([1, 1, 2, 2, 3, 3, 4, 5])
    if spelled == "updir":
        nfiles = 1
        top.rel, top.basepath, top.root_rel = "l10n.toml", "alt", "alt/"
        p.cfgs = {top.rel: top}
    incs = [n for n in names[:3]]
    rng.shuffle(incs)
    children = []
    leaf = None
    shape = "random" if spelled == "updir" else rng.choice(["random"] * 4 + ["chain", "chain", "diamond"])
    if shape == "chain":
        # root includes mid includes leaf (includes leaf2): the rules of the innermost file count
        parent = top
        for rel in incs[:rng.choice([2, 2, 3])]:
            c = new_child(rel)
            children.append(c)
            parent.includes.append(rel)
            parent = c
        leaf = children[-1]
    elif shape == "diamond":
        # two children include the same grandchild, which the root does not name
        a, b, leaf = (new_child(rel) for rel in incs)
        children += [a, b, leaf]
        top.includes += [a.rel, b.rel]
        a.includes.append(leaf.rel)
        b.includes.append(leaf.rel)
    else:
        for rel in incs[:max(0, min(nfiles - 1, rng.randint(0, 3)))]:
            c = new_child(rel)
            children.append(c)
            parent = top if (not children[:-1] or rng.random() < 0.6) else rng.choice(children[:-1])
            parent.includes.append(ref_text(parent, rel))
    p.shape = shape
    if shape == "random" and len(children) >= 2 and rng.random() < 0.25:
        # diamond: a second path to an included file
        a, b = children[0], children[-1]
        if b.rel not in a.includes and a.rel not in b.includes and a is not b:
            a.includes.append(b.rel)
            if b.rel not in top.includes:
                top.includes.append(b.rel)
    nexc = 0
    if (len(p.cfgs) < nfiles or rng.random() < 0.3) and spelled != "updir":
        nexc = rng.randint(0, 2)
    for rel in names[3:3 + nexc]:
        c = new_child(rel)
        if rng.random() < 0.25:
            c.locales = None          # an excluded file that enables no locale
        elif c.locales is None:
            c.locales = list(p.locales)
        top.excludes.append(rel)
        c.is_exclude = True
    if top.excludes and children and rng.random() < 0.15:
        # an excluded file that is also included: dropped from the excludes
        top.includes.append(top.excludes[0])
    if top.excludes and children and rng.random() < 0.1:
        # an exclude that itself includes a file
        x = p.cfgs[top.excludes[-1]]
        if children[0].rel != x.rel:
            x.includes.append(children[0].rel)
    # rules ------------------------------------------------------------------
    for c in p.cfgs.values():
        cl = [b for b in lbases if all(v in c.env or v in penv for v in re.findall(r"\{(\w+)\}", b))]
        n = rng.randint(1, 4) if c is top else rng.randint(0, 3)
        for _ in range(n):
            c.rules.append(gen_rule(rng, p, c, mods, cl, refbase))
        if getattr(c, "is_exclude", False):
            # excludes usually carve a part out
            for r in c.rules:
                if rng.random() < 0.6 and r.l10n.endswith("/**") and "sub" not in r.l10n:
                    r.l10n = r.l10n[:-2] + "sub/**"
                    if r.ref is not None:
                        r.ref = r.ref[:-2] + "sub/**"
    if leaf is not None and len(leaf.rules) < 2:
        cl = [b for b in lbases if all(v in leaf.env or v in penv for v in re.findall(r"\{(\w+)\}", b))]
        leaf.rules.append(gen_rule(rng, p, leaf, mods, cl, refbase))
    allrules = [(c, r) for c in p.cfgs.values() for r in c.rules]
    # duplicates: same l10n text again, in the same or another file; sometimes with another
    # reference (RuntimeError) or without one (dropped silently or AttributeError)
    if allrules and rng.random() < 0.35:
        c0, r0 = rng.choice(allrules)
        c1 = rng.choice(list(p.cfgs.values()))
        usable = all(v in c1.env or v in penv or v == "locale"
                     for v in re.findall(r"\{(\w+)\}", r0.l10n + (r0.ref or "")))
        if usable and c1.env.get("m") == c0.env.get("m"):
            d = Rule(r0.ref, r0.l10n, r0.locales, rng.sample(TESTS, rng.randint(1, 2)))
            z = rng.random()
            in_exclude = getattr(c1, "is_exclude", False) or any(
                c1.rel in p.cfgs[x].includes for x in top.excludes)
            if in_exclude:
                pass        # both sides of an excluded rule stay parallel (see `exclude-l10n-only`)
            elif z < 0.15 and d.ref is not None and not spelled:
                d.ref = "other/" + d.ref
            elif z < 0.3:
                d.ref = None if rng.random() < 0.5 else d.ref
            c1.rules.insert(rng.randint(0, len(c1.rules)), d)
    # twins: the same rule once with a trailing `*` and once with a trailing `**`, in either
    # order, with different tests
    cands = [(c, r) for c in p.cfgs.values() for r in c.rules
             if r.l10n.endswith("/**") or r.l10n.endswith("/*")]
    if cands and rng.random() < 0.25:
        c0, r0 = rng.choice(cands)
        flip = (lambda t: t[:-2] + "*") if r0.l10n.endswith("/**") else (lambda t: t + "*")
        d = Rule(flip(r0.ref) if r0.ref is not None else None, flip(r0.l10n), r0.locales,
                 rng.choice([None, rng.sample(TESTS, rng.randint(1, 2))]))
        if r0.tests is None and rng.random() < 0.6:
            r0.tests = rng.sample(TESTS, 1)
        i = c0.rules.index(r0)
        c0.rules.insert(i + rng.randint(0, 1), d)
    # spellings of include / exclude paths with `.` and `..` segments (resolved against the
    # including file's root, the project dir)
    for c in p.cfgs.values():
        for rel in c.includes + c.excludes:
            if rng.random() < 0.3:
                c.spell[rel] = rng.choice(["./", "cfg/../", "sub/./../", "cfg/../sub/../"]) + rel
    # the files reachable from an exclude only have rules with both sides (an l10n-only
    # rule of an excluded file is the stream `exclude-l10n-only`)
    reach, stack = set(), list(top.excludes)
    while stack:
        x = stack.pop()
        if x not in reach:
            reach.add(x)
            stack += p.cfgs[x].includes
    for x in reach:
        p.cfgs[x].rules = [r for r in p.cfgs[x].rules if r.ref is not None]
    # exotic features: correspondence only
    if kind == "main" and not spelled and rng.random() < 0.06:
        top.rules.append(Rule("mobile/res/values/strings.xml",
                              "mobile/res/values-{android_locale}/strings.xml"))
        p.flags.add("android")
    if kind == "main" and not spelled and rng.random() < 0.05:
        m = mods[0]
        top.rules.append(Rule("%s/en/{nope}/*.ftl" % m, "%s/{locale}/%s/{nope}/*.ftl" % (LD, m)))
        p.flags.add("unbound")
    # an alternative root for one child
    if children and not top.excludes and not spelled and rng.random() < 0.15:
        # (with excludes, another root reaches the excluded l10n paths from reference files the
        # excluded rules do not match: the defect of stream `exclude-l10n-only`)
        c = children[-1]
        if not getattr(c, "is_exclude", False) and not c.includes:
            c.basepath = "alt" if c.basepath in (None, ".") else c.basepath + "/alt"
            c.root_rel = "alt/"
    # rooted patterns that START with a wildcard: the prefix is the root itself and the whole
    # tree below it is walked (crashed in Matcher.prefix before fix f4bd56d)
    rootw = None
    if not spelled and kind in ("main", "multi", "toml") and rng.random() < 0.14:
        rootw = rng.choice(["star", "starstar", "l10n-star", "l10n-dot"])
        tests = rng.choice([None, ["extra"]])
        if rootw == "star":
            top.rules.append(Rule("*.ftl", LD + "/{locale}/*.ftl", None, tests))
        elif rootw == "starstar":
            top.rules.append(Rule("**/en/rootw.ftl", "**/{locale}/rootw.ftl", None, tests))
        elif rootw == "l10n-star":
            top.rules.append(Rule("en-*.ftl", "*-{locale}.ftl", None, tests))
        else:
            top.rules.append(Rule("%s/en/*.ftl" % mods[0], "*.{locale}.ftl", None, tests))
    # tree ---------------------------------------------------------------------
    files = set()
    if rootw == "star":
        files |= {"top1.ftl", "top2.ftl"} | {"%s/%s/top%d.ftl" % (LD, l, rng.randint(1, 3)) for l in p.locales}
    elif rootw == "starstar":
        files |= {"%s/en/rootw.ftl" % mods[0], "deep/er/en/rootw.ftl"}
        files |= {"%s/%s/rootw.ftl" % (rng.choice([mods[0], "deep/er", "l10n"]), l) for l in p.locales}
    elif rootw == "l10n-star":
        files |= {"en-a.ftl", "en-b.ftl"} | {"%s-%s.ftl" % (rng.choice("abc"), l) for l in p.locales}
    elif rootw == "l10n-dot":
        files |= {"%s.%s.ftl" % (rng.choice(["a", "foo-1", "zz"]), l) for l in p.locales + [FOREIGN]}
    p.rootw = rootw
    roots = [""] if spelled else sorted({c.root_rel for c in p.cfgs.values()})
    for root in roots:
        for mod in mods + ["other"] + [NEAR[m] for m in mods if m in NEAR]:
            pool = rng.sample(POOL, rng.randint(3, 8))
            for name in pool:
                if rng.random() < 0.65:
                    files.add("%s%s/en/%s" % (root, mod, name))
                for loc in p.locales + [FOREIGN]:
                    if rng.random() < (0.45 if loc != FOREIGN else 0.2):
                        base = "" if root == "" or rng.random() < 0.5 else root
                        files.add("%s%s/%s/%s/%s" % (base, LD, loc, mod, name))
                        if LD in NEAR and rng.random() < 0.3:
                            files.add("%s%s/%s/%s/%s" % (base, NEAR[LD], loc, mod, name))
            for loc in p.locales:
                if rng.random() < 0.2:
                    files.add("%s/%s/strings-%s.ftl" % (LD, mod, loc))
    if "android" in p.flags:
        files.add("mobile/res/values/strings.xml")
        for d in ("de", "pt-rBR", "b+de+Latn", "fr"):
            if rng.random() < 0.6:
                files.add("mobile/res/values-%s/strings.xml" % d)
    if "unbound" in p.flags:
        files.add("%s/en/q/u.ftl" % mods[0])
        for loc in p.locales:
            if rng.random() < 0.6:
                files.add("%s/%s/%s/q/u.ftl" % (LD, loc, mods[0]))
    p.files = sorted(files)
    p._gen = (mods, lbases, fenv)
    p.ldir = LD
    return p


def gen_multi(rng):
    """several projects in one ProjectFiles run: a second (third) top-level file with its own
    variables, which includes files the first one excludes or includes, through differently
    spelled paths"""
    p = gen_project(rng)
    p.kind = "multi"
    mods, lbases, fenv = p._gen
    p.tops = [p.top.rel]
    for rel in ["b.toml", "cfg/c.toml"][:rng.choice([1, 1, 2])]:
        b = Cfg(rel, ".." if "/" in rel else rng.choice([".", None]))
        b.env = dict(fenv)
        if "m" in b.env and rng.random() < 0.7:
            b.env["m"] = rng.choice([m for m in MODS + ["other"] if m != fenv["m"]])
        elif "m" not in b.env and rng.random() < 0.3:
            b.env["m"] = rng.choice(MODS)
        r = rng.random()
        b.locales = list(p.locales) if r < 0.6 else \
            sorted(rng.sample(p.locales, rng.randint(1, len(p.locales)))) if r < 0.9 else None
        cl = [x for x in lbases if all(v in b.env or v in p.penv for v in re.findall(r"\{(\w+)\}", x))]
        for _ in range(rng.randint(0, 3)):
            b.rules.append(gen_rule(rng, p, b, mods, cl))
        others = [c for c in p.cfgs.values() if c.rel not in p.tops and not c.root_rel]
        # include what the first project excludes (this cancels the exclude), or what it includes
        pool = [c.rel for c in others if c.rel in p.top.excludes] * 3 + [c.rel for c in others]
        for x in rng.sample(pool, min(len(pool), rng.randint(0, 2))):
            if x not in b.includes:
                b.includes.append(x)
                if rng.random() < 0.6:
                    b.spell[x] = rng.choice(["./", "cfg/../", "sub/./../"]) + x
        p.cfgs[rel] = b
        p.tops.append(rel)
    return p


def gen_quirk_prefix_file(rng):
    """a wildcard rule whose prefix is itself an existing file"""
    p = Proj()
    p.kind = "prefix-file"
    p.locales = ["de"]
    top = Cfg("l10n.toml", ".")
    top.locales = ["de"]
    mod = rng.choice(MODS)
    top.rules.append(Rule("%s/en/foo*" % mod, "l10n/{locale}/%s/foo*" % mod))
    p.top = top
    p.cfgs[top.rel] = top
    p.files = sorted({"%s/en/foo" % mod, "%s/en/foo-1.ftl" % mod,
                      "l10n/de/%s/foo" % mod, "l10n/de/%s/foo-1.ftl" % mod,
                      "l10n/de/%s/%s" % (mod, rng.choice(["a.ftl", "foo.ftl"]))})
    return p


def gen_quirk_dedup_env(rng):
    """two files with the same pattern text, a variable after the first wildcard bound differently"""
    p = Proj()
    p.kind = "dedup-env"
    p.locales = ["de"]
    mod = rng.choice(MODS)
    top = Cfg("l10n.toml", ".")
    top.locales = ["de"]
    top.env = {"ext": "ftl"}
    inc = Cfg("inc1.toml", ".")
    inc.env = {"ext": rng.choice(["properties", "txt"])}
    for c in (top, inc):
        c.rules.append(Rule("%s/en/*.{ext}" % mod, "l10n/{locale}/%s/*.{ext}" % mod))
        p.cfgs[c.rel] = c
    top.includes.append("inc1.toml")
    p.top = top
    p.files = sorted({"%s/en/a.ftl" % mod, "%s/en/b.%s" % (mod, inc.env["ext"]),
                      "l10n/de/%s/a.ftl" % mod, "l10n/de/%s/b.%s" % (mod, inc.env["ext"])})
    return p


def gen_quirk_rooted_wildcard(rng):
    """a rule of a TOML file (always rooted) whose pattern STARTS with a wildcard, alone in its
    project: enumerated and paired like any other rule (prefix = root); this small stream keeps
    the signature rooted-wildcard-start:matcher-table-raised of the crash repaired by f4bd56d"""
    p = Proj()
    p.kind = "rooted-wildcard-start"
    p.locales = ["de"]
    top = Cfg("l10n.toml", ".")
    top.locales = ["de"]
    z = rng.randrange(3)
    if z == 0:
        top.rules.append(Rule("en-*.ftl", "*-{locale}.ftl"))
        p.files = ["en-a.ftl", "en-b.ftl", "a-de.ftl", "c-de.ftl"]
    elif z == 1:
        top.rules.append(Rule("browser/en/*.ftl", "*.{locale}.ftl"))
        p.files = ["browser/en/a.ftl", "a.de.ftl"]
    else:
        top.rules.append(Rule("**/en/rootw.ftl", "**/{locale}/rootw.ftl"))
        p.files = ["browser/en/rootw.ftl", "deep/er/en/rootw.ftl", "browser/de/rootw.ftl"]
    p.top = top
    p.cfgs[top.rel] = top
    return p


def gen_unrooted(rng):
    """a ProjectConfig(None) (no root, API only): l10n patterns that start with a wildcard have
    the prefix "", nothing is walked on the l10n side; the reference side is absolute"""
    p = Proj()
    p.kind = "unrooted"
    p.locales = sorted(rng.sample(LOCALES, rng.randint(1, 2)))
    mod = rng.choice(MODS)
    top = Cfg("none.toml", None)
    top.unrooted = True
    top.locales = list(p.locales)
    top.env = {"r": "{T}/p/" + mod}
    # (only `*`: a leading `**` also matches absolute paths, which a walk from "" never reaches)
    for l10n, ref in rng.sample([("*.ftl", "{r}/en/*.ftl"), ("*", "{r}/en/sub/*"),
                                 ("*-{locale}.properties", "{r}/en/*.properties"),
                                 ("*.{locale}.txt", "{r}/en/*.txt")], rng.randint(1, 3)):
        top.rules.append(Rule(ref, l10n, None, rng.choice([None, ["extra"]])))
    p.top = top
    p.cfgs[top.rel] = top
    names = ["a.ftl", "b.ftl", "c.properties", "foo/x.ftl", "sub/foo/y.ftl", "sub/deep/foo/z.txt",
             "sub/b.ftl", "z.txt"]
    p.files = sorted({"%s/en/%s" % (mod, n) for n in rng.sample(names, rng.randint(3, 7))}
                     | {"l10n/%s/%s/a.ftl" % (p.locales[0], mod)})
    return p


def gen_quirk_exclude_l10n_only(rng):
    """an excluded file whose rule has no reference side: the reference walk of the main
    rule still produces the excluded l10n path"""
    p = Proj()
    p.kind = "exclude-l10n-only"
    p.locales = ["de"]
    mod = rng.choice(MODS)
    top = Cfg("l10n.toml", ".")
    top.locales = ["de"]
    top.rules.append(Rule("%s/en/**" % mod, "l10n/{locale}/%s/**" % mod))
    exc = Cfg("exc1.toml", ".")
    exc.locales = ["de"]
    exc.rules.append(Rule(None, "l10n/{locale}/%s/sub/**" % mod))
    top.excludes.append("exc1.toml")
    for c in (top, exc):
        p.cfgs[c.rel] = c
    p.top = top
    p.files = sorted({"%s/en/a.ftl" % mod, "%s/en/sub/b.ftl" % mod,
                      "l10n/de/%s/a.ftl" % mod, "l10n/de/%s/sub/b.ftl" % mod}
                     | ({"l10n/de/%s/sub/deep/d.ftl" % mod} if rng.random() < 0.5 else set()))
    return p


# --------------------------------------------------------------- materialise ---
def write_tree(p, T):
    pd = os.path.join(T, "p")
    if os.path.exists(pd):
        shutil.rmtree(pd)
    md = os.path.join(T, "m")
    if os.path.exists(md):
        shutil.rmtree(md)
    os.makedirs(pd)
    for d in ("cfg", "sub", "alt"):
        os.makedirs(os.path.join(pd, d))
    for c in p.cfgs.values():
        path = os.path.join(pd, c.rel)
        os.makedirs(os.path.dirname(path), exist_ok=True)
        with open(path, "w") as f:
            f.write(c.toml().replace("{T}", T))
    for rel in p.files:
        path = os.path.join(pd, rel)
        os.makedirs(os.path.dirname(path), exist_ok=True)
        with open(path, "w") as f:
            is_ref = "/en/" in rel or "values/" in rel or rel.startswith(("top", "en-"))
            f.write(REF_CONTENT if is_ref else L10N_CONTENT)
    return pd


def visible_files(fs, matchers):
    """fs plus the un-normalised spellings under which the walks of these matchers see files"""
    from compare_locales import mozpath
    out, seen = list(fs), set(fs)
    for m in matchers:
        base = m.prefix
        if os.path.isfile(base):
            cand = [base]
        else:
            b = base if base.endswith("/") else mozpath.dirname(base)
            if not b or mozpath.normpath(b) == (b.rstrip("/") or "/"):
                continue
            cand = [mozpath.join(d, f) for d, _, files in os.walk(b) for f in files]
        for c in cand:
            if c not in seen:
                seen.add(c)
                out.append(c)
    return out


def walk_files(pd):
    from compare_locales import mozpath
    out = []
    for d, dirs, files in os.walk(pd):
        for f in files:
            out.append(mozpath.join(d, f))
    return out


# ----------------------------------------------------------------- the oracle ---
TOK = re.compile(r"\*\*/|\*\*|\*|\{ *(\w+) *\}")


def expand_var(name, env):
    """textual value of a variable, nested references resolved; None when unbound"""
    if name not in env:
        return None
    sub_env = {k: v for k, v in env.items() if k != name}
    out, pos = [], 0
    for m in TOK.finditer(env[name]):
        out.append(env[name][pos:m.start()])
        pos = m.end()
        if m.group(1):
            v = expand_var(m.group(1), sub_env)
            if v is None:
                return None
            out.append(v)
        else:
            out.append(m.group(0))
    out.append(env[name][pos:])
    return "".join(out)


def render(root, text, env, fills):
    """the path a pattern text denotes with its variables bound by env and its wildcards by fills"""
    out, pos, n = [], 0, 0
    for m in TOK.finditer(text):
        out.append(text[pos:m.start()])
        pos = m.end()
        if m.group(1):
            v = expand_var(m.group(1), env)
            if v is None:
                return None
            out.append(v)
        else:
            n += 1
            out.append(fills.get("s%d" % n) or "")
    out.append(text[pos:])
    s = "".join(out)
    return s if s.startswith("/") else root + s


def spec_regex(root, text, env):
    """the regular expression a pattern text MEANS, written down here independently of
    paths/matcher.py: literal text is literal (re.escape), a variable is its literal value, `*`
    stays inside a path segment, `**/` is nothing or directories, a trailing `**` nothing or a
    rest; None if a variable is unbound"""
    out, pos, n = [], 0, 0
    for m in TOK.finditer(text):
        out.append(re.escape(text[pos:m.start()]))
        pos = m.end()
        if m.group(1):
            v = expand_var(m.group(1), env)
            if v is None or TOK.search(v):
                return None
            out.append(re.escape(v))
        else:
            n += 1
            tok = m.group(0)
            out.append("(?P<s%d>%s)" % (n, "[^/]*" if tok == "*" else ".+/" if tok == "**/" else ".+")
                       + ("" if tok == "*" else "?"))
    out.append(re.escape(text[pos:]))
    start = render("", text, env, {})
    lead = "" if (start or "").startswith("/") else re.escape(root)
    return re.compile(lead + "".join(out) + r"\Z")


class Oracle:
    """coverage of one project for one locale from the description + Matcher.match"""

    def __init__(self, p, T, penv):
        self.p, self.T, self.penv = p, T, penv
        self.pd = T + "/p/"

    def universe(self, fs):
        """the real files, and their spellings through the project's un-normalised directories"""
        out, seen = list(fs), set(fs)
        for sp, real in getattr(self.p, "aliases", []):
            sp, real = sp.replace("{T}", self.T), real.replace("{T}", self.T)
            for f in fs:
                if f.startswith(real):
                    s2 = sp + f[len(real):]
                    if s2 not in seen:
                        seen.add(s2)
                        out.append(s2)
        return out

    def root_of(self, c):
        """the root its patterns are relative to; "" for a ProjectConfig(None) (no root)"""
        return "" if getattr(c, "unrooted", False) else self.pd + c.root_rel

    def flatten(self, c, seen):
        """configs in inclusion order, each file once"""
        if c.rel in seen:
            return []
        seen.add(c.rel)
        out = [c]
        for inc in c.includes:
            out += self.flatten(self.p.cfgs[inc], seen)
        return out

    def all_locales(self, c):
        s = set()
        for x in self.flatten(c, set()):
            s.update(x.locales or [])
            for r in x.rules:
                s.update(r.locales or [])
        return s

    def env_of(self, c):
        e = {k: v.replace("{T}", self.T) for k, v in c.env.items()}
        e.update(self.penv)
        return e

    def enabled_rules(self, configs, locale):
        out = []
        for c in configs:
            if locale and c.locales is not None and locale not in c.locales:
                continue
            for r in c.rules:
                if locale and r.locales is not None and locale not in r.locales:
                    continue
                out.append((c, r))
        return out

    def matchers(self, c, r, locale):
        from compare_locales.paths import Matcher, REFERENCE_LOCALE
        env = self.env_of(c)
        root = self.root_of(c) or None
        lm = Matcher(r.l10n, env=dict(env, locale=locale or REFERENCE_LOCALE), root=root)
        rm = Matcher(r.ref, env=env, root=root) if r.ref is not None else None
        return lm, rm

    def resolved_prefix(self, c, text, locale):
        """the text before the first wildcard, resolved: what Matcher.prefix must be"""
        from compare_locales.paths import REFERENCE_LOCALE
        return render(self.root_of(c), text.split("*")[0],
                      dict(self.env_of(c), locale=locale or REFERENCE_LOCALE), {})

    def rule_key(self, c, r, locale):
        """two rules are the same rule when their l10n text, root and variable values agree"""
        env = dict(self.env_of(c), locale=locale or "-")
        return (r.l10n, c.root_rel,
                tuple(expand_var(m.group(1), env) for m in TOK.finditer(r.l10n) if m.group(1)))

    def predict_raise(self, rules, locale):
        """duplicate rules (same l10n text, root and resolved prefix): the last one is kept;
        if it has a reference, every other one must have one with the same prefix"""
        classes = {}
        for c, r in rules:
            classes.setdefault(self.rule_key(c, r, locale), []).append((c, r))
        for members in classes.values():
            c, r = members[-1]
            if r.ref is None:
                continue
            rp = self.resolved_prefix(c, r.ref, locale)
            for c2, r2 in members[:-1]:
                if r2.ref is None or self.resolved_prefix(c2, r2.ref, locale) != rp:
                    return True
        return False

    def expected(self, locale, mergebase, fs):
        """-> (dict l10n path -> record, set of excluded files, raise expected?)
        record = dict(kind = l10n | missing | ref, ref, merge, tests, alts, clean)"""
        p = self.p
        # the projects enabled for the locale; a file takes part once, however it is reached
        configs, seen_c, excluded_files = [], set(), []
        for top in p.top_cfgs():
            if locale is not None and locale not in self.all_locales(top):
                continue
            configs += self.flatten(top, seen_c)
            excluded_files += [x for x in top.excludes if x not in excluded_files]
        if not configs:
            return {}, set(), False
        inc_paths = {c.rel for c in configs}
        xconfigs, seen = [], set()
        for x in excluded_files:
            if x in inc_paths:
                # explicitly included (by any project, however the path is spelled)
                continue
            xc = p.cfgs[x]
            if locale is not None and locale not in self.all_locales(xc):
                continue
            xconfigs += self.flatten(xc, seen)
        xrules = self.enabled_rules(xconfigs, locale)
        rules = self.enabled_rules(configs, locale)
        if self.predict_raise(xrules, locale) or self.predict_raise(rules, locale):
            return {}, set(), True
        # rules with the same l10n pattern are one rule: the last definition stands (with
        # its reference or lack of one), the tests of all of them are merged
        all_rules = rules

        def collapse(rs):
            keys = [self.rule_key(c, r, locale) for c, r in rs]
            return [cr for i, cr in enumerate(rs) if keys[i] not in keys[i + 1:]]
        rules, xrules = collapse(rules), collapse(xrules)
        xms = [self.matchers(c, r, locale) for c, r in xrules]

        def is_excluded(f):
            if locale is None:
                return False
            return any(lm.match(f) is not None or (rm is not None and rm.match(f) is not None)
                       for lm, rm in xms)
        ms = [self.matchers(c, r, locale) for c, r in rules]
        # the Matcher must read the pattern texts as the configuration format defines them
        from compare_locales.paths import REFERENCE_LOCALE
        self.mismatch = None
        for (c, r), (lm, rm) in zip(rules + xrules, ms + xms):
            env = self.env_of(c)
            for text, m, e in ((r.l10n, lm, dict(env, locale=locale or REFERENCE_LOCALE)), (r.ref, rm, env)):
                if m is None or self.mismatch:
                    continue
                spec = spec_regex(self.root_of(c), text, e)
                if spec is None:
                    continue
                for f in self.universe(fs):
                    a, b = spec.match(f), m.match(f)
                    if (a is None) != (b is None) or (a is not None and any(
                            (a.group(k) or "") != (b.get(k) or "") for k in a.groupdict())):
                        self.mismatch = {"pattern": text, "root": self.root_of(c), "path": f,
                                         "Matcher.match": str(b), "pattern text means": str(a and a.groupdict())}
                        break

        def tests_of(i):
            c, r = rules[i]
            t = set()
            for c2, r2 in all_rules:
                if self.rule_key(c2, r2, locale) == self.rule_key(c, r, locale):
                    t.update(r2.tests or [])
            return sorted(t)

        def pair(i, fills, refpath):
            c, r = rules[i]
            env = self.env_of(c)
            root = self.root_of(c)
            merge = None
            if mergebase is not None:
                merge = render(root, r.l10n, dict(env, locale=locale, l10n_base=mergebase), fills)
            return refpath, merge, tests_of(i)
        exp, excl = {}, set()
        fs = self.universe(fs)
        if not locale:
            # reference self-validation: every covered reference file, paired with itself
            for f in fs:
                cover = [i for i, (lm, rm) in enumerate(ms) if rm is not None and rm.match(f) is not None]
                if cover:
                    exp[f] = dict(kind="ref", ref=f, merge=None, tests=tests_of(cover[-1]))
            return exp, excl, False
        for f in fs:
            if is_excluded(f):
                excl.add(f)
                continue
            cover = [i for i, (lm, rm) in enumerate(ms) if lm.match(f) is not None]
            if cover:
                i = cover[-1]
                c, r = rules[i]
                fills = ms[i][0].match(f)
                ref = None
                if r.ref is not None:
                    ref = render(self.root_of(c), r.ref, self.env_of(c), fills)
                rf, mg, ts = pair(i, fills, ref)
                exp[f] = dict(kind="l10n", ref=rf, merge=mg, tests=ts)
        for f in fs:
            if f in excl:
                continue
            for i in reversed(range(len(ms))):
                lm, rm = ms[i]
                if rm is None:
                    continue
                fills = rm.match(f)
                if fills is None:
                    continue
                c, r = rules[i]
                lp = render(self.root_of(c), r.l10n,
                            dict(self.env_of(c), locale=locale), fills)
                if is_excluded(lp):
                    # the localized path belongs to an excluded configuration
                    excl.add(lp)
                    continue
                cand = pair(i, fills, f)
                if lp in exp:
                    if exp[lp]["kind"] == "missing":
                        exp[lp]["alts"].append(cand)
                        exp[lp]["clean"] = False
                    continue
                # coverage does not overlap: no other rule covers either path on either side
                clean = all(j == i or (lm2.match(lp) is None and lm2.match(f) is None
                                       and (rm2 is None or (rm2.match(f) is None and rm2.match(lp) is None)))
                            for j, (lm2, rm2) in enumerate(ms)) and lm.match(f) is None
                exp[lp] = dict(kind="missing", ref=cand[0], merge=cand[1], tests=cand[2],
                               alts=[cand], clean=clean, present=lp in fs)
        return exp, excl, False


# ------------------------------------------------------- implementation side ---
class Recorder:
    """ContentComparer subclass factory recording what compareProjects asks for"""

    @staticmethod
    def make(log):
        from compare_locales.compare.content import ContentComparer

        class Rec(ContentComparer):
            def add(self, orig, missing, merge_file):
                log.append((0, missing.fullpath, orig.fullpath, merge_file, None))
                return super().add(orig, missing, merge_file)

            def remove(self, ref_file, l10n, merge_file):
                log.append((1, l10n.fullpath, ref_file.fullpath, merge_file, None))
                return super().remove(ref_file, l10n, merge_file)

            def compare(self, ref_file, l10n, merge_file, extra_tests=None):
                log.append((2, l10n.fullpath, ref_file.fullpath, merge_file, extra_tests))
                return super().compare(ref_file, l10n, merge_file, extra_tests)
        return Rec


def opt(x):
    return [] if x is None else [x]


def tests_ids(t):
    return sorted(TESTS.index(x) for x in t)


def entry_canon(e):
    k, r, m, t = e
    return [opt(k), opt(r), opt(m), tests_ids(t)]


def flatten_details(tree, prefix=""):
    out = {}
    if isinstance(tree, list):
        out[prefix] = tree
        return out
    for k, v in tree.items():
        out.update(flatten_details(v, (prefix + "/" + k) if prefix else k))
    return out


class Strs:
    def __init__(self):
        self.ix, self.lst = {}, []

    def __call__(self, s):
        i = self.ix.get(s)
        if i is None:
            i = self.ix[s] = len(self.lst)
            self.lst.append(s)
        return i


def all_nodes(cfg):
    """every ProjectConfig object reachable from the parsed top (configs + excludes' configs)"""
    # walked here over .children / .excludes, not through ProjectConfig.configs: the data the
    # model gets must not depend on the code under test
    out, stack = [], [cfg]
    while stack:
        n = stack.pop()
        out.append(n)
        stack += list(n.children) + list(n.excludes)
    return out


def build_api(p, pd, T, penv):
    """the projects built with the ProjectConfig API (set_root, add_environment, add_paths,
    add_child, exclude, set_locales) in the order TOMLParser uses, a fresh object per inclusion"""
    from compare_locales import mozpath
    from compare_locales.paths import ProjectConfig

    def mk(c):
        pc = ProjectConfig(None if getattr(c, "unrooted", False) else mozpath.join(pd, c.rel))
        pc.set_root(c.basepath if c.basepath is not None else ".")
        pc.add_environment(**{k: v.replace("{T}", T) for k, v in c.env.items()})
        pc.add_environment(**penv)
        for r in c.rules:
            d = {"l10n": r.l10n}
            if r.locales is not None:
                d["locales"] = r.locales
            if r.ref is not None:
                d["reference"] = r.ref
            if r.tests is not None:
                d["test"] = r.tests
            pc.add_paths(d)
        for inc in c.includes:
            pc.add_child(mk(p.cfgs[inc]))
        for exc in c.excludes:
            pc.exclude(mk(p.cfgs[exc]))
        if c.locales is not None:
            pc.set_locales(c.locales)
        return pc
    return [mk(top) for top in p.top_cfgs()]


def run_one(chk, p, T, locales_to_run, stats, api=False):
    """materialise p, run the implementation, the oracle, and return (requests, impl outputs, descriptions)"""
    from compare_locales import mozpath
    from compare_locales.paths import TOMLParser, ProjectFiles, REFERENCE_LOCALE, File
    import compare_locales.compare as cmp_mod
    pd = write_tree(p, T)
    mergebase = T + "/m"
    penv = {k: v.replace("{T}", T) for k, v in p.penv.items()}
    # one env dict for every top-level file, as the command line does; the oracle keeps its own
    shared_env = dict(penv)
    try:
        if api:
            cfgs = build_api(p, pd, T, penv)
        else:
            cfgs = [TOMLParser().parse(mozpath.join(pd, top.rel), env=shared_env) for top in p.top_cfgs()]
    except Exception as e:  # noqa
        chk.fail("toml-parse-raised", {"project": p.text()}, repr(e))
        return [], [], []
    fs = walk_files(pd)
    oracle = Oracle(p, T, penv)
    nodes = [n for cfg in cfgs for n in all_nodes(cfg)]
    rules = []          # (paths dict)
    for n in nodes:
        rules.extend(n.paths)
    reqs, impls, descs = [], [], []
    for locale, merge in locales_to_run:
        mb = mergebase if merge else None
        desc = {"project": p.text(), "locale": locale, "merge": merge, "kind": p.kind, "api": api}
        chk.count((p.text(), locale, merge))
        # -------- implementation ------------------------------------------------
        built = guarded(lambda: ProjectFiles(locale, cfgs, mergebase=mb))
        pf = built[1] if built[0] == 0 else None
        enum = guarded(lambda: list(pf)) if pf is not None else None
        # the file list of the model: the real files plus, for a matcher whose prefix is not a
        # normalised path (`..`, `//`, `/./`), the files as os.walk spells them from there
        try:
            walked = []
            for paths in rules:
                walked.append(paths["l10n"].with_env({"locale": locale or REFERENCE_LOCALE}))
                if "reference" in paths:
                    walked.append(paths["reference"])
            mfs = visible_files(fs, walked)
        except Exception as e:  # noqa
            chk.fail(("" if p.kind == "main" else p.kind + ":") + "matcher-table-raised", desc, repr(e))
            continue
        queries = list(mfs)
        if enum is not None and enum[0] == 0:
            for e in enum[1]:
                for s in e[:2]:
                    if isinstance(s, str) and s not in queries:
                        queries.append(s)
        queries.append(pd + "/nonexistent/x.ftl")
        # -------- tables of the real Matcher objects ---------------------------------
        S = Strs()
        rows, subrows, realrows = [], [], []
        bound, reps = {}, []
        try:
            for k, paths in enumerate(rules):
                raw = paths["l10n"]
                b = raw.with_env({"locale": locale or REFERENCE_LOCALE})
                bound[k] = b
                cls = None
                for ci, rep in enumerate(reps):
                    if rep == b.pattern:
                        cls = ci
                        break
                if cls is None:
                    cls = len(reps)
                    reps.append(b.pattern)
                ref = paths.get("reference")
                mg = raw.with_env({"locale": locale, "l10n_base": mb}) \
                    if (mb is not None and locale is not None) else None
                rows.append([4 * k, S(""), 0, 4 * k + 1, 4 * k + 3, []])
                rows.append([4 * k + 1, S(b.prefix), cls + 1, 4 * k + 1, 4 * k + 3,
                             [S(q) for q in queries if b.match(q) is not None]])
                realrows.append([S(b.prefix), S(mozpath.realpath(b.prefix))])
                if ref is not None:
                    rows.append([4 * k + 2, S(ref.prefix), 0, 4 * k + 2, 4 * k + 2,
                                 [S(q) for q in queries if ref.match(q) is not None]])
                    realrows.append([S(ref.prefix), S(mozpath.realpath(ref.prefix))])
                if mg is not None:
                    rows.append([4 * k + 3, S(mg.prefix), 0, 4 * k + 3, 4 * k + 3, []])
                pairs = [(4 * k + 1, b, 4 * k + 2, ref), (4 * k + 1, b, 4 * k + 3, mg),
                         (4 * k + 2, ref, 4 * k + 1, b), (4 * k + 2, ref, 4 * k + 3, mg),
                         (4 * k + 2, ref, 4 * k + 2, ref)]
                for ia, a, ib, bb in pairs:
                    if a is None or bb is None:
                        continue
                    lst = []
                    for q in queries:
                        if a.match(q) is not None:
                            r = a.sub(bb, q)
                            if r is not None:
                                lst.append([S(q), S(r)])
                    subrows.append([ia, ib, lst])
        except Exception as e:  # noqa
            chk.fail(("" if p.kind == "main" else p.kind + ":") + "matcher-table-raised", desc, repr(e))
            continue
        ridx = {id(paths): k for k, paths in enumerate(rules)}
        refidx = {id(paths["reference"]): 4 * k + 2 for k, paths in enumerate(rules)
                  if "reference" in paths}

        def olocs(l):
            return [] if l is None else [[S(x) for x in l]]

        def node_sx(n):
            return [S(n.path or ""), olocs(n.locales),
                    [[4 * ridx[id(pt)], opt(4 * ridx[id(pt)] + 2 if "reference" in pt else None),
                      tests_ids(pt.get("test", [])), olocs(pt.get("locales"))] for pt in n.paths],
                    [node_sx(ch) for ch in n.children]]
        proj_sx = [[node_sx(cfg), [node_sx(x) for x in cfg.excludes]] for cfg in cfgs]
        fs_ix = [S(f) for f in mfs]
        q_ix = [S(q) for q in queries]
        loc_sx = opt(S(locale) if locale is not None else None)
        # with a merge base, a rule that does not use {l10n_base} merges onto the l10n file
        # itself (shutil.SameFileError inside ContentComparer.merge): not driven
        do_drive = mb is None or all(pt_l10n.startswith(("{l10n_base}", "{l}"))
                                     for c in p.cfgs.values() for pt_l10n in (r.l10n for r in c.rules))
        req = [None, loc_sx, int(mb is not None), proj_sx, rows, subrows, realrows, fs_ix, q_ix,
               int(do_drive)]
        req[0] = [canon(s) for s in S.lst]

        # -------- canonical implementation output -----------------------------------
        def patclass(m):
            for ci, rep in enumerate(reps):
                if rep == m.pattern:
                    return ci + 1
            return 0

        def ms_canon(ms):
            return [[canon(m["l10n"].prefix), patclass(m["l10n"]),
                     opt(refidx.get(id(m.get("reference")))) if "reference" in m else [],
                     opt(canon(m["merge"].prefix)) if "merge" in m else [],
                     tests_ids(m["test"])] for m in ms]
        if pf is None:
            out = built
        else:
            matches = [opt(entry_canon(r) if r is not None else None)
                       for r in (pf.match(q) for q in queries)]
            drive = []
            if enum[0] == 0 and do_drive:
                log = []
                saved = cmp_mod.ContentComparer
                cmp_mod.ContentComparer = Recorder.make(log)
                try:
                    with contextlib.redirect_stdout(io.StringIO()):
                        obs = guarded(lambda: cmp_mod.compareProjects(cfgs, [locale], pd + "/l10n",
                                                                      merge_stage=mb))
                finally:
                    cmp_mod.ContentComparer = saved
                drive = [[[a, opt(l), opt(r), opt(m), tests_ids(t) if t is not None else []]
                          for a, l, r, m, t in log],
                         [obs[1]] if obs[0] == 1 else []]
                if obs[0] == 1 and obs[1] != 1:
                    chk.fail("compareProjects-raised", desc, {"code": obs[1], "calls": len(log)})
                if obs[0] == 1:
                    stats["drive-raised"] = stats.get("drive-raised", 0) + 1
                    chk.hist("compareProjects_raised", "TypeError(l10n-only rule, file present)"
                             if obs[1] == 1 else obs[1])
                elif not p.flags:
                    oracle_details(chk, desc, cfgs, obs[1], log, locale, pd)
            # iter_reference() on an object of its own (for a locale too), and then the SAME object
            # iterated and asked again: nothing may have changed
            pf2 = ProjectFiles(locale, cfgs, mergebase=mb)
            refit = guarded(lambda: [entry_canon(e) for e in pf2.iter_reference()])
            again = guarded(lambda: list(pf2))
            m_again = [opt(entry_canon(r) if r is not None else None)
                       for r in (pf2.match(q) for q in queries)]
            enum_c = [enum[0], [entry_canon(e) for e in enum[1]]] if enum[0] == 0 else enum
            again_c = [again[0], [entry_canon(e) for e in again[1]]] if again[0] == 0 else again
            if again_c != enum_c or m_again != matches or \
                    (pf2.exclude is None) != (pf.exclude is None):
                bad = [q for q, x, y in zip(queries, matches, m_again) if x != y][:3]
                chk.fail(("" if p.kind == "main" else p.kind + ":") + "state-changed-by-iter_reference", desc,
                         {"enumeration_same": again_c == enum_c, "lookups_differ_for": bad,
                          "exclude_kept": (pf2.exclude is None) == (pf.exclude is None)})
            out = [0, [ms_canon(pf.matchers),
                       opt(ms_canon(pf.exclude.matchers) if pf.exclude is not None else None),
                       enum_c, matches, drive, refit]]
        out = canon_strings(out)
        reqs.append((0, req))
        impls.append(out)
        descs.append(desc)
        chk.hist("build", "ok" if built[0] == 0 else "raise-%d" % built[1])
        if pf is not None:
            chk.hist("matchers", min(len(pf.matchers), 9))
            chk.hist("exclude", "yes" if pf.exclude is not None else "no")
            if enum[0] == 0:
                chk.hist("entries", min(len(enum[1]) // 4 * 4, 40))
        # -------- oracle ------------------------------------------------------------------
        if p.flags or locale == "":
            stats["oracle-skipped"] = stats.get("oracle-skipped", 0) + 1
            continue
        check_enumeration(chk, desc, oracle, locale, mb, fs, built, enum, pf, p)
        if pf is None or enum[0] != 0:
            continue
        if len(chk.samples) < 3 and enum[1] and p.kind == "main":
            chk.sample({"suite": "PROJECT", "locale": locale,
                        "files": [c.toml() for c in p.cfgs.values()][:2],
                        "tree": p.files[:8], "enumerated": [list(map(str, e[:2])) for e in enum[1][:3]]})
    return reqs, impls, descs


def canon_strings(x):
    """str -> code points at any depth (ints and lists stay)"""
    if isinstance(x, str):
        return canon(x)
    if isinstance(x, list):
        return [canon_strings(y) for y in x]
    return x


def check_enumeration(chk, desc, oracle, locale, mb, fs, built, enum, pf, p):
    exp, excl, raises = oracle.expected(locale, mb, fs)
    sig = "" if p.kind == "main" else p.kind + ":"
    if locale is None and mb is not None:
        # with_env({"locale": None, ...}): PatternParser.parse(None)
        if pf is not None and any(c.rules for c in p.cfgs.values()) and not raises:
            chk.hist("build_raise", "None+mergebase accepted (no rule reached)")
        return
    if getattr(oracle, "mismatch", None):
        chk.fail(sig + "matcher-disagrees-with-pattern-text", desc, oracle.mismatch)
        return
    if raises:
        chk.hist("build_raise", "duplicate rules with differing references")
        if pf is not None:
            chk.fail(sig + "duplicate-reference-mismatch-accepted", desc, "no exception")
        return
    if pf is None:
        chk.fail(sig + "unexpected-raise", desc, built)
        return
    if enum[0] != 0:
        chk.fail(sig + "unexpected-raise-iter", desc, enum)
        return
    entries = enum[1]
    keys = [e[0] for e in entries]
    if any(not isinstance(k, str) for k in keys):
        chk.fail(sig + "yielded-without-l10n-path", desc, [list(map(str, e)) for e in entries][:3])
        return
    if keys != sorted(keys) or len(set(keys)) != len(keys):
        chk.fail(sig + "not-sorted-or-duplicate", desc, keys)
        return
    got = {e[0]: e for e in entries}
    norm = {}
    for k in keys:
        norm.setdefault(posixpath.normpath(k), []).append(k)
    twice = [v for v in norm.values() if len(v) > 1]
    if twice:
        chk.fail(sig + "same-file-under-two-spellings", desc, twice[:3])
        return

    def same(m, e):
        return m is not None and (m[0], m[1], m[2], sorted(m[3])) == (e[0], e[1], e[2], sorted(e[3]))
    for k, e in got.items():
        if k not in exp:
            chk.fail(sig + ("excluded-file-yielded" if k in excl else "uncovered-path-yielded"),
                     desc, {"entry": list(map(str, e))})
            return
    for k, x in exp.items():
        if k not in got:
            chk.fail(sig + "covered-file-missing", desc,
                     {"path": k, "kind": x["kind"], "expected": str((x["ref"], x["merge"], x["tests"]))})
            return
        e = got[k]
        want = (x["ref"], x["merge"], x["tests"])
        have = (e[1], e[2], sorted(e[3]))
        if x["kind"] in ("l10n", "ref"):
            if have != want:
                chk.fail(sig + "wrong-pairing", desc, {"path": k, "got": str(have), "expected": str(want)})
                return
        elif not any(have == c for c in x["alts"]):
            chk.fail(sig + "wrong-pairing-missing-file", desc,
                     {"path": k, "got": str(have), "candidates": str(x["alts"])})
            return
    # enumeration = lookup
    for k, x in exp.items():
        e = got[k]
        if x["kind"] == "l10n":
            if not same(pf.match(k), e):
                chk.fail(sig + "lookup-disagrees", desc,
                         {"path": k, "match": str(pf.match(k)), "enumerated": str(e)})
                return
        elif x["kind"] == "missing" and x["clean"]:
            # non-overlapping coverage: lookup by the l10n path and by the reference path
            chk.hist("lookup_missing_clean", "checked")
            for q in (k, e[1]):
                if not same(pf.match(q), e):
                    chk.fail(sig + "lookup-disagrees-missing-file", desc,
                             {"query": q, "match": str(pf.match(q)), "enumerated": str(e)})
                    return
        elif x["kind"] == "ref":
            # reference self-validation: lookup by the reference path names the same reference
            m = pf.match(k)
            if m is None or m[1] != k:
                chk.fail(sig + "lookup-disagrees-reference-mode", desc, {"path": k, "match": str(m)})
                return
    if locale:
        for f in oracle.universe(fs):
            if f not in exp and f not in excl:
                m = pf.match(f)
                if m is not None and m[0] == f:
                    chk.fail(sig + "lookup-finds-unenumerated-file", desc, {"path": f, "match": str(m)})
                    return


def oracle_details(chk, desc, cfgs, observers, log, locale, pd):
    """the detail keys of compareProjects name exactly the files it was driven with"""
    from compare_locales import mozpath
    from compare_locales.paths import File, REFERENCE_LOCALE
    det = flatten_details(observers.toJSON()["details"])
    want = {}
    for a, l, r, m, t in log:
        fpath = mozpath.relpath(l, pd + "/l10n")
        lf = File(l, fpath or l, locale=locale if locale is not None else REFERENCE_LOCALE)
        if locale is not None and all(cfg.filter(lf) == "ignore" for cfg in cfgs):
            continue
        parsable = l.endswith((".ftl", ".properties"))
        if a == 0:
            want[fpath] = "missingFile"
        elif a == 1:
            want[fpath] = "obsoleteFile"
        elif parsable and r is not None:
            want[fpath] = "compared"
    got = {}
    for k, items in det.items():
        kinds = {kk for it in items for kk in it}
        if "missingFile" in kinds:
            got[k] = "missingFile"
        elif "obsoleteFile" in kinds:
            got[k] = "obsoleteFile"
        else:
            got[k] = "compared"
    if got != want:
        diff = {k: (got.get(k), want.get(k)) for k in set(got) | set(want) if got.get(k) != want.get(k)}
        chk.fail("compare-details-keys", desc, str(diff))


# ------------------------------------------------------------------- TOML suite ---
def toml_data_sx(c, T):
    def ol(x):
        return [] if x is None else [[canon(y) for y in x]]
    env = [[canon(k), canon(v.replace("{T}", T))] for k, v in c.env.items()]
    paths = [[canon(r.l10n), opt(canon(r.ref) if r.ref is not None else None), ol(r.tests), ol(r.locales)]
             for r in c.rules]
    return [opt(canon(c.basepath) if c.basepath is not None else None), env, paths,
            ol(c.texts(c.includes)) if c.includes else [],
            ol(c.texts(c.excludes)) if c.excludes else [], ol(c.locales)]


def run_toml(chk, p, T, ignore_missing, stats):
    """-> (request, implementation output, description) for TOMLParser.parse of p's top file"""
    from compare_locales import mozpath
    from compare_locales.paths import TOMLParser, ProjectConfig
    from compare_locales.paths.matcher import expand
    pd = write_tree(p, T)
    for rel in getattr(p, "missing", []):
        os.remove(os.path.join(pd, rel))
    penv = {k: v.replace("{T}", T) for k, v in p.penv.items()}
    top_path = mozpath.join(pd, p.top.rel)
    recorded = {}
    orig = ProjectConfig.add_paths

    def add_paths(self, *paths):
        for d in paths:
            recorded.setdefault(id(self), []).append((dict(d), dict(self.environ), self.root))
        return orig(self, *paths)
    ProjectConfig.add_paths = add_paths
    try:
        res = guarded(lambda: TOMLParser().parse(top_path, env=dict(penv),
                                                 ignore_missing_includes=ignore_missing))
    finally:
        ProjectConfig.add_paths = orig

    def env_sx(e):
        return [[canon(k), canon(v)] for k, v in e.items()]

    def ol(x):
        return [] if x is None else [[canon(y) for y in x]]

    def cfg_sx(c):
        rules = [[canon(d["l10n"]), opt(canon(d["reference"]) if "reference" in d else None),
                  env_sx(e), canon(root), ol(d.get("test")), ol(d.get("locales"))]
                 for d, e, root in recorded.get(id(c), [])]
        return [canon(c.path), canon(c.root), env_sx(c.environ), rules, ol(c.locales),
                [cfg_sx(ch) for ch in c.children], [cfg_sx(x) for x in c.excludes]]
    out = [0, cfg_sx(res[1])] if res[0] == 0 else res
    # oracle tables: toml.load per file, set_root, expand+normpath
    files, roots, resolves = [], [], []
    for c in p.cfgs.values():
        path = mozpath.join(pd, c.rel)
        if c.rel in getattr(p, "missing", []):
            continue
        files.append([canon(path), toml_data_sx(c, T)])
        base = c.basepath if c.basepath is not None else "."
        root = mozpath.abspath(mozpath.join(mozpath.dirname(path), base))
        roots.append([canon(path), canon(base), canon(root)])
        env = {k: v.replace("{T}", T) for k, v in c.env.items()}
        env.update(penv)
        for txt in c.texts(c.includes + c.excludes):
            resolves.append([canon(root), canon(txt), env_sx(env),
                             canon(mozpath.normpath(expand(root, txt, env)))])
    req = [40, files, resolves, roots, canon(top_path), env_sx(penv), int(ignore_missing)]
    # implementation-only: the parser's variables override the file's, everywhere
    if res[0] == 0:
        stack = [res[1]]
        while stack:
            c = stack.pop()
            stack += list(c.children) + list(c.excludes)
            own = p.cfgs.get(mozpath.relpath(mozpath.normpath(c.path), pd))
            if own is not None:
                want = {k: v.replace("{T}", T) for k, v in own.env.items()}
                want.update(penv)
                if dict(c.environ) != want:
                    chk.fail("config-env-not-own-env-plus-parser-env", {"project": p.text()},
                             {"config": c.path, "environ": dict(c.environ), "expected": want})
            for k, v in penv.items():
                if c.environ.get(k) != v:
                    chk.fail("parser-env-not-overriding", {"project": p.text()},
                             {"config": c.path, "var": k, "environ": c.environ.get(k), "parser": v})
            for d, e, root in recorded.get(id(c), []):
                if e != c.environ:
                    chk.fail("rule-env-differs-from-config-env", {"project": p.text()}, {"config": c.path})
    chk.hist("toml", "ok" if res[0] == 0 else "raise-%d" % res[1])
    return (3, req), out, {"project": p.text(), "ignore_missing": ignore_missing}


def mutate_for_toml(rng, p):
    """structural variations that make TOMLParser raise"""
    z = rng.random()
    cfgs = list(p.cfgs.values())
    if z < 0.12 and len(cfgs) > 1:
        c = rng.choice(cfgs[1:])
        p.missing = [c.rel]
        p.flags.add("missing-include")
    elif z < 0.2 and len(cfgs) > 1:
        c = rng.choice(cfgs[1:])
        c.excludes.append("cfg/exc2.toml" if "cfg/exc2.toml" in p.cfgs and c.rel != "cfg/exc2.toml"
                          else p.top.rel if False else "inc1.toml" if c.rel != "inc1.toml" and "inc1.toml" in p.cfgs
                          else "nowhere.toml")
        p.flags.add("nested-exclude")
    elif z < 0.24 and len(cfgs) > 1:
        c = rng.choice(cfgs[1:])
        c.includes.append(p.top.rel)
        p.flags.add("cycle")


# ------------------------------------------------------------------------- run ---
def run(chk, runner_ok):
    import logging
    logging.getLogger("compare-locales.io").setLevel(logging.CRITICAL)
    rng = chk.rng
    model = Model("C13") if runner_ok else None
    T = os.path.realpath(tempfile.mkdtemp(prefix="c13_"))
    stats = {}
    try:
        # ---- DIRNAME / SORT -----------------------------------------------------
        import posixpath
        alpha = "a/-."
        dcases = [""]
        for n in range(1, chk.n(6, 7)):
            dcases += ["".join(rng.choice(alpha) for _ in range(n)) for _ in range(chk.n(60, 400))]
        dcases += ["/" * k + "a" * j + "/" * i for k in range(3) for j in range(3) for i in range(3)]
        dcases = sorted(set(dcases))
        for c in dcases:
            chk.count(("dirname", c))
        if model:
            outs = model.call([(1, canon(c)) for c in dcases])
            chk.correspond("DIRNAME", dcases, [canon(posixpath.dirname(c)) for c in dcases], outs)
        scases = []
        for _ in range(chk.n(200, 1500)):
            pool = {"".join(rng.choice("ab/-zA~" + chr(0x100) + chr(0x10000)) for _ in range(rng.randint(0, 5)))
                    for _ in range(rng.randint(0, 7))}
            lst = list(pool)
            rng.shuffle(lst)
            scases.append(lst)
            chk.count(("sort", tuple(lst)))
        if model:
            outs = model.call([(2, [canon(s) for s in c]) for c in scases])
            chk.correspond("SORT", scases, [[canon(s) for s in sorted(c)] for c in scases], outs)
        # ---- PROJECT --------------------------------------------------------------
        reqs, impls, descs = [], [], []
        nproj = chk.n(500, 6000)
        for i in range(nproj):
            p = gen_project(rng)
            todo = [(l, rng.random() < 0.5) for l in p.locales] + [(FOREIGN, False), (None, False)]
            if rng.random() < 0.1:
                todo.append((None, True))
            if "empty-locale" in p.flags:
                todo.append(("", False))
            # every fourth project is built with the ProjectConfig API instead of the parser
            a, b, c = run_one(chk, p, T, todo, stats, api=(i % 4 == 3))
            reqs += a
            impls += b
            descs += c
            chk.hist("include_shape", p.shape)
            chk.hist("wildcard_first_rule", p.rootw or "-")
            chk.hist("l10n_dir", p.ldir)
            for m_ in p._gen[0]:
                chk.hist("module_dir", m_)
            chk.hist("built_by", "api" if i % 4 == 3 else "toml")
            chk.hist("toml_files", len(p.cfgs))
            chk.hist("flags", ",".join(sorted(p.flags)) or "-")
            if model and len(reqs) >= 400:
                flush(chk, model, "PROJECT", reqs, impls, descs)
        if model:
            flush(chk, model, "PROJECT", reqs, impls, descs, final=True)
        # ---- directories reached through un-normalised spellings -------------------------------
        for i in range(chk.n(90, 600)):
            p = gen_project(rng, kind="spelled", spelled=rng.choice(["slash", "dotdot", "updir"]))
            todo = [(l, rng.random() < 0.3) for l in p.locales] + [(None, False)]
            a, b, c = run_one(chk, p, T, todo, stats)
            reqs += a
            impls += b
            descs += c
            chk.hist("spelled", p.aliases[0][0].replace("{T}/p", ""))
            if model and len(reqs) >= 400:
                flush(chk, model, "PROJECT-spelled", reqs, impls, descs)
        if model:
            flush(chk, model, "PROJECT-spelled", reqs, impls, descs, final=True)
        # ---- several projects in one run -------------------------------------------------
        for i in range(chk.n(110, 700)):
            p = gen_multi(rng)
            todo = [(l, rng.random() < 0.3) for l in p.locales] + [(None, False)]
            a, b, c = run_one(chk, p, T, todo, stats)
            reqs += a
            impls += b
            descs += c
            chk.hist("projects_per_run", len(p.tops))
            if model and len(reqs) >= 400:
                flush(chk, model, "PROJECT-multi", reqs, impls, descs)
        if model:
            flush(chk, model, "PROJECT-multi", reqs, impls, descs, final=True)
        # ---- the two quirks, in streams of their own ------------------------------------
        # ---- no root: patterns that start with a wildcard (prefix "") ---------------------------
        for i in range(chk.n(30, 200)):
            p = gen_unrooted(rng)
            a, b, c = run_one(chk, p, T, [(l, False) for l in p.locales] + [(None, False)], stats, api=True)
            reqs += a
            impls += b
            descs += c
        if model:
            flush(chk, model, "PROJECT-unrooted", reqs, impls, descs, final=True)
        for gen in (gen_quirk_prefix_file, gen_quirk_dedup_env, gen_quirk_exclude_l10n_only,
                    gen_quirk_rooted_wildcard):
            for i in range(chk.n(3, 12)):
                p = gen(rng)
                a, b, c = run_one(chk, p, T, [("de", False), (None, False)], stats)
                reqs += a
                impls += b
                descs += c
        if model:
            flush(chk, model, "PROJECT-quirk", reqs, impls, descs, final=True)
        # ---- TOML -----------------------------------------------------------------------
        treqs, timpls, tdescs = [], [], []
        for i in range(chk.n(250, 1500)):
            p = gen_project(rng, kind="toml")
            p.files = p.files[:3]
            mutate_for_toml(rng, p)
            r, o, d = run_toml(chk, p, T, rng.random() < 0.3, stats)
            chk.count(("toml", d["project"], d["ignore_missing"]))
            treqs.append(r)
            timpls.append(canon_strings(o))
            tdescs.append(d)
        if model:
            outs = model.call(treqs)
            chk.correspond("TOML", tdescs, timpls, outs)
    finally:
        shutil.rmtree(T, ignore_errors=True)
    for k, v in sorted(stats.items()):
        chk.notes.append("%s: %d" % (k, v))


_acc = {}


def flush(chk, model, suite, reqs, impls, descs, final=False):
    """run the model on the pending requests; one correspondence record per suite"""
    acc = _acc.setdefault((id(chk), suite), {"cases": [], "impl": [], "model": []})
    if reqs:
        outs = model.call(reqs, chunk=200)
        acc["cases"] += [None] * len(reqs)
        # keep only the disagreeing cases' descriptions (the payloads are large)
        for i, (d, a, b) in enumerate(zip(descs, impls, outs)):
            if a != b:
                acc["cases"][len(acc["cases"]) - len(reqs) + i] = d
                acc["impl"].append((len(acc["cases"]) - len(reqs) + i, summarize(a), summarize(b)))
        del reqs[:], impls[:], descs[:]
    if final:
        n = len(acc["cases"])
        bad = acc["impl"]
        cases = [acc["cases"][i] if acc["cases"][i] is not None else i for i in range(n)]
        ia = [0] * n
        ib = [0] * n
        for i, a, b in bad:
            ia[i], ib[i] = a, b
        chk.correspond(suite, cases, ia, ib)
        _acc.pop((id(chk), suite))


def summarize(out):
    """readable form of a PROJECT output for the replay file"""
    def s(x):
        if isinstance(x, list) and x and all(isinstance(c, int) and c > 31 for c in x) and len(x) > 3:
            return common.l2s(x)
        if isinstance(x, list):
            return [s(y) for y in x]
        return x
    return s(out)


def replay(chk, path):
    """re-run the recorded cases (implementation + oracle, and the model when its runner is built)"""
    import logging
    logging.getLogger("compare-locales.io").setLevel(logging.CRITICAL)
    data = json.load(open(path))
    cases = [f["case"] for f in data.get("failures", [])]
    cases += [d["case"] for d in data.get("disagreements", []) if isinstance(d.get("case"), dict)]
    model = Model("C13") if os.path.exists(os.path.join(common.BIN, "model_C13")) else None
    T = os.path.realpath(tempfile.mkdtemp(prefix="c13_"))
    rc = 0
    try:
        for c in cases:
            if "project" not in c:
                print("case without a project text:", c)
                continue
            p = proj_from_text(c["project"])
            before = len(chk.failures) + sum(v["n"] for v in chk.known_seen.values())
            if "ignore_missing" in c:
                r, o, d = run_toml(chk, p, T, c["ignore_missing"], {})
                reqs, impls = [r], [canon_strings(o)]
            else:
                reqs, impls, _ = run_one(chk, p, T, [(c.get("locale"), bool(c.get("merge")))], {},
                                         api=bool(c.get("api")))
            after = len(chk.failures) + sum(v["n"] for v in chk.known_seen.values())
            dis = 0
            if model and reqs:
                outs = model.call(reqs)
                dis = sum(1 for a, b in zip(impls, outs) if a != b)
            print("replayed kind=%s locale=%r merge=%r: oracle failures %d, model disagreements %d"
                  % (p.kind, c.get("locale"), c.get("merge"), after - before, dis))
            for f in chk.failures[before:]:
                print("  ", f["signature"], str(f["detail"])[:300])
            if after > before or dis:
                rc = 1
    finally:
        shutil.rmtree(T, ignore_errors=True)
    return rc
