NOTES = ("Every check: regenerate facts from /repo, rebuild the Coq cone of the property (full .vo), "
         "Print Assumptions under every theorem, run model (extracted) and implementation on the same "
         "cases, run the implementation-only oracle. See DESIGN.md sections 1 and 5.")

CLAIMED = {
    "C20": {
        "text": "Theorems over a Gallina model of AddRemove.__iter__ (dict as insertion-ordered association list, "
                "stable insertion sort on the (left,right) index pairs) and KeyedTuple (last-index map): every key "
                "once with the membership label, output sorted by the pairs the code computes, keyed lookup returns "
                "the last entity. The model is tied to the code by exhaustive differential execution over small "
                "universes and the independent recursive specification (runs/followers) is executed against both.",
        "design_ref": "DESIGN.md section 4 C20",
        "note": "Model control flow is hand-written; tied by correspondence suites ADDREMOVE-*, KEYED*. "
                "Equality model = recursive spec (C20_anchor) is checked by execution, theorem pending. "
                "Python dict/set/sorted semantics are modelled (insertion-ordered map, stable sort).",
        "technique": "Coq proof over executable model + exhaustive model/implementation correspondence",
    },
}

NOT_YET = {}
