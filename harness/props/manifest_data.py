"""Per-property manifest entries live in harness/manifest/Cnn.json:
{"text": ..., "design_ref": ..., "note": ..., "technique": ...}"""
import glob
import json
import os

HERE = os.path.dirname(os.path.abspath(__file__))

NOTES = ("Every check: regenerate facts from /repo, rebuild the Coq cone of the property (full .vo), "
         "Print Assumptions under every theorem, run model (extracted) and implementation on the same "
         "cases, run the implementation-only oracle. See DESIGN.md sections 1 and 5.")

CLAIMED = {}
for p in sorted(glob.glob(os.path.join(HERE, "..", "manifest", "C*.json"))):
    CLAIMED[os.path.basename(p)[:-5]] = json.load(open(p))

NOT_YET = {}
