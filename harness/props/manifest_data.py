NOTES = ("Every check: regenerate facts from /repo, rebuild the Coq cone of the property (full .vo), "
         "Print Assumptions under every theorem, run model (extracted) and implementation on the same "
         "cases, run the implementation-only oracle. See DESIGN.md sections 1 and 5.")

CLAIMED = {
    "C20": {
        "text": "Theorems over a Gallina model of AddRemove.__iter__ (dict as insertion-ordered association list, "
                "stable insertion sort on the (left,right) index pairs) and KeyedTuple (last-index map): every key "
                "once with the membership label, output sorted by the pairs the code computes, keyed lookup returns "
                "the last entity. The model is tied to the code by exhaustive differential execution over small "
                "universes and the independent recursive specification (runs/followers) is executed against both.",
        "design_ref": "DESIGN.md section 4 C20",
        "note": "Model control flow is hand-written; tied by correspondence suites ADDREMOVE-*, KEYED*. "
                "The recursive spec of C20_anchor (runs/followers) is also executed against the implementation. "
                "Python dict/set/sorted semantics are modelled (insertion-ordered map, stable sort).",
        "technique": "Coq proof over executable model + exhaustive model/implementation correspondence",
    },
}

CLAIMED["C17"] = {
    "text": "Theorems over a Gallina model of Context.linecol (line-end list, bisect_right as the documented "
            "binary search on explicit fuel, column arithmetic): for every text and every offset up to its length "
            "the search terminates, line = 1 + newlines before the offset, column = 1 + characters since the last "
            "newline, and that pair addresses exactly offset p in the text split at newlines; positions are 1-based. "
            "Tied to the code by exhaustive differential execution over {a, newline}* up to the tier bound.",
    "design_ref": "DESIGN.md section 4 C17",
    "note": "bisect.bisect and the regex \"\\n\" are modelled (binary search / scan) and tied by the LINECOL suite; "
            "positions attached by the checkers (bounds clause) are covered by the checker properties' suites.",
    "technique": "Coq proof over executable model + exhaustive model/implementation correspondence",
}

NOT_YET = {}
