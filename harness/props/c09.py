"""C09 — Android: crashing format arguments and bad quoting are errors.

Suites
  RX[c09]              engine + translator on the five regular expressions of the check
  ANDROID-CHECK        value pairs assembled from tokens, wrapped into real strings.xml
                       documents, parsed by the real AndroidParser, checked by
                       getChecker(File('strings.xml', ...)).check(ref, l10n); the model is fed
                       the minidom nodes of the parsed entities (converted, not re-parsed)
  ANDROID-E2E          real values/strings.xml reference / localized files in a temporary directory,
                       ContentComparer().compare(File(ref), File(l10n, locale='de'), None) with an
                       Observer; pairs from the token alphabet INCLUDING localized == reference (copied
                       strings) and ids containing "key"/"Key"; the error/warning entries of the report
                       details, attributed to the string id, against the token-level oracle and against
                       the model's answer for the entities of the same files
  ANDROID-CHECK-after-wrap  the reference document parsed once; the parsed reference goes through
                       serializer.serialize and refEntity.wrap(translation) before every check (as in
                       serialisation / merge); the SAME entity objects are then checked: wrap must
                       not change what the reference says (model fed the reference as parsed)
  ANDROID-CHECK-types  hand-built entities of other resource types (nodeName branches)
  ANDROID-apostrophes  check_apostrophes on strings over the quoting alphabet (+ backslash,
                       newline) against the model
  ANDROID-get_params   get_params([s]) on strings over the printf alphabet against the model
  ANDROID-check_params check_params(params, count, s) against the model
Oracle (implementation only): an argument/quoting model working on the TOKEN LISTS (no
regular expression, no string scan): the expected issues are known by construction.
"""
import itertools
import json

from harness import common, rxsuite
from harness.common import Model, canon, impl_result

RUNNERS = ["RX"]
FACTS = ("tables", "c09")

RULE = ("value pairs (reference, localized) assembled from the token alphabet {text, blank, \\' ' \\\" \", "
        "%s %d %1$s %2$d %.2f, CDATA, <b>x</b>, @string/} with translatable in {absent, false, true}: "
        "every localized sequence up to the tier's length against a panel of references, every pair of "
        "sequences of the argument tokens up to the tier's length, every pair of sequences up to a "
        "shorter length over the whole alphabet, plus seeded random longer pairs (CDATA with random "
        "content, &quot;, lone backslash, U+FFFD only in the correspondence stream); the same alphabet end "
        "to end through ContentComparer.compare on real files, nearly half of the pairs with the localized "
        "value copied from the reference and ids containing key/Key; a case is "
        "distinct by (reference xml, localized xml, flags); non-trivial = at least one issue reported")

# ------------------------------------------------------------------ tokens ---
# name -> (xml text, data text, kind, extra)
SIMPLE = {
    "a": ("a", "a", "txt", None),
    "sp": (" ", " ", "txt", None),
    "ea": ("\\'", "\\'", "esc", "'"),
    "ap": ("'", "'", "apos", None),
    "eq": ('\\"', '\\"', "esc", '"'),
    "q": ('"', '"', "quote", None),
    "%s": ("%s", "%s", "fmt", (None, "s")),
    "%d": ("%d", "%d", "fmt", (None, "d")),
    "%1$s": ("%1$s", "%1$s", "fmt", (1, "s")),
    "%2$d": ("%2$d", "%2$d", "fmt", (2, "d")),
    "%.2f": ("%.2f", "%.2f", "fmt", (None, ".2f")),
    "at": ("@string/", "@string/", "txt", None),
    # only in the random streams
    "quot": ("&quot;", '"', "quote", None),
    "amp": ("&amp;", "&", "txt", None),
    "nl": ("\n", "\n", "txt", None),
    "%1$d": ("%1$d", "%1$d", "fmt", (1, "d")),
    "%S": ("%S", "%S", "fmt", (None, "S")),
    "%3$s": ("%3$s", "%3$s", "fmt", (3, "s")),
    "eb": ("\\\\", "\\\\", "esc", "\\"),
}
QUOTING = ["a", "sp", "ea", "ap", "eq", "q"]
ARGS = ["%s", "%d", "%1$s", "%2$d", "%.2f"]
CD = ("cdata", ("a",))                       # <![CDATA[a]]>
FULL = QUOTING + ARGS + [CD, "markup", "at"]
# tokens the token-level oracle does not understand (tokenisation would be ambiguous /
# the DOM shape is minidom's business): correspondence only
WILD = ["bs", "fffd", "empty_cdata", "comment", "pi"]
WILD_XML = {"bs": "\\", "fffd": "�", "empty_cdata": "<![CDATA[]]>", "comment": "<!--c-->",
            "pi": "<?p i?>"}


def is_cdata(t):
    return isinstance(t, tuple)


def tok_xml(t):
    if is_cdata(t):
        return "<![CDATA[" + "".join(SIMPLE[u][1] for u in t[1]) + "]]>"
    if t == "markup":
        return "<b>x</b>"
    if t in WILD_XML:
        return WILD_XML[t]
    return SIMPLE[t][0]


def value_xml(toks):
    return "".join(tok_xml(t) for t in toks)


# ------------------------------------------------------ token-level oracle ---
def content_tokens(toks):
    """the simple tokens textContent() is made of, or None when it is the serialised element"""
    cds = [t for t in toks if is_cdata(t)]
    if cds:
        return list(cds[0][1])
    if "markup" in toks:
        return None
    return list(toks)


def non_simple(toks):
    cds = [t for t in toks if is_cdata(t)]
    if not cds:
        return "markup" in toks
    if len(cds) > 1 or "markup" in toks:
        return True
    return any(SIMPLE[t][1].strip() != "" for t in toks if not is_cdata(t))


def offsets(toks):
    out, o = [], 0
    for t in toks:
        out.append(o)
        o += len(SIMPLE[t][1])
    return out


def quoting_issues(toks):
    """expected issues of the quoting rule for a value made of simple tokens"""
    offs = offsets(toks)
    kinds = [SIMPLE[t][2] for t in toks]
    out = []
    # doubled straight quotes: maximal runs of '"' characters in the text.  A run is an
    # optional \" (its second character) followed by bare quotes.
    i, n = 0, len(toks)
    runs = []                       # (offset of first quote char, number of quote chars)
    while i < n:
        if kinds[i] == "quote" or (kinds[i] == "esc" and SIMPLE[toks[i]][3] == '"'):
            start = offs[i] + (1 if kinds[i] == "esc" else 0)
            j = i + 1
            while j < n and kinds[j] == "quote":
                j += 1
            runs.append((start, j - i))
            i = j
        else:
            i += 1
    for start, k in runs:
        for p in range(k // 2):
            out.append(("error", start + 2 * p, "double-quotes"))
    # what survives silencing: escapes vanish, bare quotes vanish in pairs from the left of
    # each run of bare quotes
    first_run = 0
    while first_run < n and kinds[first_run] == "quote":
        first_run += 1
    last_run = 0
    while last_run < n and kinds[n - 1 - last_run] == "quote":
        last_run += 1
    quoted = first_run == 1 and last_run % 2 == 1
    if not quoted:
        for i in range(n):
            if kinds[i] == "apos":
                out.append(("error", offs[i], "apostrophe"))
    return out


def arg_map(toks, sev):
    """positions -> conversion (first wins), count, conflicts, for simple tokens"""
    offs = offsets(toks) if all(t in SIMPLE for t in toks) else None
    amap, count, nxt, conflicts = {}, 0, 1, []
    for i, t in enumerate(toks):
        if t not in SIMPLE or SIMPLE[t][2] != "fmt":
            continue
        pos, conv = SIMPLE[t][3]
        count += 1
        if pos is None:
            pos = nxt
            nxt += 1
        if pos not in amap:
            amap[pos] = conv
        elif amap[pos] != conv:
            conflicts.append((sev, offs[i] if offs else None, "conflict"))
    return amap, count, conflicts


def flat_simple(toks):
    out = []
    for t in toks:
        if is_cdata(t):
            out.extend(t[1])
        elif t != "markup":
            out.append(t)
    return out


def expected(ref, l10n, rflag, lflag):
    """list of (severity, position | None = unknown, kind) expected from check()"""
    if rflag == "false" or lflag == "false":
        return [("error", 0, "not-translatable")]
    lval = content_tokens(l10n)
    if lval and lval[0] == "at":
        return [("error", 0, "not-translatable")]
    out = []
    rval = content_tokens(ref)
    if rval and rval[0] == "at":
        out.append(("warning", 0, "not-translatable"))
    if non_simple(l10n):
        return out + [("error", 0, "non-simple")]
    out += quoting_issues(lval)
    if rval is None:
        # the serialised element: every argument of the text and CDATA parts, positions unknown
        rmap, rcount, rconf = arg_map(flat_simple(ref), "warning")
        rconf = [(s, None, k) for s, _, k in rconf]
    else:
        rmap, rcount, rconf = arg_map(rval, "warning")
    out += rconf
    lmap, lcount, lconf = arg_map(lval, "error")
    out += lconf
    issues = list(lconf)
    for pos in sorted(lmap):
        if pos not in rmap:
            issues.append(("error", 0, "not-in-reference"))
        elif rmap[pos] != lmap[pos]:
            issues.append(("error", 0, "mismatch"))
    for pos in rmap:
        if pos not in lmap:
            issues.append(("warning", 0, "not-in-translation"))
    out += issues[len(lconf):]
    if not issues and rcount != lcount:
        out.append(("warning", 0, "count"))
    return out


KINDS = [
    ("strings must be translatable", "not-translatable"),
    ("Only plain text allowed", "non-simple"),
    ("Double straight quotes", "double-quotes"),
    ("Apostrophe must be escaped", "apostrophe"),
    ("Conflicting formatting", "conflict"),
    ("Mismatching formatter", "mismatch"),
    ("Formatter count mismatch", "count"),
    ("Incompatible resource types", "incompatible"),
    ("Unsupported resource type", "unsupported"),
    ("� in: ", "encoding"),
]


def kind_of(msg):
    if msg.startswith("Formatter %"):
        if msg.endswith("not found in reference"):
            return "not-in-reference"
        if msg.endswith("not found in translation"):
            return "not-in-translation"
    for prefix, k in KINDS:
        if msg.startswith(prefix):
            return k
    return "unknown:" + msg


def clean(l10n):
    """plain, properly escaped value: simple tokens, no bare apostrophe, no two adjacent quote chars"""
    if any(t not in SIMPLE for t in l10n) or (l10n and l10n[0] == "at"):
        return False
    s = "".join(SIMPLE[t][1] for t in l10n)
    return not any(SIMPLE[t][2] == "apos" for t in l10n) and '""' not in s


def judge(chk, case, issues, prefix="", extra=None):
    """the property on the implementation's own answer (issues: raw tuples of check())"""
    ref, l10n, rflag, lflag = case
    got = [(s, int(p), kind_of(m)) for s, p, m, c in issues]
    want = expected(ref, l10n, rflag, lflag)
    info = {"ref": value_xml(ref), "l10n": value_xml(l10n), "ref_translatable": rflag,
            "l10n_translatable": lflag}
    info.update(extra or {})
    bad_cat = [i for i in issues if i[3] != "android" or i[0] not in ("error", "warning")]

    def key(x):
        return (x[0], x[2], -1 if x[1] is None else x[1])
    g, w = sorted(got, key=key), sorted(want, key=key)
    same = len(g) == len(w) and all(a[0] == b[0] and a[2] == b[2] and (b[1] is None or a[1] == b[1])
                                    for a, b in zip(g, w))
    if same and not bad_cat:
        return
    gerr = sorted(k for s, _, k in got if s == "error")
    werr = sorted(k for s, _, k in want if s == "error")
    if werr and not gerr:
        sig = "error-missed:" + werr[0]
    elif gerr and not werr:
        sig = "false-error:" + gerr[0]
    elif gerr != werr:
        sig = "errors-differ"
    elif bad_cat:
        sig = "category"
    else:
        sig = "warnings-or-positions-differ"
    chk.fail(prefix + sig, info, {"got": got, "expected": want})


# --------------------------------------------------------- implementation ---
def build_entities(items, full=False):
    """items: list of (value xml, translatable flag | None) -> list of AndroidEntity, parsed
    from one real strings.xml document by the real parser"""
    from compare_locales import parser
    lines = ['<?xml version="1.0" encoding="utf-8"?>', "<resources>"]
    for i, (xml, flag) in enumerate(items):
        attr = "" if flag is None else f' translatable="{flag}"'
        if i % 7 == 3:
            lines.append(f"  <!-- comment {i} -->")
        lines.append(f'  <string name="k{i}"{attr}>{xml}</string>')
    lines.append("</resources>")
    p = parser.getParser("strings.xml")
    p.readUnicode("\n".join(lines) + "\n")
    walk = list(p.walk())
    ents = [e for e in walk if isinstance(e, parser.android.AndroidEntity)]
    if len(ents) != len(items) or any(e.key != f"k{i}" for i, e in enumerate(ents)):
        raise RuntimeError("strings.xml document did not parse into the expected entities")
    return (ents, walk) if full else ents


def node_sx(node):
    from xml.dom.minidom import Node
    kids = []
    for c in node.childNodes:
        if c.nodeType == Node.TEXT_NODE:
            kids.append([0, canon(c.data)])
        elif c.nodeType == Node.CDATA_SECTION_NODE:
            kids.append([1, canon(c.data)])
        elif c.nodeType == Node.ELEMENT_NODE:
            kids.append([2, []])
        elif c.nodeType == Node.COMMENT_NODE:
            kids.append([3, []])
        else:
            kids.append([4, []])
    tr = [canon(node.getAttribute("translatable"))] if node.hasAttribute("translatable") else []
    return [canon(node.nodeName), tr, kids, canon(node.toxml())]


def entity_sx(e, with_all=True):
    return [node_sx(e.node), canon(e.key), canon(e.all) if with_all else []]


def get_checker():
    from compare_locales.checks import getChecker
    from compare_locales.paths import File
    return getChecker(File("strings.xml", "strings.xml", locale="de"))


def canon_issues(issues):
    from compare_locales.checks import EntityPos
    return [[int(s == "error"), [int(isinstance(p, EntityPos)), int(p)], canon(m), canon(c)]
            for s, p, m, c in issues]


def run_pairs(chk, model, suite, cases, oracle=True, wrapped=False):
    """cases: list of (ref tokens, l10n tokens, rflag, lflag).
    wrapped: the reference document is parsed ONCE; the parsed reference goes through
    serializer.serialize and, before every check, refEntity.wrap(<the translation>) as in a
    serialisation / merge; the entities checked are those same objects."""
    refs, l10ns = {}, {}
    for r, l, rf, lf in cases:
        refs.setdefault((value_xml(r), rf), len(refs))
        l10ns.setdefault((value_xml(l), lf), len(l10ns))
    rents, rwalk = build_entities(list(refs), full=True)
    lents = build_entities(list(l10ns))
    rsx = [entity_sx(e, False) for e in rents]      # the reference as parsed
    lsx = [entity_sx(e) for e in lents]
    prefix = ""
    if wrapped:
        from compare_locales import serializer
        prefix = "after-wrap-"
        try:
            serializer.serialize("strings.xml", rwalk, [],
                                 {e.key: "%7$d it's \"\" @string/x" for e in rents[::2]})
        except Exception as e:  # noqa
            chk.fail("serialize-raises", {"suite": suite}, repr(e))
    checker = get_checker()
    impl, reqs = [], []
    for case in cases:
        r, l, rf, lf = case
        ri, li = refs[(value_xml(r), rf)], l10ns[(value_xml(l), lf)]
        raw = []
        if wrapped:
            try:
                rents[ri].wrap(lents[li].raw_val)
            except Exception as e:  # noqa
                chk.hist("wrap_raises", type(e).__name__)

        def go():
            raw.extend(checker.check(rents[ri], lents[li]))
            return canon_issues(raw)
        res = impl_result(go, conv=lambda x: x)
        impl.append(res)
        reqs.append((0, [rsx[ri], lsx[li]]))
        chk.evaluations += 1
        if raw:
            chk.distinct.add((suite, ri, li))
        if oracle:
            if res[0] != 0:
                chk.fail(prefix + "check-raises", {"ref": value_xml(r), "l10n": value_xml(l)}, res)
            else:
                judge(chk, case, raw, prefix=prefix,
                      extra={"sequence": "reference parsed once; serializer.serialize(reference); "
                                         "refEntity.wrap(l10n value) before each check; earlier "
                                         "pairs of the suite used the same reference objects"}
                      if wrapped else None)
                kinds = sorted({kind_of(m) for s, _, m, _ in raw if s == "error"})
                chk.hist("error_kinds", "+".join(kinds) or
                         ("warning-only" if raw else "none"))
                if clean(l) and rf != "false" and lf != "false":
                    # the property's last sentence, stated directly
                    rm, _, _ = arg_map(flat_simple(r) if content_tokens(r) is None else content_tokens(r), "w")
                    lm, _, lc = arg_map(l, "e")
                    if not lc and all(rm.get(k) == v for k, v in lm.items()) and \
                            any(s == "error" for s, _, _, _ in raw):
                        chk.fail("false-error:clean", {"ref": value_xml(r), "l10n": value_xml(l)},
                                 [list(map(str, i)) for i in raw])
    k = len(cases) // 2
    chk.sample({"suite": suite, "ref": value_xml(cases[k][0]), "l10n": value_xml(cases[k][1]),
                "ref_translatable": cases[k][2], "l10n_translatable": cases[k][3],
                "impl": impl[k] if impl[k][0] else
                [[i[0], i[1], common.l2s(i[2]), common.l2s(i[3])] for i in impl[k][1]]})
    if model:
        outs = model.call(reqs)
        chk.correspond(suite, [(value_xml(r), value_xml(l), rf, lf) for r, l, rf, lf in cases],
                       impl, outs)


# -------------------------------------------------------------- end to end ---
import re as _re

ENTRY = _re.compile(r"^(.*) at line (\d+), column (\d+) for (\S+)$", _re.S)
IDS = ["k%d", "accesskey%d", "some%dKey", "label%d", "Key%d", "k%dkeyboard"]


def strings_xml(items):
    """items: list of (id, value xml, translatable flag | None)"""
    lines = ['<?xml version="1.0" encoding="utf-8"?>', "<resources>"]
    for i, (name, xml, flag) in enumerate(items):
        attr = "" if flag is None else f' translatable="{flag}"'
        if i % 5 == 2:
            lines.append(f"  <!-- comment {i} -->")
        lines.append(f'  <string name="{name}"{attr}>{xml}</string>')
    lines.append("</resources>")
    return "\n".join(lines) + "\n"


def e2e_compare(tmp, ref_text, l10n_text):
    """-> list of (severity, text) of the error/warning entries of the report details, in order"""
    import os
    from compare_locales.compare.content import ContentComparer
    from compare_locales.compare.observer import Observer
    from compare_locales.paths import File
    paths = {}
    for side, text in (("ref", ref_text), ("l10n", l10n_text)):
        path = os.path.join(tmp, side, "values", "strings.xml")
        os.makedirs(os.path.dirname(path), exist_ok=True)
        with open(path, "w", encoding="utf-8", newline="") as f:
            f.write(text)
        paths[side] = path
    cc = ContentComparer()
    obs = Observer()
    cc.observers.append(obs)
    cc.compare(File(paths["ref"], "values/strings.xml"),
               File(paths["l10n"], "values/strings.xml", locale="de"), None)
    details = obs.toJSON()["details"].get("values/strings.xml", [])
    out = []
    for d in details:
        for sev in ("error", "warning"):
            if sev in d:
                out.append((sev, d[sev]))
        if not ("error" in d or "warning" in d):
            out.append(("other", repr(d)))
    return out, obs.toJSON()["summary"]


def file_entities(text):
    from compare_locales import parser
    p = parser.getParser("values/strings.xml")
    p.readUnicode(text)
    return {e.key: e for e in p.walk() if isinstance(e, parser.android.AndroidEntity)}


def run_e2e(chk, model, files):
    """files: list of lists of (ref tokens, l10n tokens, rflag, lflag); one strings.xml pair each"""
    import shutil
    import tempfile
    tmp = tempfile.mkdtemp(prefix="verif_c09_")
    impl, reqs_per_file, descr = [], [], []
    try:
        for fi, cases in enumerate(files):
            ids = [IDS[(fi + j) % len(IDS)] % j for j in range(len(cases))]
            ref_text = strings_xml([(i, value_xml(c[0]), c[2]) for i, c in zip(ids, cases)])
            l10n_text = strings_xml([(i, value_xml(c[1]), c[3]) for i, c in zip(ids, cases)])
            entries, summary = e2e_compare(tmp, ref_text, l10n_text)
            by_id = {i: [] for i in ids}
            for sev, text in entries:
                m = ENTRY.match(text)
                if sev == "other" or not m or m.group(4) not in by_id or m.group(2) != "0":
                    chk.fail("e2e-unexpected-entry", {"file": fi, "entry": text}, sev)
                    continue
                by_id[m.group(4)].append((sev, int(m.group(3)), m.group(1), "android"))
            n_err = 0
            for i, case in zip(ids, cases):
                chk.evaluations += 1
                same = value_xml(case[0]) == value_xml(case[1])
                if by_id[i]:
                    chk.distinct.add(("e2e", fi, i))
                chk.hist("e2e_pairs", ("copied" if same else "changed") + "/" +
                         ("key-id" if "ey" in i else "plain-id") + "/" +
                         ("error" if any(s == "error" for s, _, _, _ in by_id[i]) else "no-error"))
                judge(chk, case, by_id[i], prefix="e2e-",
                      extra={"id": i, "copied": same, "file": fi})
                n_err += sum(s == "error" for s, _, _, _ in by_id[i])
            if summary.get("de", {}).get("errors", 0) != n_err:
                chk.fail("e2e-summary-errors", {"file": fi}, {"summary": summary, "entries": n_err})
            impl.append([[int(sev == "error"), canon(text)] for sev, text in entries])
            rents, lents = file_entities(ref_text), file_entities(l10n_text)
            reqs_per_file.append([(0, [entity_sx(rents[i], False), entity_sx(lents[i])]) for i in ids])
            descr.append({"file": fi, "ids": ids, "ref": ref_text, "l10n": l10n_text})
    finally:
        shutil.rmtree(tmp, ignore_errors=True)
    if files:
        chk.sample({"suite": "ANDROID-E2E", "ref_file": descr[0]["ref"][:400],
                    "l10n_file": descr[0]["l10n"][:400],
                    "report": [[a, common.l2s(b)] for a, b in impl[0]][:8]})
    if model:
        flat = [r for reqs in reqs_per_file for r in reqs]
        outs = iter(model.call(flat))
        mouts = []
        for d, reqs in zip(descr, reqs_per_file):
            rep = []
            for i, _ in zip(d["ids"], reqs):
                o = next(outs)
                if o[0] != 0:
                    rep.append([-1, o])
                    continue
                for err, (ent, pos), msg, cat in o[1]:
                    rep.append([err, canon("%s at line 0, column %d for %s" % (common.l2s(msg), pos, i))])
            mouts.append(rep)
        chk.correspond("ANDROID-E2E", [{"file": d["file"], "ids": d["ids"]} for d in descr], impl, mouts)


def seqs(alpha, maxlen):
    for n in range(maxlen + 1):
        yield from (list(p) for p in itertools.product(alpha, repeat=n))


def random_tokens(rng, wild):
    names = list(SIMPLE) + (WILD if wild else [])
    n = rng.randint(0, 8)
    out = []
    for _ in range(n):
        r = rng.random()
        if r < 0.08:
            out.append(("cdata", tuple(rng.choice(list(SIMPLE)) for _ in range(rng.randint(1, 5)))))
        elif r < 0.12:
            out.append("markup")
        elif r < 0.6:
            out.append(rng.choice(FULL[:11]))
        else:
            out.append(rng.choice(names))
    if rng.random() < 0.05:
        out.insert(0, "at")
    # ']]>' must not appear inside CDATA; none of the tokens contains ']'
    return out


FLAGS = [None, "false", "true"]


def type_cases():
    """entities of other resource types, built by hand (the parser only yields <string>)"""
    from xml.dom import minidom
    from compare_locales.parser import android as pa
    doc = minidom.parseString(
        '<resources><string name="s">it\'s %s</string><plurals name="p">x</plurals>'
        '<string-array name="a"><item>i</item></string-array><string name="t">� a</string>'
        '<plurals name="q">�</plurals></resources>'.encode("utf-8"))
    ents = []
    for el in doc.documentElement.childNodes:
        ents.append(pa.AndroidEntity(None, None, None, el, el.toxml(), el.getAttribute("name"),
                                     pa.textContent(el), "".join(c.toxml() for c in el.childNodes)))
    return ents


def run(chk, runner_ok):
    rng = chk.rng
    model = Model("C09") if runner_ok else None
    if runner_ok:
        rxsuite.run_rx(chk, groups=["c09"], per_regex=chk.n(60, 400))

    # ---- ANDROID-CHECK ------------------------------------------------------
    panel = [[], ["a"], ["%s"], ["%1$s", "sp", "%2$d"], ["%d", "%s"], ["%.2f", "%2$d"],
             [CD], ["markup", "%s"], ["at", "a"], ["%s", "%1$d"]]
    cases = []
    # every localized sequence against the reference panel
    ln = chk.n(3, 4)
    for l in seqs(FULL, ln):
        picks = panel if len(l) < 4 else rng.sample(panel, 2)   # 38k sequences of length 4
        for r in picks:
            cases.append((r, l, None, None))
    # every sequence of the quoting tokens alone, longer (the quoting rule needs four tokens to
    # tell whole-string quoting from a trailing pair of quotes)
    qn = chk.n(5, 6)
    for l in seqs(QUOTING, qn):
        if len(l) > 3:
            cases.append((["a"], l, None, None))
    n_l10n = len(cases)
    # every pair of argument sequences
    an = chk.n(3, 4)
    aseq = list(seqs(ARGS, an))
    step = 1 if not chk.thorough else 3           # thorough: 781^2 pairs, every third
    pairs = [(r, l) for r in aseq for l in aseq]
    for r, l in pairs[rng.randrange(step)::step]:
        cases.append((r, l, None, None))
    n_args = len(cases) - n_l10n
    # every pair over the whole alphabet up to 2+2 tokens; 3+3 sampled
    fn = 2
    fseq = list(seqs(FULL, fn))
    for r in fseq:
        for l in fseq:
            for rf, lf in ((None, None), ("false", None), (None, "false"), ("true", "true")):
                if (rf, lf) == (None, None) or len(r) + len(l) <= 2:
                    cases.append((r, l, rf, lf))
    f3 = list(seqs(FULL, 3))
    n33 = chk.n(20000, 150000)
    for _ in range(n33):
        cases.append((rng.choice(f3), rng.choice(f3), None, None))
    # flags on a sample of what is above
    for r, l, _, _ in rng.sample(cases, chk.n(600, 6000)):
        cases.append((r, l, rng.choice(FLAGS), rng.choice(FLAGS)))
    seen, uniq = set(), []
    for c in cases:
        k = (value_xml(c[0]), value_xml(c[1]), c[2], c[3])
        if k not in seen:
            seen.add(k)
            uniq.append(c)
    chk.notes.append(f"ANDROID-CHECK: {n_l10n} (every localized sequence <= {ln} tokens over the 14-token "
                     f"alphabet x a panel of {len(panel)} references; length-4 sequences x 2 sampled "
                     f"references; every sequence of the six quoting tokens <= {qn}), {n_args} argument-sequence pairs <= {an}+{an} tokens"
                     + (" (every third pair)" if step > 1 else " (all)") +
                     f", all {len(fseq)}^2 pairs <= {fn}+{fn} over the whole alphabet, {n33} sampled "
                     f"pairs of the 3+3 product (8.7M pairs; 4+4 would be 1.7G): the exhaustive 3+3 / "
                     f"4+4 product is subsampled this way because the localized-only checks and the "
                     f"pairwise argument check factor")
    run_pairs(chk, model, "ANDROID-CHECK", uniq)
    # random longer pairs, judged by the oracle
    cases = []
    for _ in range(chk.n(4000, 60000)):
        cases.append((random_tokens(rng, False), random_tokens(rng, False),
                      rng.choice(FLAGS) if rng.random() < 0.1 else None,
                      rng.choice(FLAGS) if rng.random() < 0.1 else None))
    run_pairs(chk, model, "ANDROID-CHECK-random", cases)
    # correspondence-only stream with tokens whose DOM shape is minidom's business
    cases = []
    for _ in range(chk.n(3000, 30000)):
        cases.append((random_tokens(rng, True), random_tokens(rng, True),
                      rng.choice(FLAGS) if rng.random() < 0.1 else None,
                      rng.choice(FLAGS) if rng.random() < 0.1 else None))
    run_pairs(chk, model, "ANDROID-CHECK-wild", cases, oracle=False)

    # ---- the reference entity after it went through wrap() / serialize ---------
    aseq2 = list(seqs(ARGS + ["a"], 2))
    cases = [(r, l, None, None) for r in aseq2 for l in aseq2]
    for _ in range(chk.n(1500, 15000)):
        r = rng.choice(panel) if rng.random() < 0.5 else random_tokens(rng, False)
        cases.append((r, random_tokens(rng, False),
                      rng.choice(FLAGS) if rng.random() < 0.05 else None,
                      rng.choice(FLAGS) if rng.random() < 0.05 else None))
    rng.shuffle(cases)
    run_pairs(chk, model, "ANDROID-CHECK-after-wrap", cases, wrapped=True)

    # ---- end to end through ContentComparer ------------------------------------
    pool = [[], ["a"], ["a", "ap", "a"], ["a", "q", "q"], ["at", "a"], ["a", "markup", "a"],
            ["%1$s", "sp", "%1$d"], ["%s", "sp", "%d"], ["%1$s"], ["q", "a", "ap", "a", "q"],
            ["a", "ea", "a"], [CD], ["sp", ("cdata", ("a", "ap")), "sp"], [CD, CD], ["%2$d", "%1$s"],
            ["a", "eq", "q"], ["%.2f"], ["at"], ["ap"], ["q", "q"]]
    files = []
    for _ in range(chk.n(12, 120)):
        cases = []
        for _ in range(rng.randint(20, 40)):
            r = rng.choice(pool) if rng.random() < 0.6 else random_tokens(rng, False)
            x = rng.random()
            if x < 0.45:
                l = r                                   # copied: localized == reference
            elif x < 0.7:
                l = rng.choice(pool)
            else:
                l = random_tokens(rng, False)
            rf = rng.choice(FLAGS) if rng.random() < 0.12 else None
            lf = rng.choice(FLAGS) if rng.random() < 0.12 else None
            cases.append((r, l, rf, lf))
        files.append(cases)
    # the cases of the seeded demo, as one file
    files.append([(["a"], ["a"], None, "false"), (["a"], ["a"], "false", None),
                  (["a", "ap", "a"], ["a", "ap", "a"], None, None),
                  (["a", "q", "q"], ["a", "q", "q"], None, None),
                  (["at", "a"], ["at", "a"], None, None),
                  (["%1$s", "sp", "%1$d"], ["%1$s", "sp", "%1$d"], None, None),
                  (["a", "markup", "a"], ["a", "markup", "a"], None, None),
                  (["a"], ["a"], None, None), (["a"], ["a", "a"], None, None)])
    run_e2e(chk, model, files)

    # ---- other resource types ------------------------------------------------
    ents = type_cases()
    checker = get_checker()
    tcases, impl, reqs = [], [], []
    for i, r in enumerate(ents):
        for j, l in enumerate(ents):
            raw = list(checker.check(r, l))
            tcases.append((r.node.nodeName, r.key, l.node.nodeName, l.key))
            impl.append([0, canon_issues(raw)])
            reqs.append((0, [entity_sx(r), entity_sx(l)]))
            chk.count(("types", i, j))
            kinds = [(s, kind_of(m)) for s, _, m, c in raw if c != "encodings"]
            if r.node.nodeName != l.node.nodeName:
                want = [("error", "incompatible")]
            elif r.node.nodeName != "string":
                want = [("warning", "unsupported")]
            else:
                want = None
            if want is not None and kinds != want:
                chk.fail("resource-type", {"ref": r.node.nodeName, "l10n": l.node.nodeName}, kinds)
    if model:
        chk.correspond("ANDROID-CHECK-types", tcases, impl, model.call(reqs))

    # ---- string-level functions -----------------------------------------------
    from compare_locales.checks import android as ca
    qalpha = ["a", " ", "\\", "'", '"', "\n", "\\'", '\\"', '""', "é", "\U0001F600"]
    strs = ["".join(p) for n in range(chk.n(5, 6) + 1) for p in itertools.product("a\\'\"\n", repeat=n)]
    for _ in range(chk.n(3000, 30000)):
        strs.append("".join(rng.choice(qalpha) for _ in range(rng.randint(0, 12))))
    impl = []
    for s in strs:
        raw = list(ca.check_apostrophes(s))
        impl.append([0, [[int(a == "error"), [0, p], canon(m), canon(c)] for a, p, m, c in raw]])
        chk.count(("apos", s))
    if model:
        chk.correspond("ANDROID-apostrophes", strs, impl, model.call([(1, [canon(s)]) for s in strs]))

    palpha = ["%", "1", "2", "9", "0", "$", ".", "f", "d", "s", "S", "a", " ", "%s", "%1$s", "%.1f",
              "%2$d", "%%", "%10$s"]
    strs = ["".join(p) for n in range(chk.n(4, 5) + 1) for p in itertools.product("%1$.fds", repeat=n)]
    for _ in range(chk.n(3000, 30000)):
        strs.append("".join(rng.choice(palpha) for _ in range(rng.randint(0, 14))))
    impl = []
    for s in strs:
        params, count, errors = ca.get_params([s])
        impl.append([0, [[[k, canon(v)] for k, v in params.items()], count,
                         [[canon(m), p] for m, p in errors]]])
        chk.count(("params", s))
    if model:
        chk.correspond("ANDROID-get_params", strs, impl, model.call([(2, [canon(s)]) for s in strs]))
    pcases, impl, reqs = [], [], []
    for _ in range(chk.n(3000, 30000)):
        rs = "".join(rng.choice(palpha[7:]) for _ in range(rng.randint(0, 6)))
        ls = "".join(rng.choice(palpha[7:]) for _ in range(rng.randint(0, 6)))
        params, count, _ = ca.get_params([rs])
        if rng.random() < 0.2:
            count += rng.randint(0, 2)
        raw = list(ca.check_params(params, count, ls))
        pcases.append((rs, count, ls))
        impl.append([0, [[int(a == "error"), [0, p], canon(m), canon(c)] for a, p, m, c in raw]])
        reqs.append((3, [[[k, canon(v)] for k, v in params.items()], count, canon(ls)]))
        chk.count(("check_params", rs, count, ls))
    if model:
        chk.correspond("ANDROID-check_params", pcases, impl, model.call(reqs))


def replay(chk, path):
    data = json.load(open(path))
    rc = 0
    checker = get_checker()
    for f in data.get("failures", []):
        c = f["case"]
        if "l10n" not in c or "ref_translatable" not in c:
            print("case", c, f["detail"])
            rc = 1
            continue
        if f["signature"].startswith("e2e-") and "id" in c:
            import shutil
            import tempfile
            tmp = tempfile.mkdtemp(prefix="verif_c09_")
            try:
                entries, _ = e2e_compare(tmp, strings_xml([(c["id"], c["ref"], c["ref_translatable"])]),
                                         strings_xml([(c["id"], c["l10n"], c["l10n_translatable"])]))
            finally:
                shutil.rmtree(tmp, ignore_errors=True)
            got = []
            for sev, text in entries:
                m = ENTRY.match(text)
                got.append((sev, int(m.group(3)), m.group(1), "android") if m else (sev, 0, text, "?"))
        else:
            r = build_entities([(c["ref"], c["ref_translatable"])])[0]
            l = build_entities([(c["l10n"], c["l10n_translatable"])])[0]
            if f["signature"].startswith("after-wrap-"):
                try:
                    r.wrap(l.raw_val)
                except Exception as e:  # noqa
                    print("wrap raised", repr(e))
            got = [(s, int(p), m, cat) for s, p, m, cat in checker.check(r, l)]
        print("case", c, "\n  impl    ", got, "\n  recorded", f["detail"])
        exp = f["detail"].get("expected") if isinstance(f["detail"], dict) else None
        if exp is not None:
            g = sorted((s, kind_of(m)) for s, _, m, _ in got)
            w = sorted((s, k) for s, _, k in exp)
            rc |= g != w
        else:
            rc = 1
    for d in data.get("disagreements", []):
        print("disagreement", d)
        rc = 1
    return int(rc)
