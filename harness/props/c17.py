"""C17 — line/column numbers.

Suites
  LINECOL    every text over {a, newline} up to a length bound, every offset 0..len+1;
             random texts over a wider alphabet (\\r, \\x0b, U+2028, astral) to pin that
             only "\\n" ends a line
  POSITION   Entry.position / Junk.position with offsets (negative = end)
Oracle (implementation only): line = 1 + s[:p].count("\\n"), column counted from
the last newline, and s.split("\\n")[line-1][col-1] is the character at p.
"""
import itertools
import json

from harness.common import Model, canon

FACTS = ("tables", "parser", "c02", "c05", "c06", "c08", "c09", "pin_c17")

RULE = ("exhaustive texts over {a, newline} up to the tier's length bound with every offset "
        "0..len+1, plus seeded random texts over {a, \\n, \\r, \\x0b, \\x0c, U+2028, U+1F600}; "
        "distinct by (text, offset); non-trivial = text contains a newline")


def impl_linecol(s, p):
    from compare_locales.parser.base import Parser
    ctx = Parser.Context(s)
    return list(ctx.linecol(p))


def oracle(chk, s, p, got):
    line = 1 + s[:p].count("\n")
    col = p - (s.rfind("\n", 0, p) + 1) + 1
    bad = got != [line, col]
    if not bad and p < len(s) and s[p] != "\n":
        bad = s.split("\n")[got[0] - 1][got[1] - 1] != s[p]
    if not bad and (got[0] < 1 or got[1] < 1):
        bad = True
    if bad:
        chk.fail("linecol-wrong", {"text": s, "offset": p}, {"got": got, "expected": [line, col]})


def run(chk, runner_ok):
    rng = chk.rng
    model = Model("C17") if runner_ok else None
    maxlen = chk.n(9, 15)
    texts = ["".join(t) for n in range(maxlen + 1) for t in itertools.product("a\n", repeat=n)]
    alpha = ["a", "b", "\n", "\n", "\r", "\x0b", "\x0c", " ", "\U0001F600", " "]
    for _ in range(chk.n(500, 30000)):
        texts.append("".join(rng.choice(alpha) for _ in range(rng.randint(0, 40))))
    impl = []
    nontrivial = 0
    for s in texts:
        from compare_locales.parser.base import Parser
        ctx = Parser.Context(s)
        row = []
        for p in range(len(s) + 1):
            got = list(ctx.linecol(p))
            oracle(chk, s, p, got)
            row.append([got])
            chk.evaluations += 1
        impl.append(row)
        if "\n" in s:
            nontrivial += len(s) + 1
        chk.hist("text_len", len(s))
    chk.distinct.update(range(nontrivial))  # texts are distinct by construction; counted per (text, offset)
    chk.sample({"suite": "LINECOL", "text": texts[700], "linecol at every offset": impl[700]})
    if model:
        outs = model.call([(2, [canon(s), len(s)]) for s in texts])
        chk.correspond("LINECOL", texts, impl, outs)
    # positions with offsets, incl. negative and past-the-end offsets inside the text
    pcases = []
    for _ in range(chk.n(2000, 100000)):
        s = "".join(rng.choice(alpha) for _ in range(rng.randint(1, 30)))
        a = rng.randint(0, len(s))
        b = rng.randint(a, len(s))
        off = rng.choice([-1, -5, 0, 1, 2, rng.randint(0, max(0, len(s) - a))])
        pcases.append((s, [a, b], off))
    impl = []
    for s, sp, off in pcases:
        from compare_locales.parser.base import Parser, Junk, Comment
        ctx = Parser.Context(s)
        ent = Comment(ctx, tuple(sp)) if off % 2 else Junk(ctx, tuple(sp))
        got = list(ent.position(off))
        impl.append([got])
        chk.count(("pos", s, sp, off))
        p = sp[1] if off < 0 else sp[0] + off
        if p <= len(s):
            oracle(chk, s, p, got)
    if model:
        outs = model.call([(1, [canon(s), sp, off]) for s, sp, off in pcases])
        chk.correspond("POSITION", pcases, impl, outs)
    dtd_tuple_positions(chk, model)
    entity_positions(chk)
    check_positions(chk)
    android_positions(chk)
    lint_positions(chk)


def dtd_tuple_positions(chk, model):
    """DTDEntityMixin.value_position((line_pos, col_pos)): the tuple arm, on parsed DTD entities.
    Oracle (C17_bounds_dtd_partial): a pair designating an offset of the value resolves inside
    [entity start, EOF]; the exact result is compared with the model (C17_dtd_position_exact)."""
    from compare_locales import parser
    rng = chk.rng
    cases, impl = [], []
    vals = ["x", "one two", "a\nb", "\nlead", "tail\n", "a\n\n  b\nccc", "", "&amp; <b>x</b>\n y"]
    for _ in range(chk.n(300, 12000)):
        ents = []
        for i in range(rng.randint(1, 3)):
            pre = rng.choice(["", "\n", "  ", "<!-- c -->\n", "\n\n<!-- c\nd -->\n"])
            q = rng.choice("\"'")
            ents.append(f"{pre}<!ENTITY k{i} {q}{rng.choice(vals)}{q}>")
        text = "".join(ents) + rng.choice(["", "\n"])
        p = parser.getParser("x.dtd")
        p.readUnicode(text)
        for e in p.walk():
            if not isinstance(e, parser.Entity):
                continue
            v = e.raw_val
            a = e.val_span[0]
            start, eof = tuple(e.position()), tuple(expected_linecol(text, len(text)))
            for k in range(len(v) + 1):
                lp, cp = 1 + v[:k].count("\n"), k - (v.rfind("\n", 0, k) + 1)
                got = list(e.value_position((lp, cp)))
                cases.append((text, a, lp, cp)); impl.append([got])
                chk.count(("dtdpos", text, a, lp, cp))
                # the property's clause is the bound; the exact value is tied by DTD-POSITION
                if not (start <= tuple(got) <= eof):
                    chk.fail("dtd-tuple-position", {"text": text, "value_start": a, "pair": [lp, cp]},
                             {"got": got, "entity_start": start, "eof": eof})
            # pairs outside the contract (line 0, columns past the line): correspondence only
            for lp, cp in ((0, 0), (0, rng.randint(0, 20)), (rng.randint(1, 4), rng.randint(0, 30))):
                cases.append((text, a, lp, cp)); impl.append([list(e.value_position((lp, cp)))])
    if model:
        outs = model.call([(3, [canon(t), a, lp, cp]) for t, a, lp, cp in cases])
        chk.correspond("DTD-POSITION", cases, impl, outs)


def expected_linecol(s, p):
    return [1 + s[:p].count("\n"), p - (s.rfind("\n", 0, p) + 1) + 1]


def entity_positions(chk):
    """positions of every entry of parsed files: start, end, value start; junk messages"""
    import re
    from harness import parsing
    rng = chk.rng
    n_entries = 0
    for fmt in parsing.FORMATS + ["ftl"]:
        for _ in range(chk.n(300, 15000)):
            if fmt == "ftl":
                from harness.props.c01 import FTL_TOKENS
                if rng.random() < 0.5:
                    text = "".join(rng.choice(FTL_TOKENS) for _ in range(rng.randint(0, 12)))
                else:  # structured: messages and terms with and without a value, attributes, comments
                    text = "".join(rng.choice(["k = v\n", "k2 =\n    .a = b\n", "# c\nk3 =\n    .t = x\n    .u = y\n",
                                               "-t = v\n    .a = b\n", "\n", "junk!\n", "## g\n\n", "k4 = { $n ->\n  [one] x\n *[other] y\n }\n"])
                                   for _ in range(rng.randint(1, 6)))
                from compare_locales import parser
                p = parser.getParser("f.ftl")
                p.readUnicode(text)
                es = list(p.walk())
            else:
                text = parsing.random_text(fmt, rng)
                es = parsing.raw_walk(fmt, text)
                if not isinstance(es, list):
                    continue
            for e in es:
                n_entries += 1
                chk.evaluations += 1
                checks = [("start", list(e.position()), e.span[0]),
                          ("end", list(e.position(-1)), e.span[1])]
                k = parsing.kind_of(e) if fmt != "ftl" else None
                vs = getattr(e, "val_span", None)
                if hasattr(e, "value_position") and vs is not None and tuple(vs) != (-1, -1):
                    checks.append(("value", list(e.value_position()), vs[0]))
                    checks.append(("value-end", list(e.value_position(-1)) if fmt != "ftl"
                                   else expected_linecol(text, vs[1]), vs[1]))
                if fmt == "ftl" and hasattr(e, "value_position") and vs is None and getattr(e, "key_span", None):
                    # no value: value_position() without offset is the end of the id
                    checks.append(("value-of-valueless", list(e.value_position()), e.key_span[1]))
                for what, got, off in checks:
                    if got != expected_linecol(text, off):
                        chk.fail("entry-position", {"format": fmt, "text": text, "span": list(e.span),
                                                    "which": what},
                                 {"got": got, "expected": expected_linecol(text, off)})
                if hasattr(e, "error_message"):
                    m = re.search(r"from line (\d+) column (\d+) to line (\d+) column (\d+)$",
                                  e.error_message(), re.S)
                    want = expected_linecol(text, e.span[0]) + expected_linecol(text, e.span[1])
                    if not m or [int(x) for x in m.groups()] != want:
                        chk.fail("junk-message-position", {"format": fmt, "text": text,
                                                           "span": list(e.span)},
                                 {"message": e.error_message(), "expected": want})
    chk.notes.append(f"ENTITY-POS: {n_entries} entries of parsed files checked (start, end, value, junk message)")
    chk.distinct.update(("entpos", i) for i in range(n_entries))


CHECK_FILES = {
    "x.properties": (["a = %S and %S", "b = one %1$S two %2$S", "# c\nc = plain"],
                     ["%S %d", "%", "%1$S %3$S", "x\\\n   %q", "fine %S %S", "%2$S %1$S"],
                     lambda k, v: f"{k} = {v}\n"),
    "x.dtd": (['<!ENTITY a "text &known; more">', '<!ENTITY b "12">', '<!ENTITY c "width: 3em;">'],
              ["&unknown; y", "x <b>z", "a\n\n  & b", "fine", "x</i>", "12em", "width: 3",
               "<![CDATA[", "x\n<![CDATA[ y", "<b>bold\n", "<!-- c", "tail <i>\n\n"],
              lambda k, v: f'<!ENTITY {k} "{v}">\n'),
    "x.ftl": (["a = Value\n    .title = T", "b = { $n ->\n   [one] x\n  *[other] y\n }", "c = { a }"],
              ["Value", "V\n    .title = T\n    .title = U", "{ b }", "{ $n ->\n  [one] q\n  [one] r\n *[other] s\n }"],
              lambda k, v: f"{k} = {v}\n"),
}


def check_positions(chk):
    """positions attached to check messages lie between the start of their entity and EOF"""
    import os
    import re
    import shutil
    import tempfile
    from compare_locales.compare.content import ContentComparer
    from compare_locales.compare.observer import Observer
    from compare_locales.paths import File
    from compare_locales import parser
    rng = chk.rng
    tmp = tempfile.mkdtemp(prefix="verif_c17_")
    n_msgs = 0
    try:
        for name, (refs, vals, fmtline) in CHECK_FILES.items():
            reftext = "\n".join(refs) + "\n"
            keys = ["a", "b", "c"]
            for _ in range(chk.n(60, 3000)):
                pad = "\n" * rng.randint(0, 3)
                def val():
                    v = rng.choice(vals)
                    if rng.random() < 0.3:
                        j = rng.randint(0, len(v))
                        v = v[:j] + "\ufffd" + v[j:]
                    return v
                cmt = {"x.properties": "# note\n", "x.dtd": "<!-- note -->\n", "x.ftl": "# note\n"}[name]
                l10n = pad + "".join(("\n" * rng.randint(0, 2)) + (cmt * rng.randint(1, 2) if rng.random() < 0.35 else "")
                                     + fmtline(k, val()) for k in rng.sample(keys, 3))
                if rng.random() < 0.3:
                    l10n = l10n.rstrip("\n")  # the last entity ends the file
                rp, lp = os.path.join(tmp, "ref_" + name), os.path.join(tmp, name)
                open(rp, "w").write(reftext)
                open(lp, "w").write(l10n)
                cc = ContentComparer()
                cc.observers.append(Observer())
                cc.compare(File(rp, name), File(lp, name, locale="de"), None)
                p = parser.getParser(name)
                p.readUnicode(l10n)
                ents = {e.key: e for e in p.walk() if isinstance(e, parser.Entity)}
                eof = tuple(expected_linecol(l10n, len(l10n)))

                def msgs(node):
                    if isinstance(node, list):
                        for item in node:
                            for kind, text in item.items():
                                if kind in ("error", "warning") and isinstance(text, str):
                                    yield text
                    elif isinstance(node, dict):
                        for v in node.values():
                            yield from msgs(v)
                for text in msgs(cc.observers.toJSON()["details"]):
                    m = re.search(r" at line (\d+), column (\d+) for (\S+)$", text)
                    if not m:
                        continue
                    n_msgs += 1
                    chk.evaluations += 1
                    line, col, key = int(m.group(1)), int(m.group(2)), m.group(3)
                    e = ents.get(key)
                    if e is None:
                        continue
                    start = tuple(e.position())
                    if text.startswith("\ufffd in: "):
                        # an encoding warning points at a replacement character of this entity
                        pre = getattr(e, "pre_comment", None)
                        a0 = pre.span[0] if pre is not None else e.span[0]
                        spots = [tuple(expected_linecol(l10n, i)) for i in range(a0, e.span[1])
                                 if l10n[i] == "\ufffd"]
                        if (line, col) not in spots:
                            sig = ("encoding-warning-position-with-pre-comment" if pre is not None
                                   else "encoding-warning-position")
                            chk.fail(sig, {"file": name, "l10n": l10n, "message": text},
                                     {"replacement_characters_at": spots, "reported": [line, col]})
                        continue
                    if name.endswith(".ftl") and start < (line, col) < tuple(expected_linecol(l10n, e.key_span[0])):
                        # Fluent entries span their attached comment; check messages are about the
                        # id, value or attributes and their offsets are AST spans of those nodes
                        # (offset 0, the entity start itself, is used for whole-entry messages)
                        chk.fail("check-position-inside-attached-comment",
                                 {"file": name, "l10n": l10n, "message": text},
                                 {"entity_start": start, "reported": [line, col],
                                  "id_start": expected_linecol(l10n, e.key_span[0])})
                        continue
                    if not (start <= (line, col) <= eof):  # the clause is the bound; DTD columns on later value lines are 0-based (C17_dtd_position_exact)
                        # DTD results whose checker position has line 0 (whole-value warnings (0, 0),
                        # XML errors located in the DOCTYPE line of the wrapper document) are
                        # resolved to the line above the value: the listed finding
                        vline = e.value_position()[0] if e.val_span else None
                        sig = ("dtd-whole-value-position-line-minus-one"
                               if name.endswith(".dtd") and vline is not None and line == vline - 1
                               else "check-position-out-of-bounds")
                        chk.fail(sig, {"file": name, "l10n": l10n, "message": text},
                                 {"entity_start": start, "eof": eof, "reported": [line, col]})
    finally:
        shutil.rmtree(tmp, ignore_errors=True)
    chk.notes.append(f"CHECK-POS: {n_msgs} check messages with positions examined")


def android_positions(chk):
    """Android check positions are (0, offset into the string value): the offset must lie inside
    the LOCALIZED value"""
    from compare_locales.checks import getChecker
    from compare_locales.paths import File
    from compare_locales import parser
    rng = chk.rng
    toks = ["%1$s", "%1$d", "%2$s", "%s", "%d", " some text ", "it\\'s", "'", "x"]
    n = 0

    def doc(v):
        return ('<?xml version="1.0" encoding="utf-8"?>\n<resources>\n  <string name="a">%s</string>\n'
                '</resources>\n' % v)
    for _ in range(chk.n(400, 20000)):
        rv = "".join(rng.choice(toks) for _ in range(rng.randint(1, 5)))
        lv = "".join(rng.choice(toks) for _ in range(rng.randint(1, 3)))
        p = parser.getParser("strings.xml")
        p.readContents(doc(rv).encode("utf-8"))
        ref = [e for e in p.walk() if isinstance(e, parser.Entity)]
        p.readContents(doc(lv).encode("utf-8"))
        l10n = [e for e in p.walk() if isinstance(e, parser.Entity)]
        if not ref or not l10n:
            continue
        checker = getChecker(File("strings.xml", "strings.xml", locale="de"))
        for tp, pos, msg, cat in checker.check(ref[0], l10n[0]):
            n += 1
            chk.evaluations += 1
            if isinstance(pos, int) and not type(pos).__name__ == "EntityPos":
                if not (0 <= pos <= len(l10n[0].val)):
                    sig = ("android-reference-conflict-position" if msg.startswith("Conflicting formatting")
                           else "check-position-out-of-bounds")
                    chk.fail(sig, {"file": "strings.xml", "reference_value": rv, "l10n_value": lv,
                                   "message": msg}, {"position": int(pos), "l10n_value_length": len(l10n[0].val)})
    chk.notes.append(f"ANDROID-POS: {n} Android check results examined")


def lint_positions(chk):
    """duplicate / changed-ID / junk lint results carry the position of THEIR occurrence"""
    import os
    import shutil
    import tempfile
    from compare_locales.lint.linter import L10nLinter
    from compare_locales import parser
    rng = chk.rng
    tmp = tempfile.mkdtemp(prefix="verif_c17l_")
    n = 0
    line = {"x.properties": lambda k, v: f"{k} = {v}\n", "x.ini": lambda k, v: f"{k}={v}\n",
            "x.dtd": lambda k, v: f'<!ENTITY {k} "{v}">\n', "x.ftl": lambda k, v: f"{k} = {v}\n"}
    try:
        for name, fl in line.items():
            for _ in range(chk.n(60, 3000)):
                keys = [rng.choice("abc") for _ in range(rng.randint(1, 6))]
                head = "[Strings]\n" if name.endswith(".ini") else ""
                text = head + "".join(("\n" * rng.randint(0, 2)) + ("  " if name.endswith(".dtd") and rng.random() < .3 else "")
                                      + fl(k, "v%d" % i) + ("garbage\n" if rng.random() < .1 else "")
                                      for i, k in enumerate(keys))
                ref = head + "".join(fl(k, "r") for k in "ab")
                pth, rp = os.path.join(tmp, name), os.path.join(tmp, "ref_" + name)
                open(pth, "w").write(text)
                open(rp, "w").write(ref)
                res = list(L10nLinter().lint_file(pth, rp, []))
                p = parser.getParser(name)
                p.readUnicode(text)
                ents = list(p)
                # expected: for each occurrence of a repeated key, a duplicate error at its position
                want_dup = sorted(expected_linecol(text, e.span[0]) + [e.key] for e in ents
                                  if isinstance(e, parser.Entity)
                                  and sum(1 for x in ents if getattr(x, "key", None) == e.key) > 1)
                got_dup = sorted([r["lineno"], r["column"], r["message"].split(": ", 1)[1]] for r in res
                                 if r["message"].startswith("Duplicate string with ID"))
                want_junk = sorted(expected_linecol(text, e.span[0]) for e in ents if isinstance(e, parser.Junk))
                got_junk = sorted([r["lineno"], r["column"]] for r in res
                                  if r["message"].startswith("Unparsed content"))
                want_chg = sorted(expected_linecol(text, e.span[0]) + [e.key] for e in ents
                                  if isinstance(e, parser.Entity) and e.key in "ab")
                got_chg = sorted([r["lineno"], r["column"], r["message"].split(": ", 1)[1]] for r in res
                                 if r["message"].startswith("Changes to string"))
                n += len(res)
                chk.evaluations += 1
                if (want_dup, want_junk, want_chg) != (got_dup, got_junk, got_chg):
                    chk.fail("lint-position", {"file": name, "text": text},
                             {"duplicates": [want_dup, got_dup], "junk": [want_junk, got_junk],
                              "changed": [want_chg, got_chg]})
    finally:
        shutil.rmtree(tmp, ignore_errors=True)
    chk.notes.append(f"LINT-POS: {n} lint results with positions examined")


def replay(chk, path):
    data = json.load(open(path))
    rc = 0
    for f in data.get("failures", []):
        c = f["case"]
        if "offset" not in c:
            print("case", c, f["detail"])
            rc = 1
            continue
        got = impl_linecol(c["text"], c["offset"])
        print("case", c, "impl", got, "expected", f["detail"]["expected"])
        rc |= got != f["detail"]["expected"]
    for d in data.get("disagreements", []):
        print("disagreement", d)
        rc = 1
    return int(rc)
