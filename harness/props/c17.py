"""C17 — line/column numbers.

Suites
  LINECOL    every text over {a, newline} up to a length bound, every offset 0..len+1;
             random texts over a wider alphabet (\\r, \\x0b, U+2028, astral) to pin that
             only "\\n" ends a line
  POSITION   Entry.position / Junk.position with offsets (negative = end)
Oracle (implementation only): line = 1 + s[:p].count("\\n"), column counted from
the last newline, and s.split("\\n")[line-1][col-1] is the character at p.
"""
import itertools
import json

from harness.common import Model, canon

FACTS = ()

RULE = ("exhaustive texts over {a, newline} up to the tier's length bound with every offset "
        "0..len+1, plus seeded random texts over {a, \\n, \\r, \\x0b, \\x0c, U+2028, U+1F600}; "
        "distinct by (text, offset); non-trivial = text contains a newline")


def impl_linecol(s, p):
    from compare_locales.parser.base import Parser
    ctx = Parser.Context(s)
    return list(ctx.linecol(p))


def oracle(chk, s, p, got):
    line = 1 + s[:p].count("\n")
    col = p - (s.rfind("\n", 0, p) + 1) + 1
    bad = got != [line, col]
    if not bad and p < len(s) and s[p] != "\n":
        bad = s.split("\n")[got[0] - 1][got[1] - 1] != s[p]
    if not bad and (got[0] < 1 or got[1] < 1):
        bad = True
    if bad:
        chk.fail("linecol-wrong", {"text": s, "offset": p}, {"got": got, "expected": [line, col]})


def run(chk, runner_ok):
    rng = chk.rng
    model = Model("C17") if runner_ok else None
    maxlen = chk.n(9, 13)
    texts = ["".join(t) for n in range(maxlen + 1) for t in itertools.product("a\n", repeat=n)]
    alpha = ["a", "b", "\n", "\n", "\r", "\x0b", "\x0c", " ", "\U0001F600", " "]
    for _ in range(chk.n(500, 5000)):
        texts.append("".join(rng.choice(alpha) for _ in range(rng.randint(0, 40))))
    impl = []
    nontrivial = 0
    for s in texts:
        from compare_locales.parser.base import Parser
        ctx = Parser.Context(s)
        row = []
        for p in range(len(s) + 1):
            got = list(ctx.linecol(p))
            oracle(chk, s, p, got)
            row.append([got])
            chk.evaluations += 1
        impl.append(row)
        if "\n" in s:
            nontrivial += len(s) + 1
        chk.hist("text_len", len(s))
    chk.distinct.update(range(nontrivial))  # texts are distinct by construction; counted per (text, offset)
    chk.sample({"suite": "LINECOL", "text": texts[700], "linecol at every offset": impl[700]})
    if model:
        outs = model.call([(2, [canon(s), len(s)]) for s in texts])
        chk.correspond("LINECOL", texts, impl, outs)
    # positions with offsets, incl. negative and past-the-end offsets inside the text
    pcases = []
    for _ in range(chk.n(2000, 20000)):
        s = "".join(rng.choice(alpha) for _ in range(rng.randint(1, 30)))
        a = rng.randint(0, len(s))
        b = rng.randint(a, len(s))
        off = rng.choice([-1, -5, 0, 1, 2, rng.randint(0, max(0, len(s) - a))])
        pcases.append((s, [a, b], off))
    impl = []
    for s, sp, off in pcases:
        from compare_locales.parser.base import Parser, Junk, Comment
        ctx = Parser.Context(s)
        ent = Comment(ctx, tuple(sp)) if off % 2 else Junk(ctx, tuple(sp))
        got = list(ent.position(off))
        impl.append([got])
        chk.count(("pos", s, sp, off))
        p = sp[1] if off < 0 else sp[0] + off
        if p <= len(s):
            oracle(chk, s, p, got)
    if model:
        outs = model.call([(1, [canon(s), sp, off]) for s, sp, off in pcases])
        chk.correspond("POSITION", pcases, impl, outs)


def replay(chk, path):
    data = json.load(open(path))
    rc = 0
    for f in data.get("failures", []):
        c = f["case"]
        got = impl_linecol(c["text"], c["offset"])
        print("case", c, "impl", got, "expected", f["detail"]["expected"])
        rc |= got != f["detail"]["expected"]
    for d in data.get("disagreements", []):
        print("disagreement", d)
        rc = 1
    return int(rc)
