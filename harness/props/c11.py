"""C11 — reference and l10n path patterns map files back and forth losslessly.

Suites
  RX[c11]      engine + translator on PATH_SPECIAL, the Android regexes, the mozpath glob regex
  PARSE        PatternParser.parse on every generated pattern text and on random token strings
  REGEX        structure of the regular expression the implementation compiles
               (Matcher._cached_re.pattern read by CPython's parser through tr/rx2coq.py)
               against the model's regex_of_pattern, and the group-name table
  MATCHER      match on both sides, sub in both directions, on paths obtained by filling
               the wildcards (also with the neighbouring literals) and by breaking them
  MATCHER-raw  random pattern / environment / path token strings (malformed stream)
Oracles (implementation only)
  by construction: a filled path matches with exactly the fills and maps to the
  other side's rendering of the same fills; round trip: a.sub(b, p) = p' implies
  b.match(p') and b.sub(a, p') = p; stars never match '/'.
  Patterns with two `**` run in a small stream of their own (known finding).
"""
import json

from harness import common, rxsuite
from harness import matcherlib as ml
from harness.common import Model, canon

FACTS = ("tables", "c11")
RUNNERS = ["RX"]

RULE = ("pattern pairs drawn from the configuration grammar (literal segments, one star per "
        "segment with literal affixes, at most one `**`, variables incl. {android_locale}, "
        "{locale}, {l10n_base}, nested user variables) x environments x paths (wildcards filled, "
        "also with the neighbouring literals; broken by an extra directory, a separator inside a "
        "star, truncation, extension, newline); a loose stream (two stars per segment, unbound / "
        "self-referential / wildcard-valued variables, odd names, roots) and a raw token stream; "
        "a case is distinct by (both sides, path); non-trivial = at least one wildcard or variable")


def paths_of(rng, c):
    """(kind, path) list for a case"""
    out = []
    pa = ml.expected_path(c, "a", c.fills)
    pb = ml.expected_path(c, "b", c.fills)
    if pa is not None:
        out.append(("filled-a", pa))
        out.extend(ml.break_path(rng, pa))
    else:
        out.append(("raw", ml.rand_path(rng)))
    if pb is not None and rng.random() < 0.5:
        out.append(("filled-b", pb))
    return out, pa, pb


def oracle_roundtrip(chk, c, a, b, path, sig="sub-roundtrip", tag=""):
    """a.sub(b, path) = p' -> b.match(p') and b.sub(a, p') = path   (implementation only)"""
    try:
        ma, mb = ml.mk(a), ml.mk(b)
        p2 = ma.sub(mb, path)
        if p2 is None:
            return None
        back = mb.sub(ma, p2) if mb.match(p2) is not None else None
    except Exception as e:  # noqa
        chk.fail(sig + "-raised", {"a": a, "b": b, "path": path, "tag": tag}, repr(e))
        return None
    if back != path:
        if path.endswith("\n") and back == path[:-1]:
            # CPython's `$` also matches before a final newline (DESIGN C12_whole_path states
            # the disjunction): the path comes back without it.  Counted, not a failure.
            chk.hist("roundtrip_modulo_final_newline", tag or "-")
            return p2
        chk.fail(sig, {"a": a, "b": b, "path": path, "tag": tag},
                 {"mapped": p2, "back": back})
    return p2


def run_cases(chk, model, cases, suite, two=False):
    rng = chk.rng
    reqs, impl, desc = [], [], []
    rreqs, rimpl, rdesc = [], [], []
    for c in cases:
        if not ml.ascii_names_only(c.a[0], c.b[0], *[v for _, v in c.a[1] + c.b[1]]):
            continue
        paths, pa, pb = paths_of(rng, c)
        sa, sb = ml.side_sx(c.a), ml.side_sx(c.b)
        for side, sx in ((c.a, sa), (c.b, sb)):
            rdesc.append(side)
            rimpl.append(ml.impl_regex(side))
            rreqs.append((1, sx))
        chk.hist("grammar", "in" if c.grammar else ("two-starstar" if two else "loose"))
        chk.hist("wildcards", "".join("S" if w[0] == "S" else "D" for w in c.wild) or "-")
        for kind, path in paths:
            chk.count((c.a, c.b, path))
            chk.hist("path_kind", kind)
            pl = canon(path)
            got_a = ml.impl_match(c.a, path)
            got_b = ml.impl_match(c.b, path)
            got_ab = ml.impl_sub(c.a, c.b, path)
            got_ba = ml.impl_sub(c.b, c.a, path)
            desc += [("match-a", c.a, path), ("match-b", c.b, path),
                     ("sub-ab", c.a, c.b, path), ("sub-ba", c.b, c.a, path)]
            impl += [got_a, got_b, got_ab, got_ba]
            reqs += [(2, sa + [pl]), (2, sb + [pl]), (3, sa + sb + [pl]), (3, sb + sa + [pl])]
            chk.hist("match_a", "raise" if got_a[0] else ("match" if got_a[1] else "none"))
            # ---- oracles, implementation only ----
            for side, got in ((c.a, got_a), (c.b, got_b)):
                if got[0] == 0 and got[1]:
                    d = {common.l2s(k): (common.l2s(v[0]) if v else None) for k, v in got[1][0]}
                    envnames = {k for k, _ in side[1]}
                    if not any(("*" in v) for _, v in side[1]) and not any(
                            n.startswith("s") and n[1:].isdigit() for n in envnames):
                        ml.check_kinds(chk, side, path, d, kind)
                    ml.check_prefix(chk, side, path, kind)
            if two:
                if kind == "filled-a" and c.grammar_but_two:
                    oracle_roundtrip(chk, c, c.a, c.b, path, "sub-roundtrip-two-starstar", kind)
                continue
            if not c.grammar:
                continue
            # by construction
            if kind == "filled-a":
                okm, d = ml.try_match(chk, c.a, path, "filled-path-not-matched")
                chk.hist("oracle", "by-construction")
                want = {"s%d" % (i + 1): f for i, f in enumerate(c.fills)}
                if not okm:
                    pass
                elif d is None or any((d.get(k) or "") != v for k, v in want.items()):
                    chk.fail("filled-path-not-matched", {"a": c.a, "path": path, "fills": c.fills},
                             {"got": d})
                elif pb is not None:
                    p2 = ml.impl_sub(c.a, c.b, path)
                    p2 = common.l2s(p2[1][0]) if p2[0] == 0 and p2[1] else p2
                    if p2 != pb:
                        chk.fail("sub-not-the-other-rendering",
                                 {"a": c.a, "b": c.b, "path": path, "fills": c.fills},
                                 {"got": p2, "expected": pb})
            # the property itself, both directions, on every path of the case
            oracle_roundtrip(chk, c, c.a, c.b, path, tag=kind)
            oracle_roundtrip(chk, c, c.b, c.a, path, tag=kind)
        if len(chk.samples) < 4 and c.wild:
            chk.sample({"suite": suite, "a": c.a, "b": c.b, "paths": paths[:3],
                        "sub": ml.impl_sub(c.a, c.b, paths[0][1])})
    if model:
        outs = model.call(rreqs)
        chk.correspond(suite.replace("MATCHER", "REGEX"), rdesc, rimpl, outs)
        outs = model.call(reqs)
        chk.correspond(suite, desc, impl, outs)


def run_source_only(chk, model):
    """variables bound in the environment of the matcher mapped FROM only, open on the
    target side: the target gets their value from the match (expected mapping and round
    trip known by construction)"""
    rng = chk.rng
    heads_a = [("l10n/{locale}/", ["locale"]), ("{l}", ["locale"]), ("ref/{channel}/{locale}/", ["channel", "locale"]),
               ("src/{channel}/", ["channel"]), ("{l}{channel}/", ["locale", "channel"])]
    heads_b = [("/stage/{locale}/", ["locale"]), ("out/{channel}/", ["channel"]),
               ("stage/{channel}/{locale}/", ["channel", "locale"]), ("merge-{locale}/", ["locale"]),
               ("plain/", [])]
    tails = [("browser/**", "browser/**", ["", "brand.ftl", "preferences/main.ftl", "a/b/c.ftl"]),
             ("browser/**/*.ftl", "browser/**/*.ftl", None),
             ("x-*.ftl", "y_*.ftl", ["brand", "", "a.b"]),
             ("f.ftl", "g.ftl", [])]
    reqs, impl, desc = [], [], []
    for i in range(chk.n(300, 3000)):
        ha, va = rng.choice(heads_a)
        hb, vb = rng.choice(heads_b)
        if not set(vb) <= set(va):
            continue
        ta, tb, fills = rng.choice(tails)
        vals = {"locale": rng.choice(["de", "sr-Latn", "pt-BR"]), "channel": rng.choice(["beta", "release"])}
        env_a = [(k, vals[k]) for k in va]
        if "{l}" in ha:
            env_a.append(("l", "l10n/{locale}/"))
        # the target binds none of the shared variables, or only some of them
        env_b = [(k, vals[k]) for k in vb if rng.random() < 0.25]

        def rend(head, tail, fill):
            t = head.replace("{l}", "l10n/{locale}/")
            for k, v in vals.items():
                t = t.replace("{%s}" % k, v)
            if fills is None:
                return t + tail.replace("**/", fill[0]).replace("*", fill[1])
            return t + (tail.replace("**", fill) if "**" in tail else tail.replace("*", fill))
        fill = (rng.choice(["", "d/", "d/e/"]), rng.choice(["main", "a.b"])) if fills is None else \
            (rng.choice(fills) if fills else "")
        a = (ha + ta, env_a, None)
        b = (hb + tb, env_b, None)
        path, want = rend(ha, ta, fill), rend(hb, tb, fill)
        chk.count(("source-only", a, b, path))
        chk.hist("source_only_target_env", len(env_b))
        got = ml.impl_sub(a, b, path)
        back = ml.impl_sub(b, a, want)
        desc += [("sub", a, b, path), ("sub-back", b, a, want)]
        impl += [got, back]
        reqs += [(3, ml.side_sx(a) + ml.side_sx(b) + [canon(path)]),
                 (3, ml.side_sx(b) + ml.side_sx(a) + [canon(want)])]
        if got != [0, [canon(want)]]:
            chk.fail("sub-drops-source-variable", {"a": a, "b": b, "path": path},
                     {"got": got if got[0] else (common.l2s(got[1][0]) if got[1] else None),
                      "expected": want})
        else:
            oracle_roundtrip(chk, None, a, b, path, tag="source-only")
    if model:
        outs = model.call(reqs)
        chk.correspond("MATCHER-source-only", desc, impl, outs)


# ------------------------------------------------------------------ PROJECT ---
def _project_oracle(chk, model, what, cfg_desc, ref_m, l10n_m, ref_side, l10n_side, ref_path, l10n_path,
                    reqs, impl, desc):
    """reference <-> l10n on matchers taken from a ProjectConfig; the sides are what the
    configuration says the matchers are (pattern text, environment, root)"""
    sub_c = lambda r: [] if r is None else [canon(r)]  # noqa: E731
    fwd = ml.impl_result(lambda: ref_m.sub(l10n_m, ref_path), sub_c)
    back = ml.impl_result(lambda: l10n_m.sub(ref_m, l10n_path), sub_c)
    desc += [(what, "ref->l10n", cfg_desc, ref_path), (what, "l10n->ref", cfg_desc, l10n_path)]
    impl += [fwd, back]
    reqs += [(3, ml.side_sx(ref_side) + ml.side_sx(l10n_side) + [canon(ref_path)]),
             (3, ml.side_sx(l10n_side) + ml.side_sx(ref_side) + [canon(l10n_path)])]
    case = {"config": cfg_desc, "reference": ref_side, "l10n": l10n_side, "path": ref_path}
    if fwd != [0, [canon(l10n_path)]]:
        chk.fail("project-reference-not-mapped", case,
                 {"got": fwd if fwd[0] or not fwd[1] else common.l2s(fwd[1][0]), "expected": l10n_path})
    if back != [0, [canon(ref_path)]]:
        chk.fail("project-l10n-not-mapped-back", dict(case, path=l10n_path),
                 {"got": back if back[0] or not back[1] else common.l2s(back[1][0]), "expected": ref_path})
    # a path of another reference tree must not be claimed (would be missing and obsolete at once)
    other = ref_path.replace("/browser/", "/elsewhere/", 1) if "/browser/" in ref_path else "/nowhere/" + ref_path
    claimed = ml.impl_result(lambda: ref_m.match(other), ml.canon_dict)
    if claimed[0] == 0 and claimed[1] and other != ref_path:
        chk.fail("project-reference-claims-foreign-path", dict(case, path=other), {"got": claimed})


def run_project(chk, model):
    """matchers obtained from a ProjectConfig (programmatic add_paths with an environment,
    and a TOML with [[includes]] parsed with env = {l10n_base: ...}) instead of Matcher(...)"""
    import os
    import shutil
    import tempfile
    from compare_locales.paths import ProjectConfig, TOMLParser
    rng = chk.rng
    reqs, impl, desc = [], [], []
    tails = [("**", ["brand.ftl", "preferences/main.ftl", "a/b/c.ftl"]), ("*.ftl", ["brand", "a.b"]),
             ("**/*.properties", None)]
    # ---- programmatic
    for i in range(chk.n(80, 800)):
        loc = rng.choice(["de", "sr-Latn", "pt-BR"])
        moz = rng.choice(["moz", "mozilla-central", "m/c"])
        base = rng.choice(["/abs/l10n", "l10n"])
        ref_head = rng.choice(["{mozilla}/browser/locales/en-US/", "browser/{mozilla}/en-US/",
                               "browser/locales/en-US/"])
        l10n_head = rng.choice(["{l10n_base}/{locale}/browser/", "{l}browser/", "{l10n_base}/{locale}/{mozilla}/"])
        tail, fills = rng.choice(tails)
        environ = {"mozilla": moz, "l10n_base": base}
        if "{l}" in l10n_head:
            environ["l"] = "{l10n_base}/{locale}/"
        cfgpath = rng.choice(["/src/l10n.toml", "/data/c++/strings/l10n.toml"])
        pc = ProjectConfig(cfgpath)
        pc.set_root(".")
        pc.add_environment(**environ)
        pc.add_paths({"reference": ref_head + tail, "l10n": l10n_head + tail})
        root = os.path.dirname(cfgpath)
        if fills is None:
            f = (rng.choice(["", "d/", "d/e/"]), rng.choice(["main", "x.y"]))
            rt = tail.replace("**/", f[0]).replace("*", f[1])
        else:
            f = rng.choice(fills)
            rt = tail.replace("**", f).replace("*", f)

        def rend(head):
            t = head.replace("{l}", "{l10n_base}/{locale}/")
            for k, v in (("mozilla", moz), ("l10n_base", base), ("locale", loc)):
                t = t.replace("{%s}" % k, v)
            t = t + rt
            return t if t.startswith("/") else root + "/" + t
        ref_m = pc.paths[0]["reference"]
        l10n_m = pc.paths[0]["l10n"].with_env({"locale": loc})
        env_pairs = list(environ.items())
        ref_side = (ref_head + tail, env_pairs, root)
        l10n_side = (l10n_head + tail, env_pairs + [("locale", loc)], root)
        chk.count(("project", ref_side, l10n_side, rt))
        chk.hist("project", "programmatic")
        _project_oracle(chk, model, "add_paths", {"path": cfgpath, "environ": environ},
                        ref_m, l10n_m, ref_side, l10n_side, rend(ref_head), rend(l10n_head), reqs, impl, desc)
    # ---- TOML with includes, parsed with an environment
    tmp = os.path.realpath(tempfile.mkdtemp(prefix="c11proj"))
    try:
        for i in range(chk.n(12, 60)):
            d = os.path.join(tmp, "p%d" % i, "src")
            os.makedirs(os.path.join(d, "toolkit"))
            os.makedirs(os.path.join(d, "devtools"))
            l10n_base = rng.choice([os.path.join(tmp, "p%d" % i, "l10n"), "/abs/l10n-central"])
            nested = rng.random() < 0.6
            with open(os.path.join(d, "l10n.toml"), "w") as fh:
                fh.write('basepath = "."\nlocales = ["de", "fr"]\n[[paths]]\n'
                         '    reference = "app/en/*.ftl"\n    l10n = "{l10n_base}/{locale}/app/*.ftl"\n'
                         '[[includes]]\n    path = "toolkit/l10n.toml"\n'
                         '[[includes]]\n    path = "devtools/l10n.toml"\n')
            with open(os.path.join(d, "toolkit", "l10n.toml"), "w") as fh:
                if nested:
                    fh.write('basepath = "."\n[env]\n    l = "{l10n_base}/{locale}/"\n[[paths]]\n'
                             '    reference = "locales/en-US/**"\n    l10n = "{l}toolkit/**"\n')
                else:
                    fh.write('basepath = "."\n[[paths]]\n    reference = "locales/en-US/**"\n'
                             '    l10n = "{l10n_base}/{locale}/toolkit/**"\n')
            with open(os.path.join(d, "devtools", "l10n.toml"), "w") as fh:
                fh.write('basepath = "."\n[[paths]]\n    reference = "client/en-US/*.properties"\n'
                         '    l10n = "{l10n_base}/{locale}/devtools/client/*.properties"\n')
            pc = TOMLParser().parse(os.path.join(d, "l10n.toml"), env={"l10n_base": l10n_base})
            loc = rng.choice(["de", "fr"])
            expect = {
                d: ("app/en/%s.ftl", "%s/%s/app/%%s.ftl" % (l10n_base, loc), ["main", "a.b"]),
                os.path.join(d, "toolkit"): ("locales/en-US/%s", "%s/%s/toolkit/%%s" % (l10n_base, loc),
                                             ["global/intl.ftl", "x.ftl"]),
                os.path.join(d, "devtools"): ("client/en-US/%s.properties",
                                              "%s/%s/devtools/client/%%s.properties" % (l10n_base, loc), ["debugger"]),
            }
            seen = 0
            for cfg in pc.configs:
                for pth in cfg.paths:
                    rt, lt, fills = expect[cfg.root]
                    f = rng.choice(fills)
                    ref_path = cfg.root + "/" + rt % f
                    l10n_path = lt % f
                    env_pairs = list(cfg.environ.items())
                    ref_side = (pth["reference"].pattern_text if hasattr(pth["reference"], "pattern_text") else None)
                    ref_text = {d: "app/en/*.ftl", os.path.join(d, "toolkit"): "locales/en-US/**",
                                os.path.join(d, "devtools"): "client/en-US/*.properties"}[cfg.root]
                    l10n_text = {d: "{l10n_base}/{locale}/app/*.ftl",
                                 os.path.join(d, "toolkit"): "{l}toolkit/**" if nested else
                                 "{l10n_base}/{locale}/toolkit/**",
                                 os.path.join(d, "devtools"): "{l10n_base}/{locale}/devtools/client/*.properties"}[cfg.root]
                    want_env = [("l10n_base", l10n_base)]
                    if nested and cfg.root.endswith("toolkit"):
                        want_env = [("l", "{l10n_base}/{locale}/")] + want_env
                    ref_side = (ref_text, want_env, cfg.root)
                    l10n_side = (l10n_text, want_env + [("locale", loc)], cfg.root)
                    chk.count(("project-toml", ref_side, l10n_side, f))
                    chk.hist("project", "toml-include" if cfg.root != d else "toml-root")
                    _project_oracle(chk, model, "toml", {"root": cfg.root, "parser_env": {"l10n_base": l10n_base}},
                                    pth["reference"], pth["l10n"].with_env({"locale": loc}),
                                    ref_side, l10n_side, ref_path, l10n_path, reqs, impl, desc)
                    seen += 1
            if seen != 3:
                chk.fail("project-paths-missing", {"root": d}, {"paths": seen})
    finally:
        shutil.rmtree(tmp, ignore_errors=True)
    if model:
        outs = model.call(reqs)
        chk.correspond("PROJECT", desc, impl, outs)


ANDROID_LAYOUT = dict(ml.LOCALES)
ANDROID_LAYOUT.update({"bs-Cyrl": "b+bs+Cyrl", "ber-Latn": "b+ber+Latn", "be-tarask": "b+be+tarask",
                       "bg": "bg", "bn-IN": "bn-rIN", "br-Latn-FR": "b+br+Latn+FR", "bb-Bbbb": "b+bb+Bbbb"})


def run_android_layout(chk, model):
    """{android_locale} <-> {locale} layouts with NO bound locale: the locale is detected
    from the path (qualifier written by hand from the Android documentation)"""
    rng = chk.rng
    shapes = [("res/values-{android_locale}/strings.xml", "l10n/{locale}/strings.xml", None),
              ("app/res/values-{android_locale}/*.xml", "{locale}/app/*.xml", ["strings", "a.b", ""]),
              ("{android_locale}/**/*.xml", "x/{locale}/**/*.xml", None)]
    reqs, impl, desc = [], [], []
    for loc, qual in sorted(ANDROID_LAYOUT.items()):
        if loc in ("min", "che") and rng.random() < 0.5:
            continue
        for pa, pb, fills in shapes:
            if "**" in pa:
                f = (rng.choice(["", "d/", "d/e/"]), rng.choice(["s", "q.r"]))
                ra = pa.replace("**/", f[0]).replace("*", f[1])
                rb = pb.replace("**/", f[0]).replace("*", f[1])
            else:
                f = rng.choice(fills) if fills else ""
                ra, rb = pa.replace("*", f), pb.replace("*", f)
            path = ra.replace("{android_locale}", qual)
            want = rb.replace("{locale}", loc)
            a, b = (pa, [], None), (pb, [], None)
            chk.count(("android-layout", a, b, path))
            got = ml.impl_sub(a, b, path)
            back = ml.impl_sub(b, a, want)
            desc += [("sub", a, b, path), ("sub-back", b, a, want)]
            impl += [got, back]
            reqs += [(3, ml.side_sx(a) + ml.side_sx(b) + [canon(path)]),
                     (3, ml.side_sx(b) + ml.side_sx(a) + [canon(want)])]
            if got != [0, [canon(want)]]:
                chk.fail("android-layout-mapping-wrong", {"a": a, "b": b, "path": path},
                         {"got": got if got[0] else (common.l2s(got[1][0]) if got[1] else None),
                          "expected": want})
            if back != [0, [canon(path)]]:
                chk.fail("android-layout-mapping-wrong", {"a": b, "b": a, "path": want},
                         {"got": back if back[0] else (common.l2s(back[1][0]) if back[1] else None),
                          "expected": path})
            oracle_roundtrip(chk, None, a, b, path, tag="android-layout")
    if model:
        outs = model.call(reqs)
        chk.correspond("MATCHER-android-layout", desc, impl, outs)


def run(chk, runner_ok):
    rng = chk.rng
    model = Model("C11") if runner_ok else None
    if runner_ok:
        rxsuite.run_rx(chk, groups=["c11"], per_regex=chk.n(40, 300))
    # ---- the grammar of the property ------------------------------------
    cases = [ml.gen_case(rng) for _ in range(chk.n(2800, 24000))]
    run_cases(chk, model, cases, "MATCHER")
    # ---- loose stream ------------------------------------------------------
    cases = [ml.gen_case(rng, loose=True) for _ in range(chk.n(1500, 14000))]
    run_cases(chk, model, cases, "MATCHER-loose")
    # ---- two `**`: the known finding, in a stream of its own --------------
    cases = [ml.gen_case(rng, two_starstar=True) for _ in range(chk.n(150, 800))]
    fixed = ml.gen_case(rng, two_starstar=True)
    fixed.a, fixed.b = ("r/**/x/**/*", [], None), ("l/**/y/**/*", [], None)
    fixed.atoms_a = [("L", "r/"), ("SS", "/"), ("L", "x/"), ("SS", "/"), ("S",)]
    fixed.atoms_b = [("L", "l/"), ("SS", "/"), ("L", "y/"), ("SS", "/"), ("S",)]
    fixed.enva, fixed.envb = ml.Env(), ml.Env()
    fixed.wild = [x for x in fixed.atoms_a if x[0] != "L"]
    fixed.fills = ["1/", "2/y/3/", "f"]
    fixed.grammar_but_two = True
    run_cases(chk, model, [fixed] + cases, "MATCHER-two-starstar", two=True)
    run_source_only(chk, model)
    ml.run_unbound_empty(chk, model, chk.n(200, 2000))
    run_project(chk, model)
    ml.run_wild_first(chk, model, chk.n(150, 1500))
    run_android_layout(chk, model)
    ml.run_equality(chk, model, chk.n(600, 6000))
    # ---- stateful: derived matchers created after their source was used ----------
    ml.run_stateful(chk, model, chk.n(500, 5000))
    # ---- a variable used in the pattern and again inside another variable's value ----
    for i in range(chk.n(6, 30)):
        inner = rng.choice(["v", "topdir", "ab_1"])
        val = ml.rand_lit(rng)
        outer_val = rng.choice(["{%s}-n", "{%s}/l10n", "x{ %s }"]) % inner
        a = ("{%s}/{outer}/%s*" % (inner, rng.choice(["", "x-"])), [(inner, val), ("outer", outer_val)], None)
        fill = rng.choice(ml.STAR_FILLS)
        path = a[0].replace("{%s}" % inner, val).replace("{outer}", outer_val.replace(
            "{%s}" % inner, val).replace("{ %s }" % inner, val)).replace("*", fill)
        chk.count(("nested-reuse", a, path))
        try:
            d = ml.mk(a).match(path)
            if d is None or d.get("s1") != fill:
                chk.fail("filled-path-not-matched", {"a": a, "path": path}, {"got": d})
        except Exception as e:  # noqa
            chk.fail("match-raises-nested-variable-reused", {"a": a, "path": path}, repr(e))
    # ---- parse + raw stream ---------------------------------------------------
    pats = []
    for _ in range(chk.n(6000, 40000)):
        pats.append(ml.rand_pattern(rng))
    pats = [p for p in pats if ml.ascii_names_only(p)]
    impl = [ml.impl_parse(p) for p in pats]
    for p in pats:
        chk.count(("parse", p))
    if model:
        outs = model.call([(0, [canon(p)]) for p in pats])
        chk.correspond("PARSE", pats, impl, outs)
    reqs, impl, desc = [], [], []
    for _ in range(chk.n(3000, 30000)):
        a = (ml.rand_pattern(rng), ml.rand_env(rng), rng.choice([None, None, None, "/r"]))
        b = (ml.rand_pattern(rng), ml.rand_env(rng), None)
        if not ml.ascii_names_only(a[0], b[0], *[v for _, v in a[1] + b[1]]):
            continue
        path = ml.rand_path(rng)
        sa, sb, pl = ml.side_sx(a), ml.side_sx(b), canon(path)
        chk.count(("raw", a, b, path))
        desc += [("regex", a), ("match", a, path), ("sub", a, b, path)]
        impl += [ml.impl_regex(a), ml.impl_match(a, path), ml.impl_sub(a, b, path)]
        reqs += [(1, sa), (2, sa + [pl]), (3, sa + sb + [pl])]
        m = impl[-2]
        chk.hist("raw_match", "raise-%s" % (m[1],) if m[0] else ("match" if m[1] else "none"))
        if m[0] == 0 and m[1]:
            ml.check_prefix(chk, a, path, "raw")
    if model:
        outs = model.call(reqs)
        chk.correspond("MATCHER-raw", desc, impl, outs)


def replay(chk, path):
    data = json.load(open(path))
    rc = 0
    for f in data.get("failures", []):
        c = f["case"]
        print("case", json.dumps(c, ensure_ascii=True)[:600])
        if "a" in c and "b" in c:
            a = (c["a"][0], [tuple(x) for x in c["a"][1]], c["a"][2])
            b = (c["b"][0], [tuple(x) for x in c["b"][1]], c["b"][2])
            before = len(chk.failures) + sum(v["n"] for v in chk.known_seen.values())
            oracle_roundtrip(chk, None, a, b, c["path"], f["signature"])
            after = len(chk.failures) + sum(v["n"] for v in chk.known_seen.values())
            print(" ->", "still fails" if after > before else "passes now")
            rc |= after > before
        else:
            rc = 1
    for d in data.get("disagreements", []):
        print("disagreement", json.dumps(d, ensure_ascii=True)[:600])
        rc = 1
    return int(rc)
