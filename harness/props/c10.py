"""C10 — summaries count every event once; quiet hides only details; exit = errors.

Suites
  TREE       exhaustive insertion orders over small path sets (prefix-free and
             not), leaves as plain str and as paths.File, plus the private
             __get on empty parts; toJSON / getContent / flattened association
  OBSERVER   random notification histories (<= 40 events) over path sets with
             shared directory prefixes, quiet 0-4, one to three project
             observers with verdict-table filters: every return value, toJSON
             of the list's own observer and of every project observer, the
             error flags, serializeDetails (parsed back into lines)
  CLI        whole CompareLocales().handle(...) runs on generated project trees
             (.properties and Fluent files, entities with two or more errors)
             in a temporary directory, each without and with a merge stage at
             three quiet levels, with the locales given explicitly, not at all
             (taken from one or two configs that enable the same locales) or
             with repeats, and also through compareProjects directly (TOML
             configs, programmatic configs whose path entries carry `module`,
             a legacy l10n.ini application); .po files with (msgid, msgctxt)
             keys; the TEXT output (details tree and summary rows) is checked; exit status, JSON output, and the model fed
             the recorded event stream
Oracle (implementation only): the expected summaries are computed from the
event list by construction; every detail must sit under exactly the path of the
file it was raised for; re-running the same history at every quiet level must
leave summaries and error flag unchanged and only remove details; the list's
return value is ignore iff every project observer ignores, error if any says
error; exit status 1 iff errors were counted unless return_zero; summaries,
details, error flag and exit status are identical with and without --merge.
"""
import contextlib
import io
import itertools
import json
import os
import shutil
import tempfile

from harness import common
from harness.common import Model, s2l

FACTS = ("c10",)

RULE = ("a case is one insertion history (TREE), one notification history with its observer "
        "configuration (OBSERVER) or one generated project tree with its command line (CLI); "
        "distinct by the full rendered input; non-trivial = at least one insertion / event / file")

CATS = ["missingFile", "obsoleteFile", "missingEntity", "obsoleteEntity", "error", "warning"]
SUMMARY_KEYS = ["errors", "warnings", "missing", "missing_w", "report", "obsolete",
                "changed", "changed_w", "unchanged", "unchanged_w", "keys"]
VERDICT = {"error": 0, "warning": 1, "ignore": 2}
VNAME = {0: "error", 1: "warning", 2: "ignore"}
EXC = {"TypeError": 1, "IndexError": 2, "KeyError": 3, "AssertionError": 4, "UnboundLocalError": 8}

SEG_POOL = ["a", "ab", "b", "browser", "chrome", "de", "dir", "en-US", "f.ftl", "fr",
            "g.properties", "locales", "m", "sub", "toolkit", "x", "y.dtd", "z"]


# ------------------------------------------------------------ rendering ---
class LStr(str):
    """a plain-str leaf for Tree.__getitem__ that also has the .locale the
    Observer reads"""
    locale = None


def vcode(rv):
    if rv in VERDICT:
        return VERDICT[rv]
    assert isinstance(rv, str) and rv.startswith("other"), rv
    return 3 + int(rv[5:])


def vname(code):
    return VNAME.get(code) or "other%d" % (code - 3)


def data_py(d):
    """wire data -> Python value"""
    if d == []:
        return None
    kind, n = d
    if kind == 0:
        return "" if n == 0 else "s%d" % n
    return ("po%d" % n, None if n % 2 else "ctx%d" % n)


def data_wire(v):
    if v is None:
        return []
    if isinstance(v, str):
        return [0, int(v[1:]) if v else 0]
    return [1, int(v[0][2:])]


def data_from_rendered(txt):
    """inverse of keystr / of the message text"""
    if txt == "":
        return [0, 0]
    if txt.startswith("po"):
        return [1, int(txt.split(" / ")[0][2:])]
    return [0, int(txt[1:])]


def seg_name(case, i):
    return None if i == 0 else case["segs"][i - 1]


def seg_ids(case, names):
    idx = case.setdefault("_idx", {s: i + 1 for i, s in enumerate(case["segs"])})
    return [idx.get(s, -1) for s in names]


def make_leaf(case, f, fid=None):
    """file record [locale id, leaf wire] -> Python object"""
    from compare_locales.paths import File
    loc, leaf = f
    join = lambda ids: "/".join(seg_name(case, i) for i in ids)  # noqa
    if leaf[0] == 0:
        module = join(leaf[1][0]) if leaf[1] else None
        obj = File("/full/" + join(leaf[2]), join(leaf[2]), module=module,
                   locale=seg_name(case, loc))
    else:
        obj = LStr(join(leaf[1]))
        obj.locale = seg_name(case, loc)
    obj._fid = fid
    return obj


def parts_of(f):
    """the path the detail must end up under (statement side, ids)"""
    loc, leaf = f
    if leaf[0] == 0:
        return ([loc] + list(leaf[1][0]) if leaf[1] else []) + list(leaf[2])
    return list(leaf[1])


# ----------------------------------------------------- canonicalisation ---
def canon_item(it):
    ((cat, payload),) = it.items()
    i = CATS.index(cat)
    return [i, vcode(payload) if i < 2 else data_wire(payload)]


def canon_json(case, js, item=canon_item):
    if isinstance(js, list):
        return [0, [item(it) for it in js]]
    return [1, [[seg_ids(case, k.split("/")), canon_json(case, v, item)] for k, v in js.items()]]


def flat_json(js, prefix=()):
    """toJSON details -> {full path tuple: value list}"""
    if isinstance(js, list):
        return {prefix: js}
    out = {}
    for k, v in js.items():
        for p, val in flat_json(v, prefix + tuple(k.split("/"))).items():
            while p in out:                 # the same path twice: keep both, the oracle
                p = p + ("<again>",)        # then reports the mismatch
            out[p] = val
    return out


def canon_summary(case, summary):
    return [[0 if loc is None else seg_ids(case, [loc])[0],
             [[s2l(k), n] for k, n in c.items()]] for loc, c in summary.items()]


def canon_observer(case, o):
    js = o.toJSON()
    return [canon_summary(case, js["summary"]), canon_json(case, js["details"]), int(bool(o.error))]


MARKS = [("ERROR: ", 1), ("WARNING: ", 2), ("+", 3), ("-", 4)]


def parse_serialized(case, text):
    if text == "":
        return []
    lines = []
    for line in text.split("\n"):
        indent = 0
        while line.startswith("  "):
            indent += 1
            line = line[2:]
        if line == "// add and localize this file":
            lines.append([indent, 5, []])
        elif line == "// remove this file":
            lines.append([indent, 6, []])
        else:
            for mark, kind in MARKS:
                if line.startswith(mark):
                    lines.append([indent, kind, data_from_rendered(line[len(mark):])])
                    break
            else:
                lines.append([indent, 0, seg_ids(case, line.split("/"))])
    return lines


def exc_code(e):
    """small tag enum of common.TAGS; 99 = an exception the model has no tag for
    (always a disagreement and, on oracle cases, a failure)"""
    return EXC.get(type(e).__name__, 99)


# ------------------------------------------------------------- TREE -------
def tree_impl(case):
    from compare_locales.compare.utils import Tree
    t = Tree(list)
    try:
        for loc, leaf, xs in case["ops"]:
            if leaf == [1, []]:
                lst = t._Tree__get([])          # the private walk on empty parts
            else:
                lst = t[make_leaf(case, [loc, leaf])]
            lst.extend(xs)
        js = canon_json(case, t.toJSON(), item=lambda x: x)
        rows, flat, path = [], [], []
        for depth, flag, kv in t.getContent():
            if flag == "key":
                del path[depth:]
                path.append(seg_ids(case, kv))
                rows.append([depth, 1, seg_ids(case, kv)])
            else:
                del path[depth:]
                rows.append([depth, 0, list(kv)])
                flat.append([[s for k in path for s in k], list(kv)])
        return [0, [js, rows, sorted(flat)]]
    except Exception as e:  # noqa
        return [1, exc_code(e)]


def prefix_free(paths):
    ps = set(map(tuple, paths))
    return not any(p != q and q[:len(p)] == p for p in ps for q in ps)


def tree_oracle(chk, case, out):
    """flattened toJSON == the association path -> appended values, in order"""
    paths = [parts_of([loc, leaf]) for loc, leaf, _ in case["ops"]]
    if not all(paths) or not prefix_free(paths):
        return
    if out[0] != 0:
        _fail(chk, "tree-raises", case_public(case), out)
        return
    exp = {}
    for p, (_, _, xs) in zip(paths, case["ops"]):
        exp.setdefault(tuple(p), []).extend(xs)
    js, rows, flat = out[1]

    def fl(j, pre=()):
        if j[0] == 0:
            return {pre: j[1]}
        d = {}
        for k, v in j[1]:
            d.update(fl(v, pre + tuple(k)))
        return d
    got = fl(js)
    if got != exp or len(got) != len(exp):
        _fail(chk, "tree-detail-misplaced", case_public(case), {"toJSON": got, "expected": exp})
    if sorted(flat) != sorted([list(k), v] for k, v in exp.items()):
        _fail(chk, "tree-content-misplaced", case_public(case), {"getContent": flat, "expected": exp})
    # invariant: sibling keys non-empty with pairwise distinct first segments

    def inv(j):
        if j[0] == 0:
            return True
        heads = [k[0] if k else None for k, _ in j[1]]
        return None not in heads and len(set(heads)) == len(heads) and all(inv(v) for _, v in j[1])
    if not inv(js):
        _fail(chk, "tree-invariant", case_public(case), {"toJSON": js})


def _fail(chk, signature, case, detail):
    chk.fail(signature, jsonable(case), jsonable(detail))


def jsonable(x):
    """dict keys -> str, tuples -> lists (replay files are JSON)"""
    if isinstance(x, dict):
        return {str(k): jsonable(v) for k, v in x.items()}
    if isinstance(x, (list, tuple)):
        return [jsonable(v) for v in x]
    return x


def case_public(case):
    return {k: v for k, v in case.items() if not k.startswith("_")}


def tree_cases(chk):
    rng = chk.rng
    cases = []
    segs = ["", "a", "b", "c"]          # ids 1..4 ("" sorts first)
    # all paths over {a, b} up to depth 3, plus a few with c and ""
    uni = [list(p) for d in (1, 2, 3) for p in itertools.product((2, 3), repeat=d)]
    sets = []
    for n in (1, 2, 3):
        for comb in itertools.combinations(uni, n):
            sets.append(list(comb))
    for comb in itertools.combinations(uni, 4):
        if prefix_free(comb) and rng.random() < chk.n(0.15, 1.0):
            sets.append(list(comb))
    for paths in sets:
        pf = prefix_free(paths)
        orders = set(itertools.permutations(range(len(paths))))
        if len(paths) <= 3:
            # also one repeated insertion in every position
            orders |= {o[:i] + (o[j],) + o[i:] for o in list(orders)
                       for i in range(len(o) + 1) for j in range(len(o))} if len(paths) <= 2 or pf else set()
        if not pf and len(paths) == 3 and rng.random() > chk.n(0.25, 1.0):
            continue
        for o in sorted(orders):
            ops = [[0, [1, paths[i]], [10 * (n + 1) + i]] for n, i in enumerate(o)]
            cases.append({"segs": segs, "ops": ops})
    # random longer histories, mixed leaf kinds, bare lookups, "" segments
    for _ in range(chk.n(1500, 20000)):
        pool = [2, 3, 4][:rng.randint(2, 3)]
        if rng.random() < 0.2:
            pool = [1] + pool                      # the empty segment ("a//b", "")
        paths = gen_paths(rng, pool, rng.randint(1, 6), 5, rng.random() < 0.8)
        files = [leaf_for(rng, p, [2, 3, 4], empty=1) for p in paths]
        ops = []
        for n in range(rng.randint(1, 12)):
            loc, leaf = rng.choice(files)
            ops.append([loc, leaf, [] if rng.random() < 0.1 else [n]])
        cases.append({"segs": segs, "ops": ops})
    # the private __get on empty parts (what `i` is when the zip is empty)
    for pre in ([], [[0, [1, [2]], [1]]], [[0, [1, [2, 3]], [1]], [0, [1, [3]], [2]]]):
        cases.append({"segs": segs, "ops": pre + [[0, [1, []], [9]]]})
        cases.append({"segs": segs, "ops": pre + [[0, [1, []], [9]], [0, [1, [2, 2]], [5]]]})
    return cases


def gen_paths(rng, seg_ids_, n, maxdepth, want_prefix_free):
    paths = []
    for _ in range(n):
        depth = rng.randint(1, maxdepth)
        p = []
        if paths and rng.random() < 0.75:
            base = rng.choice(paths)
            p = list(base[:rng.randint(0, len(base))])
        while len(p) < depth or not p:
            p.append(rng.choice(seg_ids_))
        if p not in paths:
            paths.append(p)
    if want_prefix_free:
        paths = [p for p in paths if not any(q != p and q[:len(p)] == p for q in paths)]
    return paths


def leaf_for(rng, p, locale_ids, empty=None):
    """[locale id, leaf wire] whose Tree parts are exactly p"""
    r = rng.random()
    if r < 0.35 and len(p) >= 3:
        j = rng.randint(2, len(p) - 1)
        if p[1:j] != [empty]:                      # module "" would be falsy
            return [p[0], [0, [p[1:j]], p[j:]]]
    if r < 0.7:
        return [rng.choice(locale_ids + [0]), [0, [], p]]
    return [rng.choice(locale_ids), [1, p]]


def run_tree(chk, model):
    cases = tree_cases(chk)
    impl = []
    for c in cases:
        out = tree_impl(c)
        impl.append(out)
        chk.count(("tree", c["ops"]))
        chk.hist("tree_ops", len(c["ops"]))
        chk.hist("tree_result", "ok" if out[0] == 0 else "raise%d" % out[1])
        tree_oracle(chk, c, out)
    chk.sample({"suite": "TREE", "ops": cases[len(cases) // 2]["ops"], "impl": impl[len(cases) // 2]})
    if model:
        outs = model.call([(0, c["ops"]) for c in cases])
        for o in outs:
            if o[0] == 0:
                o[1][2] = sorted(o[1][2])
        chk.correspond("TREE", cases, impl, outs, describe=case_public)


# ----------------------------------------------------------- OBSERVER -----
def gen_observer_case(rng, idx):
    nseg = rng.randint(3, 8)
    segs = sorted(rng.sample(SEG_POOL, nseg))
    ids = list(range(1, nseg + 1))
    pf = rng.random() < 0.85
    paths = gen_paths(rng, ids, rng.randint(1, 7), 5, pf)
    files = []
    for p in paths:
        files.append(leaf_for(rng, p, ids))
        if rng.random() < 0.15:
            files.append(leaf_for(rng, p, ids))     # a second object for the same path
    q = rng.randint(0, 4)
    strict = rng.random() < 0.8      # only well-typed events and 3-valued filters
    confs = []
    for _ in range(rng.choice([0, 1, 1, 1, 2, 2, 3]) if not strict else rng.choice([1, 1, 2, 3])):
        quiet = q if rng.random() < 0.85 else rng.randint(0, 4)
        if rng.random() < 0.2:
            confs.append([quiet, []])
            continue
        weights = rng.choice([[6, 2, 2], [2, 2, 6], [1, 6, 3], [4, 3, 3]])
        pick = lambda: rng.choices([0, 1, 2], weights)[0] if strict or rng.random() < 0.9 \
            else 3 + rng.randint(0, 1)  # noqa
        table = []
        for fid in range(len(files)):
            for d in [[]] + [[0, n] for n in range(0, 5)] + [[1, n] for n in range(1, 3)]:
                if rng.random() < 0.3:
                    table.append([fid, d, pick()])
        confs.append([quiet, [[pick(), table]]])
    events = []
    for _ in range(rng.randint(1, 40)):
        fid = rng.randrange(len(files))
        r = rng.random()
        if r < 0.15:
            keys = rng.sample(SUMMARY_KEYS[2:], rng.randint(0, 4))
            if not strict and rng.random() < 0.15:
                keys.insert(rng.randint(0, len(keys)), "bogus")
            if not strict and rng.random() < 0.15:
                keys.append("errors")
            events.append([1, fid, [[k, rng.randint(0, 5)] for k in keys]])
            continue
        cat = rng.choices(CATS + ["other"], [2, 2, 3, 3, 4, 4, 0 if strict else 1])[0]
        if cat in ("missingFile", "obsoleteFile"):
            d = []
        elif cat in ("missingEntity", "obsoleteEntity"):
            d = [1, rng.randint(1, 2)] if rng.random() < 0.2 else [0, rng.randint(1, 4)]
            if not strict and rng.random() < 0.05:
                d = []
        else:
            d = [0, rng.randint(0, 4)]
            if not strict and rng.random() < 0.05:
                d = rng.choice([[], [1, 1]])
        events.append([0, cat, fid, d])
    return {"i": idx, "segs": segs, "files": files, "quiet": q, "confs": confs, "events": events,
            "strict": strict, "prefix_free": prefix_free([parts_of(f) for f in files])}


def mk_filter(spec):
    if not spec:
        return None
    dflt, table = spec[0]
    tbl = {}
    for fid, d, v in table:
        tbl.setdefault((fid, json.dumps(d)), v)

    def flt(file, entity=None):
        return vname(tbl.get((file._fid, json.dumps(data_wire(entity))), dflt))
    return flt


def observer_impl(case, q=None, shift=0):
    """run the history; q overrides the quiet level of the list and of every
    observer configured with the list's level"""
    from compare_locales.compare.observer import Observer, ObserverList
    q0 = case["quiet"]
    q = q0 if q is None else q
    files = [make_leaf(case, f, i) for i, f in enumerate(case["files"])]
    ol = ObserverList(quiet=q)
    for quiet, spec in case["confs"]:
        ol.append(Observer(quiet=q if quiet == q0 else quiet, filter=mk_filter(spec)))
    outs = []
    for ev in case["events"]:
        try:
            if ev[0] == 0:
                rv = ol.notify(ev[1], files[ev[2]], data_py(ev[3]))
                outs.append([0, vcode(rv)])
            else:
                ol.updateStats(files[ev[1]], {k: n for k, n in ev[2]})
                outs.append([1])
        except Exception as e:  # noqa
            outs.append([2, exc_code(e)])
    return ol, outs


def observer_canon(case, ol, outs):
    try:
        ser = [0, parse_serialized(case, ol.serializeDetails())]
    except Exception as e:  # noqa
        ser = [1, exc_code(e)]
    err = int(bool(ol.error))
    return [outs, canon_observer(case, ol), [canon_observer(case, o) for o in ol.observers],
            ser, [err, 0]]


def canon_summaries(case, ol):
    """ObserverList.serializeSummaries as the model prints it: [0, lines] with a
    line [0, locale id] (header) or [1, code points], or [1, exception code].
    A file without locale (None, id 0) gets no header and makes `sorted` raise
    TypeError when another locale was counted too: modelled."""
    try:
        text = ol.serializeSummaries()
    except Exception as e:  # noqa
        return [1, exc_code(e)]
    lines = []
    for line in (text.split("\n") if text else []):
        if line.endswith(":") and line[:-1] in case["segs"]:
            lines.append([0, seg_ids(case, [line[:-1]])[0]])
        else:
            lines.append([1, s2l(line)])
    return [0, lines]


def summaries_oracle(chk, case, ol):
    """implementation-only: the printed block read back cell by cell equals the
    counters of the observers (columns: projects in order, then the list itself
    when there are several); the percent line is floor(100 changed / total) of
    the last column; locales ascending, each once"""
    if not ol.observers or any(loc is None for loc in ol.summary.keys()):
        return
    keys = ("errors", "warnings", "missing", "missing_w", "obsolete", "changed", "changed_w",
            "unchanged", "unchanged_w", "keys")
    text = ol.serializeSummaries()
    cols_of = lambda loc: [o.summary.get(loc, {}) for o in ol.observers] + \
        ([ol.summary[loc]] if len(ol.observers) > 1 else [])  # noqa
    blocks, cur = [], None
    for line in (text.split("\n") if text else []):
        if line.endswith(":") and line[:-1] in case["segs"]:
            cur = [line[:-1], {}, None]
            blocks.append(cur)
        elif cur is None:
            return _fail(chk, "summary-text-shape", case_public(case), {"text": text})
        elif line.endswith("% of entries changed"):
            cur[2] = int(line[:line.index("%")])
        else:
            name = line[:12].rstrip()
            cells = [line[12 + 7 * i: 19 + 7 * i] for i in range((len(line) - 12) // 7)]
            cur[1][name] = [int(c) if c.strip() else 0 for c in cells]
    locs = [b[0] for b in blocks]
    if locs != sorted(ol.summary.keys()):
        return _fail(chk, "summary-text-locales", case_public(case),
                     {"text": text, "expected": sorted(ol.summary.keys())})
    for loc, rows_, rate in blocks:
        cols = cols_of(loc)
        for k in keys:
            want = [c.get(k, 0) for c in cols]
            got = rows_.get(k, [0] * len(cols))
            if got != want or ((k in rows_) != any(want)):
                return _fail(chk, "summary-text-cell", case_public(case),
                             {"locale": loc, "key": k, "printed": rows_.get(k), "counted": want, "text": text})
        if set(rows_) - set(keys):
            return _fail(chk, "summary-text-extra-row", case_public(case), {"text": text})
        last = cols[-1]
        total = sum(last.get(k, 0) for k in ("changed", "unchanged", "report", "missing"))
        if rate != (last.get("changed", 0) * 100 // total if total else 0):
            return _fail(chk, "summary-text-rate", case_public(case),
                         {"locale": loc, "printed": rate, "last column": dict(last), "text": text})


def observer_wire(case):
    files = [[i, f[0], f[1]] for i, f in enumerate(case["files"])]
    evs = []
    for ev in case["events"]:
        if ev[0] == 0:
            evs.append([0, ev[1], files[ev[2]], ev[3]])
        else:
            evs.append([1, files[ev[1]], [[k, n] for k, n in ev[2]]])
    return [case["quiet"], case["confs"], evs]


def shown(q, cat):
    """what the documentation of -q says is displayed"""
    return {"obsoleteEntity": q < 1, "obsoleteFile": q < 1, "missingEntity": q < 2,
            "missingFile": q < 2, "warning": q < 3, "error": q < 4}[cat]


def verdicts_for(case, ev):
    """what each project observer's filter says about the event"""
    out = []
    for _, spec in case["confs"]:
        if not spec:
            out.append(0)
            continue
        dflt, table = spec[0]
        d = [] if ev[1] in ("missingFile", "obsoleteFile") else ev[3]
        v = dflt
        for fid, dd, vv in table:
            if fid == ev[2] and dd == d:
                v = vv
                break
        out.append(v)
    return out


def expected_observer(case, q):
    """summaries, details (path -> items) and error flags by construction, for
    the list's own observer (index -1) and every project observer"""
    n = len(case["confs"])
    exp = {i: {"summary": {}, "details": {}, "error": False} for i in list(range(n)) + [-1]}
    rets = []

    def bump(i, loc, key, k):
        exp[i]["summary"].setdefault(loc, dict.fromkeys(SUMMARY_KEYS, 0))[key] += k

    def detail(i, f, item, quiet, cat):
        if shown(quiet, cat):
            exp[i]["details"].setdefault(tuple(parts_of(f)), []).append(item)
    q0 = case["quiet"]
    quiets = [q if c[0] == q0 else c[0] for c in case["confs"]]
    for ev in case["events"]:
        if ev[0] == 1:
            f = case["files"][ev[1]]
            for i, (_, spec) in enumerate(case["confs"]):
                if spec:
                    dflt, table = spec[0]
                    v = next((vv for fid, dd, vv in table if fid == ev[1] and dd == [0, 0]), dflt)
                    if v == 2:
                        continue
                for k, cnt in ev[2]:
                    bump(i, f[0], k, cnt)
            for k, cnt in ev[2]:
                bump(-1, f[0], k, cnt)
            rets.append([1])
            continue
        _, cat, fid, d = ev
        f = case["files"][fid]
        vs = verdicts_for(case, ev)
        targets = [(i, v, quiets[i]) for i, v in enumerate(vs) if v != 2]
        if targets:
            targets.append((-1, 0, q))
        for i, v, quiet in targets:
            if cat in ("missingFile", "obsoleteFile"):
                detail(i, f, [CATS.index(cat), v], quiet, cat)
            else:
                detail(i, f, [CATS.index(cat), d], quiet, cat)
                if cat in ("error", "warning"):
                    bump(i, f[0], cat + "s", 1)
                if cat == "error":
                    exp[i]["error"] = True
        rets.append([0, 2 if not targets else 0 if 0 in vs else 1])
    return exp, rets


def flat_canon(case, js):
    return {tuple(seg_ids(case, list(p))): [canon_item(it) for it in v]
            for p, v in flat_json(js).items()}


def is_subseq(a, b):
    it = iter(b)
    return all(any(x == y for y in it) for x in a)


def observer_oracle(chk, case, ol, outs):
    """implementation-only statement of the property on a strict, prefix-free case"""
    q = case["quiet"]
    exp, rets = expected_observer(case, q)
    pub = case_public(case)
    if outs != rets:
        _fail(chk, "fanout-verdict", pub, {"returned": outs, "expected": rets})
    everyone = [(-1, ol)] + list(enumerate(ol.observers))
    for i, o in everyone:
        js = o.toJSON()
        got = {(0 if loc is None else seg_ids(case, [loc])[0]): dict(c) for loc, c in js["summary"].items()}
        if got != exp[i]["summary"]:
            _fail(chk, "summary-count", pub, {"observer": i, "summary": got, "expected": exp[i]["summary"]})
        if bool(o.error) != exp[i]["error"]:
            _fail(chk, "error-flag", pub, {"observer": i, "error": o.error, "expected": exp[i]["error"]})
        if flat_canon(case, js["details"]) != exp[i]["details"]:
            _fail(chk, "detail-misplaced", pub, {"observer": i, "details": js["details"],
                                               "expected": {str(k): v for k, v in exp[i]["details"].items()}})
    errors = sum(c["errors"] for c in exp[-1]["summary"].values())
    if bool(ol.error) != (errors > 0):
        _fail(chk, "exit-vs-errors", pub, {"error": ol.error, "errors_counted": errors})
    # quiet: same history at every level
    prev = None
    for lvl in range(0, 5):
        ol2, outs2 = observer_impl(case, q=lvl)
        snap = []
        for o in [ol2] + list(ol2.observers):
            js = o.toJSON()
            snap.append((repr(sorted((str(l), sorted(c.items())) for l, c in js["summary"].items())),
                         bool(o.error),
                         flat_json(js["details"])))
        if outs2 != outs:
            _fail(chk, "quiet-changes-verdict", pub, {"quiet": lvl})
        if prev is not None:
            for (s0, e0, d0), (s1, e1, d1) in zip(prev, snap):
                if s0 != s1 or e0 != e1:
                    _fail(chk, "quiet-changes-summary", pub, {"quiet": lvl, "before": s0, "after": s1})
                if not all(p in d0 and is_subseq(v, d0[p]) for p, v in d1.items()):
                    _fail(chk, "quiet-adds-detail", pub, {"quiet": lvl, "before": str(d0), "after": str(d1)})
        prev = snap


def run_observer(chk, model):
    rng = chk.rng
    cases = [gen_observer_case(rng, i) for i in range(chk.n(2500, 40000))]
    impl, summ = [], []
    for c in cases:
        ol, outs = observer_impl(c)
        impl.append(observer_canon(c, ol, outs))
        summ.append(canon_summaries(c, ol))
        chk.hist("summaries_text", "raise%d" % summ[-1][1] if summ[-1][0]
                 else "lines%d" % (len(summ[-1][1]) // 5 * 5))
        chk.hist("summaries_text_locale_None", any(loc is None for loc in ol.summary.keys()))
        if c["strict"] and c["prefix_free"]:
            summaries_oracle(chk, c, ol)
        chk.count(("obs", c["files"], c["quiet"], c["confs"], c["events"]))
        chk.hist("observer_events", len(c["events"]) // 10 * 10)
        chk.hist("observer_quiet", c["quiet"])
        chk.hist("observers", len(c["confs"]))
        for o in outs:
            chk.hist("observer_outcome", {0: "verdict", 1: "none"}.get(o[0]) or "raise%d" % o[1])
        chk.hist("serialize", "ok" if impl[-1][3][0] == 0 else "raise%d" % impl[-1][3][1])
        if c["strict"] and c["prefix_free"] and c["confs"] \
                and all(cf[0] == c["quiet"] for cf in c["confs"]):
            chk.hist("observer_oracle", "checked")
            observer_oracle(chk, c, ol, outs)
    k = next((i for i, c in enumerate(cases) if 4 <= len(c["events"]) <= 7 and c["strict"]), 0)
    chk.sample({"suite": "OBSERVER", "case": case_public(cases[k]), "impl": impl[k]})
    if model:
        outs = model.call([(1, observer_wire(c)) for c in cases])
        chk.correspond("OBSERVER", cases, impl, [o[:5] for o in outs], describe=case_public)
        keep = [i for i, x in enumerate(summ) if x is not None]
        chk.correspond("SUMMARIES-TEXT", [cases[i] for i in keep], [summ[i] for i in keep],
                       [outs[i][6] for i in keep], describe=case_public)
        names = CATS + ["other", "errors", ""]
        got = model.call([(2, nm) for nm in names])
        chk.correspond("CATEGORY-NAMES", names, [0, 1, 2, 3, 4, 5, 6, 6, 6], got)


# ---------------------------------------------------------------- CLI -----
FTL_ATTRS = ["label", "title", "tooltip"]


def gen_project(rng):
    locales = sorted(rng.sample(["de", "fr", "ja"], rng.randint(1, 3)))
    nconf = rng.choice([1, 1, 2])
    dirs = ["browser", "browser/sub", "toolkit", "toolkit/x/y", "mail"]
    configs = []
    used = set()
    for ci in range(nconf):
        top = "p%d" % ci
        files = {}
        for _ in range(rng.randint(1, 3)):
            kind = rng.choices(["properties", "ftl", "po"], [4, 4, 3])[0]
            ftl, po = kind == "ftl", kind == "po"
            rel = top + "/" + rng.choice(dirs) + "/" + rng.choice(["a", "b", "c"]) + "." + kind
            if rel in used:
                continue
            used.add(rel)
            keys = ["k%d" % i for i in range(1, rng.randint(2, 6))]
            # words, has %S (properties), attributes (Fluent)
            ref = {k: (rng.randint(1, 3), kind == "properties" and rng.random() < 0.3,
                       rng.sample(FTL_ATTRS, rng.randint(0, 3)) if ftl else []) for k in keys}
            # .po: the key is the tuple (msgid, msgctxt)
            ctx = {k: ("ctx%d" % n if po and rng.random() < 0.5 else None)
                   for n, k in enumerate(keys + ["o0", "o1"])}
            per_locale = {}
            for loc in locales:
                r = rng.random()
                if r < 0.2:
                    per_locale[loc] = None                                        # missing file
                    continue
                ent = {}
                for k in keys:
                    ent[k] = rng.choices(["same", "changed", "missing", "nofmt", "noattr"],
                                         [3, 3, 2, 1, 3 if ftl else 0])[0]
                    if ent[k] == "nofmt" and not ref[k][1]:
                        ent[k] = "changed"
                    if ent[k] == "noattr":
                        # the localized message lacks n >= 1 attributes: n errors on ONE entity
                        n = rng.randint(1, len(ref[k][2])) if ref[k][2] else 0
                        ent[k] = "noattr%d" % n if n else "changed"
                per_locale[loc] = {"ent": ent, "obsolete": ["o%d" % i for i in range(rng.randint(0, 2))],
                                   "junk": int(kind == "properties" and rng.random() < 0.3),
                                   "dup": kind == "properties" and rng.random() < 0.2}
            files[rel] = {"ref": ref, "l10n": per_locale, "kind": kind, "ctx": ctx}
        obsolete_files = {}
        for loc in locales:
            if rng.random() < 0.25:
                obsolete_files[loc] = top + "/" + rng.choice(dirs) + "/gone.properties"
        filters = []
        for rel, fd in files.items():
            if rng.random() < 0.35 and fd["kind"] != "po":
                filters.append({"rel": rel, "key": rng.choice(sorted(fd["ref"])),
                                "action": rng.choice(["ignore", "warning"])})
            if rng.random() < 0.15:
                filters.append({"rel": rel, "key": None, "action": "ignore"})
        configs.append({"top": top, "files": files, "obsolete_files": obsolete_files,
                        "filters": filters})
    return {"locales": locales, "configs": configs, "quiet": rng.randint(0, 4),
            "return_zero": rng.random() < 0.3}


def value(words, fmt, changed):
    ws = [("Wort%d" if changed else "Word%d") % i for i in range(words)]
    return " ".join(ws + (["%S"] if fmt else []))


def entry(k, w, fmt, attrs, changed, fd=None, same=False):
    """one entity in file syntax (.properties line, Fluent message with
    attributes, or gettext message)"""
    if fd is not None and fd.get("kind") == "po":
        ctx = fd["ctx"].get(k)
        return ('msgctxt "%s"\n' % ctx if ctx else "") + 'msgid "%s"\nmsgstr "%s"\n\n' % (
            po_msgid(k, w), value(w, False, True) if changed else "")
    return "%s = %s\n" % (k, value(w, fmt, changed)) + "".join("    .%s = Attr\n" % a for a in attrs)


def po_msgid(k, w):
    return k + " " + value(w, False, False)


def entity_key(fd, k, w=0):
    """the key as notify sees it (and as JSON shows it)"""
    if fd.get("kind") == "po":
        return [po_msgid(k, w) if k in fd["ref"] else k + " Obsolete", fd["ctx"].get(k)]
    return k


def lost_attrs(how):
    return int(how[6:]) if how.startswith("noattr") else 0


def dup_key(st):
    """the key written twice (an error of its own), if any"""
    present = [k for k, how in st["ent"].items() if how != "missing"]
    return present[:1] if st.get("dup") else []


def write_project(root, proj):
    paths = []
    for ci, cfg in enumerate(proj["configs"]):
        lines = ['basepath = "."', "locales = [%s]" % ", ".join('"%s"' % l for l in proj["locales"]),
                 "[[paths]]", '  reference = "en/%s/**"' % cfg["top"],
                 '  l10n = "{l10n_base}/{locale}/%s/**"' % cfg["top"]]
        for flt in cfg["filters"]:
            lines += ["[[filters]]", '  path = "{l10n_base}/{locale}/%s"' % flt["rel"]]
            if flt["key"]:
                lines.append('  key = "%s"' % flt["key"])
            lines.append('  action = "%s"' % flt["action"])
        p = os.path.join(root, "l10n%d.toml" % ci)
        with open(p, "w") as f:
            f.write("\n".join(lines) + "\n")
        paths.append(p)
        for rel, fd in cfg["files"].items():
            rp = os.path.join(root, "en", rel)
            os.makedirs(os.path.dirname(rp), exist_ok=True)
            with open(rp, "w") as f:
                for k, (w, fmt, attrs) in fd["ref"].items():
                    f.write(entry(k, w, fmt, attrs, False, fd))
            for loc, st in fd["l10n"].items():
                if st is None:
                    continue
                lp = os.path.join(root, "l10n", loc, rel)
                os.makedirs(os.path.dirname(lp), exist_ok=True)
                with open(lp, "w") as f:
                    for k, how in st["ent"].items():
                        w, fmt, attrs = fd["ref"][k]
                        if how == "same":
                            f.write(entry(k, w, fmt, attrs, False, fd))
                        elif how == "changed":
                            f.write(entry(k, w, fmt, attrs, True, fd))
                        elif how == "nofmt":
                            f.write(entry(k, w, False, attrs, True, fd))
                        elif lost_attrs(how):
                            f.write(entry(k, w, fmt, attrs[lost_attrs(how):], True, fd))
                    for j in range(st["junk"]):
                        f.write("junk line %d\n" % j)
                    for k in dup_key(st):
                        w, fmt, _ = fd["ref"][k]
                        f.write("%s = %s\n" % (k, value(w, fmt and st["ent"][k] != "nofmt",
                                                         st["ent"][k] != "same")))
                    for o in st["obsolete"]:
                        if fd.get("kind") == "po":
                            c = fd["ctx"].get(o)
                            f.write(('msgctxt "%s"\n' % c if c else "") +
                                    'msgid "%s Obsolete"\nmsgstr "Alt"\n\n' % o)
                        else:
                            f.write("%s = Obsolete\n" % o)
        for loc, rel in cfg["obsolete_files"].items():
            lp = os.path.join(root, "l10n", loc, rel)
            os.makedirs(os.path.dirname(lp), exist_ok=True)
            with open(lp, "w") as f:
                f.write("x = y\n")
    os.makedirs(os.path.join(root, "l10n"), exist_ok=True)
    for loc in proj["locales"]:
        os.makedirs(os.path.join(root, "l10n", loc), exist_ok=True)
    return paths


def expected_cli(proj, q):
    """per config: {locale: counters}, {detail path: multiset of items}; by construction"""
    out = []
    for cfg in proj["configs"]:
        summ = {}
        details = {}

        def bump(loc, k, n=1):
            summ.setdefault(loc, dict.fromkeys(SUMMARY_KEYS, 0))[k] += n

        def detail(loc, rel, item, cat):
            if shown(q, cat):
                details.setdefault(loc + "/" + rel, []).append(item)
        for rel, fd in cfg["files"].items():
            key_action = {f["key"]: f["action"] for f in cfg["filters"] if f["rel"] == rel and f["key"]}
            file_ignored = any(f["rel"] == rel and not f["key"] for f in cfg["filters"])
            for loc, st in fd["l10n"].items():
                if st is None:
                    if file_ignored:
                        continue
                    detail(loc, rel, {"missingFile": "error"}, "missingFile")
                    bump(loc, "missing", len(fd["ref"]))
                    bump(loc, "missing_w", sum(w + (1 if fmt else 0) + len(attrs) + (fd.get("kind") == "po")
                                               for w, fmt, attrs in fd["ref"].values()))
                    continue
                bump(loc, "keys", 0)
                for k, how in st["ent"].items():
                    w, fmt, attrs = fd["ref"][k]
                    words = w + (1 if fmt else 0) + len(attrs) + (fd.get("kind") == "po")
                    if how == "missing":
                        act = key_action.get(k, "error")
                        if act == "ignore":
                            continue
                        detail(loc, rel, {"missingEntity": entity_key(fd, k, w)}, "missingEntity")
                        if act == "error":
                            bump(loc, "missing")
                            bump(loc, "missing_w", words)
                        else:
                            bump(loc, "report")
                    elif how == "same":
                        bump(loc, "unchanged")
                        bump(loc, "unchanged_w", words)
                    else:
                        bump(loc, "changed")
                        bump(loc, "changed_w", words)
                        if how == "nofmt":
                            bump(loc, "warnings")
                            detail(loc, rel, "warning", "warning")
                        for _ in range(lost_attrs(how)):      # one error per missing attribute
                            bump(loc, "errors")
                            detail(loc, rel, "error", "error")
                for o in st["obsolete"]:
                    bump(loc, "obsolete")
                    detail(loc, rel, {"obsoleteEntity": entity_key(fd, o)}, "obsoleteEntity")
                for j in range(st["junk"] + len(dup_key(st))):
                    bump(loc, "errors")
                    detail(loc, rel, "error", "error")
        for loc, rel in cfg["obsolete_files"].items():
            detail(loc, rel, {"obsoleteFile": "error"}, "obsoleteFile")
        out.append((summ, details))
    return out


class Recorder:
    """records the calls made on the ObserverList of a run (wrapping its
    methods from outside; /repo is not touched) and what each project filter
    says about them, so that the model can be fed the same event stream"""

    def __init__(self):
        self.events, self.files, self.tables, self.list = [], [], {}, None

    def fid(self, f):
        for i, g in enumerate(self.files):
            if g is f:
                return i
        self.files.append(f)
        return len(self.files) - 1

    def table(self, ol, fid, f, entity, marker):
        for i, o in enumerate(ol.observers):
            if o.filter is not None:
                rv = o.filter(f) if marker == "file" else o.filter(f, entity)
                self.tables.setdefault(i, {})[(fid, json.dumps(entity))] = rv


@contextlib.contextmanager
def recording(rec):
    from compare_locales.compare import observer as obsmod
    on, ou = obsmod.ObserverList.notify, obsmod.ObserverList.updateStats

    def notify(self, category, file, data):
        rec.list = self
        fid = rec.fid(file)
        if category in ("missingFile", "obsoleteFile"):
            rec.table(self, fid, file, None, "file")
        else:
            rec.table(self, fid, file, data, "data")
        rec.events.append(("notify", category, fid, data))
        return on(self, category, file, data)

    def update(self, file, stats):
        rec.list = self
        fid = rec.fid(file)
        rec.table(self, fid, file, "", "data")
        rec.events.append(("stats", fid, dict(stats)))
        return ou(self, file, stats)
    obsmod.ObserverList.notify, obsmod.ObserverList.updateStats = notify, update
    try:
        yield
    finally:
        obsmod.ObserverList.notify, obsmod.ObserverList.updateStats = on, ou


def cli_model_case(rec, quiet):
    """the recorded stream in wire form: segments and data get ids"""
    segs = set()
    for f in rec.files:
        segs.update(f.file.split("/"))
        if f.locale is not None:
            segs.add(f.locale)
        if f.module:
            segs.update(f.module.split("/"))
    case = {"segs": sorted(segs)}
    strs = {"": 0}

    def dw(v):
        if v is None:
            return []
        if isinstance(v, (list, tuple)):          # a .po key (msgid, msgctxt)
            return [1, strs.setdefault(tuple(v), len(strs))]
        return [0, strs.setdefault(v, len(strs))]
    files = []
    for i, f in enumerate(rec.files):
        loc = 0 if f.locale is None else seg_ids(case, [f.locale])[0]
        mod = [seg_ids(case, f.module.split("/"))] if f.module else []
        files.append([i, loc, [0, mod, seg_ids(case, f.file.split("/"))]])
    evs = []
    for ev in rec.events:
        if ev[0] == "notify":
            evs.append([0, ev[1], files[ev[2]], dw(ev[3])])
        else:
            evs.append([1, files[ev[1]], [[k, n] for k, n in ev[2].items()]])
    confs = []
    for i, o in enumerate(rec.list.observers if rec.list else []):
        if o.filter is None:
            confs.append([o.quiet, []])
        else:
            tbl = [[fid, dw(json.loads(d)), VERDICT[rv]] for (fid, d), rv in rec.tables.get(i, {}).items()]
            confs.append([o.quiet, [[0, tbl]]])
    return case, strs, [quiet, confs, evs]


def cli_canon_observer(case, strs, o):
    def item(it):
        ((cat, payload),) = it.items()
        i = CATS.index(cat)
        if i < 2:
            return [i, VERDICT[payload]]
        if payload is None:
            return [i, []]
        return [i, [1, strs[tuple(payload)]] if isinstance(payload, (list, tuple)) else [0, strs[payload]]]
    js = o.toJSON()
    return [canon_summary(case, js["summary"]), canon_json(case, js["details"], item), int(bool(o.error))]


def cli_locales(proj, mode, rng=None):
    """the locale arguments of a run: the project's locales (plain), none at all
    (taken from the configs, which all enable every locale), or one repeated"""
    if mode == "none":
        return []
    if mode == "repeat":
        return list(proj["locales"]) + [proj["locales"][0]] + [proj["locales"][-1]]
    return list(proj["locales"])


def module_configs(root, proj, base):
    """the same projects built programmatically with path entries that carry
    `module` (what legacy l10n.ini projects produce): ProjectConfig.add_paths"""
    from compare_locales.paths import ProjectConfig
    configs = []
    for cfg in proj["configs"]:
        # (configs are told apart by their path)
        pc = ProjectConfig(os.path.join(root, "programmatic-%s.toml" % cfg["top"]))
        pc.set_root(".")
        pc.add_environment(l10n_base=base)
        pc.set_locales(list(proj["locales"]))
        pc.add_paths({"reference": "en/%s/**" % cfg["top"],
                      "l10n": "{l10n_base}/{locale}/%s/**" % cfg["top"],
                      "module": cfg["top"]})
        for flt in cfg["filters"]:
            rule = {"path": "{l10n_base}/{locale}/%s" % flt["rel"], "action": flt["action"]}
            if flt["key"]:
                rule["key"] = flt["key"]
            pc.add_rules(rule)
        configs.append(pc)
    return configs


def write_ini_variant(root, proj):
    """the first config of the project as a legacy l10n.ini application (path
    entries with a module, reference under <module>/locales/en-US, no filters);
    the localized files are the ones already written"""
    cfg = dict(proj["configs"][0], filters=[])
    top = cfg["top"]
    loc_dir = os.path.join(root, "ini", "src", top, "locales")
    shutil.rmtree(os.path.join(root, "ini"), ignore_errors=True)
    shutil.copytree(os.path.join(root, "en", top), os.path.join(loc_dir, "en-US"))
    with open(os.path.join(loc_dir, "all-locales"), "w") as f:
        f.write("".join(l + "\n" for l in proj["locales"]))
    ini = os.path.join(loc_dir, "l10n.ini")
    with open(ini, "w") as f:
        f.write("[general]\ndepth = ../..\nall = %s/locales/all-locales\n\n[compare]\ndirs = %s\n" % (top, top))
    return ini, dict(proj, configs=[cfg])


def cli_direct(tomls, root, proj, quiet, merge, locales, module=False):
    """compareProjects called directly on the parsed (or programmatically built)
    configs -> (ObserverList | failure text, JSON, text output)"""
    from compare_locales.compare import compareProjects
    from compare_locales.paths import TOMLParser
    from compare_locales import mozpath
    stage = os.path.join(root, "stage")
    shutil.rmtree(stage, ignore_errors=True)
    base = mozpath.abspath(os.path.join(root, "l10n"))
    try:
        if module:
            configs = module_configs(root, proj, base)
        else:
            configs = [TOMLParser().parse(p, env={"l10n_base": base}) for p in tomls]
        with contextlib.redirect_stdout(io.StringIO()):
            ol = compareProjects(configs, locales, base, quiet=quiet, merge_stage=stage if merge else None)
        data = json.loads(json.dumps([o.toJSON() for o in ol], sort_keys=True))
        details = ol.serializeDetails()
        text = (details + "\n" if details else "") + cli_between(details, tomls) + ol.serializeSummaries() + "\n"
    except Exception as e:  # noqa: a failing input, not a harness error
        return "%s(%s)" % (type(e).__name__, e), [], ""
    finally:
        shutil.rmtree(stage, ignore_errors=True)
    return ol, data, text


def cli_between(details, tomls):
    """what CompareLocales.handle prints between details and summaries"""
    if len(tomls) <= 1:
        return ""
    return ("\n" if details else "") + "Summaries for\n" + "".join("  " + p + "\n" for p in tomls) + \
        "    and the union of these, counting each string once\n"


def expected_summary_text(exp):
    """serializeSummaries with the counts known by construction: per locale one
    column per project, plus the union when there are several"""
    keys = ("errors", "warnings", "missing", "missing_w", "obsolete", "changed", "changed_w",
            "unchanged", "unchanged_w", "keys")
    locales = sorted({loc for s, _ in exp for loc in s})
    out = []
    for loc in locales:
        cols = [s.get(loc, {}) for s, _ in exp]
        if len(exp) > 1:
            cols.append({k: sum(s.get(loc, {}).get(k, 0) for s, _ in exp) for k in SUMMARY_KEYS})
        out.append(loc + ":")
        for k in keys:
            cells = "".join(" %6s" % (c.get(k) or "") for c in cols)
            if cells.strip():
                out.append("%-12s" % k + cells)
        last = cols[-1]
        total = sum(last.get(k, 0) for k in ("changed", "unchanged", "report", "missing"))
        out.append("%d%% of entries changed" % (last.get("changed", 0) * 100 // total if total else 0))
    return "\n".join(out)


def render_item(item):
    """the text line of a detail (messages by kind only)"""
    if item in ("error", "warning"):
        return item.upper()
    ((cat, payload),) = item.items()
    if cat == "missingFile":
        return "// add and localize this file"
    if cat == "obsoleteFile":
        return "// remove this file"
    text = payload if isinstance(payload, str) else " / ".join(x for x in payload if x is not None)
    return ("+" if cat == "missingEntity" else "-") + text


def parse_details_text(text):
    """the indented tree -> {file path: [item lines]}; an item sits two levels
    below the key it belongs to, a child key one level"""
    out, stack = {}, []
    lines = []
    for line in text.split("\n"):
        if line.startswith('" from line') and lines:      # junk message spanning a newline
            lines[-1] += "\\n" + line
        else:
            lines.append(line)
    for line in lines:
        n = 0
        while line.startswith("  "):
            n, line = n + 1, line[2:]
        if stack and n == stack[-1][0] + 2:
            for mark in ("ERROR", "WARNING"):
                if line.startswith(mark + ": "):
                    line = mark
            out.setdefault("/".join(k for _, k in stack), []).append(line)
        else:
            while stack and stack[-1][0] >= n:
                stack.pop()
            stack.append((n, line))
    return out


def cli_text_oracle(chk, proj, quiet, mode, text, tomls):
    """the TEXT output: every displayed event once under its file with its key
    text, then the summary rows with the by-construction counts and percentages"""
    exp = expected_cli(proj, quiet)
    pub = {"project": proj, "quiet": quiet, "merge": False, "locales": mode}
    summ = expected_summary_text(exp) + "\n"
    has_details = any(d for _, d in exp)
    tail = cli_between("x" if has_details else "", tomls) + summ
    if not text.endswith(tail):
        _fail(chk, "text-summary", pub, {"printed": text[-1500:], "expected_tail": tail})
        return
    head = text[:len(text) - len(tail)]
    want = {}
    for _, details in exp:
        for path, items in details.items():
            want.setdefault(path, []).extend(render_item(it) for it in items)
    got = parse_details_text(head[:-1]) if head else {}
    if {k: sorted(v) for k, v in got.items()} != {k: sorted(v) for k, v in want.items()}:
        _fail(chk, "text-details", pub, {"printed": head[-1500:], "parsed": got, "expected": want})



def cli_run(commands, real_compare, tomls, root, proj, quiet, merge, locales=None):
    """one CompareLocales().handle(...) run -> (exit status, JSON output, Recorder)"""
    locales = list(proj["locales"]) if locales is None else locales
    out_json = os.path.join(root, "out.json")
    stage = os.path.join(root, "stage")
    shutil.rmtree(stage, ignore_errors=True)
    rec = Recorder()
    buf = io.StringIO()
    with recording(rec), contextlib.redirect_stdout(buf):
        def wrapped(*a, **kw):
            rec.list = real_compare(*a, **kw)
            return rec.list
        commands.compareProjects = wrapped
        try:
            rv = commands.CompareLocales().handle(
                config_paths=tomls, l10n_base_dir=os.path.join(root, "l10n"),
                locales=list(locales), quiet=quiet, json=out_json,
                merge=stage if merge else None,
                return_zero=proj["return_zero"])
        except SystemExit as e:        # parser.exit(2) after "FAIL: <OSError>"
            rv = "SystemExit(%s)" % e.code
        except Exception as e:  # noqa: the command must not die on a generated project
            rv = "%s(%s)" % (type(e).__name__, e)
        finally:
            commands.compareProjects = real_compare
    data = json.load(open(out_json)) if os.path.exists(out_json) and not isinstance(rv, str) else []
    rec.staged = sum(len(fs) for _, _, fs in os.walk(stage))
    rec.text = buf.getvalue()
    rec.tomls = list(tomls)
    shutil.rmtree(stage, ignore_errors=True)
    if os.path.exists(out_json):
        os.remove(out_json)
    return rv, data, rec


def cli_norm(items):
    """error / warning messages are compared by kind only"""
    return sorted(json.dumps(x if isinstance(x, dict) and next(iter(x)) not in ("error", "warning")
                             else (next(iter(x)) if isinstance(x, dict) else x)) for x in items)


def cli_oracle(chk, proj, quiet, merge, rv, data, ol, mode="plain"):
    """the run against the per-file expectations known by construction: whatever
    way the locales are named, every locale is compared once"""
    exp = expected_cli(proj, quiet)
    pub = {"project": proj, "quiet": quiet, "merge": merge, "locales": mode}
    errors = sum(c["errors"] for s, _ in exp for c in s.values())
    want_rv = 1 if errors > 0 and not proj["return_zero"] else 0
    chk.hist("cli_exit", want_rv)
    if rv is not None and rv != want_rv:
        _fail(chk, "exit-status", pub, {"returned": rv, "errors_counted": errors,
                                        "return_zero": proj["return_zero"]})
    if len(data) != len(exp):
        _fail(chk, "cli-json-shape", pub, {"observers": len(data)})
    for (summ, details), got in zip(exp, data):
        if got["summary"] != summ:
            _fail(chk, "cli-summary", pub, {"summary": got["summary"], "expected": summ})
        flat = {"/".join(p): v for p, v in flat_json(got["details"]).items()} \
            if got["details"] != {} else {}
        if {k: cli_norm(v) for k, v in flat.items()} != {k: cli_norm(v) for k, v in details.items()}:
            _fail(chk, "cli-detail-misplaced", pub, {"details": flat, "expected": details})
    # the union: the list's own observer drives the text output and the exit status
    own_errors = sum(c["errors"] for c in ol.summary.values())
    if own_errors != errors or bool(ol.error) != (errors > 0):
        _fail(chk, "cli-union-errors", pub, {"own_errors": own_errors, "error": ol.error,
                                             "expected": errors})
    for loc in proj["locales"]:
        for k in SUMMARY_KEYS:
            tot = sum(s.get(loc, {}).get(k, 0) for s, _ in exp)
            if ol.summary.get(loc, {}).get(k, 0) != tot:
                _fail(chk, "cli-union-summary", pub, {"locale": loc, "key": k,
                                                      "own": ol.summary.get(loc, {}).get(k, 0),
                                                      "expected": tot})


def cli_compare_merge(chk, proj, quiet, runs):
    """merging does not change what is counted or shown"""
    (rv0, d0, e0, s0), (rv1, d1, e1, s1) = runs[False], runs[True]
    pub = {"project": proj, "quiet": quiet}
    if rv0 != rv1 or e0 != e1 or s0 != s1 or \
            [o["summary"] for o in d0] != [o["summary"] for o in d1]:
        _fail(chk, "merge-changes-count", pub,
              {"plain": {"exit": rv0, "error": e0, "own": s0, "summaries": [o["summary"] for o in d0]},
               "merge": {"exit": rv1, "error": e1, "own": s1, "summaries": [o["summary"] for o in d1]}})
    if [o["details"] for o in d0] != [o["details"] for o in d1]:
        _fail(chk, "merge-changes-details", pub,
              {"plain": [o["details"] for o in d0], "merge": [o["details"] for o in d1]})


def cli_replay_ini(chk, proj_ini, quiet, mode):
    from compare_locales import commands
    real_compare = commands.compareProjects
    root = tempfile.mkdtemp(prefix="c10_cli_")
    before = len(chk.failures)
    try:
        write_project(root, proj_ini)
        ini, _ = write_ini_variant(root, proj_ini)
        rv, data, rec = cli_run(commands, real_compare, [ini], root, proj_ini, quiet, False,
                                cli_locales(proj_ini, mode))
        if rec.list is None or isinstance(rv, str):
            _fail(chk, "cli-run-aborted", {"project": proj_ini, "quiet": quiet}, {"returned": rv})
        else:
            cli_oracle(chk, proj_ini, quiet, False, rv, data, rec.list, mode + "/l10n.ini")
            cli_text_oracle(chk, proj_ini, quiet, mode + "/l10n.ini", rec.text, [ini])
    finally:
        commands.compareProjects = real_compare
        shutil.rmtree(root, ignore_errors=True)
    return int(len(chk.failures) > before)


def cli_replay_project(chk, proj, quiet, mode="plain"):
    """re-run one generated project (plain and merge) against the oracle"""
    variant = mode.split("/")[1] if "/" in mode else ""
    mode = mode.split("/")[0]
    if variant == "l10n.ini":
        return cli_replay_ini(chk, proj, quiet, mode)
    from compare_locales import commands
    real_compare = commands.compareProjects
    root = tempfile.mkdtemp(prefix="c10_cli_")
    before = len(chk.failures)
    try:
        tomls = write_project(root, proj)
        runs = {}
        locales = cli_locales(proj, mode)
        for module in (False, True):
            how = mode + ("/compareProjects+module" if module else "/compareProjects")
            dol, dd, dtext = cli_direct(tomls, root, proj, quiet, False, locales, module)
            if isinstance(dol, str):
                _fail(chk, "cli-run-aborted", {"project": proj, "quiet": quiet, "merge": False, "locales": how},
                      {"raised": dol})
                continue
            cli_oracle(chk, proj, quiet, False, None, dd, dol, how)
            cli_text_oracle(chk, proj, quiet, how, dtext, tomls)
        for merge in (False, True):
            rv, data, rec = cli_run(commands, real_compare, tomls, root, proj, quiet, merge, locales)
            ol = rec.list
            if ol is None or isinstance(rv, str):
                _fail(chk, "cli-run-aborted", {"project": proj, "quiet": quiet, "merge": merge}, {"returned": rv})
                return 1
            runs[merge] = (rv, data, bool(ol.error), {l: dict(c) for l, c in ol.summary.items()})
            cli_oracle(chk, proj, quiet, merge, rv, data, ol, mode)
            if not merge:
                cli_text_oracle(chk, proj, quiet, mode, rec.text, tomls)
        cli_compare_merge(chk, proj, quiet, runs)
    finally:
        commands.compareProjects = real_compare
        shutil.rmtree(root, ignore_errors=True)
    return int(len(chk.failures) > before)


def run_cli(chk, model):
    """every generated project is run without and with a merge stage at three
    quiet levels; merging must not change what is counted or shown"""
    from compare_locales import commands
    rng = chk.rng
    n = chk.n(40, 400)
    base = tempfile.mkdtemp(prefix="c10_cli_")
    cases, impl, wires = [], [], []
    real_compare = commands.compareProjects
    try:
        for i in range(n):
            proj = gen_project(rng)
            root = os.path.join(base, "p%d" % i)
            os.makedirs(root)
            tomls = write_project(root, proj)
            multi = sum(lost_attrs(how) >= 2 for cfg in proj["configs"] for fd in cfg["files"].values()
                        for st in fd["l10n"].values() if st for how in st["ent"].values())
            chk.hist("cli_entities_with_2+_errors", min(multi, 3))
            quiets = [proj["quiet"]] + rng.sample([q for q in range(5) if q != proj["quiet"]], 2)
            modes = rng.sample(["plain", "none", "repeat"], 3)
            # the first config as a legacy l10n.ini application, through handle
            ini, proj_ini = write_ini_variant(root, proj)
            for mode in ("plain", "none"):
                rv, data, rec = cli_run(commands, real_compare, [ini], root, proj_ini, quiets[0], False,
                                        cli_locales(proj_ini, mode))
                chk.count(("cli-ini", json.dumps(proj_ini, sort_keys=True), quiets[0], mode))
                chk.hist("cli_direct", "l10n.ini")
                if rec.list is None or isinstance(rv, str):
                    _fail(chk, "cli-run-aborted", {"project": proj_ini, "quiet": quiets[0], "merge": False,
                                                   "locales": mode + "/l10n.ini"}, {"returned": rv})
                    continue
                cli_oracle(chk, proj_ini, quiets[0], False, rv, data, rec.list, mode + "/l10n.ini")
                cli_text_oracle(chk, proj_ini, quiets[0], mode + "/l10n.ini", rec.text, [ini])
            for quiet, mode in zip(quiets, modes):
                runs = {}
                locales = cli_locales(proj, mode)
                chk.hist("cli_locale_args", mode + ("/2 configs" if len(tomls) > 1 else ""))
                # compareProjects called directly: the same expectations, the same JSON as handle
                ddata = None
                for module in (False, True):
                    how = mode + ("/compareProjects+module" if module else "/compareProjects")
                    dol, dd, dtext = cli_direct(tomls, root, proj, quiet, False, locales, module)
                    chk.count(("cli-direct", json.dumps(proj, sort_keys=True), quiet, mode, module))
                    chk.hist("cli_direct", "module" if module else "toml")
                    if isinstance(dol, str):
                        _fail(chk, "cli-run-aborted",
                              {"project": proj, "quiet": quiet, "merge": False, "locales": how}, {"raised": dol})
                        continue
                    cli_oracle(chk, proj, quiet, False, None, dd, dol, how)
                    cli_text_oracle(chk, proj, quiet, how, dtext, tomls)
                    if not module:
                        ddata = dd
                for merge in (False, True):
                    rv, data, rec = cli_run(commands, real_compare, tomls, root, proj, quiet, merge, locales)
                    ol = rec.list
                    if not merge and not isinstance(rv, str) and ddata is not None and data != ddata:
                        _fail(chk, "cli-direct-differs",
                              {"project": proj, "quiet": quiet, "merge": False, "locales": mode},
                              {"handle": data, "compareProjects": ddata})
                    if ol is None or isinstance(rv, str):
                        _fail(chk, "cli-run-aborted",
                              {"project": proj, "quiet": quiet, "merge": merge, "locales": mode},
                              {"returned": rv})
                        runs = None
                        break
                    if merge:
                        chk.hist("cli_staged_files", min(rec.staged, 5))
                    runs[merge] = (rv, data, bool(ol.error), {l: dict(c) for l, c in ol.summary.items()})
                    chk.count(("cli", json.dumps(proj, sort_keys=True), quiet, merge, mode))
                    chk.hist("cli_quiet", quiet)
                    chk.hist("cli_merge", merge)
                    cli_oracle(chk, proj, quiet, merge, rv, data, ol, mode)
                    if not merge:
                        cli_text_oracle(chk, proj, quiet, mode, rec.text, tomls)
                    # ---- model on the recorded stream ----------------------
                    case, strs, wire = cli_model_case(rec, quiet)
                    cases.append({"project": proj, "quiet": quiet, "merge": merge, "locales": mode})
                    wires.append(wire)
                    impl.append([cli_canon_observer(case, strs, ol),
                                 [cli_canon_observer(case, strs, o) for o in ol.observers],
                                 [rv, 0] if not proj["return_zero"] else [int(bool(ol.error)), rv]])
                    if i == 0 and quiet == proj["quiet"] and merge:
                        chk.sample({"suite": "CLI", "project": proj, "merge": True, "exit": rv,
                                    "json": data, "events": len(rec.events)})
                if runs is not None:
                    cli_compare_merge(chk, proj, quiet, runs)
            shutil.rmtree(root, ignore_errors=True)
    finally:
        commands.compareProjects = real_compare
        shutil.rmtree(base, ignore_errors=True)
    if model:
        outs = model.call([(1, w) for w in wires])
        chk.correspond("CLI", cases, impl, [[o[1], o[2], o[4]] for o in outs])


# --------------------------------------------------------------- entry ----
def run(chk, runner_ok):
    model = Model("C10") if runner_ok else None
    cdir = os.path.join(common.VERIF, "corpus", "C10")
    if os.path.isdir(cdir):
        for fn in sorted(os.listdir(cdir)):
            replay_case(chk, json.load(open(os.path.join(cdir, fn))), model)
    run_tree(chk, model)
    run_observer(chk, model)
    run_cli(chk, model)
    chk.trusted.append("harness-side rendering of segment/data ids to strings and back "
                       "(parse of serializeDetails text)")
    chk.notes.append("state after an exception is compared too: the harness catches and continues")


def replay_case(chk, case, model):
    rc = 0
    if "ops" in case:
        out = tree_impl(case)
        before = len(chk.failures)
        tree_oracle(chk, case, out)
        rc |= len(chk.failures) > before
        if model:
            m = model.call([(0, case["ops"])])[0]
            if m[0] == 0:
                m[1][2] = sorted(m[1][2])
            rc |= chk.correspond("TREE-replay", [case], [out], [m], describe=case_public) > 0
    elif "events" in case:
        ol, outs = observer_impl(case)
        before = len(chk.failures)
        if case.get("strict") and case.get("prefix_free") and case["confs"] \
                and all(cf[0] == case["quiet"] for cf in case["confs"]):
            observer_oracle(chk, case, ol, outs)
        rc |= len(chk.failures) > before
        if model:
            m = model.call([(1, observer_wire(case))])[0][:5]
            rc |= chk.correspond("OBSERVER-replay", [case], [observer_canon(case, ol, outs)], [m],
                                 describe=case_public) > 0
    return rc


def replay(chk, path):
    data = json.load(open(path))
    model = Model("C10") if os.path.exists(os.path.join(common.BIN, "model_C10")) else None
    rc = 0
    for f in data.get("failures", []):
        print("failure", f["signature"])
        c = f["case"]
        if "project" in c:
            rc |= cli_replay_project(chk, c["project"], c.get("quiet", c["project"]["quiet"]),
                                     c.get("locales", "plain"))
        else:
            rc |= replay_case(chk, c, model)
    for d in data.get("disagreements", []):
        c = d["case"]
        if isinstance(c, dict) and ("ops" in c or "events" in c):
            rc |= replay_case(chk, c, model)
        else:
            print("disagreement", d["suite"])
            rc = 1
    for f in chk.failures:
        print("still failing:", f["signature"], json.dumps(f["detail"], default=str)[:400])
    for d in chk.disagreements:
        print("still disagreeing:", d["suite"], "impl", d["impl"], "model", d["model"])
    return int(bool(rc))
